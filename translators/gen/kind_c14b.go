package main

// Translator kinds used by part C14B (the struct level of name.Table and the
// enumeration of Info.Encode).
//
//	c14b_strfields   the fields of type string of a struct type, in declaration
//	                 order (name.Table)             -> list (list N)  (field names as bytes)
//	c14b_mapfield    the single field of map type of a struct type
//	                                                  -> list N         (its name as bytes)
//	c14b_switch      a method whose body is one `switch nameID { case <int>: ...
//	                 default: ... }`; arg "get": every case is `return t.<F>`,
//	                 arg "set": every case is `t.<F> = val`; the default clause
//	                 must mention t.<map field>
//	                                                  -> list (N * N)   (name id, index of <F>
//	                                                     among the string fields), in source order
//	c14b_loop_last   in a function, the single `for x := T(0); x <= B; x++` /
//	                 `x < B` loop: the last value of x -> N
//	c14b_extra_min   in a function, the single comparison `<arg> > B` or
//	                 `<arg> >= B` inside a range statement: the least value
//	                 that passes                      -> N
//
//	c14b_mapsearch   in a function, the `for key, val := range <arg> { if ... }` loop
//	                 that searches a package-level map for a value: true when the
//	                 loop keeps the SMALLEST matching key (`if val == x && (acc == ""
//	                 || string(key) < acc) { acc = string(key) }`, no break), false
//	                 when it stops at the first match (`if val == x { acc = ...;
//	                 break }`), lost otherwise            -> bool
//
// Whatever does not have exactly this shape is reported as lost (the
// correspondence run still binds the function).

import (
	"fmt"
	"go/ast"
	"go/token"
	"strings"
)

func c14bStruct(p *pkgInfo, name string) (*ast.StructType, error) {
	for _, f := range p.files {
		for _, d := range f.Decls {
			gd, ok := d.(*ast.GenDecl)
			if !ok || gd.Tok != token.TYPE {
				continue
			}
			for _, s := range gd.Specs {
				ts := s.(*ast.TypeSpec)
				if ts.Name.Name != name {
					continue
				}
				st, ok := ts.Type.(*ast.StructType)
				if !ok {
					return nil, fmt.Errorf("%s is not a struct type", name)
				}
				return st, nil
			}
		}
	}
	return nil, fmt.Errorf("type %s not found", name)
}

// c14bFields returns the string-typed field names in order and the map-typed
// field names.
func c14bFields(p *pkgInfo, name string) (strs []string, maps []string, err error) {
	st, err := c14bStruct(p, name)
	if err != nil {
		return nil, nil, err
	}
	for _, f := range st.Fields.List {
		if len(f.Names) == 0 {
			return nil, nil, fmt.Errorf("embedded field in %s", name)
		}
		for _, n := range f.Names {
			switch t := f.Type.(type) {
			case *ast.Ident:
				if t.Name == "string" {
					strs = append(strs, n.Name)
					continue
				}
				return nil, nil, fmt.Errorf("field %s of unexpected type %s", n.Name, t.Name)
			case *ast.MapType:
				maps = append(maps, n.Name)
			default:
				return nil, nil, fmt.Errorf("field %s of unexpected type", n.Name)
			}
		}
	}
	return strs, maps, nil
}

// c14bMethod finds the method name of receiver type recv (pointer or value).
func c14bMethod(p *pkgInfo, recv, name string) *ast.FuncDecl {
	for _, f := range p.files {
		for _, d := range f.Decls {
			fd, ok := d.(*ast.FuncDecl)
			if !ok || fd.Name.Name != name || fd.Recv == nil || len(fd.Recv.List) != 1 {
				continue
			}
			t := fd.Recv.List[0].Type
			if s, ok := t.(*ast.StarExpr); ok {
				t = s.X
			}
			if id, ok := t.(*ast.Ident); ok && id.Name == recv {
				return fd
			}
		}
	}
	return nil
}

// arg syntax for the method kinds: "<Type>" or "<Type>:<mode>"
func c14bArg(arg string) (typ, mode string) {
	if i := strings.Index(arg, ":"); i >= 0 {
		return arg[:i], arg[i+1:]
	}
	return arg, ""
}

func c14bSelField(e ast.Expr) (string, bool) {
	se, ok := e.(*ast.SelectorExpr)
	if !ok {
		return "", false
	}
	if _, ok := se.X.(*ast.Ident); !ok {
		return "", false
	}
	return se.Sel.Name, true
}

func init() {
	kinds["c14b_strfields"] = func(root string, p *pkgInfo, it item) (string, error) {
		strs, _, err := c14bFields(p, it.Name)
		if err != nil {
			return "", err
		}
		parts := make([]string, len(strs))
		for i, s := range strs {
			parts[i] = c14Bytes(s)
		}
		return fmt.Sprintf("Definition %s : list (list N) := [%s]%%N.\n", it.Coq, strings.Join(parts, ";\n  ")), nil
	}

	kinds["c14b_mapfield"] = func(root string, p *pkgInfo, it item) (string, error) {
		_, maps, err := c14bFields(p, it.Name)
		if err != nil {
			return "", err
		}
		if len(maps) != 1 {
			return "", fmt.Errorf("expected exactly one map field, found %d", len(maps))
		}
		return fmt.Sprintf("Definition %s : list N := %s%%N.\n", it.Coq, c14Bytes(maps[0])), nil
	}

	kinds["c14b_switch"] = func(root string, p *pkgInfo, it item) (string, error) {
		typ, mode := c14bArg(it.Arg)
		strs, maps, err := c14bFields(p, typ)
		if err != nil {
			return "", err
		}
		if len(maps) != 1 {
			return "", fmt.Errorf("expected exactly one map field")
		}
		index := map[string]int{}
		for i, s := range strs {
			index[s] = i
		}
		fd := c14bMethod(p, typ, it.Name)
		if fd == nil || fd.Body == nil {
			return "", fmt.Errorf("method not found")
		}
		if len(fd.Body.List) != 1 {
			return "", fmt.Errorf("body is not a single statement")
		}
		sw, ok := fd.Body.List[0].(*ast.SwitchStmt)
		if !ok || sw.Init != nil || sw.Tag == nil {
			return "", fmt.Errorf("body is not an expression switch")
		}
		if len(fd.Type.Params.List) < 1 || len(fd.Type.Params.List[0].Names) != 1 {
			return "", fmt.Errorf("unexpected parameters")
		}
		idArg := fd.Type.Params.List[0].Names[0].Name
		if p.exprText(sw.Tag) != idArg {
			return "", fmt.Errorf("switch tag is %s, not the first parameter", p.exprText(sw.Tag))
		}
		var parts []string
		seen := map[int64]bool{}
		haveDefault := false
		for _, s := range sw.Body.List {
			cc := s.(*ast.CaseClause)
			if cc.List == nil {
				// default: must go through the map field
				txt := ""
				for _, b := range cc.Body {
					var sb strings.Builder
					ast.Inspect(b, func(n ast.Node) bool {
						if se, ok := n.(*ast.SelectorExpr); ok {
							sb.WriteString(se.Sel.Name + " ")
						}
						return true
					})
					txt += sb.String()
				}
				if !strings.Contains(txt, maps[0]) {
					return "", fmt.Errorf("default clause does not use %s", maps[0])
				}
				haveDefault = true
				continue
			}
			if len(cc.List) != 1 || len(cc.Body) != 1 {
				return "", fmt.Errorf("case clause with several labels or statements")
			}
			id, err := p.evalInt(cc.List[0], 0)
			if err != nil {
				return "", err
			}
			if seen[id] || id < 0 {
				return "", fmt.Errorf("duplicate case %d", id)
			}
			seen[id] = true
			var field string
			switch mode {
			case "get":
				rs, ok := cc.Body[0].(*ast.ReturnStmt)
				if !ok || len(rs.Results) != 1 {
					return "", fmt.Errorf("case %d: not a return statement", id)
				}
				field, ok = c14bSelField(rs.Results[0])
				if !ok {
					return "", fmt.Errorf("case %d: not a field", id)
				}
			case "set":
				as, ok := cc.Body[0].(*ast.AssignStmt)
				if !ok || as.Tok != token.ASSIGN || len(as.Lhs) != 1 || len(as.Rhs) != 1 {
					return "", fmt.Errorf("case %d: not an assignment", id)
				}
				field, ok = c14bSelField(as.Lhs[0])
				if !ok {
					return "", fmt.Errorf("case %d: not a field", id)
				}
				if len(fd.Type.Params.List) != 2 || len(fd.Type.Params.List[1].Names) != 1 ||
					p.exprText(as.Rhs[0]) != fd.Type.Params.List[1].Names[0].Name {
					return "", fmt.Errorf("case %d: assigned value is not the second parameter", id)
				}
			default:
				return "", fmt.Errorf("bad mode %q", mode)
			}
			fi, ok := index[field]
			if !ok {
				return "", fmt.Errorf("case %d: %s is not a string field of %s", id, field, typ)
			}
			parts = append(parts, fmt.Sprintf("(%d,%d)", id, fi))
		}
		if !haveDefault {
			return "", fmt.Errorf("no default clause")
		}
		return fmt.Sprintf("Definition %s : list (N * N) := [%s]%%N.\n", it.Coq, strings.Join(parts, ";")), nil
	}

	kinds["c14b_loop_last"] = func(root string, p *pkgInfo, it item) (string, error) {
		typ, _ := c14bArg(it.Arg)
		fd := c14bMethod(p, typ, it.Name)
		if fd == nil {
			return "", fmt.Errorf("method not found")
		}
		var found []int64
		var ferr error
		ast.Inspect(fd, func(n ast.Node) bool {
			fs, ok := n.(*ast.ForStmt)
			if !ok {
				return true
			}
			as, ok := fs.Init.(*ast.AssignStmt)
			if !ok || len(as.Lhs) != 1 || len(as.Rhs) != 1 {
				ferr = fmt.Errorf("unexpected loop initialiser")
				return true
			}
			v := p.exprText(as.Lhs[0])
			if start, err := p.evalInt(as.Rhs[0], 0); err != nil || start != 0 {
				ferr = fmt.Errorf("loop does not start at 0")
				return true
			}
			inc, ok := fs.Post.(*ast.IncDecStmt)
			if !ok || inc.Tok != token.INC || p.exprText(inc.X) != v {
				ferr = fmt.Errorf("loop step is not %s++", v)
				return true
			}
			be, ok := fs.Cond.(*ast.BinaryExpr)
			if !ok || p.exprText(be.X) != v {
				ferr = fmt.Errorf("unexpected loop condition")
				return true
			}
			b, err := p.evalInt(be.Y, 0)
			if err != nil {
				ferr = err
				return true
			}
			switch be.Op {
			case token.LEQ:
				found = append(found, b)
			case token.LSS:
				found = append(found, b-1)
			default:
				ferr = fmt.Errorf("unexpected loop condition operator %s", be.Op)
			}
			return true
		})
		if ferr != nil {
			return "", ferr
		}
		if len(found) != 1 || found[0] < 0 {
			return "", fmt.Errorf("expected exactly one counting loop, found %d", len(found))
		}
		return fmt.Sprintf("Definition %s : N := %d%%N.\n", it.Coq, found[0]), nil
	}

	kinds["c14b_extra_min"] = func(root string, p *pkgInfo, it item) (string, error) {
		typ, _ := c14bArg(it.Arg)
		fd := c14bMethod(p, typ, it.Name)
		if fd == nil {
			return "", fmt.Errorf("method not found")
		}
		var found []int64
		ast.Inspect(fd, func(n ast.Node) bool {
			rs, ok := n.(*ast.RangeStmt)
			if !ok || rs.Key == nil {
				return true
			}
			key := p.exprText(rs.Key)
			ast.Inspect(rs.Body, func(m ast.Node) bool {
				be, ok := m.(*ast.BinaryExpr)
				if !ok || p.exprText(be.X) != key {
					return true
				}
				b, err := p.evalInt(be.Y, 0)
				if err != nil {
					return true
				}
				switch be.Op {
				case token.GTR:
					found = append(found, b+1)
				case token.GEQ:
					found = append(found, b)
				}
				return true
			})
			return true
		})
		if len(found) != 1 {
			return "", fmt.Errorf("expected exactly one lower bound on the range key, found %d", len(found))
		}
		return fmt.Sprintf("Definition %s : N := %d%%N.\n", it.Coq, found[0]), nil
	}

	kinds["c14b_mapsearch"] = func(root string, p *pkgInfo, it item) (string, error) {
		fd := p.findFunc(it.Name)
		if fd == nil {
			return "", fmt.Errorf("function not found")
		}
		var loops []*ast.RangeStmt
		ast.Inspect(fd, func(n ast.Node) bool {
			if rs, ok := n.(*ast.RangeStmt); ok && p.exprText(rs.X) == it.Arg {
				loops = append(loops, rs)
			}
			return true
		})
		if len(loops) != 1 {
			return "", fmt.Errorf("expected exactly one loop over %s, found %d", it.Arg, len(loops))
		}
		rs := loops[0]
		if rs.Key == nil || rs.Value == nil || len(rs.Body.List) != 1 {
			return "", fmt.Errorf("unexpected loop shape")
		}
		key, val := p.exprText(rs.Key), p.exprText(rs.Value)
		ifs, ok := rs.Body.List[0].(*ast.IfStmt)
		if !ok || ifs.Init != nil || ifs.Else != nil {
			return "", fmt.Errorf("loop body is not a plain if")
		}
		hasBreak := false
		var acc string
		for _, st := range ifs.Body.List {
			switch x := st.(type) {
			case *ast.BranchStmt:
				if x.Tok != token.BREAK || x.Label != nil {
					return "", fmt.Errorf("unexpected branch statement")
				}
				hasBreak = true
			case *ast.AssignStmt:
				if x.Tok != token.ASSIGN || len(x.Lhs) != 1 || len(x.Rhs) != 1 || acc != "" ||
					p.exprText(x.Rhs[0]) != "string("+key+")" {
					return "", fmt.Errorf("unexpected assignment in the loop")
				}
				acc = p.exprText(x.Lhs[0])
			default:
				return "", fmt.Errorf("unexpected statement in the loop")
			}
		}
		if acc == "" {
			return "", fmt.Errorf("the loop assigns nothing")
		}
		cond := strings.Join(strings.Fields(p.exprText(ifs.Cond)), " ")
		prefix := val + " == "
		if !strings.HasPrefix(cond, prefix) {
			return "", fmt.Errorf("unexpected condition %s", cond)
		}
		rest := cond[len(prefix):]
		switch {
		case hasBreak && !strings.ContainsAny(rest, " &|("):
			return fmt.Sprintf("Definition %s : bool := false.\n", it.Coq), nil
		case !hasBreak && strings.HasSuffix(rest, fmt.Sprintf(" && (%s == \"\" || string(%s) < %s)", acc, key, acc)) &&
			!strings.ContainsAny(strings.TrimSuffix(rest, fmt.Sprintf(" && (%s == \"\" || string(%s) < %s)", acc, key, acc)), " &|("):
			return fmt.Sprintf("Definition %s : bool := true.\n", it.Coq), nil
		}
		return "", fmt.Errorf("neither first-match nor smallest-key search: if %s (break: %v)", cond, hasBreak)
	}
}
