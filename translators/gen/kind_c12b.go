package main

// Translator kinds used by part C12B (metric queries of a font: Extent,
// GlyphBBoxPDF, width queries).  `op` names the receiver type of a method
// (empty = any function of that name).
//
//	c12b_switch    inside the function `name`, the expression switch whose tag
//	               prints as `lhs` (e.g. cmd.Op): for every non-default clause
//	               the values of its case labels and the constant indices k of
//	               the index expressions `arg`[k] (e.g. cmd.Args[4]) in its body,
//	               in source order                -> list (list N * list N)
//	               plus `<coq>_default`: the text of the default clause
//	                                              -> string
//	c12b_mulchain  inside the function `name`, every assignment (= or :=) to the
//	               variable `lhs`, in source order: the conditions of the
//	               enclosing if / type-switch statements ("!c" for an else
//	               branch) joined by " && ", and the operands of the chain of
//	               .Mul calls on the right-hand side, flattened left to right
//	               (receiver first: A.Mul(B).Mul(C) -> A, B, C)
//	                                              -> list (string * list string)
//	c12b_ifconds   the texts of all if conditions of the function `name`, in
//	               source order                   -> list string
//	c12b_assigns   every assignment statement of the function `name` whose
//	               left-hand side prints as `lhs`, as "<token> <rhs>"
//	                                              -> list string
//	c12b_returns   the texts of all return statements' results of the function
//	               `name` ("" for a bare return)  -> list string
//
// They tie the op-code sets Extent and GlyphBBoxPDF switch over (and which
// arguments carry the point), the ORDER in which GlyphBBoxPDF / GlyphWidthPDF /
// WidthsPDF multiply the Font DICT matrix, the top-level FontMatrix and the
// x1000 scale, and the formulas of the width queries to the text the Coq model
// was written from: a reordering or a changed guard changes Gen/C12B.v and
// breaks C12B/Tie.v (or, for c12b_switch, the model itself, which consumes the
// generated table).

import (
	"fmt"
	"go/ast"
	"go/printer"
	"go/token"
	"strings"
)

func c12bFindFunc(p *pkgInfo, name, recv string) *ast.FuncDecl {
	for _, f := range p.files {
		for _, d := range f.Decls {
			fd, ok := d.(*ast.FuncDecl)
			if !ok || fd.Name.Name != name {
				continue
			}
			if recv == "" {
				return fd
			}
			if fd.Recv != nil && len(fd.Recv.List) == 1 {
				t := p.exprText(fd.Recv.List[0].Type)
				if strings.TrimPrefix(t, "*") == recv {
					return fd
				}
			}
		}
	}
	return nil
}

// c12bWalk visits every statement of a function body together with the
// conditions under which it is reached.
func c12bWalk(p *pkgInfo, s ast.Stmt, ctx []string, visit func(s ast.Stmt, ctx []string)) {
	if s == nil {
		return
	}
	visit(s, ctx)
	with := func(c string) []string { return append(append([]string(nil), ctx...), c) }
	switch x := s.(type) {
	case *ast.BlockStmt:
		for _, t := range x.List {
			c12bWalk(p, t, ctx, visit)
		}
	case *ast.IfStmt:
		c12bWalk(p, x.Init, ctx, visit)
		c := p.exprText(x.Cond)
		c12bWalk(p, x.Body, with(c), visit)
		if x.Else != nil {
			c12bWalk(p, x.Else, with("!("+c+")"), visit)
		}
	case *ast.ForStmt:
		c12bWalk(p, x.Init, ctx, visit)
		c12bWalk(p, x.Post, ctx, visit)
		c12bWalk(p, x.Body, ctx, visit)
	case *ast.RangeStmt:
		c12bWalk(p, x.Body, ctx, visit)
	case *ast.LabeledStmt:
		c12bWalk(p, x.Stmt, ctx, visit)
	case *ast.SwitchStmt:
		c12bWalk(p, x.Init, ctx, visit)
		c12bWalk(p, x.Body, ctx, visit)
	case *ast.TypeSwitchStmt:
		c12bWalk(p, x.Init, ctx, visit)
		c12bWalk(p, x.Body, ctx, visit)
	case *ast.CaseClause:
		var labels []string
		for _, e := range x.List {
			labels = append(labels, p.exprText(e))
		}
		c := "default"
		if len(labels) > 0 {
			c = "case " + strings.Join(labels, ", ")
		}
		for _, t := range x.Body {
			c12bWalk(p, t, with(c), visit)
		}
	}
}

// c12bFlattenMul returns the operands of a chain of .Mul calls, left to right.
func c12bFlattenMul(p *pkgInfo, e ast.Expr) []string {
	if pe, ok := e.(*ast.ParenExpr); ok {
		return c12bFlattenMul(p, pe.X)
	}
	if call, ok := e.(*ast.CallExpr); ok && len(call.Args) == 1 {
		if sel, ok := call.Fun.(*ast.SelectorExpr); ok && sel.Sel.Name == "Mul" {
			return append(c12bFlattenMul(p, sel.X), c12bFlattenMul(p, call.Args[0])...)
		}
	}
	return []string{p.exprText(e)}
}

func c12bStrList(xs []string) string {
	parts := make([]string, len(xs))
	for i, x := range xs {
		parts[i] = coqString(x)
	}
	return "[" + strings.Join(parts, "; ") + "]"
}

func init() {
	kinds["c12b_switch"] = func(root string, p *pkgInfo, it item) (string, error) {
		fd := c12bFindFunc(p, it.Name, it.Op)
		if fd == nil {
			return "", fmt.Errorf("function not found")
		}
		var sw []*ast.SwitchStmt
		ast.Inspect(fd, func(n ast.Node) bool {
			if s, ok := n.(*ast.SwitchStmt); ok && s.Tag != nil && p.exprText(s.Tag) == it.Lhs {
				sw = append(sw, s)
			}
			return true
		})
		if len(sw) != 1 {
			return "", fmt.Errorf("expected exactly one switch over %s, found %d", it.Lhs, len(sw))
		}
		var rows []string
		def := ""
		haveDefault := false
		for _, cs := range sw[0].Body.List {
			cc := cs.(*ast.CaseClause)
			if cc.List == nil {
				haveDefault = true
				var parts []string
				for _, s := range cc.Body {
					parts = append(parts, strings.Join(strings.Fields(nodeText(p, s)), " "))
				}
				def = strings.Join(parts, "; ")
				continue
			}
			var labels []string
			for _, e := range cc.List {
				v, err := p.evalInt(e, 0)
				if err != nil {
					return "", fmt.Errorf("case label %s: %v", p.exprText(e), err)
				}
				labels = append(labels, fmt.Sprintf("%d%%N", v))
			}
			var idx []string
			seen := map[int64]bool{}
			for _, s := range cc.Body {
				ast.Inspect(s, func(n ast.Node) bool {
					ix, ok := n.(*ast.IndexExpr)
					if ok && p.exprText(ix.X) == it.Arg {
						if v, err := p.evalInt(ix.Index, 0); err == nil && !seen[v] {
							seen[v] = true
							idx = append(idx, fmt.Sprintf("%d%%N", v))
						}
					}
					return true
				})
			}
			rows = append(rows, fmt.Sprintf("([%s], [%s])", strings.Join(labels, "; "), strings.Join(idx, "; ")))
		}
		if !haveDefault {
			def = "(no default clause)"
		}
		return fmt.Sprintf("Definition %s : list (list N * list N) := [%s].\nDefinition %s_default : string := %s%%string.\n",
			it.Coq, strings.Join(rows, "; "), it.Coq, coqString(def)), nil
	}

	kinds["c12b_mulchain"] = func(root string, p *pkgInfo, it item) (string, error) {
		fd := c12bFindFunc(p, it.Name, it.Op)
		if fd == nil {
			return "", fmt.Errorf("function not found")
		}
		var rows []string
		c12bWalk(p, fd.Body, nil, func(s ast.Stmt, ctx []string) {
			as, ok := s.(*ast.AssignStmt)
			if !ok || (as.Tok != token.ASSIGN && as.Tok != token.DEFINE) || len(as.Lhs) != 1 || len(as.Rhs) != 1 {
				return
			}
			if p.exprText(as.Lhs[0]) != it.Lhs {
				return
			}
			rows = append(rows, fmt.Sprintf("(%s%%string, %s%%string)", coqString(strings.Join(ctx, " && ")), c12bStrList(c12bFlattenMul(p, as.Rhs[0]))))
		})
		if len(rows) == 0 {
			return "", fmt.Errorf("no assignment to %s in %s", it.Lhs, it.Name)
		}
		return fmt.Sprintf("Definition %s : list (string * list string) := [%s].\n", it.Coq, strings.Join(rows, ";\n  ")), nil
	}

	kinds["c12b_ifconds"] = func(root string, p *pkgInfo, it item) (string, error) {
		fd := c12bFindFunc(p, it.Name, it.Op)
		if fd == nil {
			return "", fmt.Errorf("function not found")
		}
		var conds []string
		ast.Inspect(fd, func(n ast.Node) bool {
			if s, ok := n.(*ast.IfStmt); ok {
				conds = append(conds, p.exprText(s.Cond))
			}
			return true
		})
		return fmt.Sprintf("Definition %s : list string := %s%%string.\n", it.Coq, c12bStrList(conds)), nil
	}

	kinds["c12b_assigns"] = func(root string, p *pkgInfo, it item) (string, error) {
		fd := c12bFindFunc(p, it.Name, it.Op)
		if fd == nil {
			return "", fmt.Errorf("function not found")
		}
		var rows []string
		ast.Inspect(fd, func(n ast.Node) bool {
			as, ok := n.(*ast.AssignStmt)
			if ok && len(as.Lhs) == 1 && len(as.Rhs) == 1 && p.exprText(as.Lhs[0]) == it.Lhs {
				rows = append(rows, as.Tok.String()+" "+p.exprText(as.Rhs[0]))
			}
			return true
		})
		if len(rows) == 0 {
			return "", fmt.Errorf("no assignment to %s in %s", it.Lhs, it.Name)
		}
		return fmt.Sprintf("Definition %s : list string := %s%%string.\n", it.Coq, c12bStrList(rows)), nil
	}

	kinds["c12b_returns"] = func(root string, p *pkgInfo, it item) (string, error) {
		fd := c12bFindFunc(p, it.Name, it.Op)
		if fd == nil {
			return "", fmt.Errorf("function not found")
		}
		var rows []string
		ast.Inspect(fd, func(n ast.Node) bool {
			if _, ok := n.(*ast.FuncLit); ok {
				return false
			}
			rs, ok := n.(*ast.ReturnStmt)
			if ok {
				var parts []string
				for _, e := range rs.Results {
					parts = append(parts, strings.Join(strings.Fields(p.exprText(e)), " "))
				}
				rows = append(rows, strings.Join(parts, ", "))
			}
			return true
		})
		return fmt.Sprintf("Definition %s : list string := %s%%string.\n", it.Coq, c12bStrList(rows)), nil
	}
}

func nodeText(p *pkgInfo, n ast.Node) string {
	var b strings.Builder
	printer.Fprint(&b, p.fset, n)
	return b.String()
}
