package main

// Item kinds added for part C08D (whole GSUB/GPOS tables): the dispatch of the
// subtable readers and of the extension lookup type is regenerated from the
// Go source, so that a changed dispatch changes coq/Gen/C08D.v and breaks the
// proofs that use it.
//
//	readermaps   the package-level map[uint16]func(...) composite literals named
//	             in "arg" (comma separated: gsubReaders,gposReaders): emitted
//	             as an inductive type <coq> with one constructor C08d_<name>
//	             per reader function named in any of the maps, its numbering
//	             <coq>_code, and one association list <coq>_<map> (key,
//	             constructor) per map, sorted by key.  (No Coq strings: the
//	             tables are part of the extracted model.)
//	litlhs       the integer literal c of the single expression `c <op> <lhs>`
//	             inside the function "name" (the 10 of 10*meta.LookupType)
//	switchfunc   the expression switch on "lhs" inside the function "name" whose
//	             cases assign an identifier to the variable "arg": emitted as
//	             two inductive types <coq>_case / <coq>_fn (constructors
//	             C08d_<label> / C08d_<identifier>) and the list <coq> of
//	             (case label, assigned identifier) in source order
//	extswitch    the type switch of (LookupList).encode that determines the
//	             extension lookup type: emitted as an inductive type
//	             <coq>_type (constructors C08d_T_<Go type>), its numbering
//	             <coq>_type_code, and the list <coq> of (type, code)
//	             with code 1 = assigns gsubExtensionLookupType, 2 = assigns
//	             gposExtensionLookupType, 3 = decided by the nested switch on
//	             the lookup type; plus the nested switch as a list
//	             (lookup type, code) under the name <coq>_ctx

import (
	"fmt"
	"go/ast"
	"go/token"
	"sort"
	"strings"
)

func init() {
	kinds["readermaps"] = kindReaderMaps
	kinds["litlhs"] = kindLitLhs
	kinds["switchfunc"] = kindSwitchFunc
	kinds["extswitch"] = kindExtSwitch
}

// coqInductive renders an enumeration type with its numbering function.
func coqInductive(name string, ctors []string) string {
	var b strings.Builder
	fmt.Fprintf(&b, "Inductive %s :=", name)
	for _, c := range ctors {
		fmt.Fprintf(&b, " | %s", c)
	}
	b.WriteString(".\n")
	fmt.Fprintf(&b, "Definition %s_code (x : %s) : N :=\n  match x with", name, name)
	for i, c := range ctors {
		fmt.Fprintf(&b, " | %s => %d%%N", c, i)
	}
	b.WriteString(" end.\n")
	return b.String()
}

type readerKV struct {
	k int64
	v string
}

func (p *pkgInfo) readerMap(name string) ([]readerKV, error) {
	v, gd, _ := p.findValue(name)
	if gd == nil || v == nil {
		return nil, fmt.Errorf("%s not found", name)
	}
	cl, ok := v.(*ast.CompositeLit)
	if !ok {
		return nil, fmt.Errorf("%s is not a composite literal", name)
	}
	mt, ok := cl.Type.(*ast.MapType)
	if !ok || p.exprText(mt.Key) != "uint16" {
		return nil, fmt.Errorf("type of %s is %s, not map[uint16]func(...)", name, p.exprText(cl.Type))
	}
	var kvs []readerKV
	seen := map[int64]bool{}
	for _, e := range cl.Elts {
		pair, ok := e.(*ast.KeyValueExpr)
		if !ok {
			return nil, fmt.Errorf("%s: not a key/value element", name)
		}
		k, err := p.evalInt(pair.Key, 0)
		if err != nil {
			return nil, err
		}
		id, ok := pair.Value.(*ast.Ident)
		if !ok {
			return nil, fmt.Errorf("%s: value of key %d is not a function name", name, k)
		}
		if seen[k] {
			return nil, fmt.Errorf("%s: duplicate key %d", name, k)
		}
		seen[k] = true
		kvs = append(kvs, readerKV{k, id.Name})
	}
	sort.Slice(kvs, func(i, j int) bool { return kvs[i].k < kvs[j].k })
	return kvs, nil
}

func kindReaderMaps(root string, p *pkgInfo, it item) (string, error) {
	names := strings.Split(it.Arg, ",")
	maps := make([][]readerKV, len(names))
	fnSet := map[string]bool{}
	for i, n := range names {
		kvs, err := p.readerMap(strings.TrimSpace(n))
		if err != nil {
			return "", err
		}
		maps[i] = kvs
		for _, x := range kvs {
			fnSet[x.v] = true
		}
	}
	var fns []string
	for f := range fnSet {
		fns = append(fns, f)
	}
	sort.Strings(fns)
	ctors := make([]string, len(fns))
	for i, f := range fns {
		ctors[i] = "C08d_" + f
	}
	var b strings.Builder
	b.WriteString(coqInductive(it.Coq, ctors))
	for i, n := range names {
		var parts []string
		for _, x := range maps[i] {
			parts = append(parts, fmt.Sprintf("(%d%%N, C08d_%s)", x.k, x.v))
		}
		fmt.Fprintf(&b, "Definition %s_%s : list (N * %s) := [%s].\n", it.Coq, strings.TrimSpace(n), it.Coq, strings.Join(parts, ";\n  "))
	}
	return b.String(), nil
}

func kindLitLhs(root string, p *pkgInfo, it item) (string, error) {
	fd := p.findFunc(it.Name)
	if fd == nil {
		return "", fmt.Errorf("function not found")
	}
	var found []int64
	ast.Inspect(fd, func(n ast.Node) bool {
		be, ok := n.(*ast.BinaryExpr)
		if !ok || be.Op.String() != it.Op {
			return true
		}
		if p.exprText(be.Y) != it.Lhs {
			return true
		}
		if v, err := p.evalInt(be.X, 0); err == nil {
			found = append(found, v)
		}
		return true
	})
	if len(found) != 1 {
		return "", fmt.Errorf("expected exactly one expression `<literal> %s %s`, found %d", it.Op, it.Lhs, len(found))
	}
	return fmt.Sprintf("Definition %s : %s := %s.\n", it.Coq, it.Ctype, coqInt(found[0], it.Ctype)), nil
}

func kindSwitchFunc(root string, p *pkgInfo, it item) (string, error) {
	fd := p.findFunc(it.Name)
	if fd == nil {
		return "", fmt.Errorf("function not found")
	}
	var sws []*ast.SwitchStmt
	ast.Inspect(fd, func(n ast.Node) bool {
		if sw, ok := n.(*ast.SwitchStmt); ok && sw.Tag != nil && p.exprText(sw.Tag) == it.Lhs {
			sws = append(sws, sw)
		}
		return true
	})
	if len(sws) != 1 {
		return "", fmt.Errorf("expected exactly one `switch %s`, found %d", it.Lhs, len(sws))
	}
	var parts, cases, fns []string
	seenFn := map[string]bool{}
	for _, st := range sws[0].Body.List {
		cc := st.(*ast.CaseClause)
		if cc.List == nil {
			continue // default: (an error return)
		}
		if len(cc.Body) != 1 {
			return "", fmt.Errorf("case with %d statements", len(cc.Body))
		}
		as, ok := cc.Body[0].(*ast.AssignStmt)
		if !ok || len(as.Lhs) != 1 || len(as.Rhs) != 1 || p.exprText(as.Lhs[0]) != it.Arg {
			return "", fmt.Errorf("case body is not `%s = <identifier>`", it.Arg)
		}
		id, ok := as.Rhs[0].(*ast.Ident)
		if !ok {
			return "", fmt.Errorf("assigned value is not an identifier")
		}
		if !seenFn[id.Name] {
			seenFn[id.Name] = true
			fns = append(fns, "C08d_"+id.Name)
		}
		for _, lab := range cc.List {
			li, ok := lab.(*ast.Ident)
			if !ok {
				return "", fmt.Errorf("case label %s is not an identifier", p.exprText(lab))
			}
			cases = append(cases, "C08d_"+li.Name)
			parts = append(parts, fmt.Sprintf("(C08d_%s, C08d_%s)", li.Name, id.Name))
		}
	}
	return coqInductive(it.Coq+"_case", cases) + coqInductive(it.Coq+"_fn", fns) +
		fmt.Sprintf("Definition %s : list (%s_case * %s_fn) := [%s].\n", it.Coq, it.Coq, it.Coq, strings.Join(parts, "; ")), nil
}

func kindExtSwitch(root string, p *pkgInfo, it item) (string, error) {
	fd := p.findMethod(it.Arg, it.Name)
	if fd == nil {
		return "", fmt.Errorf("method (%s).%s not found", it.Arg, it.Name)
	}
	var tsw []*ast.TypeSwitchStmt
	ast.Inspect(fd, func(n ast.Node) bool {
		if sw, ok := n.(*ast.TypeSwitchStmt); ok {
			tsw = append(tsw, sw)
		}
		return true
	})
	if len(tsw) != 1 {
		return "", fmt.Errorf("expected exactly one type switch, found %d", len(tsw))
	}
	code := func(body []ast.Stmt) (int, *ast.SwitchStmt, error) {
		// `extLookupType = <const>; break findTypeLoop` or a nested switch
		if len(body) == 0 {
			return 0, nil, fmt.Errorf("empty case")
		}
		if sw, ok := body[0].(*ast.SwitchStmt); ok && len(body) == 1 {
			return 3, sw, nil
		}
		as, ok := body[0].(*ast.AssignStmt)
		if !ok || len(as.Lhs) != 1 || len(as.Rhs) != 1 || p.exprText(as.Lhs[0]) != it.Lhs {
			return 0, nil, fmt.Errorf("case does not assign %s", it.Lhs)
		}
		if len(body) != 2 {
			return 0, nil, fmt.Errorf("case has %d statements, want assignment + break", len(body))
		}
		if br, ok := body[1].(*ast.BranchStmt); !ok || br.Tok != token.BREAK || br.Label == nil {
			return 0, nil, fmt.Errorf("case does not end in a labelled break")
		}
		switch p.exprText(as.Rhs[0]) {
		case "gsubExtensionLookupType":
			return 1, nil, nil
		case "gposExtensionLookupType":
			return 2, nil, nil
		}
		return 0, nil, fmt.Errorf("unexpected value %s", p.exprText(as.Rhs[0]))
	}
	var parts, ctx, ctors []string
	nested := 0
	for _, st := range tsw[0].Body.List {
		cc := st.(*ast.CaseClause)
		if cc.List == nil {
			return "", fmt.Errorf("unexpected default case")
		}
		c, sw, err := code(cc.Body)
		if err != nil {
			return "", err
		}
		for _, t := range cc.List {
			name := strings.TrimPrefix(p.exprText(t), "*")
			ctors = append(ctors, "C08d_T_"+name)
			parts = append(parts, fmt.Sprintf("(C08d_T_%s, %d%%N)", name, c))
		}
		if sw != nil {
			nested++
			if p.exprText(sw.Tag) != "l.Meta.LookupType" {
				return "", fmt.Errorf("nested switch on %s", p.exprText(sw.Tag))
			}
			for _, st2 := range sw.Body.List {
				c2 := st2.(*ast.CaseClause)
				if c2.List == nil {
					return "", fmt.Errorf("unexpected default in the nested switch")
				}
				k, _, err := code(c2.Body)
				if err != nil || k == 3 {
					return "", fmt.Errorf("nested case: %v", err)
				}
				for _, lab := range c2.List {
					v, err := p.evalInt(lab, 0)
					if err != nil {
						return "", err
					}
					ctx = append(ctx, fmt.Sprintf("(%d%%N, %d%%N)", v, k))
				}
			}
		}
	}
	if nested != 1 {
		return "", fmt.Errorf("expected exactly one nested switch, found %d", nested)
	}
	return coqInductive(it.Coq+"_type", ctors) +
		fmt.Sprintf("Definition %s : list (%s_type * N) := [%s].\nDefinition %s_ctx : list (N * N) := [%s].\n",
			it.Coq, it.Coq, strings.Join(parts, ";\n  "), it.Coq, strings.Join(ctx, "; ")), nil
}
