package main

// Translator kind used by property C01.
//
//	c01_strswitch  a method `func (x T) Name() string { switch x { case C1: return "s1" ... } }`
//	               (item.Name = method name, item.Arg = receiver type T)
//	               -> list (N * list N): (value of the case constant, bytes of the
//	               returned literal), sorted by value.  Cases whose body is not a
//	               single `return "literal"` (e.g. the default clause) are skipped.

import (
	"fmt"
	"go/ast"
	"go/token"
	"sort"
	"strconv"
	"strings"
)

func init() {
	kinds["c01_strswitch"] = func(root string, p *pkgInfo, it item) (string, error) {
		var fd *ast.FuncDecl
		for _, f := range p.files {
			for _, d := range f.Decls {
				x, ok := d.(*ast.FuncDecl)
				if !ok || x.Name.Name != it.Name || x.Recv == nil || len(x.Recv.List) != 1 {
					continue
				}
				if p.exprText(x.Recv.List[0].Type) == it.Arg {
					fd = x
				}
			}
		}
		if fd == nil || fd.Body == nil {
			return "", fmt.Errorf("method %s.%s not found", it.Arg, it.Name)
		}
		var sw *ast.SwitchStmt
		for _, st := range fd.Body.List {
			if s, ok := st.(*ast.SwitchStmt); ok {
				sw = s
				break
			}
		}
		if sw == nil {
			return "", fmt.Errorf("no switch statement in %s.%s", it.Arg, it.Name)
		}
		type kv struct {
			k int64
			s string
		}
		var kvs []kv
		seen := map[int64]bool{}
		for _, st := range sw.Body.List {
			cc, ok := st.(*ast.CaseClause)
			if !ok || len(cc.List) == 0 || len(cc.Body) != 1 {
				continue
			}
			ret, ok := cc.Body[0].(*ast.ReturnStmt)
			if !ok || len(ret.Results) != 1 {
				continue
			}
			bl, ok := ret.Results[0].(*ast.BasicLit)
			if !ok || bl.Kind != token.STRING {
				continue
			}
			s, err := strconv.Unquote(bl.Value)
			if err != nil {
				return "", err
			}
			for _, e := range cc.List {
				k, err := p.evalInt(e, 0)
				if err != nil {
					return "", err
				}
				if seen[k] || k < 0 {
					return "", fmt.Errorf("duplicate or negative case value %d", k)
				}
				seen[k] = true
				kvs = append(kvs, kv{k, s})
			}
		}
		if len(kvs) == 0 {
			return "", fmt.Errorf("no literal-returning cases in %s.%s", it.Arg, it.Name)
		}
		sort.Slice(kvs, func(i, j int) bool { return kvs[i].k < kvs[j].k })
		var parts []string
		for _, x := range kvs {
			bs := make([]string, len(x.s))
			for i := 0; i < len(x.s); i++ {
				bs[i] = strconv.Itoa(int(x.s[i]))
			}
			parts = append(parts, fmt.Sprintf("(%d,[%s])", x.k, strings.Join(bs, ";")))
		}
		return fmt.Sprintf("Definition %s : list (N * list N) := [%s]%%N.\n", it.Coq, strings.Join(parts, ";\n  ")), nil
	}
}
