package main

// Translator kinds used by part C07B (the stateful shell around the shaping
// engine: gtab.Context and sfnt.Layouter).  They regenerate, from the Go AST,
// the facts about the SHAPE of the state the model relies on:
//
//	c07b_fields   Name = struct type                 -> list string: the field names, in order
//	                (a new field = new state that survives a call = the model no longer covers the code)
//	c07b_callers  Name = function, e.g. newKeepFunc  -> list string: "Recv.method" of every call site, in source order
//	c07b_writers  Arg = selector text, e.g. ctx.lookups; Name = "writers" (whole package) or one "Recv.method"
//	                                                 -> list string: "Recv.method" for every assignment / IncDec whose
//	                                                    target is that selector or an index/slice expression on it
//	                                                    (Arg "x[]": element writes x[i] = v only)
//	c07b_doc      Name = "Recv.method" or "func"     -> string: the doc comment, white space normalised
//	c07b_scratch  Name = receiver type (method apply) or "Recv.method"
//	                                                 -> list string: the scratch/stack protocol of a contextual
//	                subtable in source order: take:<rhs> (a read of ctx.scratch), claim (ctx.scratch = nil),
//	                release:<rhs> (ctx.scratch = <rhs>), push (ctx.stack = append(ctx.stack, ...)), ret:<expr>

import (
	"fmt"
	"go/ast"
	"go/parser"
	"go/token"
	"os"
	"path/filepath"
	"strings"
)

func c07bRecvName(fd *ast.FuncDecl) string {
	if fd.Recv == nil || len(fd.Recv.List) == 0 {
		return ""
	}
	t := fd.Recv.List[0].Type
	if st, ok := t.(*ast.StarExpr); ok {
		t = st.X
	}
	if id, ok := t.(*ast.Ident); ok {
		return id.Name
	}
	return ""
}

func c07bFuncName(fd *ast.FuncDecl) string {
	if r := c07bRecvName(fd); r != "" {
		return r + "." + fd.Name.Name
	}
	return fd.Name.Name
}

func c07bStrList(coq string, xs []string) string {
	parts := make([]string, len(xs))
	for i, x := range xs {
		parts[i] = coqString(x)
	}
	return fmt.Sprintf("Definition %s : list string := [%s]%%string.\n", coq, strings.Join(parts, "; "))
}

// c07bFuncs returns the function declarations of the package in file-name and
// source order (loadPkg keeps the directory order, which is sorted).
func c07bFuncs(p *pkgInfo) []*ast.FuncDecl {
	var out []*ast.FuncDecl
	for _, f := range p.files {
		for _, d := range f.Decls {
			if fd, ok := d.(*ast.FuncDecl); ok && fd.Body != nil {
				out = append(out, fd)
			}
		}
	}
	return out
}

// library functions that write through their first argument
var c07bMutators = map[string]bool{"copy": true, "clear": true, "append": true,
	"slices.Sort": true, "slices.SortFunc": true, "slices.SortStableFunc": true, "slices.Reverse": true,
	"slices.Delete": true, "slices.DeleteFunc": true, "slices.Insert": true, "slices.Compact": true, "slices.CompactFunc": true,
	"slices.Replace": true, "slices.Grow": true, "sort.Slice": true, "sort.SliceStable": true, "sort.Sort": true, "sort.Stable": true,
	"delete": true, "maps.DeleteFunc": true, "maps.Copy": true}

func c07bIsTarget(p *pkgInfo, e ast.Expr, sel string) bool {
	// "x[]": only element writes x[...] = v count, not x = v
	elemOnly := strings.HasSuffix(sel, "[]")
	sel = strings.TrimSuffix(sel, "[]")
	if elemOnly {
		switch e.(type) {
		case *ast.IndexExpr, *ast.SliceExpr:
		default:
			return false
		}
	}
	for {
		switch x := e.(type) {
		case *ast.IndexExpr:
			e = x.X
			continue
		case *ast.SliceExpr:
			e = x.X
			continue
		case *ast.ParenExpr:
			e = x.X
			continue
		case *ast.StarExpr:
			e = x.X
			continue
		}
		break
	}
	return p.exprText(e) == sel
}

func init() {
	kinds["c07b_fields"] = func(root string, p *pkgInfo, it item) (string, error) {
		for _, f := range p.files {
			for _, d := range f.Decls {
				gd, ok := d.(*ast.GenDecl)
				if !ok || gd.Tok != token.TYPE {
					continue
				}
				for _, s := range gd.Specs {
					ts := s.(*ast.TypeSpec)
					if ts.Name.Name != it.Name {
						continue
					}
					st, ok := ts.Type.(*ast.StructType)
					if !ok {
						return "", fmt.Errorf("%s is not a struct type", it.Name)
					}
					var names []string
					for _, fl := range st.Fields.List {
						if len(fl.Names) == 0 {
							names = append(names, "embedded:"+p.exprText(fl.Type))
						}
						for _, n := range fl.Names {
							names = append(names, n.Name)
						}
					}
					return c07bStrList(it.Coq, names), nil
				}
			}
		}
		return "", fmt.Errorf("type not found")
	}

	kinds["c07b_callers"] = func(root string, p *pkgInfo, it item) (string, error) {
		var out []string
		for _, fd := range c07bFuncs(p) {
			name := c07bFuncName(fd)
			ast.Inspect(fd.Body, func(n ast.Node) bool {
				ce, ok := n.(*ast.CallExpr)
				if !ok {
					return true
				}
				if id, ok := ce.Fun.(*ast.Ident); ok && id.Name == it.Name {
					out = append(out, name)
				}
				return true
			})
		}
		if len(out) == 0 {
			return "", fmt.Errorf("no call of %s found", it.Name)
		}
		return c07bStrList(it.Coq, out), nil
	}

	kinds["c07b_writers"] = func(root string, p *pkgInfo, it item) (string, error) {
		out := []string{}
		for _, fd := range c07bFuncs(p) {
			name := c07bFuncName(fd)
			if it.Name != "writers" && it.Name != name {
				continue // Name = one function: the target is a parameter / local of that function
			}
			ast.Inspect(fd.Body, func(n ast.Node) bool {
				switch x := n.(type) {
				case *ast.AssignStmt:
					for _, l := range x.Lhs {
						if c07bIsTarget(p, l, it.Arg) {
							out = append(out, name)
						}
					}
				case *ast.IncDecStmt:
					if c07bIsTarget(p, x.X, it.Arg) {
						out = append(out, name)
					}
				case *ast.CallExpr:
					// in-place library calls on the target: sort, copy into, clear, delete, insert, append to
					fn := p.exprText(x.Fun)
					if c07bMutators[fn] && len(x.Args) > 0 && !strings.HasSuffix(it.Arg, "[]") && c07bIsTarget(p, x.Args[0], it.Arg) {
						out = append(out, name+":"+fn)
					}
				case *ast.RangeStmt:
					if x.Tok == token.ASSIGN {
						for _, l := range []ast.Expr{x.Key, x.Value} {
							if l != nil && c07bIsTarget(p, l, it.Arg) {
								out = append(out, name)
							}
						}
					}
				}
				return true
			})
		}
		return c07bStrList(it.Coq, out), nil
	}

	kinds["c07b_doc"] = func(root string, p *pkgInfo, it item) (string, error) {
		// loadPkg parses without comments; parse the package again with them
		full := filepath.Join(root, it.Pkg)
		ents, err := os.ReadDir(full)
		if err != nil {
			return "", err
		}
		fset := token.NewFileSet()
		for _, e := range ents {
			n := e.Name()
			if e.IsDir() || !strings.HasSuffix(n, ".go") || strings.HasSuffix(n, "_test.go") || strings.HasPrefix(n, "verif_") {
				continue
			}
			f, err := parser.ParseFile(fset, filepath.Join(full, n), nil, parser.ParseComments)
			if err != nil {
				return "", err
			}
			for _, d := range f.Decls {
				fd, ok := d.(*ast.FuncDecl)
				if !ok || c07bFuncName(fd) != it.Name {
					continue
				}
				doc := ""
				if fd.Doc != nil {
					doc = strings.Join(strings.Fields(fd.Doc.Text()), " ")
				}
				return fmt.Sprintf("Definition %s : string := %s%%string.\n", it.Coq, coqString(doc)), nil
			}
		}
		return "", fmt.Errorf("function not found")
	}

	kinds["c07b_scratch"] = func(root string, p *pkgInfo, it item) (string, error) {
		for _, fd := range c07bFuncs(p) {
			if strings.Contains(it.Name, ".") {
				if c07bFuncName(fd) != it.Name {
					continue
				}
			} else if c07bRecvName(fd) != it.Name || fd.Name.Name != "apply" {
				continue
			}
			out := []string{}
			ast.Inspect(fd.Body, func(n ast.Node) bool {
				switch x := n.(type) {
				case *ast.AssignStmt:
					for i, l := range x.Lhs {
						lt := p.exprText(l)
						rt := ""
						if i < len(x.Rhs) {
							rt = p.exprText(x.Rhs[i])
						}
						switch {
						case lt == "ctx.scratch" && rt == "nil":
							out = append(out, "claim")
						case lt == "ctx.scratch":
							out = append(out, "release:"+rt)
						case lt == "ctx.stack" && strings.HasPrefix(rt, "append(ctx.stack,"):
							out = append(out, "push")
						case lt == "ctx.stack":
							out = append(out, "stack:"+rt)
						case strings.Contains(rt, "ctx.scratch"):
							out = append(out, "take:"+rt)
						}
					}
				case *ast.ReturnStmt:
					var rs []string
					for _, r := range x.Results {
						rs = append(rs, p.exprText(r))
					}
					out = append(out, "ret:"+strings.Join(rs, ","))
				case *ast.KeyValueExpr:
					if k, ok := x.Key.(*ast.Ident); ok && k.Name == "InputPos" {
						out = append(out, "frame:"+p.exprText(x.Value))
					}
				}
				return true
			})
			return c07bStrList(it.Coq, out), nil
		}
		return "", fmt.Errorf("method %s.apply not found", it.Name)
	}
}
