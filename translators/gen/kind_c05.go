// Translator kinds added for property C05 (Type 2 charstrings):
//
//	cmplitmax  the largest integer literal compared with a given left-hand side
//
//	leafz   a small branching integer function translated statement by
//	        statement into a Coq function over Z.  Supported: parameters of
//	        integer type (kept by name) and of slice type (only len(p) and a
//	        final p[i] may be used: the parameter becomes len_p and p[i] is
//	        rendered as the index i); `var x int`, `x := e`, `x = e`;
//	        if / else-if / else chains whose branches only assign; a guard
//	        `if c { return nil, err }`; a final `return v, nil`.  Expressions:
//	        identifiers, integer literals, + - *, comparisons, && || !,
//	        len(p), p[i].  The result is `option Z`: None for a return with a
//	        non-nil error.  Anything else is reported as unsupported (lost tie).
package main

import (
	"fmt"
	"go/ast"
	"go/token"
	"strings"
)

func init() {
	kinds["leafz"] = kindLeafZ
	kinds["cmplitmax"] = kindCmpLitMax
}

// cmplitmax: like cmplit, but several comparisons with the same left-hand
// side may exist; the largest literal is taken (e.g. `len(cmdStack) > 0` in a
// loop header next to the limit `len(cmdStack) > 10`).
func kindCmpLitMax(root string, p *pkgInfo, it item) (string, error) {
	fd := p.findFunc(it.Name)
	if fd == nil {
		return "", fmt.Errorf("function not found")
	}
	found := false
	var best int64
	ast.Inspect(fd, func(n ast.Node) bool {
		be, ok := n.(*ast.BinaryExpr)
		if !ok || be.Op.String() != it.Op || p.exprText(be.X) != it.Lhs {
			return true
		}
		if v, err := p.evalInt(be.Y, 0); err == nil {
			if !found || v > best {
				best = v
			}
			found = true
		}
		return true
	})
	if !found {
		return "", fmt.Errorf("no comparison `%s %s <literal>` found", it.Lhs, it.Op)
	}
	return fmt.Sprintf("Definition %s : %s := %s.\n", it.Coq, it.Ctype, coqInt(best, it.Ctype)), nil
}

type leafEnv struct {
	p      *pkgInfo
	vars   map[string]string // current symbolic value of each local / parameter
	slices map[string]bool
}

func (e *leafEnv) clone() *leafEnv {
	c := &leafEnv{p: e.p, vars: map[string]string{}, slices: e.slices}
	for k, v := range e.vars {
		c.vars[k] = v
	}
	return c
}

// expr translates an integer expression; boolean expressions go through cond.
func (e *leafEnv) expr(x ast.Expr) (string, error) {
	switch v := x.(type) {
	case *ast.ParenExpr:
		return e.expr(v.X)
	case *ast.BasicLit:
		if v.Kind == token.INT {
			i, err := e.p.evalInt(v, 0)
			if err != nil {
				return "", err
			}
			return fmt.Sprintf("(%d)", i), nil
		}
	case *ast.Ident:
		if s, ok := e.vars[v.Name]; ok {
			return s, nil
		}
		if i, err := e.p.evalInt(v, 0); err == nil {
			return fmt.Sprintf("(%d)", i), nil
		}
		return "", fmt.Errorf("unknown identifier %s", v.Name)
	case *ast.UnaryExpr:
		if v.Op == token.SUB {
			s, err := e.expr(v.X)
			if err != nil {
				return "", err
			}
			return "(- " + s + ")", nil
		}
	case *ast.BinaryExpr:
		var op string
		switch v.Op {
		case token.ADD:
			op = "+"
		case token.SUB:
			op = "-"
		case token.MUL:
			op = "*"
		}
		if op != "" {
			a, err := e.expr(v.X)
			if err != nil {
				return "", err
			}
			b, err := e.expr(v.Y)
			if err != nil {
				return "", err
			}
			return "(" + a + " " + op + " " + b + ")", nil
		}
	case *ast.CallExpr:
		if id, ok := v.Fun.(*ast.Ident); ok && id.Name == "len" && len(v.Args) == 1 {
			if a, ok := v.Args[0].(*ast.Ident); ok && e.slices[a.Name] {
				return "len_" + a.Name, nil
			}
		}
		if id, ok := v.Fun.(*ast.Ident); ok && (id.Name == "int" || id.Name == "int64") && len(v.Args) == 1 {
			return e.expr(v.Args[0])
		}
	case *ast.IndexExpr:
		if a, ok := v.X.(*ast.Ident); ok && e.slices[a.Name] {
			return e.expr(v.Index)
		}
	}
	return "", fmt.Errorf("unsupported expression %s", e.p.exprText(x))
}

func (e *leafEnv) cond(x ast.Expr) (string, error) {
	switch v := x.(type) {
	case *ast.ParenExpr:
		return e.cond(v.X)
	case *ast.UnaryExpr:
		if v.Op == token.NOT {
			s, err := e.cond(v.X)
			if err != nil {
				return "", err
			}
			return "(negb " + s + ")", nil
		}
	case *ast.BinaryExpr:
		switch v.Op {
		case token.LAND, token.LOR:
			a, err := e.cond(v.X)
			if err != nil {
				return "", err
			}
			b, err := e.cond(v.Y)
			if err != nil {
				return "", err
			}
			if v.Op == token.LAND {
				return "(" + a + " && " + b + ")", nil
			}
			return "(" + a + " || " + b + ")", nil
		case token.LSS, token.LEQ, token.GTR, token.GEQ, token.EQL, token.NEQ:
			a, err := e.expr(v.X)
			if err != nil {
				return "", err
			}
			b, err := e.expr(v.Y)
			if err != nil {
				return "", err
			}
			switch v.Op {
			case token.LSS:
				return "(" + a + " <? " + b + ")", nil
			case token.LEQ:
				return "(" + a + " <=? " + b + ")", nil
			case token.GTR:
				return "(" + a + " >? " + b + ")", nil
			case token.GEQ:
				return "(" + a + " >=? " + b + ")", nil
			case token.EQL:
				return "(" + a + " =? " + b + ")", nil
			default:
				return "(negb (" + a + " =? " + b + "))", nil
			}
		}
	}
	return "", fmt.Errorf("unsupported condition %s", e.p.exprText(x))
}

// assignOnly executes a block that may only assign; returns the new env.
func (e *leafEnv) assignOnly(b *ast.BlockStmt) (*leafEnv, error) {
	c := e.clone()
	for _, s := range b.List {
		if err := c.assign(s); err != nil {
			return nil, err
		}
	}
	return c, nil
}

func (e *leafEnv) assign(s ast.Stmt) error {
	switch v := s.(type) {
	case *ast.DeclStmt:
		gd, ok := v.Decl.(*ast.GenDecl)
		if !ok || gd.Tok != token.VAR {
			break
		}
		for _, sp := range gd.Specs {
			vs := sp.(*ast.ValueSpec)
			for i, n := range vs.Names {
				val := "(0)"
				if i < len(vs.Values) {
					var err error
					if val, err = e.expr(vs.Values[i]); err != nil {
						return err
					}
				}
				e.vars[n.Name] = val
			}
		}
		return nil
	case *ast.AssignStmt:
		if len(v.Lhs) != 1 || len(v.Rhs) != 1 || (v.Tok != token.ASSIGN && v.Tok != token.DEFINE) {
			break
		}
		id, ok := v.Lhs[0].(*ast.Ident)
		if !ok {
			break
		}
		val, err := e.expr(v.Rhs[0])
		if err != nil {
			return err
		}
		e.vars[id.Name] = val
		return nil
	case *ast.IfStmt:
		if v.Init != nil {
			break
		}
		c, err := e.cond(v.Cond)
		if err != nil {
			return err
		}
		thenEnv, err := e.assignOnly(v.Body)
		if err != nil {
			return err
		}
		elseEnv := e.clone()
		switch el := v.Else.(type) {
		case nil:
		case *ast.BlockStmt:
			if elseEnv, err = e.assignOnly(el); err != nil {
				return err
			}
		case *ast.IfStmt:
			if err = elseEnv.assign(el); err != nil {
				return err
			}
		default:
			return fmt.Errorf("unsupported else")
		}
		for k := range e.vars {
			a, b := thenEnv.vars[k], elseEnv.vars[k]
			if a != b {
				e.vars[k] = "(if " + c + " then " + a + " else " + b + ")"
			}
		}
		return nil
	}
	return fmt.Errorf("unsupported statement at %s", e.p.fset.Position(s.Pos()))
}

// body translates a statement list ending in a return into an option Z term.
func (e *leafEnv) body(list []ast.Stmt) (string, error) {
	if len(list) == 0 {
		return "", fmt.Errorf("function does not end with return")
	}
	switch v := list[0].(type) {
	case *ast.ReturnStmt:
		if len(v.Results) != 2 {
			return "", fmt.Errorf("return with %d results", len(v.Results))
		}
		if id, ok := v.Results[1].(*ast.Ident); ok && id.Name == "nil" {
			s, err := e.expr(v.Results[0])
			if err != nil {
				return "", err
			}
			return "Some " + s, nil
		}
		return "None", nil
	case *ast.IfStmt:
		// a guard whose body returns
		if v.Init == nil && v.Else == nil && len(v.Body.List) == 1 {
			if _, ok := v.Body.List[0].(*ast.ReturnStmt); ok {
				c, err := e.cond(v.Cond)
				if err != nil {
					return "", err
				}
				a, err := e.clone().body(v.Body.List)
				if err != nil {
					return "", err
				}
				b, err := e.body(list[1:])
				if err != nil {
					return "", err
				}
				return "if " + c + " then " + a + " else " + b, nil
			}
		}
	}
	if err := e.assign(list[0]); err != nil {
		return "", err
	}
	return e.body(list[1:])
}

func kindLeafZ(root string, p *pkgInfo, it item) (string, error) {
	fd := p.findFunc(it.Name)
	if fd == nil || fd.Body == nil {
		return "", fmt.Errorf("function not found")
	}
	env := &leafEnv{p: p, vars: map[string]string{}, slices: map[string]bool{}}
	var params []string
	for _, f := range fd.Type.Params.List {
		t := p.exprText(f.Type)
		for _, n := range f.Names {
			switch t {
			case "int", "int32", "int64":
				env.vars[n.Name] = n.Name
				params = append(params, n.Name)
			default:
				// treated as a slice: only its length and a final index are used
				env.slices[n.Name] = true
				params = append(params, "len_"+n.Name)
			}
		}
	}
	term, err := env.body(fd.Body.List)
	if err != nil {
		return "", err
	}
	return fmt.Sprintf("Definition %s (%s : Z) : option Z :=\n  (%s)%%Z.\n", it.Coq, strings.Join(params, " "), term), nil
}
