// Command gen regenerates coq/Gen/*.v from the Go sources under the repository
// root given as first argument.  It uses only go/ast (no type checking), reads
// the specification of what to extract from the table below and writes each
// output file only when its content changed (so that make stays a no-op).
//
// Supported item kinds:
//
//	const     a named integer constant (simple constant expressions over
//	          literals and other constants of the same package are folded)
//	cmplit    the integer literal on the right-hand side of a comparison with
//	          a given left-hand side text inside a given function
//	intlist   a package-level slice/array/map-free composite literal of ints
//	strlist   a package-level slice/array composite literal of strings
//	tagprio   header.ttTableOrder (map[string]int) as an association list
//
// Anything that cannot be found makes the tool exit non-zero with a message
// naming the item; the check driver reports that as a lost translator tie.
package main

import (
	"bytes"
	"encoding/json"
	"fmt"
	"go/ast"
	"go/parser"
	"go/printer"
	"go/token"
	"os"
	"path/filepath"
	"sort"
	"strconv"
	"strings"
)

type item struct {
	File  string `json:"file"`  // output file (without .v); set from the items file
	Kind  string `json:"kind"`
	Pkg   string `json:"pkg"`   // directory relative to repo root
	Name  string `json:"name"`  // Go identifier (const/var) or function name
	Lhs   string `json:"lhs"`   // cmplit: text of the left operand
	Op    string `json:"op"`    // cmplit: operator
	Coq   string `json:"coq"`   // Coq identifier
	Ctype string `json:"ctype"` // "N", "Z" or "nat"
	Arg   string `json:"arg"`   // free argument for custom kinds
}

type itemsFile struct {
	File    string   `json:"file"`
	Imports []string `json:"imports"` // extra Require lines
	Items   []item   `json:"items"`
}

// kinds can be extended by further files of this package (kind_*.go) through
// init(): kinds["name"] = func(root string, p *pkgInfo, it item) (string, error).
var kinds = map[string]func(root string, p *pkgInfo, it item) (string, error){}

func loadItems(dir string) ([]itemsFile, error) {
	ents, err := os.ReadDir(dir)
	if err != nil {
		return nil, err
	}
	var out []itemsFile
	for _, e := range ents {
		if !strings.HasSuffix(e.Name(), ".json") {
			continue
		}
		b, err := os.ReadFile(filepath.Join(dir, e.Name()))
		if err != nil {
			return nil, err
		}
		var f itemsFile
		if err := json.Unmarshal(b, &f); err != nil {
			return nil, fmt.Errorf("%s: %v", e.Name(), err)
		}
		if f.File == "" {
			f.File = strings.TrimSuffix(e.Name(), ".json")
		}
		out = append(out, f)
	}
	sort.Slice(out, func(i, j int) bool { return out[i].File < out[j].File })
	return out, nil
}

type pkgInfo struct {
	fset  *token.FileSet
	files []*ast.File
}

var pkgs = map[string]*pkgInfo{}

func loadPkg(root, dir string) (*pkgInfo, error) {
	if p, ok := pkgs[dir]; ok {
		return p, nil
	}
	fset := token.NewFileSet()
	full := filepath.Join(root, dir)
	ents, err := os.ReadDir(full)
	if err != nil {
		return nil, err
	}
	p := &pkgInfo{fset: fset}
	for _, e := range ents {
		n := e.Name()
		if e.IsDir() || !strings.HasSuffix(n, ".go") || strings.HasSuffix(n, "_test.go") ||
			strings.HasPrefix(n, "verif_") {
			continue
		}
		f, err := parser.ParseFile(fset, filepath.Join(full, n), nil, 0)
		if err != nil {
			return nil, err
		}
		p.files = append(p.files, f)
	}
	pkgs[dir] = p
	return p, nil
}

func (p *pkgInfo) exprText(e ast.Expr) string {
	var b bytes.Buffer
	printer.Fprint(&b, p.fset, e)
	return b.String()
}

// findValueSpec returns the initialiser expression for a package-level const or var.
func (p *pkgInfo) findValue(name string) (ast.Expr, *ast.GenDecl, int) {
	for _, f := range p.files {
		for _, d := range f.Decls {
			gd, ok := d.(*ast.GenDecl)
			if !ok || (gd.Tok != token.CONST && gd.Tok != token.VAR) {
				continue
			}
			for si, s := range gd.Specs {
				vs := s.(*ast.ValueSpec)
				for i, id := range vs.Names {
					if id.Name == name {
						if i < len(vs.Values) {
							return vs.Values[i], gd, si
						}
						return nil, gd, si
					}
				}
			}
		}
	}
	return nil, nil, 0
}

func (p *pkgInfo) findFunc(name string) *ast.FuncDecl {
	for _, f := range p.files {
		for _, d := range f.Decls {
			fd, ok := d.(*ast.FuncDecl)
			if ok && fd.Name.Name == name {
				return fd
			}
		}
	}
	return nil
}

func (p *pkgInfo) evalInt(e ast.Expr, iota int64) (int64, error) {
	switch x := e.(type) {
	case *ast.BasicLit:
		switch x.Kind {
		case token.INT:
			v, err := strconv.ParseInt(x.Value, 0, 64)
			if err != nil {
				u, err2 := strconv.ParseUint(x.Value, 0, 64)
				if err2 != nil {
					return 0, err
				}
				return int64(u), nil
			}
			return v, nil
		case token.CHAR:
			r, _, _, err := strconv.UnquoteChar(x.Value[1:len(x.Value)-1], '\'')
			return int64(r), err
		}
	case *ast.ParenExpr:
		return p.evalInt(x.X, iota)
	case *ast.Ident:
		if x.Name == "iota" {
			return iota, nil
		}
		v, gd, si := p.findValue(x.Name)
		if gd == nil {
			return 0, fmt.Errorf("unknown identifier %s", x.Name)
		}
		if v == nil {
			// implicit repetition in a const block
			for j := si; j >= 0; j-- {
				vs := gd.Specs[j].(*ast.ValueSpec)
				if len(vs.Values) > 0 {
					return p.evalInt(vs.Values[0], int64(si))
				}
			}
			return 0, fmt.Errorf("no value for %s", x.Name)
		}
		return p.evalInt(v, int64(si))
	case *ast.UnaryExpr:
		v, err := p.evalInt(x.X, iota)
		if err != nil {
			return 0, err
		}
		switch x.Op {
		case token.SUB:
			return -v, nil
		case token.ADD:
			return v, nil
		}
	case *ast.CallExpr:
		// conversions like uint32(0x10000), Flags(1<<3)
		if len(x.Args) == 1 {
			return p.evalInt(x.Args[0], iota)
		}
	case *ast.BinaryExpr:
		a, err := p.evalInt(x.X, iota)
		if err != nil {
			return 0, err
		}
		b, err := p.evalInt(x.Y, iota)
		if err != nil {
			return 0, err
		}
		switch x.Op {
		case token.ADD:
			return a + b, nil
		case token.SUB:
			return a - b, nil
		case token.MUL:
			return a * b, nil
		case token.QUO:
			return a / b, nil
		case token.SHL:
			return a << uint(b), nil
		case token.SHR:
			return a >> uint(b), nil
		case token.OR:
			return a | b, nil
		case token.AND:
			return a & b, nil
		}
	}
	return 0, fmt.Errorf("unsupported constant expression %s", p.exprText(e))
}

func coqInt(v int64, ctype string) string {
	switch ctype {
	case "Z":
		return fmt.Sprintf("(%d)%%Z", v)
	case "nat":
		return fmt.Sprintf("%d%%nat", v)
	default:
		return fmt.Sprintf("%d%%N", v)
	}
}

func coqString(s string) string {
	return `"` + strings.ReplaceAll(s, `"`, `""`) + `"`
}

func tagN(s string) (int64, error) {
	if len(s) != 4 {
		return 0, fmt.Errorf("tag %q is not 4 bytes", s)
	}
	return int64(s[0])<<24 | int64(s[1])<<16 | int64(s[2])<<8 | int64(s[3]), nil
}

func gen(root string, it item) (string, error) {
	p, err := loadPkg(root, it.Pkg)
	if err != nil {
		return "", err
	}
	src := fmt.Sprintf("(* %s: %s %s.%s *)\n", it.Kind, it.Pkg, it.Name, it.Lhs)
	switch it.Kind {
	case "const":
		v, gd, si := p.findValue(it.Name)
		if gd == nil {
			return "", fmt.Errorf("not found")
		}
		var val int64
		if v == nil {
			val, err = p.evalInt(&ast.Ident{Name: it.Name}, int64(si))
		} else {
			val, err = p.evalInt(v, int64(si))
		}
		if err != nil {
			return "", err
		}
		return src + fmt.Sprintf("Definition %s : %s := %s.\n", it.Coq, it.Ctype, coqInt(val, it.Ctype)), nil
	case "cmplit":
		fd := p.findFunc(it.Name)
		if fd == nil {
			return "", fmt.Errorf("function not found")
		}
		var found []int64
		ast.Inspect(fd, func(n ast.Node) bool {
			be, ok := n.(*ast.BinaryExpr)
			if !ok || be.Op.String() != it.Op {
				return true
			}
			if p.exprText(be.X) != it.Lhs {
				return true
			}
			v, err := p.evalInt(be.Y, 0)
			if err == nil {
				found = append(found, v)
			}
			return true
		})
		if len(found) != 1 {
			return "", fmt.Errorf("expected exactly one comparison `%s %s <literal>`, found %d", it.Lhs, it.Op, len(found))
		}
		return src + fmt.Sprintf("Definition %s : %s := %s.\n", it.Coq, it.Ctype, coqInt(found[0], it.Ctype)), nil
	case "intlist":
		v, gd, _ := p.findValue(it.Name)
		if gd == nil || v == nil {
			return "", fmt.Errorf("not found")
		}
		cl, ok := v.(*ast.CompositeLit)
		if !ok {
			return "", fmt.Errorf("not a composite literal")
		}
		var parts []string
		for _, e := range cl.Elts {
			if kv, ok := e.(*ast.KeyValueExpr); ok {
				e = kv.Value
			}
			x, err := p.evalInt(e, 0)
			if err != nil {
				return "", err
			}
			parts = append(parts, coqInt(x, it.Ctype))
		}
		return src + fmt.Sprintf("Definition %s : list %s := [%s].\n", it.Coq, it.Ctype, strings.Join(parts, "; ")), nil
	case "strlist":
		v, gd, _ := p.findValue(it.Name)
		if gd == nil || v == nil {
			return "", fmt.Errorf("not found")
		}
		cl, ok := v.(*ast.CompositeLit)
		if !ok {
			return "", fmt.Errorf("not a composite literal")
		}
		var parts []string
		for _, e := range cl.Elts {
			bl, ok := e.(*ast.BasicLit)
			if !ok || bl.Kind != token.STRING {
				return "", fmt.Errorf("non-string element")
			}
			s, err := strconv.Unquote(bl.Value)
			if err != nil {
				return "", err
			}
			parts = append(parts, coqString(s))
		}
		return src + fmt.Sprintf("Definition %s : list string := [%s]%%string.\n", it.Coq, strings.Join(parts, ";\n  ")), nil
	case "tagprio":
		v, gd, _ := p.findValue(it.Name)
		if gd == nil || v == nil {
			return "", fmt.Errorf("not found")
		}
		cl, ok := v.(*ast.CompositeLit)
		if !ok {
			return "", fmt.Errorf("not a composite literal")
		}
		type kv struct{ k, v int64 }
		var kvs []kv
		for _, e := range cl.Elts {
			pair, ok := e.(*ast.KeyValueExpr)
			if !ok {
				return "", fmt.Errorf("not a key/value element")
			}
			bl, ok := pair.Key.(*ast.BasicLit)
			if !ok {
				return "", fmt.Errorf("non-literal key")
			}
			s, err := strconv.Unquote(bl.Value)
			if err != nil {
				return "", err
			}
			k, err := tagN(s)
			if err != nil {
				return "", err
			}
			val, err := p.evalInt(pair.Value, 0)
			if err != nil {
				return "", err
			}
			kvs = append(kvs, kv{k, val})
		}
		sort.Slice(kvs, func(i, j int) bool { return kvs[i].k < kvs[j].k })
		var parts []string
		for _, x := range kvs {
			parts = append(parts, fmt.Sprintf("(%d%%N, %d%%Z)", x.k, x.v))
		}
		return src + fmt.Sprintf("Definition %s : list (N * Z) := [%s].\n", it.Coq, strings.Join(parts, "; ")), nil
	}
	if f, ok := kinds[it.Kind]; ok {
		body, err := f(root, p, it)
		if err != nil {
			return "", err
		}
		return src + body, nil
	}
	return "", fmt.Errorf("unknown kind %s", it.Kind)
}

func main() {
	if len(os.Args) != 4 {
		fmt.Fprintln(os.Stderr, "usage: gen <repo-root> <items-dir> <out-dir>")
		os.Exit(2)
	}
	root, itemsDir, out := os.Args[1], os.Args[2], os.Args[3]
	ifs, err := loadItems(itemsDir)
	if err != nil {
		fmt.Fprintln(os.Stderr, err)
		os.Exit(2)
	}
	failed := false
	for _, f := range ifs {
		b := &strings.Builder{}
		b.WriteString("(* GENERATED by /verif/translators/gen from the Go sources. Do not edit. *)\n")
		b.WriteString("From Coq Require Import List NArith ZArith String.\nImport ListNotations.\n")
		for _, im := range f.Imports {
			b.WriteString(im + "\n")
		}
		b.WriteString("\n")
		for _, it := range f.Items {
			it.File = f.File
			s, err := gen(root, it)
			if err != nil {
				// the definition is left out: proofs that depend on it break,
				// which is what must happen
				fmt.Printf("LOST file=%s %s %s.%s: %v\n", it.File, it.Coq, it.Pkg, it.Name, err)
				failed = true
				continue
			}
			b.WriteString(s)
			b.WriteString("\n")
		}
		path := filepath.Join(out, f.File+".v")
		newc := b.String()
		old, err := os.ReadFile(path)
		if err == nil && string(old) == newc {
			continue
		}
		if err := os.WriteFile(path, []byte(newc), 0o644); err != nil {
			fmt.Fprintln(os.Stderr, err)
			os.Exit(2)
		}
		fmt.Printf("UPDATED %s\n", path)
	}
	if failed {
		os.Exit(1)
	}
}
