// Translator kinds of part C04B (Type 2 charstring encoder, glyph builder,
// font-level width choice).  Everything is read from the Go AST of /repo as
// it is now; a shape the kind does not support loses the item (the definition
// is left out of coq/Gen/C04B.v and the proofs of coq/C04B/Tie.v break).
//
//	c04b_prelude      fixed helper definitions (int16 wrap, byte truncation)
//	c04b_switchfunc   a function whose body is one tagless switch over an
//	                  int16 parameter with `return []byte{...}` in every
//	                  clause (cff.encodeInt), statement by statement, as a
//	                  Coq function Z -> list Z
//	c04b_caseranges   the inclusive ranges [lo, hi] selected by the case
//	                  conditions of that switch, in source order
//	c04b_encnum       cff.encodeNumber: tolerance of the integer test (as a
//	                  fraction), the scale inside math.Round, the divisor of
//	                  the reported value, the byte layout of the 16.16 form
//	c04b_opsused      every constant of type t2op a given file refers to,
//	                  with its value
//	c04b_stackconds   every comparison `len(code)+K <= maxStack` /
//	                  `len(code)+K > maxStack` of encoder.AppendEdges, per
//	                  clause of its switch, in source order
//	c04b_appendargs   the operand lists of every `append(code, ...)` call of
//	                  AppendEdges (which command, which argument, as an
//	                  affine expression in offs / checkIdx) and operator
//	c04b_copyops      the operators handed to copyOp, per clause
//	c04b_srctext      the statements of a function (optionally only those
//	                  containing a substring), printed by go/printer
//	c04b_builder      the methods of *Glyph that append one GlyphOp: operator
//	                  constant and which parameter goes to which Args slot
//	c04b_newglyph     the fields NewGlyph initialises, with the parameter
//	c04b_doc          the doc comment of a function / method
package main

import (
	"fmt"
	"go/ast"
	"go/parser"
	"go/printer"
	"go/token"
	"math/big"
	"os"
	"path/filepath"
	"sort"
	"strings"
)

func c04bFuncName(fd *ast.FuncDecl) string {
	if fd.Recv != nil && len(fd.Recv.List) == 1 {
		t := fd.Recv.List[0].Type
		if s, ok := t.(*ast.StarExpr); ok {
			t = s.X
		}
		if id, ok := t.(*ast.Ident); ok {
			return id.Name + "." + fd.Name.Name
		}
	}
	return fd.Name.Name
}

func c04bFindFunc(p *pkgInfo, name string) *ast.FuncDecl {
	for _, f := range p.files {
		for _, d := range f.Decls {
			if fd, ok := d.(*ast.FuncDecl); ok && c04bFuncName(fd) == name && fd.Body != nil {
				return fd
			}
		}
	}
	return nil
}

func c04bStrList(name string, xs []string) string {
	parts := make([]string, len(xs))
	for i, s := range xs {
		parts[i] = coqString(s)
	}
	return fmt.Sprintf("Definition %s : list string := [%s]%%string.\n", name, strings.Join(parts, ";\n  "))
}

func c04bNorm(s string) string { return strings.Join(strings.Fields(s), " ") }

// ---- int16 expression translation (encodeInt) ----

type c04bEnv struct {
	p     *pkgInfo
	int16 map[string]bool // variables of the int16 type
	bytes map[string]bool // variables of type byte
}

func (e *c04bEnv) lit(x ast.Expr) (int64, bool) {
	v, err := e.p.evalInt(x, 0)
	if err != nil {
		return 0, false
	}
	switch x.(type) {
	case *ast.BasicLit, *ast.UnaryExpr, *ast.ParenExpr:
		return v, true
	}
	return 0, false
}

// expr16 translates an expression of type int16 into a Z term (wrapped).
func (e *c04bEnv) expr16(x ast.Expr) (string, error) {
	if v, ok := e.lit(x); ok {
		return fmt.Sprintf("(%d)", v), nil
	}
	switch v := x.(type) {
	case *ast.ParenExpr:
		return e.expr16(v.X)
	case *ast.Ident:
		if e.int16[v.Name] {
			return v.Name, nil
		}
		return "", fmt.Errorf("identifier %s is not an int16 variable", v.Name)
	case *ast.UnaryExpr:
		if v.Op == token.SUB {
			s, err := e.expr16(v.X)
			if err != nil {
				return "", err
			}
			return "(c04b_i16 (- " + s + "))", nil
		}
	case *ast.BinaryExpr:
		a, err := e.expr16(v.X)
		if err != nil {
			return "", err
		}
		switch v.Op {
		case token.ADD, token.SUB:
			b, err := e.expr16(v.Y)
			if err != nil {
				return "", err
			}
			op := "+"
			if v.Op == token.SUB {
				op = "-"
			}
			return "(c04b_i16 (" + a + " " + op + " " + b + "))", nil
		case token.SHR:
			k, ok := e.lit(v.Y)
			if !ok || k < 0 || k > 15 {
				return "", fmt.Errorf("shift count is not a small literal")
			}
			return fmt.Sprintf("(Z.shiftr %s %d)", a, k), nil
		}
	}
	return "", fmt.Errorf("unsupported int16 expression %s", e.p.exprText(x))
}

// exprByte translates an expression of type byte.
func (e *c04bEnv) exprByte(x ast.Expr) (string, error) {
	if v, ok := e.lit(x); ok {
		if v < 0 || v > 255 {
			return "", fmt.Errorf("byte literal out of range")
		}
		return fmt.Sprintf("(%d)", v), nil
	}
	switch v := x.(type) {
	case *ast.ParenExpr:
		return e.exprByte(v.X)
	case *ast.Ident:
		if e.bytes[v.Name] {
			return v.Name, nil
		}
	case *ast.CallExpr:
		if id, ok := v.Fun.(*ast.Ident); ok && id.Name == "byte" && len(v.Args) == 1 {
			s, err := e.expr16(v.Args[0])
			if err != nil {
				return "", err
			}
			return "(c04b_byte " + s + ")", nil
		}
	}
	return "", fmt.Errorf("unsupported byte expression %s", e.p.exprText(x))
}

func (e *c04bEnv) cond(x ast.Expr) (string, error) {
	switch v := x.(type) {
	case *ast.ParenExpr:
		return e.cond(v.X)
	case *ast.BinaryExpr:
		switch v.Op {
		case token.LAND, token.LOR:
			a, err := e.cond(v.X)
			if err != nil {
				return "", err
			}
			b, err := e.cond(v.Y)
			if err != nil {
				return "", err
			}
			if v.Op == token.LAND {
				return "(" + a + " && " + b + ")", nil
			}
			return "(" + a + " || " + b + ")", nil
		case token.LSS, token.LEQ, token.GTR, token.GEQ, token.EQL:
			a, err := e.expr16(v.X)
			if err != nil {
				return "", err
			}
			b, err := e.expr16(v.Y)
			if err != nil {
				return "", err
			}
			op := map[token.Token]string{token.LSS: "<?", token.LEQ: "<=?", token.GTR: ">?", token.GEQ: ">=?", token.EQL: "=?"}[v.Op]
			return "(" + a + " " + op + " " + b + ")", nil
		}
	}
	return "", fmt.Errorf("unsupported condition %s", e.p.exprText(x))
}

// clause translates the statements of one case clause; the last one must be
// `return []byte{...}`.
func (e *c04bEnv) clause(list []ast.Stmt) (string, error) {
	if len(list) == 0 {
		return "", fmt.Errorf("empty clause")
	}
	var b strings.Builder
	for i, s := range list {
		if i == len(list)-1 {
			rs, ok := s.(*ast.ReturnStmt)
			if !ok || len(rs.Results) != 1 {
				return "", fmt.Errorf("clause does not end with a single-value return")
			}
			cl, ok := rs.Results[0].(*ast.CompositeLit)
			if !ok || e.p.exprText(cl.Type) != "[]byte" {
				return "", fmt.Errorf("return value is not a []byte literal")
			}
			var parts []string
			for _, el := range cl.Elts {
				t, err := e.exprByte(el)
				if err != nil {
					return "", err
				}
				parts = append(parts, t)
			}
			b.WriteString("[" + strings.Join(parts, "; ") + "]")
			return b.String(), nil
		}
		as, ok := s.(*ast.AssignStmt)
		if !ok || len(as.Lhs) != 1 || len(as.Rhs) != 1 {
			return "", fmt.Errorf("unsupported statement %s", e.p.fset.Position(s.Pos()))
		}
		id, ok := as.Lhs[0].(*ast.Ident)
		if !ok {
			return "", fmt.Errorf("unsupported assignment target")
		}
		switch as.Tok {
		case token.DEFINE:
			// a new byte variable or a new int16 variable
			if t, err := e.exprByte(as.Rhs[0]); err == nil {
				e.bytes[id.Name] = true
				b.WriteString("let " + id.Name + " := " + t + " in ")
				continue
			}
			t, err := e.expr16(as.Rhs[0])
			if err != nil {
				return "", err
			}
			e.int16[id.Name] = true
			b.WriteString("let " + id.Name + " := " + t + " in ")
		case token.ASSIGN, token.ADD_ASSIGN, token.SUB_ASSIGN, token.SHR_ASSIGN:
			if !e.int16[id.Name] {
				return "", fmt.Errorf("assignment to %s, not an int16 variable", id.Name)
			}
			rhs := as.Rhs[0]
			switch as.Tok {
			case token.ADD_ASSIGN:
				rhs = &ast.BinaryExpr{X: id, Op: token.ADD, Y: rhs}
			case token.SUB_ASSIGN:
				rhs = &ast.BinaryExpr{X: id, Op: token.SUB, Y: rhs}
			case token.SHR_ASSIGN:
				rhs = &ast.BinaryExpr{X: id, Op: token.SHR, Y: rhs}
			}
			t, err := e.expr16(rhs)
			if err != nil {
				return "", err
			}
			b.WriteString("let " + id.Name + " := " + t + " in ")
		default:
			return "", fmt.Errorf("unsupported assignment operator %s", as.Tok)
		}
	}
	return "", fmt.Errorf("unreachable")
}

func c04bSwitchOf(p *pkgInfo, name string) (*ast.FuncDecl, *ast.SwitchStmt, string, error) {
	fd := c04bFindFunc(p, name)
	if fd == nil {
		return nil, nil, "", fmt.Errorf("function not found")
	}
	if len(fd.Type.Params.List) != 1 || len(fd.Type.Params.List[0].Names) != 1 {
		return nil, nil, "", fmt.Errorf("expected one parameter")
	}
	if t := p.exprText(fd.Type.Params.List[0].Type); t != "funit.Int16" && t != "int16" {
		return nil, nil, "", fmt.Errorf("parameter type %s is not int16", t)
	}
	if len(fd.Body.List) != 1 {
		return nil, nil, "", fmt.Errorf("body is not a single switch")
	}
	sw, ok := fd.Body.List[0].(*ast.SwitchStmt)
	if !ok || sw.Tag != nil || sw.Init != nil {
		return nil, nil, "", fmt.Errorf("body is not a tagless switch")
	}
	return fd, sw, fd.Type.Params.List[0].Names[0].Name, nil
}

func kindC04bSwitchFunc(root string, p *pkgInfo, it item) (string, error) {
	_, sw, param, err := c04bSwitchOf(p, it.Name)
	if err != nil {
		return "", err
	}
	var conds, bodies []string
	deflt := ""
	for _, s := range sw.Body.List {
		cc := s.(*ast.CaseClause)
		env := &c04bEnv{p: p, int16: map[string]bool{param: true}, bytes: map[string]bool{}}
		body, err := env.clause(cc.Body)
		if err != nil {
			return "", err
		}
		if cc.List == nil {
			deflt = body
			continue
		}
		if deflt != "" {
			return "", fmt.Errorf("default clause is not the last one")
		}
		if len(cc.List) != 1 {
			return "", fmt.Errorf("case with several expressions")
		}
		c, err := env.cond(cc.List[0])
		if err != nil {
			return "", err
		}
		conds = append(conds, c)
		bodies = append(bodies, body)
	}
	if deflt == "" {
		return "", fmt.Errorf("no default clause")
	}
	var b strings.Builder
	fmt.Fprintf(&b, "Definition %s (%s : Z) : list Z :=\n  (", it.Coq, param)
	for i := range conds {
		fmt.Fprintf(&b, "if %s then %s\n   else ", conds[i], bodies[i])
	}
	b.WriteString(deflt + ")%Z.\n")
	// the same clause bodies on their own, so that the model can select a form
	// by the regenerated ranges (c04b_caseranges)
	fmt.Fprintf(&b, "Definition %s_forms : list (Z -> list Z) :=\n  [", it.Coq)
	for i := range bodies {
		if i > 0 {
			b.WriteString(";\n   ")
		}
		fmt.Fprintf(&b, "(fun %s : Z => %s)%%Z", param, bodies[i])
	}
	b.WriteString("].\n")
	fmt.Fprintf(&b, "Definition %s_default : Z -> list Z := (fun %s : Z => %s)%%Z.\n", it.Coq, param, deflt)
	return b.String(), nil
}

// a conjunct `x OP lit` (or `lit OP x`) as a bound: lower (inclusive) or upper (inclusive)
func c04bBound(p *pkgInfo, param string, x ast.Expr) (lower bool, v int64, err error) {
	be, ok := x.(*ast.BinaryExpr)
	if !ok {
		return false, 0, fmt.Errorf("conjunct is not a comparison")
	}
	op := be.Op
	var lit ast.Expr
	if id, ok := be.X.(*ast.Ident); ok && id.Name == param {
		lit = be.Y
	} else if id, ok := be.Y.(*ast.Ident); ok && id.Name == param {
		lit = be.X
		op = map[token.Token]token.Token{token.LSS: token.GTR, token.LEQ: token.GEQ, token.GTR: token.LSS, token.GEQ: token.LEQ}[op]
	} else {
		return false, 0, fmt.Errorf("comparison does not involve %s", param)
	}
	v, err = p.evalInt(lit, 0)
	if err != nil {
		return false, 0, err
	}
	switch op {
	case token.GEQ:
		return true, v, nil
	case token.GTR:
		return true, v + 1, nil
	case token.LEQ:
		return false, v, nil
	case token.LSS:
		return false, v - 1, nil
	}
	return false, 0, fmt.Errorf("unsupported comparison")
}

func kindC04bCaseRanges(root string, p *pkgInfo, it item) (string, error) {
	_, sw, param, err := c04bSwitchOf(p, it.Name)
	if err != nil {
		return "", err
	}
	var parts []string
	for _, s := range sw.Body.List {
		cc := s.(*ast.CaseClause)
		if cc.List == nil {
			continue
		}
		if len(cc.List) != 1 {
			return "", fmt.Errorf("case with several expressions")
		}
		be, ok := cc.List[0].(*ast.BinaryExpr)
		if !ok || be.Op != token.LAND {
			return "", fmt.Errorf("case condition is not a conjunction of two bounds")
		}
		l1, v1, err := c04bBound(p, param, be.X)
		if err != nil {
			return "", err
		}
		l2, v2, err := c04bBound(p, param, be.Y)
		if err != nil {
			return "", err
		}
		if l1 == l2 {
			return "", fmt.Errorf("case condition does not give a lower and an upper bound")
		}
		lo, hi := v1, v2
		if !l1 {
			lo, hi = v2, v1
		}
		parts = append(parts, fmt.Sprintf("((%d)%%Z, (%d)%%Z)", lo, hi))
	}
	return fmt.Sprintf("Definition %s : list (Z * Z) := [%s].\n", it.Coq, strings.Join(parts, "; ")), nil
}

// ---- encodeNumber ----

// c04bRat evaluates a constant expression made of integer / decimal literals
// and + - * / exactly.
func c04bRat(x ast.Expr) (*big.Rat, error) {
	switch v := x.(type) {
	case *ast.ParenExpr:
		return c04bRat(v.X)
	case *ast.BasicLit:
		if v.Kind == token.INT || v.Kind == token.FLOAT {
			r, ok := new(big.Rat).SetString(v.Value)
			if ok {
				return r, nil
			}
		}
	case *ast.BinaryExpr:
		a, err := c04bRat(v.X)
		if err != nil {
			return nil, err
		}
		b, err := c04bRat(v.Y)
		if err != nil {
			return nil, err
		}
		switch v.Op {
		case token.ADD:
			return new(big.Rat).Add(a, b), nil
		case token.SUB:
			return new(big.Rat).Sub(a, b), nil
		case token.MUL:
			return new(big.Rat).Mul(a, b), nil
		case token.QUO:
			if b.Sign() == 0 {
				return nil, fmt.Errorf("division by zero")
			}
			return new(big.Rat).Quo(a, b), nil
		}
	}
	return nil, fmt.Errorf("not a constant")
}

func kindC04bEncNum(root string, p *pkgInfo, it item) (string, error) {
	fd := c04bFindFunc(p, it.Name)
	if fd == nil {
		return "", fmt.Errorf("function not found")
	}
	if len(fd.Type.Params.List) != 1 || p.exprText(fd.Type.Params.List[0].Type) != "float64" {
		return "", fmt.Errorf("expected one float64 parameter")
	}
	x := fd.Type.Params.List[0].Names[0].Name
	var ifs *ast.IfStmt
	var pre []ast.Stmt
	for _, s := range fd.Body.List {
		if i, ok := s.(*ast.IfStmt); ok {
			if ifs != nil {
				return "", fmt.Errorf("more than one if statement")
			}
			ifs = i
			continue
		}
		if ifs == nil {
			pre = append(pre, s)
		}
	}
	if ifs == nil || ifs.Init != nil {
		return "", fmt.Errorf("no plain if statement")
	}
	// x16 := funit.Int16(x)
	x16 := ""
	for _, s := range pre {
		if as, ok := s.(*ast.AssignStmt); ok && as.Tok == token.DEFINE && len(as.Lhs) == 1 {
			if t := p.exprText(as.Rhs[0]); t == "funit.Int16("+x+")" || t == "int16("+x+")" {
				x16 = as.Lhs[0].(*ast.Ident).Name
			}
		}
	}
	if x16 == "" {
		return "", fmt.Errorf("no truncating conversion of %s to int16", x)
	}
	// math.Abs(float64(x16)-x) <= tol
	be, ok := ifs.Cond.(*ast.BinaryExpr)
	if !ok || be.Op != token.LEQ || c04bNorm(p.exprText(be.X)) != "math.Abs(float64("+x16+") - "+x+")" {
		return "", fmt.Errorf("integer test is not math.Abs(float64(%s)-%s) <= tol", x16, x)
	}
	tol, err := c04bRat(be.Y)
	if err != nil {
		return "", fmt.Errorf("tolerance: %v", err)
	}
	// then-branch: code = encodeInt(x16); x = float64(x16)
	var thenTexts []string
	for _, s := range ifs.Body.List {
		thenTexts = append(thenTexts, c04bNorm(p.exprText2(s)))
	}
	sort.Strings(thenTexts)
	if strings.Join(thenTexts, " | ") != "code = encodeInt("+x16+") | "+x+" = float64("+x16+")" {
		return "", fmt.Errorf("integer branch has an unsupported shape: %v", thenTexts)
	}
	// else-branch
	eb, ok := ifs.Else.(*ast.BlockStmt)
	if !ok || len(eb.List) != 3 {
		return "", fmt.Errorf("16.16 branch has an unsupported shape")
	}
	var scale, unscale *big.Rat
	x32 := ""
	var layout []string
	for _, s := range eb.List {
		as, ok := s.(*ast.AssignStmt)
		if !ok || len(as.Lhs) != 1 || len(as.Rhs) != 1 {
			return "", fmt.Errorf("16.16 branch: unsupported statement")
		}
		lhs := as.Lhs[0].(*ast.Ident).Name
		switch {
		case as.Tok == token.DEFINE:
			// x32 := int32(math.Round(x * S))
			c1, ok := as.Rhs[0].(*ast.CallExpr)
			if !ok || p.exprText(c1.Fun) != "int32" || len(c1.Args) != 1 {
				return "", fmt.Errorf("16.16 branch: no int32 conversion")
			}
			c2, ok := c1.Args[0].(*ast.CallExpr)
			if !ok || p.exprText(c2.Fun) != "math.Round" || len(c2.Args) != 1 {
				return "", fmt.Errorf("16.16 branch: no math.Round")
			}
			m, ok := c2.Args[0].(*ast.BinaryExpr)
			if !ok || m.Op != token.MUL || p.exprText(m.X) != x {
				return "", fmt.Errorf("16.16 branch: rounded value is not %s * scale", x)
			}
			if scale, err = c04bRat(m.Y); err != nil {
				return "", err
			}
			x32 = lhs
		case lhs == "code":
			cl, ok := as.Rhs[0].(*ast.CompositeLit)
			if !ok || p.exprText(cl.Type) != "[]byte" || x32 == "" {
				return "", fmt.Errorf("16.16 branch: code is not a []byte literal")
			}
			for _, el := range cl.Elts {
				if v, err := p.evalInt(el, 0); err == nil {
					layout = append(layout, fmt.Sprintf("(%d)", v))
					continue
				}
				c, ok := el.(*ast.CallExpr)
				if !ok || p.exprText(c.Fun) != "byte" || len(c.Args) != 1 {
					return "", fmt.Errorf("16.16 branch: unsupported byte %s", p.exprText(el))
				}
				switch a := c.Args[0].(type) {
				case *ast.Ident:
					if a.Name != x32 {
						return "", fmt.Errorf("16.16 branch: byte of %s", a.Name)
					}
					layout = append(layout, "(c04b_byte "+x32+")")
				case *ast.BinaryExpr:
					k, err := p.evalInt(a.Y, 0)
					if a.Op != token.SHR || p.exprText(a.X) != x32 || err != nil {
						return "", fmt.Errorf("16.16 branch: unsupported byte %s", p.exprText(el))
					}
					layout = append(layout, fmt.Sprintf("(c04b_byte (Z.shiftr %s %d))", x32, k))
				default:
					return "", fmt.Errorf("16.16 branch: unsupported byte %s", p.exprText(el))
				}
			}
		case lhs == x:
			d, ok := as.Rhs[0].(*ast.BinaryExpr)
			if !ok || d.Op != token.QUO || p.exprText(d.X) != "float64("+x32+")" {
				return "", fmt.Errorf("16.16 branch: reported value is not float64(%s)/scale", x32)
			}
			if unscale, err = c04bRat(d.Y); err != nil {
				return "", err
			}
		default:
			return "", fmt.Errorf("16.16 branch: assignment to %s", lhs)
		}
	}
	if scale == nil || unscale == nil || layout == nil || !scale.IsInt() || !unscale.IsInt() {
		return "", fmt.Errorf("16.16 branch: incomplete")
	}
	var b strings.Builder
	fmt.Fprintf(&b, "Definition %s_tol : Z * Z := ((%s)%%Z, (%s)%%Z).\n", it.Coq, tol.Num().String(), tol.Denom().String())
	fmt.Fprintf(&b, "Definition %s_scale : Z := (%s)%%Z.\n", it.Coq, scale.Num().String())
	fmt.Fprintf(&b, "Definition %s_unscale : Z := (%s)%%Z.\n", it.Coq, unscale.Num().String())
	fmt.Fprintf(&b, "Definition %s_fixed (%s : Z) : list Z := [%s]%%Z.\n", it.Coq, x32, strings.Join(layout, "; "))
	return b.String(), nil
}

func (p *pkgInfo) exprText2(n ast.Node) string {
	var sb strings.Builder
	_ = printer.Fprint(&sb, p.fset, n)
	return sb.String()
}

// ---- operators ----

// constants of the declared type `typ` with their values
func c04bTypedConsts(p *pkgInfo, typ string) map[string]int64 {
	out := map[string]int64{}
	for _, f := range p.files {
		for _, d := range f.Decls {
			gd, ok := d.(*ast.GenDecl)
			if !ok || gd.Tok != token.CONST {
				continue
			}
			cur := ""
			for _, s := range gd.Specs {
				vs := s.(*ast.ValueSpec)
				if vs.Type != nil {
					cur = p.exprText(vs.Type)
				} else if len(vs.Values) > 0 {
					cur = ""
				}
				if cur != typ {
					continue
				}
				for _, n := range vs.Names {
					if v, err := p.evalInt(&ast.Ident{Name: n.Name}, 0); err == nil {
						out[n.Name] = v
					}
				}
			}
		}
	}
	return out
}

func kindC04bOpsUsed(root string, p *pkgInfo, it item) (string, error) {
	consts := c04bTypedConsts(p, "t2op")
	if len(consts) == 0 {
		return "", fmt.Errorf("no constants of type t2op")
	}
	var file *ast.File
	for _, f := range p.files {
		if filepath.Base(p.fset.Position(f.Pos()).Filename) == it.Name {
			file = f
		}
	}
	if file == nil {
		return "", fmt.Errorf("file not found")
	}
	used := map[string]bool{}
	ast.Inspect(file, func(n ast.Node) bool {
		if id, ok := n.(*ast.Ident); ok {
			if _, ok := consts[id.Name]; ok {
				used[id.Name] = true
			}
		}
		return true
	})
	var names []string
	for n := range used {
		names = append(names, n)
	}
	sort.Slice(names, func(i, j int) bool {
		if consts[names[i]] != consts[names[j]] {
			return consts[names[i]] < consts[names[j]]
		}
		return names[i] < names[j]
	})
	var parts []string
	for _, n := range names {
		parts = append(parts, fmt.Sprintf("(%s, (%d)%%Z)", coqString(n), consts[n]))
	}
	return fmt.Sprintf("Definition %s : list (string * Z) := [%s]%%string.\n", it.Coq, strings.Join(parts, ";\n  ")), nil
}

// the clauses of the `switch cmds[0].Op` of AppendEdges
func c04bEdgeClauses(p *pkgInfo, name string) ([]*ast.CaseClause, error) {
	fd := c04bFindFunc(p, name)
	if fd == nil {
		return nil, fmt.Errorf("function not found")
	}
	var sw *ast.SwitchStmt
	for _, s := range fd.Body.List {
		if x, ok := s.(*ast.SwitchStmt); ok {
			if sw != nil {
				return nil, fmt.Errorf("more than one switch")
			}
			sw = x
		}
	}
	if sw == nil || sw.Tag == nil {
		return nil, fmt.Errorf("no tagged switch")
	}
	var out []*ast.CaseClause
	for _, s := range sw.Body.List {
		cc := s.(*ast.CaseClause)
		if cc.List == nil {
			continue
		}
		out = append(out, cc)
	}
	return out, nil
}

func c04bClauseTag(p *pkgInfo, cc *ast.CaseClause) (int64, error) {
	if len(cc.List) != 1 {
		return 0, fmt.Errorf("case with several values")
	}
	return p.evalInt(cc.List[0], 0)
}

func kindC04bStackConds(root string, p *pkgInfo, it item) (string, error) {
	ccs, err := c04bEdgeClauses(p, it.Name)
	if err != nil {
		return "", err
	}
	var parts []string
	for _, cc := range ccs {
		tag, err := c04bClauseTag(p, cc)
		if err != nil {
			return "", err
		}
		var bad error
		ast.Inspect(cc, func(n ast.Node) bool {
			be, ok := n.(*ast.BinaryExpr)
			if !ok {
				return true
			}
			id, ok := be.Y.(*ast.Ident)
			if !ok || id.Name != "maxStack" {
				return true
			}
			l, ok := be.X.(*ast.BinaryExpr)
			if !ok || l.Op != token.ADD || c04bNorm(p.exprText(l.X)) != "len(code)" {
				bad = fmt.Errorf("comparison with maxStack of an unsupported shape: %s", p.exprText(be))
				return false
			}
			k, err := p.evalInt(l.Y, 0)
			if err != nil {
				bad = err
				return false
			}
			var op int
			switch be.Op {
			case token.LEQ:
				op = 0
			case token.GTR:
				op = 1
			default:
				bad = fmt.Errorf("comparison %s with maxStack", be.Op)
				return false
			}
			parts = append(parts, fmt.Sprintf("((%d)%%Z, (%d)%%Z, (%d)%%Z)", tag, k, op))
			return false
		})
		if bad != nil {
			return "", bad
		}
	}
	// any other mention of maxStack in the function is an unsupported shape
	fd := c04bFindFunc(p, it.Name)
	count := 0
	ast.Inspect(fd, func(n ast.Node) bool {
		if id, ok := n.(*ast.Ident); ok && id.Name == "maxStack" {
			count++
		}
		return true
	})
	if count != len(parts) {
		return "", fmt.Errorf("%d mentions of maxStack, %d supported comparisons", count, len(parts))
	}
	return fmt.Sprintf("Definition %s : list (Z * Z * Z) := [%s].\n", it.Coq, strings.Join(parts, "; ")), nil
}

// affine index expression in offs / checkIdx: c + a*offs + b*checkIdx
func c04bAffine(p *pkgInfo, x ast.Expr) (c, a, b int64, err error) {
	switch v := x.(type) {
	case *ast.ParenExpr:
		return c04bAffine(p, v.X)
	case *ast.BasicLit:
		c, err = p.evalInt(v, 0)
		return
	case *ast.Ident:
		switch v.Name {
		case "offs":
			return 0, 1, 0, nil
		case "checkIdx":
			return 0, 0, 1, nil
		}
	case *ast.BinaryExpr:
		if v.Op == token.ADD || v.Op == token.SUB {
			c1, a1, b1, e1 := c04bAffine(p, v.X)
			c2, a2, b2, e2 := c04bAffine(p, v.Y)
			if e1 != nil {
				return 0, 0, 0, e1
			}
			if e2 != nil {
				return 0, 0, 0, e2
			}
			if v.Op == token.ADD {
				return c1 + c2, a1 + a2, b1 + b2, nil
			}
			return c1 - c2, a1 - a2, b1 - b2, nil
		}
	}
	return 0, 0, 0, fmt.Errorf("index %s is not affine in offs / checkIdx", p.exprText(x))
}

// one argument of append(code, ...): (which, c, a, b); which = -1 for
// cmds[pos], 0 / 1 for cmds[0] / cmds[1], 100 for an operator (c = its code)
func c04bAppendArg(p *pkgInfo, ops map[string]int64, x ast.Expr) (string, error) {
	if call, ok := x.(*ast.CallExpr); ok {
		sel, ok := call.Fun.(*ast.SelectorExpr)
		if ok && sel.Sel.Name == "Bytes" && len(call.Args) == 0 {
			if id, ok := sel.X.(*ast.Ident); ok {
				if v, ok := ops[id.Name]; ok {
					return fmt.Sprintf("((100)%%Z, (%d)%%Z, (0)%%Z, (0)%%Z)", v), nil
				}
			}
		}
		return "", fmt.Errorf("unsupported call %s", p.exprText(x))
	}
	sel, ok := x.(*ast.SelectorExpr)
	if !ok || sel.Sel.Name != "Code" {
		return "", fmt.Errorf("unsupported operand %s", p.exprText(x))
	}
	ix, ok := sel.X.(*ast.IndexExpr)
	if !ok {
		return "", fmt.Errorf("unsupported operand %s", p.exprText(x))
	}
	as, ok := ix.X.(*ast.SelectorExpr)
	if !ok || as.Sel.Name != "Args" {
		return "", fmt.Errorf("unsupported operand %s", p.exprText(x))
	}
	cx, ok := as.X.(*ast.IndexExpr)
	if !ok || p.exprText(cx.X) != "cmds" {
		return "", fmt.Errorf("unsupported operand %s", p.exprText(x))
	}
	var which int64
	if id, ok := cx.Index.(*ast.Ident); ok && id.Name == "pos" {
		which = -1
	} else {
		v, err := p.evalInt(cx.Index, 0)
		if err != nil || v < 0 || v > 1 {
			return "", fmt.Errorf("unsupported command index %s", p.exprText(cx.Index))
		}
		which = v
	}
	c, a, b, err := c04bAffine(p, ix.Index)
	if err != nil {
		return "", err
	}
	return fmt.Sprintf("((%d)%%Z, (%d)%%Z, (%d)%%Z, (%d)%%Z)", which, c, a, b), nil
}

func kindC04bAppendArgs(root string, p *pkgInfo, it item) (string, error) {
	ccs, err := c04bEdgeClauses(p, it.Name)
	if err != nil {
		return "", err
	}
	ops := c04bTypedConsts(p, "t2op")
	var lists []string
	for _, cc := range ccs {
		tag, err := c04bClauseTag(p, cc)
		if err != nil {
			return "", err
		}
		var bad error
		ast.Inspect(cc, func(n ast.Node) bool {
			call, ok := n.(*ast.CallExpr)
			if !ok {
				return true
			}
			id, ok := call.Fun.(*ast.Ident)
			if !ok || id.Name != "append" || len(call.Args) < 2 {
				return true
			}
			if first, ok := call.Args[0].(*ast.Ident); !ok || first.Name != "code" {
				return true
			}
			var parts []string
			for _, a := range call.Args[1:] {
				s, err := c04bAppendArg(p, ops, a)
				if err != nil {
					bad = err
					return false
				}
				parts = append(parts, s)
			}
			lists = append(lists, fmt.Sprintf("((%d)%%Z, [%s])", tag, strings.Join(parts, "; ")))
			return false
		})
		if bad != nil {
			return "", bad
		}
	}
	return fmt.Sprintf("Definition %s : list (Z * list (Z * Z * Z * Z)) :=\n  [%s].\n", it.Coq, strings.Join(lists, ";\n   ")), nil
}

func kindC04bCopyOps(root string, p *pkgInfo, it item) (string, error) {
	ccs, err := c04bEdgeClauses(p, it.Name)
	if err != nil {
		return "", err
	}
	ops := c04bTypedConsts(p, "t2op")
	var parts []string
	for _, cc := range ccs {
		tag, err := c04bClauseTag(p, cc)
		if err != nil {
			return "", err
		}
		// the operator lists `ops := []t2op{a, b}` / `ops = []t2op{a, b}` of the clause, in order
		var bad error
		ast.Inspect(cc, func(n ast.Node) bool {
			switch v := n.(type) {
			case *ast.CompositeLit:
				if p.exprText(v.Type) == "[]t2op" {
					for i, el := range v.Elts {
						id, ok := el.(*ast.Ident)
						if !ok {
							bad = fmt.Errorf("operator list with a non-constant element")
							return false
						}
						val, ok := ops[id.Name]
						if !ok {
							bad = fmt.Errorf("unknown operator %s", id.Name)
							return false
						}
						// (clause, 1 = list element, index in the list, operator)
						parts = append(parts, fmt.Sprintf("((%d)%%Z, (1)%%Z, (%d)%%Z, (%d)%%Z)", tag, i, val))
					}
					return false
				}
			case *ast.CallExpr:
				if id, ok := v.Fun.(*ast.Ident); ok && id.Name == "copyOp" && len(v.Args) >= 2 {
					if oid, ok := v.Args[1].(*ast.Ident); ok {
						if val, ok := ops[oid.Name]; ok {
							// (clause, 0 = direct call, number of extra arguments, operator)
							parts = append(parts, fmt.Sprintf("((%d)%%Z, (0)%%Z, (%d)%%Z, (%d)%%Z)", tag, len(v.Args)-2, val))
						} else if oid.Name != "op" {
							bad = fmt.Errorf("copyOp with operator %s", oid.Name)
							return false
						}
					} else {
						bad = fmt.Errorf("copyOp with a computed operator")
						return false
					}
				}
			}
			return true
		})
		if bad != nil {
			return "", bad
		}
	}
	return fmt.Sprintf("Definition %s : list (Z * Z * Z * Z) :=\n  [%s].\n", it.Coq, strings.Join(parts, "; ")), nil
}

// ---- source text ----

func kindC04bSrcText(root string, p *pkgInfo, it item) (string, error) {
	fd := c04bFindFunc(p, it.Name)
	if fd == nil {
		return "", fmt.Errorf("function not found")
	}
	var out []string
	for _, s := range fd.Body.List {
		t := c04bNorm(p.exprText2(s))
		if it.Lhs != "" && !strings.Contains(t, it.Lhs) {
			continue
		}
		out = append(out, t)
	}
	if len(out) == 0 {
		return "", fmt.Errorf("no statement selected")
	}
	return c04bStrList(it.Coq, out), nil
}

// ---- glyph.go ----

func kindC04bBuilder(root string, p *pkgInfo, it item) (string, error) {
	opc := c04bTypedConsts(p, "GlyphOpType")
	var parts []string
	for _, m := range strings.Split(it.Arg, ",") {
		fd := c04bFindFunc(p, "Glyph."+m)
		if fd == nil {
			return "", fmt.Errorf("method %s not found", m)
		}
		if _, ok := fd.Recv.List[0].Type.(*ast.StarExpr); !ok {
			return "", fmt.Errorf("%s: value receiver", m)
		}
		recv := fd.Recv.List[0].Names[0].Name
		var params []string
		for _, f := range fd.Type.Params.List {
			if p.exprText(f.Type) != "float64" {
				return "", fmt.Errorf("%s: parameter of type %s", m, p.exprText(f.Type))
			}
			for _, n := range f.Names {
				params = append(params, n.Name)
			}
		}
		if fd.Type.Results != nil || len(fd.Body.List) != 1 {
			return "", fmt.Errorf("%s: body is not a single statement", m)
		}
		as, ok := fd.Body.List[0].(*ast.AssignStmt)
		if !ok || as.Tok != token.ASSIGN || len(as.Lhs) != 1 || p.exprText(as.Lhs[0]) != recv+".Cmds" {
			return "", fmt.Errorf("%s: statement is not %s.Cmds = ...", m, recv)
		}
		call, ok := as.Rhs[0].(*ast.CallExpr)
		if !ok || p.exprText(call.Fun) != "append" || len(call.Args) != 2 || p.exprText(call.Args[0]) != recv+".Cmds" {
			return "", fmt.Errorf("%s: right-hand side is not append(%s.Cmds, one element)", m, recv)
		}
		cl, ok := call.Args[1].(*ast.CompositeLit)
		if !ok || p.exprText(cl.Type) != "GlyphOp" || len(cl.Elts) != 2 {
			return "", fmt.Errorf("%s: appended value is not a GlyphOp literal with two fields", m)
		}
		var op int64 = -1
		var idx []string
		for _, el := range cl.Elts {
			kv, ok := el.(*ast.KeyValueExpr)
			if !ok {
				return "", fmt.Errorf("%s: positional literal", m)
			}
			switch p.exprText(kv.Key) {
			case "Op":
				id, ok := kv.Value.(*ast.Ident)
				if !ok {
					return "", fmt.Errorf("%s: Op is not a constant", m)
				}
				v, ok := opc[id.Name]
				if !ok {
					return "", fmt.Errorf("%s: unknown operator %s", m, id.Name)
				}
				op = v
			case "Args":
				al, ok := kv.Value.(*ast.CompositeLit)
				if !ok || p.exprText(al.Type) != "[]float64" {
					return "", fmt.Errorf("%s: Args is not a []float64 literal", m)
				}
				for _, a := range al.Elts {
					id, ok := a.(*ast.Ident)
					pos := -1
					if ok {
						for i, n := range params {
							if n == id.Name {
								pos = i
							}
						}
					}
					if pos < 0 {
						return "", fmt.Errorf("%s: argument %s is not a parameter", m, p.exprText(a))
					}
					idx = append(idx, fmt.Sprintf("%d%%nat", pos))
				}
			default:
				return "", fmt.Errorf("%s: field %s", m, p.exprText(kv.Key))
			}
		}
		if op < 0 || idx == nil {
			return "", fmt.Errorf("%s: incomplete literal", m)
		}
		parts = append(parts, fmt.Sprintf("((%d)%%Z, %d%%nat, [%s])", op, len(params), strings.Join(idx, "; ")))
	}
	return fmt.Sprintf("Definition %s : list (Z * nat * list nat) :=\n  [%s].\n", it.Coq, strings.Join(parts, ";\n   ")), nil
}

func kindC04bNewGlyph(root string, p *pkgInfo, it item) (string, error) {
	fd := c04bFindFunc(p, it.Name)
	if fd == nil {
		return "", fmt.Errorf("function not found")
	}
	var params []string
	for _, f := range fd.Type.Params.List {
		for _, n := range f.Names {
			params = append(params, n.Name)
		}
	}
	if len(fd.Body.List) != 1 {
		return "", fmt.Errorf("body is not a single return")
	}
	rs, ok := fd.Body.List[0].(*ast.ReturnStmt)
	if !ok || len(rs.Results) != 1 {
		return "", fmt.Errorf("body is not a single return")
	}
	ue, ok := rs.Results[0].(*ast.UnaryExpr)
	if !ok || ue.Op != token.AND {
		return "", fmt.Errorf("result is not &Glyph{...}")
	}
	cl, ok := ue.X.(*ast.CompositeLit)
	if !ok || p.exprText(cl.Type) != "Glyph" {
		return "", fmt.Errorf("result is not &Glyph{...}")
	}
	var parts []string
	for _, el := range cl.Elts {
		kv, ok := el.(*ast.KeyValueExpr)
		if !ok {
			return "", fmt.Errorf("positional literal")
		}
		id, ok := kv.Value.(*ast.Ident)
		pos := -1
		if ok {
			for i, n := range params {
				if n == id.Name {
					pos = i
				}
			}
		}
		if pos < 0 {
			return "", fmt.Errorf("field %s is not set from a parameter", p.exprText(kv.Key))
		}
		parts = append(parts, fmt.Sprintf("(%s, %d%%nat)", coqString(p.exprText(kv.Key)), pos))
	}
	return fmt.Sprintf("Definition %s : list (string * nat) := [%s]%%string.\n", it.Coq, strings.Join(parts, "; ")), nil
}

func kindC04bDoc(root string, p *pkgInfo, it item) (string, error) {
	// loadPkg parses without comments; parse the package again with them
	full := filepath.Join(root, it.Pkg)
	ents, err := os.ReadDir(full)
	if err != nil {
		return "", err
	}
	fset := token.NewFileSet()
	for _, e := range ents {
		n := e.Name()
		if e.IsDir() || !strings.HasSuffix(n, ".go") || strings.HasSuffix(n, "_test.go") || strings.HasPrefix(n, "verif_") {
			continue
		}
		f, err := parser.ParseFile(fset, filepath.Join(full, n), nil, parser.ParseComments)
		if err != nil {
			return "", err
		}
		for _, d := range f.Decls {
			fd, ok := d.(*ast.FuncDecl)
			if !ok || c04bFuncName(fd) != it.Name {
				continue
			}
			doc := ""
			if fd.Doc != nil {
				doc = c04bNorm(fd.Doc.Text())
			}
			return fmt.Sprintf("Definition %s : string := %s%%string.\n", it.Coq, coqString(doc)), nil
		}
	}
	return "", fmt.Errorf("function not found")
}

func init() {
	kinds["c04b_prelude"] = func(root string, p *pkgInfo, it item) (string, error) {
		return "Definition c04b_i16 (z : Z) : Z := ((z + 32768) mod 65536 - 32768)%Z.\n" +
			"Definition c04b_byte (z : Z) : Z := (z mod 256)%Z.\n", nil
	}
	kinds["c04b_switchfunc"] = kindC04bSwitchFunc
	kinds["c04b_caseranges"] = kindC04bCaseRanges
	kinds["c04b_encnum"] = kindC04bEncNum
	kinds["c04b_opsused"] = kindC04bOpsUsed
	kinds["c04b_stackconds"] = kindC04bStackConds
	kinds["c04b_appendargs"] = kindC04bAppendArgs
	kinds["c04b_copyops"] = kindC04bCopyOps
	kinds["c04b_srctext"] = kindC04bSrcText
	kinds["c04b_builder"] = kindC04bBuilder
	kinds["c04b_newglyph"] = kindC04bNewGlyph
	kinds["c04b_doc"] = kindC04bDoc
}
