package main

// Item kinds of part C18B (sfnt.Read at the level of tables).  All of them
// look at one function (item "name", normally Read in the root package) and
// emit what the model of C18B/Model.v mirrors, in source order:
//
//	c18b_sites      every dir.TableReader(rr, X) / dir.ReadTableBytes(rr, X)
//	                call as (tag, ReadTableBytes?, missing tolerated?, behind
//	                dir.Has?) : list (N * bool * bool * bool).  X is a string
//	                literal or the variable of a `for _, X := range
//	                []string{...}` loop (expanded).  "missing tolerated": the
//	                if statement that follows tests header.IsMissing(err).
//	                "behind dir.Has": the call sits in the body of `if
//	                dir.Has(X)` or after `if !dir.Has(X) { continue }`.
//	c18b_decoders   the calls pkg.Read / pkg.Decode of the table packages, as
//	                list string ("head.Read"; ...)
//	c18b_blank      calls one of whose results is assigned to the blank
//	                identifier: list string of the method / function names
//	c18b_returns    the return statements: (first result is the literal nil,
//	                second result is the literal nil) : list (bool * bool)
//	c18b_conds      the conditions of the if statements that steer reading
//	                (those mentioning err, dir., hasGlyf, numGlyphs, ...Data,
//	                ...Fd, headInfo == nil, maxpInfo == nil, hmtxInfo != nil,
//	                !ok), as list string
//	c18b_scaler     the switch over dir.ScalerType: the constants of every
//	                case clause (list (list string)); the item is lost unless
//	                the default clause is a call of panic
import (
	"fmt"
	"go/ast"
	"go/token"
	"strconv"
	"strings"
)

type c18bSite struct {
	tag      string
	bytes    bool
	optional bool
	guarded  bool
}

func coqBool(b bool) string {
	if b {
		return "true"
	}
	return "false"
}

func c18bStrLit(e ast.Expr) (string, bool) {
	bl, ok := e.(*ast.BasicLit)
	if !ok || bl.Kind != token.STRING {
		return "", false
	}
	s, err := strconv.Unquote(bl.Value)
	return s, err == nil
}

// dirCall recognises dir.<method>(...) and returns the method name.
func c18bDirCall(e ast.Expr) (*ast.CallExpr, string) {
	ce, ok := e.(*ast.CallExpr)
	if !ok {
		return nil, ""
	}
	se, ok := ce.Fun.(*ast.SelectorExpr)
	if !ok {
		return nil, ""
	}
	id, ok := se.X.(*ast.Ident)
	if !ok || id.Name != "dir" {
		return nil, ""
	}
	return ce, se.Sel.Name
}

type c18bWalker struct {
	p     *pkgInfo
	sites []c18bSite
	err   error
}

// hasArg: the argument X of dir.Has(X) when cond is exactly that call (neg:
// !dir.Has(X)); "" otherwise.
func (w *c18bWalker) hasArg(cond ast.Expr, neg bool) string {
	if neg {
		ue, ok := cond.(*ast.UnaryExpr)
		if !ok || ue.Op != token.NOT {
			return ""
		}
		cond = ue.X
	}
	ce, m := c18bDirCall(cond)
	if ce == nil || m != "Has" || len(ce.Args) != 1 {
		return ""
	}
	return w.p.exprText(ce.Args[0])
}

func (w *c18bWalker) block(stmts []ast.Stmt, guards map[string]bool, loopVar string, loopVals []string) {
	guards = copyGuards(guards)
	for i, st := range stmts {
		switch s := st.(type) {
		case *ast.AssignStmt:
			for _, rhs := range s.Rhs {
				ce, m := c18bDirCall(rhs)
				if ce == nil || (m != "TableReader" && m != "ReadTableBytes") || len(ce.Args) != 2 {
					continue
				}
				optional := false
				if i+1 < len(stmts) {
					if ifs, ok := stmts[i+1].(*ast.IfStmt); ok {
						optional = strings.Contains(w.p.exprText(ifs.Cond), "IsMissing")
					}
				}
				argText := w.p.exprText(ce.Args[1])
				var tags []string
				if lit, ok := c18bStrLit(ce.Args[1]); ok {
					tags = []string{lit}
				} else if id, ok := ce.Args[1].(*ast.Ident); ok && id.Name == loopVar {
					tags = loopVals
				} else {
					w.err = fmt.Errorf("table name %s is neither a literal nor a range variable", argText)
					return
				}
				for _, t := range tags {
					w.sites = append(w.sites, c18bSite{tag: t, bytes: m == "ReadTableBytes", optional: optional, guarded: guards[argText]})
				}
			}
		case *ast.IfStmt:
			w.ifStmt(s, guards, loopVar, loopVals)
			// `if !dir.Has(X) { continue }`: what follows is behind dir.Has(X)
			if x := w.hasArg(s.Cond, true); x != "" && s.Else == nil && len(s.Body.List) == 1 {
				if bs, ok := s.Body.List[0].(*ast.BranchStmt); ok && bs.Tok == token.CONTINUE {
					guards[x] = true
				}
			}
		case *ast.BlockStmt:
			w.block(s.List, guards, loopVar, loopVals)
		case *ast.RangeStmt:
			lv, vals := loopVar, loopVals
			if cl, ok := s.X.(*ast.CompositeLit); ok {
				if id, ok := s.Value.(*ast.Ident); ok {
					var vs []string
					all := true
					for _, e := range cl.Elts {
						v, ok := c18bStrLit(e)
						if !ok {
							all = false
						}
						vs = append(vs, v)
					}
					if all {
						lv, vals = id.Name, vs
					}
				}
			}
			w.block(s.Body.List, guards, lv, vals)
		case *ast.ForStmt:
			w.block(s.Body.List, guards, loopVar, loopVals)
		case *ast.SwitchStmt:
			for _, c := range s.Body.List {
				if cc, ok := c.(*ast.CaseClause); ok {
					w.block(cc.Body, guards, loopVar, loopVals)
				}
			}
		}
		if w.err != nil {
			return
		}
	}
}

func copyGuards(g map[string]bool) map[string]bool {
	n := map[string]bool{}
	for k, v := range g {
		n[k] = v
	}
	return n
}

func (w *c18bWalker) ifStmt(s *ast.IfStmt, guards map[string]bool, loopVar string, loopVals []string) {
	g := guards
	if x := w.hasArg(s.Cond, false); x != "" {
		g = copyGuards(guards)
		g[x] = true
	}
	w.block(s.Body.List, g, loopVar, loopVals)
	switch e := s.Else.(type) {
	case *ast.IfStmt:
		w.ifStmt(e, guards, loopVar, loopVals)
	case *ast.BlockStmt:
		w.block(e.List, guards, loopVar, loopVals)
	}
}

var c18bTablePkgs = map[string]bool{"head": true, "maxp": true, "os2": true, "hmtx": true, "cmap": true, "name": true,
	"post": true, "cff": true, "glyf": true, "gdef": true, "gtab": true, "kern": true}

func c18bStrList(name string, xs []string) string {
	parts := make([]string, len(xs))
	for i, s := range xs {
		parts[i] = coqString(s)
	}
	return fmt.Sprintf("Definition %s : list string := [%s]%%string.\n", name, strings.Join(parts, "; "))
}

func init() {
	kinds["c18b_sites"] = func(root string, p *pkgInfo, it item) (string, error) {
		fd := p.findFunc(it.Name)
		if fd == nil || fd.Body == nil {
			return "", fmt.Errorf("function not found")
		}
		w := &c18bWalker{p: p}
		w.block(fd.Body.List, map[string]bool{}, "", nil)
		if w.err != nil {
			return "", w.err
		}
		if len(w.sites) == 0 {
			return "", fmt.Errorf("no table access found")
		}
		var parts []string
		for _, s := range w.sites {
			t, err := tagN(s.tag)
			if err != nil {
				return "", err
			}
			parts = append(parts, fmt.Sprintf("(%d%%N, %s, %s, %s)", t, coqBool(s.bytes), coqBool(s.optional), coqBool(s.guarded)))
		}
		return fmt.Sprintf("Definition %s : list (N * bool * bool * bool) := [\n  %s].\n", it.Coq, strings.Join(parts, ";\n  ")), nil
	}

	kinds["c18b_decoders"] = func(root string, p *pkgInfo, it item) (string, error) {
		fd := p.findFunc(it.Name)
		if fd == nil {
			return "", fmt.Errorf("function not found")
		}
		var out []string
		ast.Inspect(fd, func(n ast.Node) bool {
			ce, ok := n.(*ast.CallExpr)
			if !ok {
				return true
			}
			se, ok := ce.Fun.(*ast.SelectorExpr)
			if !ok {
				return true
			}
			id, ok := se.X.(*ast.Ident)
			if ok && c18bTablePkgs[id.Name] && (se.Sel.Name == "Read" || se.Sel.Name == "Decode") {
				out = append(out, id.Name+"."+se.Sel.Name)
			}
			return true
		})
		if len(out) == 0 {
			return "", fmt.Errorf("no decoder call found")
		}
		return c18bStrList(it.Coq, out), nil
	}

	kinds["c18b_blank"] = func(root string, p *pkgInfo, it item) (string, error) {
		fd := p.findFunc(it.Name)
		if fd == nil {
			return "", fmt.Errorf("function not found")
		}
		out := []string{}
		ast.Inspect(fd, func(n ast.Node) bool {
			as, ok := n.(*ast.AssignStmt)
			if !ok || len(as.Rhs) != 1 {
				return true
			}
			ce, ok := as.Rhs[0].(*ast.CallExpr)
			if !ok {
				return true
			}
			blank := false
			for _, l := range as.Lhs {
				if id, ok := l.(*ast.Ident); ok && id.Name == "_" {
					blank = true
				}
			}
			if !blank {
				return true
			}
			switch f := ce.Fun.(type) {
			case *ast.SelectorExpr:
				out = append(out, f.Sel.Name)
			case *ast.Ident:
				out = append(out, f.Name)
			default:
				out = append(out, p.exprText(ce.Fun))
			}
			return true
		})
		return c18bStrList(it.Coq, out), nil
	}

	kinds["c18b_returns"] = func(root string, p *pkgInfo, it item) (string, error) {
		fd := p.findFunc(it.Name)
		if fd == nil {
			return "", fmt.Errorf("function not found")
		}
		var parts []string
		bad := ""
		ast.Inspect(fd, func(n ast.Node) bool {
			if _, ok := n.(*ast.FuncLit); ok {
				return false
			}
			rs, ok := n.(*ast.ReturnStmt)
			if !ok {
				return true
			}
			if len(rs.Results) != 2 {
				bad = "return statement without two results"
				return true
			}
			isNil := func(e ast.Expr) bool { id, ok := e.(*ast.Ident); return ok && id.Name == "nil" }
			parts = append(parts, fmt.Sprintf("(%s, %s)", coqBool(isNil(rs.Results[0])), coqBool(isNil(rs.Results[1]))))
			return true
		})
		if bad != "" {
			return "", fmt.Errorf("%s", bad)
		}
		if len(parts) == 0 {
			return "", fmt.Errorf("no return statement")
		}
		return fmt.Sprintf("Definition %s : list (bool * bool) := [%s].\n", it.Coq, strings.Join(parts, "; ")), nil
	}

	kinds["c18b_conds"] = func(root string, p *pkgInfo, it item) (string, error) {
		fd := p.findFunc(it.Name)
		if fd == nil {
			return "", fmt.Errorf("function not found")
		}
		marks := []string{"err", "dir.", "hasGlyf", "numGlyphs", "Data != nil", "Fd != nil", "headInfo == nil", "maxpInfo == nil", "hmtxInfo != nil", "!ok"}
		var out []string
		ast.Inspect(fd, func(n ast.Node) bool {
			ifs, ok := n.(*ast.IfStmt)
			if !ok {
				return true
			}
			txt := strings.Join(strings.Fields(p.exprText(ifs.Cond)), " ")
			for _, m := range marks {
				if strings.Contains(txt, m) {
					out = append(out, txt)
					break
				}
			}
			return true
		})
		if len(out) == 0 {
			return "", fmt.Errorf("no condition found")
		}
		return c18bStrList(it.Coq, out), nil
	}

	kinds["c18b_scaler"] = func(root string, p *pkgInfo, it item) (string, error) {
		fd := p.findFunc(it.Name)
		if fd == nil {
			return "", fmt.Errorf("function not found")
		}
		var sw *ast.SwitchStmt
		ast.Inspect(fd, func(n ast.Node) bool {
			s, ok := n.(*ast.SwitchStmt)
			if ok && s.Tag != nil && p.exprText(s.Tag) == "dir.ScalerType" {
				if sw != nil {
					sw = nil
					return false
				}
				sw = s
			}
			return true
		})
		if sw == nil {
			return "", fmt.Errorf("expected exactly one switch over dir.ScalerType")
		}
		var clauses []string
		defaultPanics := false
		for _, c := range sw.Body.List {
			cc := c.(*ast.CaseClause)
			if cc.List == nil {
				if len(cc.Body) == 1 {
					if es, ok := cc.Body[0].(*ast.ExprStmt); ok {
						if ce, ok := es.X.(*ast.CallExpr); ok {
							if id, ok := ce.Fun.(*ast.Ident); ok && id.Name == "panic" {
								defaultPanics = true
							}
						}
					}
				}
				continue
			}
			var names []string
			for _, e := range cc.List {
				txt := p.exprText(e)
				if i := strings.LastIndex(txt, "."); i >= 0 {
					txt = txt[i+1:]
				}
				names = append(names, coqString(txt))
			}
			clauses = append(clauses, "["+strings.Join(names, "; ")+"]")
		}
		if !defaultPanics {
			return "", fmt.Errorf("the default clause is not a call of panic")
		}
		return fmt.Sprintf("Definition %s : list (list string) := [%s]%%string.\n", it.Coq, strings.Join(clauses, "; ")), nil
	}
}
