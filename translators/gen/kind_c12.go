package main

// Translator kind used by property C12 (metrics and header tables).
//
//	c12_masks   inside the function `name`, every integer constant that is the
//	            right operand of the binary operator `op` whose left operand
//	            prints as `lhs`, or (for the operators |=, &=, &^=) the right
//	            side of an assignment with that operator to `lhs`, in source
//	            order                                        -> list N
//
// It ties the bit masks and version thresholds of head.Read / head.Encode /
// os2.Read / os2.Encode to the literals used in the Coq model.  For methods,
// `arg` names the receiver type (e.g. "Info") to tell Encode methods of
// different types in one package apart; empty = any.

import (
	"fmt"
	"go/ast"
	"strings"
)

func c12FindFunc(p *pkgInfo, name, recv string) *ast.FuncDecl {
	for _, f := range p.files {
		for _, d := range f.Decls {
			fd, ok := d.(*ast.FuncDecl)
			if !ok || fd.Name.Name != name {
				continue
			}
			if recv == "" {
				return fd
			}
			if fd.Recv != nil && len(fd.Recv.List) == 1 {
				t := p.exprText(fd.Recv.List[0].Type)
				if strings.TrimPrefix(t, "*") == recv {
					return fd
				}
			}
		}
	}
	return nil
}

func init() {
	kinds["c12_masks"] = func(root string, p *pkgInfo, it item) (string, error) {
		fd := c12FindFunc(p, it.Name, it.Arg)
		if fd == nil {
			return "", fmt.Errorf("function not found")
		}
		var vals []string
		ast.Inspect(fd, func(n ast.Node) bool {
			switch x := n.(type) {
			case *ast.BinaryExpr:
				if x.Op.String() == it.Op && p.exprText(x.X) == it.Lhs {
					if v, err := p.evalInt(x.Y, 0); err == nil {
						vals = append(vals, fmt.Sprintf("%d%%N", v))
					}
				}
			case *ast.AssignStmt:
				if x.Tok.String() == it.Op && len(x.Lhs) == 1 && len(x.Rhs) == 1 && p.exprText(x.Lhs[0]) == it.Lhs {
					if v, err := p.evalInt(x.Rhs[0], 0); err == nil {
						vals = append(vals, fmt.Sprintf("%d%%N", v))
					}
				}
			}
			return true
		})
		if len(vals) == 0 {
			return "", fmt.Errorf("no `%s %s <constant>` in %s", it.Lhs, it.Op, it.Name)
		}
		return fmt.Sprintf("Definition %s : list N := [%s].\n", it.Coq, strings.Join(vals, "; ")), nil
	}
}
