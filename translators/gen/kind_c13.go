package main

// Translator kinds used by property C13 (CFF structures and numbers).
//
//	c13_prelude   the fixed-width wrap functions the translated code refers to
//	c13_func      a top-level function of one integer argument whose body is
//	              made of switch/if/return/assignments (cff.offsSize) -> Z -> Z
//	c13_dictint   the "case int32:" branch of the type switch in the method
//	              (cffDict).encode: the statements writing one integer operand
//	              to the output buffer                               -> Z -> list Z
//	c13_strcount  the number of entries of a package-level []string literal -> N
//	c13_strindex  a package-level []string literal, each entry replaced by its
//	              index in another []string literal (arg)            -> list N
//	              (predefined charsets as SIDs: what strings.lookup returns
//	              for names of the standard string table)
//
// The statement translator supports exactly: tag-less switch, if/else,
// return, := and = of a single identifier, op-assignments (+= -= >>= <<=),
// integer conversions, + - * << >> and comparisons, res.WriteByte(e) and
// res.Write([]byte{...}).  Go's fixed-width arithmetic is emitted with an
// explicit wrap after every operation.  Anything else is an error (LOST).

import (
	"fmt"
	"go/ast"
	"go/token"
	"strconv"
	"strings"
)

const c13Prelude = `Definition gw_u8 (z : Z) : Z := (z mod 256)%Z.
Definition gw_u16 (z : Z) : Z := (z mod 65536)%Z.
Definition gw_u32 (z : Z) : Z := (z mod 4294967296)%Z.
Definition gw_i16 (z : Z) : Z := ((z + 32768) mod 65536 - 32768)%Z.
Definition gw_i32 (z : Z) : Z := ((z + 2147483648) mod 4294967296 - 2147483648)%Z.
Definition gw_i64 (z : Z) : Z := ((z + 9223372036854775808) mod 18446744073709551616 - 9223372036854775808)%Z.
`

var c13Wrap = map[string]string{
	"byte": "gw_u8", "uint8": "gw_u8", "uint16": "gw_u16", "uint32": "gw_u32",
	"int16": "gw_i16", "int32": "gw_i32", "int": "gw_i64", "int64": "gw_i64",
}

type c13tr struct {
	p     *pkgInfo
	types map[string]string // variable -> Go type
	sink  string            // name of the bytes.Buffer variable (writer mode), "" otherwise
}

func (t *c13tr) constant(e ast.Expr) (int64, bool) {
	v, err := t.p.evalInt(e, 0)
	if err != nil {
		return 0, false
	}
	// evalInt resolves package constants but must not be used on variables
	bad := false
	ast.Inspect(e, func(n ast.Node) bool {
		if id, ok := n.(*ast.Ident); ok {
			if _, isVar := t.types[id.Name]; isVar {
				bad = true
			}
		}
		return true
	})
	if bad {
		return 0, false
	}
	return v, true
}

func zlit(v int64) string { return fmt.Sprintf("(%d)", v) }

// expr translates an integer or boolean expression; typ is the Go type
// ("" for an untyped constant, "bool" for conditions).
func (t *c13tr) expr(e ast.Expr) (string, string, error) {
	if v, ok := t.constant(e); ok {
		if _, isCall := e.(*ast.CallExpr); !isCall {
			return zlit(v), "", nil
		}
	}
	switch x := e.(type) {
	case *ast.ParenExpr:
		return t.expr(x.X)
	case *ast.Ident:
		ty, ok := t.types[x.Name]
		if !ok {
			return "", "", fmt.Errorf("unknown variable %s", x.Name)
		}
		return x.Name, ty, nil
	case *ast.UnaryExpr:
		a, ty, err := t.expr(x.X)
		if err != nil {
			return "", "", err
		}
		switch x.Op {
		case token.SUB:
			if ty == "" || ty == "bool" {
				return "", "", fmt.Errorf("unsupported negation")
			}
			return fmt.Sprintf("(%s (- %s))", c13Wrap[ty], a), ty, nil
		case token.NOT:
			if ty != "bool" {
				return "", "", fmt.Errorf("! of a non-boolean")
			}
			return fmt.Sprintf("(negb %s)", a), "bool", nil
		}
	case *ast.CallExpr:
		if id, ok := x.Fun.(*ast.Ident); ok && len(x.Args) == 1 {
			if w, ok := c13Wrap[id.Name]; ok {
				a, ty, err := t.expr(x.Args[0])
				if err != nil {
					return "", "", err
				}
				if ty == "bool" {
					return "", "", fmt.Errorf("conversion of a boolean")
				}
				return fmt.Sprintf("(%s %s)", w, a), id.Name, nil
			}
		}
	case *ast.BinaryExpr:
		a, ta, err := t.expr(x.X)
		if err != nil {
			return "", "", err
		}
		b, tb, err := t.expr(x.Y)
		if err != nil {
			return "", "", err
		}
		switch x.Op {
		case token.LAND, token.LOR:
			if ta != "bool" || tb != "bool" {
				return "", "", fmt.Errorf("&&/|| of non-booleans")
			}
			f := "andb"
			if x.Op == token.LOR {
				f = "orb"
			}
			return fmt.Sprintf("(%s %s %s)", f, a, b), "bool", nil
		case token.LSS, token.LEQ, token.GTR, token.GEQ, token.EQL, token.NEQ:
			if ta == "bool" || tb == "bool" || (ta != "" && tb != "" && ta != tb) {
				return "", "", fmt.Errorf("comparison of mismatched types %s / %s", ta, tb)
			}
			switch x.Op {
			case token.LSS:
				return fmt.Sprintf("(%s <? %s)", a, b), "bool", nil
			case token.LEQ:
				return fmt.Sprintf("(%s <=? %s)", a, b), "bool", nil
			case token.GTR:
				return fmt.Sprintf("(%s <? %s)", b, a), "bool", nil
			case token.GEQ:
				return fmt.Sprintf("(%s <=? %s)", b, a), "bool", nil
			case token.EQL:
				return fmt.Sprintf("(%s =? %s)", a, b), "bool", nil
			default:
				return fmt.Sprintf("(negb (%s =? %s))", a, b), "bool", nil
			}
		case token.SHL, token.SHR:
			if ta == "" || ta == "bool" {
				return "", "", fmt.Errorf("shift of an untyped value")
			}
			n, ok := t.constant(x.Y)
			if !ok || n < 0 || n > 63 {
				return "", "", fmt.Errorf("shift count is not a small constant")
			}
			f := "Z.shiftr"
			if x.Op == token.SHL {
				f = "Z.shiftl"
			}
			return fmt.Sprintf("(%s (%s %s %d))", c13Wrap[ta], f, a, n), ta, nil
		case token.ADD, token.SUB, token.MUL:
			ty := ta
			if ty == "" {
				ty = tb
			}
			if ty == "" || ty == "bool" || (ta != "" && tb != "" && ta != tb) {
				return "", "", fmt.Errorf("arithmetic on mismatched types %s / %s", ta, tb)
			}
			op := map[token.Token]string{token.ADD: "+", token.SUB: "-", token.MUL: "*"}[x.Op]
			return fmt.Sprintf("(%s (%s %s %s))", c13Wrap[ty], a, op, b), ty, nil
		}
	}
	return "", "", fmt.Errorf("unsupported expression %s", t.p.exprText(e))
}

// byteElems translates the elements of a []byte{...} literal.
func (t *c13tr) byteElems(e ast.Expr) ([]string, error) {
	cl, ok := e.(*ast.CompositeLit)
	if !ok {
		return nil, fmt.Errorf("not a []byte literal: %s", t.p.exprText(e))
	}
	at, ok := cl.Type.(*ast.ArrayType)
	if !ok || at.Len != nil || t.p.exprText(at.Elt) != "byte" {
		return nil, fmt.Errorf("not a []byte literal: %s", t.p.exprText(e))
	}
	var out []string
	for _, el := range cl.Elts {
		s, ty, err := t.expr(el)
		if err != nil {
			return nil, err
		}
		switch ty {
		case "":
			v, _ := t.constant(el)
			if v < 0 || v > 255 {
				return nil, fmt.Errorf("byte constant out of range")
			}
		case "byte", "uint8":
		default:
			return nil, fmt.Errorf("[]byte element of type %s", ty)
		}
		out = append(out, s)
	}
	return out, nil
}

// block translates a statement list into a Coq term.  In writer mode the
// value of the block is the output written so far (variable "out").
func (t *c13tr) block(stmts []ast.Stmt, indent string) (string, error) {
	var b strings.Builder
	for i, st := range stmts {
		last := i == len(stmts)-1
		switch s := st.(type) {
		case *ast.AssignStmt:
			if len(s.Lhs) != 1 || len(s.Rhs) != 1 {
				return "", fmt.Errorf("unsupported assignment")
			}
			id, ok := s.Lhs[0].(*ast.Ident)
			if !ok {
				return "", fmt.Errorf("unsupported assignment target")
			}
			rhs, ty, err := t.expr(s.Rhs[0])
			if err != nil {
				return "", err
			}
			switch s.Tok {
			case token.DEFINE:
				if ty == "" || ty == "bool" {
					return "", fmt.Errorf("untyped := for %s", id.Name)
				}
				t.types[id.Name] = ty
			case token.ASSIGN:
				vt, ok := t.types[id.Name]
				if !ok || (ty != "" && ty != vt) {
					return "", fmt.Errorf("assignment type mismatch for %s", id.Name)
				}
			case token.ADD_ASSIGN, token.SUB_ASSIGN, token.SHR_ASSIGN, token.SHL_ASSIGN:
				op := map[token.Token]token.Token{token.ADD_ASSIGN: token.ADD, token.SUB_ASSIGN: token.SUB,
					token.SHR_ASSIGN: token.SHR, token.SHL_ASSIGN: token.SHL}[s.Tok]
				rhs, _, err = t.expr(&ast.BinaryExpr{X: id, Op: op, Y: s.Rhs[0]})
				if err != nil {
					return "", err
				}
			default:
				return "", fmt.Errorf("unsupported assignment operator %s", s.Tok)
			}
			fmt.Fprintf(&b, "%slet %s := %s in\n", indent, id.Name, rhs)
		case *ast.ExprStmt:
			call, ok := s.X.(*ast.CallExpr)
			if !ok || t.sink == "" {
				return "", fmt.Errorf("unsupported statement")
			}
			sel, ok := call.Fun.(*ast.SelectorExpr)
			if !ok || t.p.exprText(sel.X) != t.sink || len(call.Args) != 1 {
				return "", fmt.Errorf("unsupported call %s", t.p.exprText(call))
			}
			switch sel.Sel.Name {
			case "WriteByte":
				a, ty, err := t.expr(call.Args[0])
				if err != nil {
					return "", err
				}
				if ty != "byte" && ty != "uint8" && ty != "" {
					return "", fmt.Errorf("WriteByte of type %s", ty)
				}
				fmt.Fprintf(&b, "%slet out := (out ++ [%s])%%list in\n", indent, a)
			case "Write":
				els, err := t.byteElems(call.Args[0])
				if err != nil {
					return "", err
				}
				fmt.Fprintf(&b, "%slet out := (out ++ [%s])%%list in\n", indent, strings.Join(els, "; "))
			default:
				return "", fmt.Errorf("unsupported call %s", t.p.exprText(call))
			}
		case *ast.ReturnStmt:
			if t.sink != "" || len(s.Results) != 1 || !last {
				return "", fmt.Errorf("unsupported return")
			}
			a, ty, err := t.expr(s.Results[0])
			if err != nil {
				return "", err
			}
			if ty == "bool" {
				return "", fmt.Errorf("boolean result")
			}
			fmt.Fprintf(&b, "%s%s\n", indent, a)
			return b.String(), nil
		case *ast.SwitchStmt:
			if s.Tag != nil || s.Init != nil || !last {
				return "", fmt.Errorf("unsupported switch")
			}
			var def []ast.Stmt
			hasDef := false
			closing := 0
			for _, c := range s.Body.List {
				cc := c.(*ast.CaseClause)
				if cc.List == nil {
					def, hasDef = cc.Body, true
					continue
				}
				if hasDef {
					return "", fmt.Errorf("default clause is not last")
				}
				if len(cc.List) != 1 {
					return "", fmt.Errorf("case with several expressions")
				}
				cond, ty, err := t.expr(cc.List[0])
				if err != nil {
					return "", err
				}
				if ty != "bool" {
					return "", fmt.Errorf("case expression is not boolean")
				}
				saved := t.copyTypes()
				body, err := t.block(cc.Body, indent+"  ")
				t.types = saved
				if err != nil {
					return "", err
				}
				fmt.Fprintf(&b, "%sif %s then (\n%s%s) else (\n", indent, cond, body, indent)
				closing++
			}
			if !hasDef {
				if t.sink == "" {
					return "", fmt.Errorf("switch without default in a value function")
				}
			}
			saved := t.copyTypes()
			body, err := t.block(def, indent+"  ")
			t.types = saved
			if err != nil {
				return "", err
			}
			b.WriteString(body)
			b.WriteString(indent + strings.Repeat(")", closing) + "\n")
			return b.String(), nil
		case *ast.IfStmt:
			if s.Init != nil || !last {
				return "", fmt.Errorf("unsupported if")
			}
			cond, ty, err := t.expr(s.Cond)
			if err != nil {
				return "", err
			}
			if ty != "bool" {
				return "", fmt.Errorf("condition is not boolean")
			}
			saved := t.copyTypes()
			thenB, err := t.block(s.Body.List, indent+"  ")
			t.types = saved
			if err != nil {
				return "", err
			}
			var elseStmts []ast.Stmt
			switch e := s.Else.(type) {
			case nil:
				if t.sink == "" {
					return "", fmt.Errorf("if without else in a value function")
				}
			case *ast.BlockStmt:
				elseStmts = e.List
			case *ast.IfStmt:
				elseStmts = []ast.Stmt{e}
			}
			saved = t.copyTypes()
			elseB, err := t.block(elseStmts, indent+"  ")
			t.types = saved
			if err != nil {
				return "", err
			}
			fmt.Fprintf(&b, "%sif %s then (\n%s%s) else (\n%s%s)\n", indent, cond, thenB, indent, elseB, indent)
			return b.String(), nil
		default:
			return "", fmt.Errorf("unsupported statement at %s", t.p.fset.Position(st.Pos()))
		}
	}
	if t.sink == "" {
		return "", fmt.Errorf("value function falls off its end")
	}
	b.WriteString(indent + "out\n")
	return b.String(), nil
}

func (t *c13tr) copyTypes() map[string]string {
	m := make(map[string]string, len(t.types))
	for k, v := range t.types {
		m[k] = v
	}
	return m
}

// findMethod returns the method name of receiver type recv.
func c13FindMethod(p *pkgInfo, recv, name string) *ast.FuncDecl {
	for _, f := range p.files {
		for _, d := range f.Decls {
			fd, ok := d.(*ast.FuncDecl)
			if !ok || fd.Name.Name != name || fd.Recv == nil || len(fd.Recv.List) != 1 {
				continue
			}
			ty := fd.Recv.List[0].Type
			if st, ok := ty.(*ast.StarExpr); ok {
				ty = st.X
			}
			if id, ok := ty.(*ast.Ident); ok && id.Name == recv {
				return fd
			}
		}
	}
	return nil
}

func c13StrList(p *pkgInfo, name string) ([]string, error) {
	v, gd, _ := p.findValue(name)
	if gd == nil || v == nil {
		return nil, fmt.Errorf("%s not found", name)
	}
	cl, ok := v.(*ast.CompositeLit)
	if !ok {
		return nil, fmt.Errorf("%s is not a composite literal", name)
	}
	var out []string
	for _, e := range cl.Elts {
		bl, ok := e.(*ast.BasicLit)
		if !ok || bl.Kind != token.STRING {
			return nil, fmt.Errorf("%s has a non-string element", name)
		}
		s, err := strconv.Unquote(bl.Value)
		if err != nil {
			return nil, err
		}
		out = append(out, s)
	}
	return out, nil
}

func init() {
	kinds["c13_prelude"] = func(root string, p *pkgInfo, it item) (string, error) {
		return c13Prelude, nil
	}

	kinds["c13_func"] = func(root string, p *pkgInfo, it item) (string, error) {
		fd := p.findFunc(it.Name)
		if fd == nil || fd.Recv != nil {
			return "", fmt.Errorf("function not found")
		}
		if fd.Type.Params == nil || len(fd.Type.Params.List) != 1 || len(fd.Type.Params.List[0].Names) != 1 {
			return "", fmt.Errorf("want exactly one parameter")
		}
		par := fd.Type.Params.List[0]
		pty := p.exprText(par.Type)
		if _, ok := c13Wrap[pty]; !ok {
			return "", fmt.Errorf("unsupported parameter type %s", pty)
		}
		name := par.Names[0].Name
		t := &c13tr{p: p, types: map[string]string{name: pty}}
		body, err := t.block(fd.Body.List, "  ")
		if err != nil {
			return "", err
		}
		return fmt.Sprintf("Definition %s (%s : Z) : Z :=\n  (%s  )%%Z.\n", it.Coq, name, strings.TrimLeft(body, " ")), nil
	}

	kinds["c13_dictint"] = func(root string, p *pkgInfo, it item) (string, error) {
		fd := c13FindMethod(p, it.Arg, it.Name)
		if fd == nil {
			return "", fmt.Errorf("method (%s).%s not found", it.Arg, it.Name)
		}
		// the type switch "switch a := arg.(type)" and its "case int32:" clause
		var clause *ast.CaseClause
		var varName, sink string
		n := 0
		ast.Inspect(fd, func(nd ast.Node) bool {
			ts, ok := nd.(*ast.TypeSwitchStmt)
			if !ok {
				return true
			}
			as, ok := ts.Assign.(*ast.AssignStmt)
			if !ok || len(as.Lhs) != 1 {
				return true
			}
			for _, c := range ts.Body.List {
				cc := c.(*ast.CaseClause)
				if len(cc.List) == 1 && p.exprText(cc.List[0]) == "int32" {
					clause = cc
					varName = as.Lhs[0].(*ast.Ident).Name
					n++
				}
			}
			return true
		})
		if n != 1 {
			return "", fmt.Errorf("expected exactly one `case int32:` in a type switch, found %d", n)
		}
		// the buffer written to: the receiver of the first Write/WriteByte call
		ast.Inspect(clause, func(nd ast.Node) bool {
			if call, ok := nd.(*ast.CallExpr); ok && sink == "" {
				if sel, ok := call.Fun.(*ast.SelectorExpr); ok && (sel.Sel.Name == "Write" || sel.Sel.Name == "WriteByte") {
					sink = p.exprText(sel.X)
				}
			}
			return true
		})
		if sink == "" {
			return "", fmt.Errorf("no Write/WriteByte call in the int32 clause")
		}
		t := &c13tr{p: p, types: map[string]string{varName: "int32"}, sink: sink}
		body, err := t.block(clause.Body, "  ")
		if err != nil {
			return "", err
		}
		return fmt.Sprintf("Definition %s (%s : Z) : list Z :=\n  (let out := @nil Z in\n%s  )%%Z.\n", it.Coq, varName, body), nil
	}

	kinds["c13_strcount"] = func(root string, p *pkgInfo, it item) (string, error) {
		names, err := c13StrList(p, it.Name)
		if err != nil {
			return "", err
		}
		return fmt.Sprintf("Definition %s : N := %d%%N.\n", it.Coq, len(names)), nil
	}

	kinds["c13_strindex"] = func(root string, p *pkgInfo, it item) (string, error) {
		names, err := c13StrList(p, it.Name)
		if err != nil {
			return "", err
		}
		table, err := c13StrList(p, it.Arg)
		if err != nil {
			return "", err
		}
		idx := map[string]int{}
		for i, s := range table {
			idx[s] = i // as in cffStrings.lookup: a later duplicate wins
		}
		parts := make([]string, len(names))
		for i, s := range names {
			j, ok := idx[s]
			if !ok {
				return "", fmt.Errorf("%q of %s is not in %s", s, it.Name, it.Arg)
			}
			parts[i] = fmt.Sprintf("%d%%N", j)
		}
		return fmt.Sprintf("Definition %s : list N := [%s].\n", it.Coq, strings.Join(parts, "; ")), nil
	}
}
