package main

// Translator kinds of part C05B (the plumbing between a CFF file and the
// Type 2 interpreter: cff/dict.go readPrivate, cff/read.go Read).
//
//	c05b_access   every call X.getInt / X.getFloat / X.getPair / X.getDeltaF16
//	              inside the function `name`, in source order, as
//	              (receiver, accessor, operator, default)
//	                : list (N * N * N * (bool * Z * Z))
//	              receiver: 0 = the method's own receiver, 1 = the local
//	              variable privateDict, 9 = anything else;
//	              accessor: 0 getInt, 1 getFloat, 2 getPair, 3 getDeltaF16;
//	              operator: the value of the dictOp constant;
//	              default: the second argument as an exact decimal
//	              (neg, mantissa, exponent), (false,0,0) when there is none.
//	c05b_lits     every composite literal of type `arg` (with or without &)
//	              inside the function `name`, in source order; each literal as
//	              the list of its key/value elements
//	                (field, (kind, a, b, c, default))
//	                : list (list (N * (N * N * N * N * (bool * Z * Z))))
//	              field codes: private 0, subrs/subr 1, defaultWidth 2,
//	              nominalWidth 3, gsubr/gsubrs 4, anything else 9;
//	              value kinds (conversions T(x) and parentheses are removed
//	              first, so that float64(d.getInt(..)) shows its accessor):
//	                1 = accessor call: a receiver, b accessor, c operator, default
//	                2 = selector V.f: a = 0 when V is pInfo (9 otherwise), b = field code of f
//	                3 = plain identifier: a = field code of the identifier
//	                9 = anything else
//	c05b_defs     the right-hand sides (as text) of every := / = statement
//	              inside the function `name` whose first left-hand side is the
//	              identifier `arg`, in source order              : list string
//	c05b_callarg  the text of argument number `op` (0-based) of the one call
//	              of the function `arg` inside the function `name` : string
//
// A changed accessor, default, operator, field wiring or cache in front of
// readPrivate changes Gen/C05B.v and breaks the proofs of C05B/Tie.v.

import (
	"fmt"
	"go/ast"
	"go/token"
	"strconv"
	"strings"
)

var c05bAccessors = map[string]int{"getInt": 0, "getFloat": 1, "getPair": 2, "getDeltaF16": 3}

var c05bFields = map[string]int{"private": 0, "subrs": 1, "subr": 1, "defaultWidth": 2, "nominalWidth": 3,
	"gsubr": 4, "gsubrs": 4}

func c05bFieldCode(name string) int {
	if c, ok := c05bFields[name]; ok {
		return c
	}
	return 9
}

// c05bDecimal renders a numeric literal / constant expression as (neg, mant, exp).
func c05bDecimal(p *pkgInfo, e ast.Expr, depth int) (string, error) {
	neg := false
	for {
		switch x := e.(type) {
		case *ast.ParenExpr:
			e = x.X
			continue
		case *ast.UnaryExpr:
			if x.Op == token.SUB {
				neg = !neg
				e = x.X
				continue
			}
			if x.Op == token.ADD {
				e = x.X
				continue
			}
		}
		break
	}
	if id, ok := e.(*ast.Ident); ok && depth < 4 {
		v, gd, _ := p.findValue(id.Name)
		if gd == nil || v == nil {
			return "", fmt.Errorf("unknown constant %s", id.Name)
		}
		s, err := c05bDecimal(p, v, depth+1)
		if err != nil {
			return "", err
		}
		if neg {
			if strings.HasPrefix(s, "(false, 0,") {
				return s, nil
			}
			if strings.HasPrefix(s, "(false") {
				return "(true" + s[len("(false"):], nil
			}
			return "(false" + s[len("(true"):], nil
		}
		return s, nil
	}
	bl, ok := e.(*ast.BasicLit)
	if !ok || (bl.Kind != token.FLOAT && bl.Kind != token.INT) {
		return "", fmt.Errorf("not a numeric literal: %s", p.exprText(e))
	}
	s := strings.ReplaceAll(bl.Value, "_", "")
	if strings.HasPrefix(s, "0x") || strings.HasPrefix(s, "0X") {
		return "", fmt.Errorf("hexadecimal literal %s not supported", s)
	}
	exp := 0
	if i := strings.IndexAny(s, "eE"); i >= 0 {
		ev, err := strconv.Atoi(strings.TrimPrefix(s[i+1:], "+"))
		if err != nil {
			return "", fmt.Errorf("bad exponent in %s", s)
		}
		exp = ev
		s = s[:i]
	}
	if i := strings.IndexByte(s, '.'); i >= 0 {
		exp -= len(s) - i - 1
		s = s[:i] + s[i+1:]
	}
	s = strings.TrimLeft(s, "0")
	for _, c := range s {
		if c < '0' || c > '9' {
			return "", fmt.Errorf("unsupported literal %s", bl.Value)
		}
	}
	for len(s) > 0 && s[len(s)-1] == '0' {
		s = s[:len(s)-1]
		exp++
	}
	if s == "" {
		return "(false, 0, 0)%Z", nil
	}
	b := "false"
	if neg {
		b = "true"
	}
	return fmt.Sprintf("(%s, %s, (%d))%%Z", b, s, exp), nil
}

func c05bFunc(p *pkgInfo, name string) (*ast.FuncDecl, string) {
	fd := p.findFunc(name)
	if fd == nil {
		return nil, ""
	}
	recv := ""
	if fd.Recv != nil && len(fd.Recv.List) == 1 && len(fd.Recv.List[0].Names) == 1 {
		recv = fd.Recv.List[0].Names[0].Name
	}
	return fd, recv
}

// c05bAccessCall recognises X.getA(op[, default]).
func c05bAccessCall(p *pkgInfo, e ast.Expr, recvName string) (string, bool, error) {
	ce, ok := e.(*ast.CallExpr)
	if !ok {
		return "", false, nil
	}
	se, ok := ce.Fun.(*ast.SelectorExpr)
	if !ok {
		return "", false, nil
	}
	acc, ok := c05bAccessors[se.Sel.Name]
	if !ok {
		return "", false, nil
	}
	recv := 9
	if id, ok := se.X.(*ast.Ident); ok {
		switch {
		case id.Name == "privateDict":
			recv = 1
		case recvName != "" && id.Name == recvName:
			recv = 0
		}
	}
	if len(ce.Args) < 1 {
		return "", true, fmt.Errorf("accessor call without operator: %s", p.exprText(e))
	}
	op, err := p.evalInt(ce.Args[0], 0)
	if err != nil {
		return "", true, fmt.Errorf("operator of %s: %v", p.exprText(e), err)
	}
	def := "(false, 0, 0)%Z"
	if len(ce.Args) >= 2 {
		def, err = c05bDecimal(p, ce.Args[1], 0)
		if err != nil {
			return "", true, fmt.Errorf("default of %s: %v", p.exprText(e), err)
		}
	}
	return fmt.Sprintf("%d%%N, %d%%N, %d%%N, %s", recv, acc, op, def), true, nil
}

// c05bStrip removes parentheses and conversions T(x) with a plain type name.
func c05bStrip(e ast.Expr) ast.Expr {
	for {
		switch x := e.(type) {
		case *ast.ParenExpr:
			e = x.X
			continue
		case *ast.CallExpr:
			if id, ok := x.Fun.(*ast.Ident); ok && len(x.Args) == 1 {
				switch id.Name {
				case "float64", "float32", "int", "int32", "int64", "uint32", "cffIndex":
					e = x.Args[0]
					continue
				}
			}
		}
		return e
	}
}

func c05bValue(p *pkgInfo, e ast.Expr, recvName string) (string, error) {
	e = c05bStrip(e)
	if s, isAcc, err := c05bAccessCall(p, e, recvName); isAcc {
		if err != nil {
			return "", err
		}
		return "(1%N, " + s + ")", nil
	}
	switch x := e.(type) {
	case *ast.SelectorExpr:
		if id, ok := x.X.(*ast.Ident); ok {
			a := 9
			if id.Name == "pInfo" {
				a = 0
			}
			return fmt.Sprintf("(2%%N, %d%%N, %d%%N, 0%%N, (false, 0, 0)%%Z)", a, c05bFieldCode(x.Sel.Name)), nil
		}
	case *ast.Ident:
		return fmt.Sprintf("(3%%N, %d%%N, 0%%N, 0%%N, (false, 0, 0)%%Z)", c05bFieldCode(x.Name)), nil
	}
	return "(9%N, 0%N, 0%N, 0%N, (false, 0, 0)%Z)", nil
}

func init() {
	kinds["c05b_access"] = func(root string, p *pkgInfo, it item) (string, error) {
		fd, recv := c05bFunc(p, it.Name)
		if fd == nil {
			return "", fmt.Errorf("function not found")
		}
		var parts []string
		var ferr error
		ast.Inspect(fd.Body, func(n ast.Node) bool {
			e, ok := n.(ast.Expr)
			if !ok {
				return true
			}
			s, isAcc, err := c05bAccessCall(p, e, recv)
			if isAcc {
				if err != nil && ferr == nil {
					ferr = err
				}
				parts = append(parts, "("+s+")")
			}
			return true
		})
		if ferr != nil {
			return "", ferr
		}
		if len(parts) == 0 {
			return "", fmt.Errorf("no accessor call found")
		}
		return fmt.Sprintf("Definition %s : list (N * N * N * (bool * Z * Z)) := [\n  %s].\n", it.Coq, strings.Join(parts, ";\n  ")), nil
	}

	kinds["c05b_lits"] = func(root string, p *pkgInfo, it item) (string, error) {
		fd, recv := c05bFunc(p, it.Name)
		if fd == nil {
			return "", fmt.Errorf("function not found")
		}
		var lits []string
		var ferr error
		ast.Inspect(fd.Body, func(n ast.Node) bool {
			cl, ok := n.(*ast.CompositeLit)
			if !ok || cl.Type == nil || p.exprText(cl.Type) != it.Arg {
				return true
			}
			var parts []string
			for _, e := range cl.Elts {
				kv, ok := e.(*ast.KeyValueExpr)
				if !ok {
					ferr = fmt.Errorf("positional element in a %s literal", it.Arg)
					return false
				}
				key, ok := kv.Key.(*ast.Ident)
				if !ok {
					ferr = fmt.Errorf("unexpected key in a %s literal", it.Arg)
					return false
				}
				v, err := c05bValue(p, kv.Value, recv)
				if err != nil {
					ferr = err
					return false
				}
				parts = append(parts, fmt.Sprintf("(%d%%N, %s)", c05bFieldCode(key.Name), v))
			}
			lits = append(lits, "["+strings.Join(parts, ";\n   ")+"]")
			return true
		})
		if ferr != nil {
			return "", ferr
		}
		if len(lits) == 0 {
			return "", fmt.Errorf("no %s literal found", it.Arg)
		}
		return fmt.Sprintf("Definition %s : list (list (N * (N * N * N * N * (bool * Z * Z)))) := [\n  %s].\n", it.Coq, strings.Join(lits, ";\n  ")), nil
	}

	kinds["c05b_defs"] = func(root string, p *pkgInfo, it item) (string, error) {
		fd, _ := c05bFunc(p, it.Name)
		if fd == nil {
			return "", fmt.Errorf("function not found")
		}
		var parts []string
		ast.Inspect(fd.Body, func(n ast.Node) bool {
			as, ok := n.(*ast.AssignStmt)
			if !ok || len(as.Lhs) == 0 || len(as.Rhs) == 0 {
				return true
			}
			if id, ok := as.Lhs[0].(*ast.Ident); ok && id.Name == it.Arg {
				parts = append(parts, coqString(p.exprText(as.Rhs[0])))
			}
			return true
		})
		return fmt.Sprintf("Definition %s : list string := [%s]%%string.\n", it.Coq, strings.Join(parts, ";\n  ")), nil
	}

	kinds["c05b_callarg"] = func(root string, p *pkgInfo, it item) (string, error) {
		fd, _ := c05bFunc(p, it.Name)
		if fd == nil {
			return "", fmt.Errorf("function not found")
		}
		k, err := strconv.Atoi(it.Op)
		if err != nil {
			return "", fmt.Errorf("op must be the argument number")
		}
		var found []string
		ast.Inspect(fd.Body, func(n ast.Node) bool {
			ce, ok := n.(*ast.CallExpr)
			if !ok {
				return true
			}
			if id, ok := ce.Fun.(*ast.Ident); ok && id.Name == it.Arg && k < len(ce.Args) {
				found = append(found, p.exprText(ce.Args[k]))
			}
			return true
		})
		if len(found) != 1 {
			return "", fmt.Errorf("expected exactly one call of %s, found %d", it.Arg, len(found))
		}
		return fmt.Sprintf("Definition %s : string := %s%%string.\n", it.Coq, coqString(found[0])), nil
	}
}
