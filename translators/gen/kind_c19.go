package main

// Translator kinds used by property C19 (lookup description language).
//
//	c19_runemap     package-level map literal rune -> named constant
//	                (builder.singleCharTokens)          -> list (N * N), sorted by key
//	c19_flagcases   the `switch which` of readLookupFlags: for every case the
//	                flag name and the value of the gtab constant or-ed into
//	                flags                               -> list (list N * N)
//	c19_flagwrites  the sequence of `if flags&gtab.X != 0 { w.WriteString(s) }`
//	                statements of explainFlags          -> list (N * list N)
//
// Strings become lists of code points.

import (
	"fmt"
	"go/ast"
	"go/token"
	"sort"
	"strconv"
	"strings"
)

func c19Runes(s string) string {
	var parts []string
	for _, r := range s {
		parts = append(parts, strconv.Itoa(int(r))+"%N")
	}
	return "[" + strings.Join(parts, ";") + "]"
}

func c19GtabConst(root string, e ast.Expr) (int64, error) {
	sel, ok := e.(*ast.SelectorExpr)
	if !ok {
		return 0, fmt.Errorf("selector expected")
	}
	x, ok := sel.X.(*ast.Ident)
	if !ok || x.Name != "gtab" {
		return 0, fmt.Errorf("gtab.<const> expected")
	}
	g, err := loadPkg(root, "opentype/gtab")
	if err != nil {
		return 0, err
	}
	v, gd, si := g.findValue(sel.Sel.Name)
	if gd == nil || v == nil {
		return 0, fmt.Errorf("gtab.%s not found", sel.Sel.Name)
	}
	return g.evalInt(v, int64(si))
}

func init() {
	kinds["c19_runemap"] = func(root string, p *pkgInfo, it item) (string, error) {
		v, gd, _ := p.findValue(it.Name)
		if gd == nil || v == nil {
			return "", fmt.Errorf("not found")
		}
		cl, ok := v.(*ast.CompositeLit)
		if !ok {
			return "", fmt.Errorf("not a composite literal")
		}
		type kv struct{ k, v int64 }
		var kvs []kv
		for _, e := range cl.Elts {
			pair, ok := e.(*ast.KeyValueExpr)
			if !ok {
				return "", fmt.Errorf("not a key/value element")
			}
			k, err := p.evalInt(pair.Key, 0)
			if err != nil {
				return "", err
			}
			val, err := p.evalInt(pair.Value, 0)
			if err != nil {
				return "", err
			}
			kvs = append(kvs, kv{k, val})
		}
		sort.Slice(kvs, func(i, j int) bool { return kvs[i].k < kvs[j].k })
		var parts []string
		for _, x := range kvs {
			parts = append(parts, fmt.Sprintf("(%d%%N, %d%%N)", x.k, x.v))
		}
		return fmt.Sprintf("Definition %s : list (N * N) := [%s].\n", it.Coq, strings.Join(parts, "; ")), nil
	}

	kinds["c19_flagcases"] = func(root string, p *pkgInfo, it item) (string, error) {
		fd := p.findFunc(it.Name)
		if fd == nil {
			return "", fmt.Errorf("function not found")
		}
		var parts []string
		var ferr error
		nsw := 0
		ast.Inspect(fd, func(n ast.Node) bool {
			sw, ok := n.(*ast.SwitchStmt)
			if !ok {
				return true
			}
			nsw++
			for _, c := range sw.Body.List {
				cc := c.(*ast.CaseClause)
				if cc.List == nil {
					continue // default
				}
				if len(cc.Body) != 1 {
					ferr = fmt.Errorf("case body is not a single statement")
					return false
				}
				as, ok := cc.Body[0].(*ast.AssignStmt)
				if !ok || as.Tok != token.OR_ASSIGN || len(as.Rhs) != 1 {
					ferr = fmt.Errorf("case body is not `flags |= gtab.X`")
					return false
				}
				val, err := c19GtabConst(root, as.Rhs[0])
				if err != nil {
					ferr = err
					return false
				}
				for _, e := range cc.List {
					bl, ok := e.(*ast.BasicLit)
					if !ok || bl.Kind != token.STRING {
						ferr = fmt.Errorf("non-string case label")
						return false
					}
					s, err := strconv.Unquote(bl.Value)
					if err != nil {
						ferr = err
						return false
					}
					parts = append(parts, fmt.Sprintf("(%s, %d%%N)", c19Runes(s), val))
				}
			}
			return false
		})
		if ferr != nil {
			return "", ferr
		}
		if nsw != 1 {
			return "", fmt.Errorf("expected exactly one switch statement, found %d", nsw)
		}
		return fmt.Sprintf("Definition %s : list (list N * N) := [%s].\n", it.Coq, strings.Join(parts, "; ")), nil
	}

	kinds["c19_flagwrites"] = func(root string, p *pkgInfo, it item) (string, error) {
		fd := p.findFunc(it.Name)
		if fd == nil {
			return "", fmt.Errorf("function not found")
		}
		var parts []string
		for _, st := range fd.Body.List {
			is, ok := st.(*ast.IfStmt)
			if !ok {
				return "", fmt.Errorf("statement is not an if")
			}
			ne, ok := is.Cond.(*ast.BinaryExpr)
			if !ok || ne.Op != token.NEQ {
				return "", fmt.Errorf("condition is not `flags&gtab.X != 0`")
			}
			and, ok := ne.X.(*ast.BinaryExpr)
			if !ok || and.Op != token.AND {
				return "", fmt.Errorf("condition is not `flags&gtab.X != 0`")
			}
			val, err := c19GtabConst(root, and.Y)
			if err != nil {
				return "", err
			}
			if len(is.Body.List) != 1 || is.Else != nil {
				return "", fmt.Errorf("if body is not a single statement")
			}
			es, ok := is.Body.List[0].(*ast.ExprStmt)
			if !ok {
				return "", fmt.Errorf("if body is not a call")
			}
			call, ok := es.X.(*ast.CallExpr)
			if !ok || len(call.Args) != 1 || !strings.HasSuffix(p.exprText(call.Fun), ".WriteString") {
				return "", fmt.Errorf("if body is not WriteString(<literal>)")
			}
			bl, ok := call.Args[0].(*ast.BasicLit)
			if !ok || bl.Kind != token.STRING {
				return "", fmt.Errorf("WriteString argument is not a literal")
			}
			s, err := strconv.Unquote(bl.Value)
			if err != nil {
				return "", err
			}
			parts = append(parts, fmt.Sprintf("(%d%%N, %s)", val, c19Runes(s)))
		}
		return fmt.Sprintf("Definition %s : list (N * list N) := [%s].\n", it.Coq, strings.Join(parts, "; ")), nil
	}
}
