package main

// Translator kinds used by part C10B (concrete data transformations of
// subsetting).
//
//	c10b_litfield   inside the function `name` (receiver type `op`, empty = any),
//	                the integer value of field F of the one composite literal
//	                whose type prints as T, where `arg` = "T.F"        -> N
//	c10b_litshape   inside the function `name` (receiver type `op`), the
//	                key/value elements of the one composite literal whose type
//	                prints as `arg`, as strings "Field=expression" in source
//	                order                                              -> list string
//	c10b_assign     inside the function `name` (receiver type `op`), the
//	                right-hand side of the one plain assignment (=) whose
//	                left-hand side prints as `lhs`, as a string        -> string
//
// They tie the raw cmap key used by (*Font).Subset, the field-by-field copy
// of FixComponents and the transfers `subset.ROS = o.ROS` etc. to the text the
// Coq model was written from: a change of the source changes Gen/C10B.v and
// breaks the `_source_shape` theorems of C10B/Props.v.

import (
	"fmt"
	"go/ast"
	"go/token"
	"strings"
)

func c10bFindFunc(p *pkgInfo, name, recv string) *ast.FuncDecl {
	for _, f := range p.files {
		for _, d := range f.Decls {
			fd, ok := d.(*ast.FuncDecl)
			if !ok || fd.Name.Name != name {
				continue
			}
			if recv == "" {
				return fd
			}
			if fd.Recv != nil && len(fd.Recv.List) == 1 {
				t := p.exprText(fd.Recv.List[0].Type)
				if strings.TrimPrefix(t, "*") == recv {
					return fd
				}
			}
		}
	}
	return nil
}

func c10bFindLit(p *pkgInfo, fd *ast.FuncDecl, typ string) (*ast.CompositeLit, error) {
	var found []*ast.CompositeLit
	ast.Inspect(fd, func(n ast.Node) bool {
		cl, ok := n.(*ast.CompositeLit)
		if ok && cl.Type != nil && p.exprText(cl.Type) == typ {
			found = append(found, cl)
		}
		return true
	})
	if len(found) != 1 {
		return nil, fmt.Errorf("expected exactly one composite literal of type %s, found %d", typ, len(found))
	}
	return found[0], nil
}

func init() {
	kinds["c10b_litfield"] = func(root string, p *pkgInfo, it item) (string, error) {
		fd := c10bFindFunc(p, it.Name, it.Op)
		if fd == nil {
			return "", fmt.Errorf("function not found")
		}
		i := strings.LastIndex(it.Arg, ".")
		if i < 0 {
			return "", fmt.Errorf("arg must be Type.Field")
		}
		typ, field := it.Arg[:i], it.Arg[i+1:]
		cl, err := c10bFindLit(p, fd, typ)
		if err != nil {
			return "", err
		}
		for _, e := range cl.Elts {
			kv, ok := e.(*ast.KeyValueExpr)
			if !ok {
				continue
			}
			if id, ok := kv.Key.(*ast.Ident); ok && id.Name == field {
				v, err := p.evalInt(kv.Value, 0)
				if err != nil {
					return "", err
				}
				return fmt.Sprintf("Definition %s : %s := %s.\n", it.Coq, it.Ctype, coqInt(v, it.Ctype)), nil
			}
		}
		return "", fmt.Errorf("field %s not set in the literal", field)
	}

	kinds["c10b_litshape"] = func(root string, p *pkgInfo, it item) (string, error) {
		fd := c10bFindFunc(p, it.Name, it.Op)
		if fd == nil {
			return "", fmt.Errorf("function not found")
		}
		cl, err := c10bFindLit(p, fd, it.Arg)
		if err != nil {
			return "", err
		}
		var parts []string
		for _, e := range cl.Elts {
			kv, ok := e.(*ast.KeyValueExpr)
			if !ok {
				return "", fmt.Errorf("positional element in the literal")
			}
			parts = append(parts, coqString(p.exprText(kv.Key)+"="+p.exprText(kv.Value)))
		}
		return fmt.Sprintf("Definition %s : list string := [%s]%%string.\n", it.Coq, strings.Join(parts, "; ")), nil
	}

	kinds["c10b_assign"] = func(root string, p *pkgInfo, it item) (string, error) {
		fd := c10bFindFunc(p, it.Name, it.Op)
		if fd == nil {
			return "", fmt.Errorf("function not found")
		}
		var found []string
		ast.Inspect(fd, func(n ast.Node) bool {
			as, ok := n.(*ast.AssignStmt)
			if ok && as.Tok == token.ASSIGN && len(as.Lhs) == 1 && len(as.Rhs) == 1 && p.exprText(as.Lhs[0]) == it.Lhs {
				found = append(found, p.exprText(as.Rhs[0]))
			}
			return true
		})
		if len(found) != 1 {
			return "", fmt.Errorf("expected exactly one assignment to %s, found %d", it.Lhs, len(found))
		}
		return fmt.Sprintf("Definition %s : string := %s%%string.\n", it.Coq, coqString(found[0])), nil
	}
}
