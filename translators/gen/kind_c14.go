package main

// Translator kinds used by property C14 (names, glyph names, language tags).
//
//	c14_intmap    package-level map literal with integer keys and integer
//	              values (mac.enc)                    -> list (N * N), sorted by key
//	c14_bytelists package-level slice literal of strings (post.macRoman)
//	                                                  -> list (list N)   (bytes)
//	c14_intstrmap package-level map literal int -> string (name.appleBCP)
//	                                                  -> list (N * list N), sorted by key
//	c14_strstrmap package-level map literal string -> string
//	              (gtab.scriptBcp47, gtab.langBcp47)  -> list (list N * list N), sorted by key bytes
//
// Strings become byte lists so that no assumption about their character set is
// built into the translator.

import (
	"fmt"
	"go/ast"
	"go/token"
	"sort"
	"strconv"
	"strings"
)

func c14Bytes(s string) string {
	parts := make([]string, len(s))
	for i := 0; i < len(s); i++ {
		parts[i] = strconv.Itoa(int(s[i]))
	}
	return "[" + strings.Join(parts, ";") + "]"
}

func c14Lit(p *pkgInfo, name string) (*ast.CompositeLit, error) {
	v, gd, _ := p.findValue(name)
	if gd == nil || v == nil {
		return nil, fmt.Errorf("not found")
	}
	cl, ok := v.(*ast.CompositeLit)
	if !ok {
		return nil, fmt.Errorf("not a composite literal")
	}
	return cl, nil
}

func c14Str(e ast.Expr) (string, error) {
	bl, ok := e.(*ast.BasicLit)
	if !ok || bl.Kind != token.STRING {
		return "", fmt.Errorf("non-string element")
	}
	return strconv.Unquote(bl.Value)
}

func init() {
	kinds["c14_intmap"] = func(root string, p *pkgInfo, it item) (string, error) {
		cl, err := c14Lit(p, it.Name)
		if err != nil {
			return "", err
		}
		type kv struct{ k, v int64 }
		var kvs []kv
		seen := map[int64]bool{}
		for _, e := range cl.Elts {
			pair, ok := e.(*ast.KeyValueExpr)
			if !ok {
				return "", fmt.Errorf("not a key/value element")
			}
			k, err := p.evalInt(pair.Key, 0)
			if err != nil {
				return "", err
			}
			v, err := p.evalInt(pair.Value, 0)
			if err != nil {
				return "", err
			}
			if seen[k] || k < 0 || v < 0 {
				return "", fmt.Errorf("duplicate or negative key %d", k)
			}
			seen[k] = true
			kvs = append(kvs, kv{k, v})
		}
		sort.Slice(kvs, func(i, j int) bool { return kvs[i].k < kvs[j].k })
		parts := make([]string, len(kvs))
		for i, x := range kvs {
			parts[i] = fmt.Sprintf("(%d,%d)", x.k, x.v)
		}
		return fmt.Sprintf("Definition %s : list (N * N) := [%s]%%N.\n", it.Coq, strings.Join(parts, ";")), nil
	}

	kinds["c14_bytelists"] = func(root string, p *pkgInfo, it item) (string, error) {
		cl, err := c14Lit(p, it.Name)
		if err != nil {
			return "", err
		}
		var parts []string
		for _, e := range cl.Elts {
			if _, ok := e.(*ast.KeyValueExpr); ok {
				return "", fmt.Errorf("keyed element")
			}
			s, err := c14Str(e)
			if err != nil {
				return "", err
			}
			parts = append(parts, c14Bytes(s))
		}
		return fmt.Sprintf("Definition %s : list (list N) := [%s]%%N.\n", it.Coq, strings.Join(parts, ";\n  ")), nil
	}

	kinds["c14_intstrmap"] = func(root string, p *pkgInfo, it item) (string, error) {
		cl, err := c14Lit(p, it.Name)
		if err != nil {
			return "", err
		}
		type kv struct {
			k int64
			v string
		}
		var kvs []kv
		seen := map[int64]bool{}
		for _, e := range cl.Elts {
			pair, ok := e.(*ast.KeyValueExpr)
			if !ok {
				return "", fmt.Errorf("not a key/value element")
			}
			k, err := p.evalInt(pair.Key, 0)
			if err != nil {
				return "", err
			}
			v, err := c14Str(pair.Value)
			if err != nil {
				return "", err
			}
			if seen[k] || k < 0 {
				return "", fmt.Errorf("duplicate or negative key %d", k)
			}
			seen[k] = true
			kvs = append(kvs, kv{k, v})
		}
		sort.Slice(kvs, func(i, j int) bool { return kvs[i].k < kvs[j].k })
		parts := make([]string, len(kvs))
		for i, x := range kvs {
			parts[i] = fmt.Sprintf("(%d,%s)", x.k, c14Bytes(x.v))
		}
		return fmt.Sprintf("Definition %s : list (N * list N) := [%s]%%N.\n", it.Coq, strings.Join(parts, ";\n  ")), nil
	}

	kinds["c14_strstrmap"] = func(root string, p *pkgInfo, it item) (string, error) {
		cl, err := c14Lit(p, it.Name)
		if err != nil {
			return "", err
		}
		type kv struct{ k, v string }
		var kvs []kv
		seen := map[string]bool{}
		for _, e := range cl.Elts {
			pair, ok := e.(*ast.KeyValueExpr)
			if !ok {
				return "", fmt.Errorf("not a key/value element")
			}
			k, err := c14Str(pair.Key)
			if err != nil {
				return "", err
			}
			v, err := c14Str(pair.Value)
			if err != nil {
				return "", err
			}
			if seen[k] {
				return "", fmt.Errorf("duplicate key %q", k)
			}
			seen[k] = true
			kvs = append(kvs, kv{k, v})
		}
		sort.Slice(kvs, func(i, j int) bool { return kvs[i].k < kvs[j].k })
		parts := make([]string, len(kvs))
		for i, x := range kvs {
			parts[i] = fmt.Sprintf("(%s,%s)", c14Bytes(x.k), c14Bytes(x.v))
		}
		return fmt.Sprintf("Definition %s : list (list N * list N) := [%s]%%N.\n", it.Coq, strings.Join(parts, ";\n  ")), nil
	}
}
