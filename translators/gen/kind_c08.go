package main

// Item kind added for C08 (GSUB/GPOS/GDEF codecs):
//
//	mcmplit  like cmplit, but inside the method "name" whose receiver type is
//	         "arg" (methods called encode/encodeLen exist on many types)

import (
	"fmt"
	"go/ast"
)

func init() {
	kinds["mcmplit"] = genMCmpLit
}

func (p *pkgInfo) findMethod(recv, name string) *ast.FuncDecl {
	for _, f := range p.files {
		for _, d := range f.Decls {
			fd, ok := d.(*ast.FuncDecl)
			if !ok || fd.Name.Name != name || fd.Recv == nil || len(fd.Recv.List) != 1 {
				continue
			}
			t := fd.Recv.List[0].Type
			if st, ok := t.(*ast.StarExpr); ok {
				t = st.X
			}
			if id, ok := t.(*ast.Ident); ok && id.Name == recv {
				return fd
			}
		}
	}
	return nil
}

func genMCmpLit(root string, p *pkgInfo, it item) (string, error) {
	fd := p.findMethod(it.Arg, it.Name)
	if fd == nil {
		return "", fmt.Errorf("method (%s).%s not found", it.Arg, it.Name)
	}
	var found []int64
	ast.Inspect(fd, func(n ast.Node) bool {
		be, ok := n.(*ast.BinaryExpr)
		if !ok || be.Op.String() != it.Op {
			return true
		}
		if p.exprText(be.X) != it.Lhs {
			return true
		}
		if v, err := p.evalInt(be.Y, 0); err == nil {
			found = append(found, v)
		}
		return true
	})
	if len(found) != 1 {
		return "", fmt.Errorf("expected exactly one comparison `%s %s <literal>` in (%s).%s, found %d", it.Lhs, it.Op, it.Arg, it.Name, len(found))
	}
	return fmt.Sprintf("Definition %s : %s := %s.\n", it.Coq, it.Ctype, coqInt(found[0], it.Ctype)), nil
}
