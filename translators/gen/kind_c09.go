// Translator kinds added for property C09 (cmap):
//
//	cmplitf    like cmplit, but the right-hand side may also be a float literal
//	           with an integral value (1e6) and several comparisons with the same
//	           left-hand side may exist if they all carry the same constant
//	localconst an integer constant declared inside a function body
//	pairlist   a composite literal of {a, b} integer pairs assigned (:=) to a
//	           local variable of a function/method -> list (N * N)
//	c09install the decision in sfnt.(*Font).InstallCMap: two uint16 locals with
//	           default values, one `if _, high := s.CodeRange(); high > T { … }`
//	           reassigning both, and a map literal with two keys
//	           {PlatformID: p, EncodingID: <local>} -> a Coq function of `high`
package main

import (
	"fmt"
	"go/ast"
	"go/token"
	"math/big"
	"strings"
)

func init() {
	kinds["cmplitf"] = kindCmplitF
	kinds["localconst"] = kindLocalConst
	kinds["pairlist"] = kindPairList
	kinds["c09install"] = kindC09Install
}

// findFuncs returns the functions called name; "Recv.name" selects a method by
// its receiver type (pointer or value).
func (p *pkgInfo) findFuncs(name string) []*ast.FuncDecl {
	recv := ""
	if i := strings.Index(name, "."); i >= 0 {
		recv, name = name[:i], name[i+1:]
	}
	var out []*ast.FuncDecl
	for _, f := range p.files {
		for _, d := range f.Decls {
			fd, ok := d.(*ast.FuncDecl)
			if !ok || fd.Name.Name != name {
				continue
			}
			if recv != "" {
				if fd.Recv == nil || len(fd.Recv.List) != 1 ||
					strings.TrimPrefix(p.exprText(fd.Recv.List[0].Type), "*") != recv {
					continue
				}
			}
			out = append(out, fd)
		}
	}
	return out
}

// evalIntF evaluates an integer constant expression, also accepting float
// literals with an integral value.
func (p *pkgInfo) evalIntF(e ast.Expr) (int64, error) {
	if bl, ok := e.(*ast.BasicLit); ok && bl.Kind == token.FLOAT {
		f, _, err := big.ParseFloat(strings.ReplaceAll(bl.Value, "_", ""), 0, 200, big.ToNearestEven)
		if err != nil {
			return 0, err
		}
		if !f.IsInt() {
			return 0, fmt.Errorf("float literal %s is not integral", bl.Value)
		}
		i, _ := f.Int64()
		return i, nil
	}
	return p.evalInt(e, 0)
}

func kindCmplitF(root string, p *pkgInfo, it item) (string, error) {
	fds := p.findFuncs(it.Name)
	if len(fds) != 1 {
		return "", fmt.Errorf("expected exactly one function %s, found %d", it.Name, len(fds))
	}
	var found []int64
	ast.Inspect(fds[0], func(n ast.Node) bool {
		be, ok := n.(*ast.BinaryExpr)
		if !ok || be.Op.String() != it.Op {
			return true
		}
		if p.exprText(be.X) != it.Lhs {
			return true
		}
		if v, err := p.evalIntF(be.Y); err == nil {
			found = append(found, v)
		}
		return true
	})
	if len(found) == 0 {
		return "", fmt.Errorf("no comparison `%s %s <literal>`", it.Lhs, it.Op)
	}
	for _, v := range found {
		if v != found[0] {
			return "", fmt.Errorf("comparisons `%s %s <literal>` carry different constants %v", it.Lhs, it.Op, found)
		}
	}
	return fmt.Sprintf("Definition %s : %s := %s.\n", it.Coq, it.Ctype, coqInt(found[0], it.Ctype)), nil
}

func kindLocalConst(root string, p *pkgInfo, it item) (string, error) {
	fds := p.findFuncs(it.Name)
	if len(fds) != 1 {
		return "", fmt.Errorf("expected exactly one function %s, found %d", it.Name, len(fds))
	}
	var found []int64
	ast.Inspect(fds[0], func(n ast.Node) bool {
		gd, ok := n.(*ast.GenDecl)
		if !ok || gd.Tok != token.CONST {
			return true
		}
		for _, s := range gd.Specs {
			vs := s.(*ast.ValueSpec)
			for i, id := range vs.Names {
				if id.Name == it.Lhs && i < len(vs.Values) {
					if v, err := p.evalInt(vs.Values[i], 0); err == nil {
						found = append(found, v)
					}
				}
			}
		}
		return true
	})
	if len(found) != 1 {
		return "", fmt.Errorf("expected exactly one local constant %s, found %d", it.Lhs, len(found))
	}
	return fmt.Sprintf("Definition %s : %s := %s.\n", it.Coq, it.Ctype, coqInt(found[0], it.Ctype)), nil
}

func kindPairList(root string, p *pkgInfo, it item) (string, error) {
	fds := p.findFuncs(it.Name)
	if len(fds) != 1 {
		return "", fmt.Errorf("expected exactly one function %s, found %d", it.Name, len(fds))
	}
	var lits []*ast.CompositeLit
	ast.Inspect(fds[0], func(n ast.Node) bool {
		as, ok := n.(*ast.AssignStmt)
		if !ok || len(as.Lhs) != 1 || len(as.Rhs) != 1 {
			return true
		}
		id, ok := as.Lhs[0].(*ast.Ident)
		if !ok || id.Name != it.Lhs {
			return true
		}
		if cl, ok := as.Rhs[0].(*ast.CompositeLit); ok {
			lits = append(lits, cl)
		}
		return true
	})
	if len(lits) != 1 {
		return "", fmt.Errorf("expected exactly one composite literal assigned to %s, found %d", it.Lhs, len(lits))
	}
	var parts []string
	for _, e := range lits[0].Elts {
		cl, ok := e.(*ast.CompositeLit)
		if !ok || len(cl.Elts) != 2 {
			return "", fmt.Errorf("element is not a pair literal")
		}
		var vals [2]int64
		for i, x := range cl.Elts {
			if kv, ok := x.(*ast.KeyValueExpr); ok {
				x = kv.Value
			}
			v, err := p.evalInt(x, 0)
			if err != nil {
				return "", err
			}
			vals[i] = v
		}
		parts = append(parts, fmt.Sprintf("(%d%%N, %d%%N)", vals[0], vals[1]))
	}
	// the list must be used by exactly one range loop over it (first match wins)
	return fmt.Sprintf("Definition %s : list (N * N) := [%s].\n", it.Coq, strings.Join(parts, "; ")), nil
}

func kindC09Install(root string, p *pkgInfo, it item) (string, error) {
	fds := p.findFuncs(it.Name)
	if len(fds) != 1 {
		return "", fmt.Errorf("expected exactly one function %s, found %d", it.Name, len(fds))
	}
	fd := fds[0]
	defaults := map[string]int64{}
	var order []string
	high := map[string]int64{}
	var threshold *int64
	type keyT struct {
		plat int64
		enc  string
	}
	var keys []keyT
	var bad error
	for _, st := range fd.Body.List {
		switch s := st.(type) {
		case *ast.AssignStmt:
			if s.Tok == token.DEFINE && len(s.Lhs) == 1 && len(s.Rhs) == 1 {
				id, ok := s.Lhs[0].(*ast.Ident)
				if !ok {
					continue
				}
				if v, err := p.evalInt(s.Rhs[0], 0); err == nil {
					defaults[id.Name] = v
					order = append(order, id.Name)
				}
				continue
			}
			// f.CMapTable = cmap.Table{ {PlatformID: 0, EncodingID: uniEncoding}: x, ... }
			if s.Tok == token.ASSIGN && len(s.Rhs) == 1 {
				cl, ok := s.Rhs[0].(*ast.CompositeLit)
				if !ok {
					continue
				}
				for _, e := range cl.Elts {
					kv, ok := e.(*ast.KeyValueExpr)
					if !ok {
						bad = fmt.Errorf("table literal element is not key: value")
						continue
					}
					kcl, ok := kv.Key.(*ast.CompositeLit)
					if !ok {
						bad = fmt.Errorf("table literal key is not a composite literal")
						continue
					}
					k := keyT{plat: -1}
					for _, f := range kcl.Elts {
						fkv, ok := f.(*ast.KeyValueExpr)
						if !ok {
							bad = fmt.Errorf("key literal without field names")
							continue
						}
						switch p.exprText(fkv.Key) {
						case "PlatformID":
							v, err := p.evalInt(fkv.Value, 0)
							if err != nil {
								bad = err
							}
							k.plat = v
						case "EncodingID":
							k.enc = p.exprText(fkv.Value)
						default:
							bad = fmt.Errorf("unexpected key field %s", p.exprText(fkv.Key))
						}
					}
					keys = append(keys, k)
				}
			}
		case *ast.IfStmt:
			be, ok := s.Cond.(*ast.BinaryExpr)
			if !ok || be.Op != token.GTR || p.exprText(be.X) != "high" || s.Else != nil {
				bad = fmt.Errorf("unexpected if statement %s", p.exprText(s.Cond))
				continue
			}
			as, ok := s.Init.(*ast.AssignStmt)
			if !ok || p.exprText(as.Rhs[0]) != "s.CodeRange()" || len(as.Lhs) != 2 || p.exprText(as.Lhs[1]) != "high" {
				bad = fmt.Errorf("`high` is not the second result of s.CodeRange()")
				continue
			}
			v, err := p.evalInt(be.Y, 0)
			if err != nil {
				bad = err
				continue
			}
			threshold = &v
			for _, bs := range s.Body.List {
				as, ok := bs.(*ast.AssignStmt)
				if !ok || as.Tok != token.ASSIGN || len(as.Lhs) != 1 {
					bad = fmt.Errorf("unexpected statement in if body")
					continue
				}
				v, err := p.evalInt(as.Rhs[0], 0)
				if err != nil {
					bad = err
					continue
				}
				high[p.exprText(as.Lhs[0])] = v
			}
		}
	}
	if bad != nil {
		return "", bad
	}
	if threshold == nil || len(keys) == 0 {
		return "", fmt.Errorf("InstallCMap: decision not recognised")
	}
	var lo, hi []string
	for _, k := range keys {
		d, ok := defaults[k.enc]
		if !ok || k.plat < 0 {
			return "", fmt.Errorf("encoding id %q is not one of the locals", k.enc)
		}
		h, ok := high[k.enc]
		if !ok {
			h = d
		}
		lo = append(lo, fmt.Sprintf("(%d%%N, %d%%N)", k.plat, d))
		hi = append(hi, fmt.Sprintf("(%d%%N, %d%%N)", k.plat, h))
	}
	_ = order
	return fmt.Sprintf("Definition %s (high : Z) : list (N * N) :=\n  if (%d <? high)%%Z then [%s] else [%s].\n",
		it.Coq, *threshold, strings.Join(hi, "; "), strings.Join(lo, "; ")), nil
}
