package main

// Item kinds added for C03 (sfnt container writer):
//
//	binlit   the integer literal operand of a binary expression inside a
//	         function: {"name": func, "op": "-", "lhs": text of the other operand}
//	zexpr    an integer expression of a function translated to a Coq function
//	         over Z: the value of the composite-literal field or the right-hand
//	         side of the assignment whose left-hand side is "lhs" (and whose
//	         assignment operator is "op" when given); "arg" lists the free
//	         identifiers, in order, that become the parameters; "ctype" is the Go
//	         type the expression is evaluated in: "int" (no wrap), "u16" or
//	         "u32" (every arithmetic result is reduced modulo 2^16 / 2^32).
//	         Conversions T(x) evaluate x as int and reduce modulo the width of T.
//	         Shift counts are evaluated as int.  Supported: integer literals,
//	         identifiers, parentheses, + - * / <<, conversions to
//	         int/uint/int64/uint16/uint32, bits.Len, len(x) (parameter len_x).
//	         Anything else is reported and the definition is left out.

import (
	"fmt"
	"go/ast"
	"go/token"
	"strings"
)

func init() {
	kinds["binlit"] = genBinLit
	kinds["zexpr"] = genZExpr
}

func genBinLit(root string, p *pkgInfo, it item) (string, error) {
	fd := p.findFunc(it.Name)
	if fd == nil {
		return "", fmt.Errorf("function not found")
	}
	var found []int64
	ast.Inspect(fd, func(n ast.Node) bool {
		be, ok := n.(*ast.BinaryExpr)
		if !ok || be.Op.String() != it.Op {
			return true
		}
		if p.exprText(be.Y) == it.Lhs {
			if v, err := p.evalInt(be.X, 0); err == nil {
				found = append(found, v)
			}
		} else if p.exprText(be.X) == it.Lhs {
			if v, err := p.evalInt(be.Y, 0); err == nil {
				found = append(found, v)
			}
		}
		return true
	})
	if len(found) != 1 {
		return "", fmt.Errorf("expected exactly one `<literal> %s %s`, found %d", it.Op, it.Lhs, len(found))
	}
	return fmt.Sprintf("Definition %s : %s := %s.\n", it.Coq, it.Ctype, coqInt(found[0], it.Ctype)), nil
}

type zctx struct {
	p      *pkgInfo
	params map[string]bool
}

func wrapOf(ty string) string {
	switch ty {
	case "u16", "uint16":
		return "65536"
	case "u32", "uint32":
		return "4294967296"
	case "u8", "uint8", "byte":
		return "256"
	}
	return ""
}

func (c *zctx) wrap(ty, s string) string {
	if m := wrapOf(ty); m != "" {
		return "((" + s + ") mod " + m + ")"
	}
	return s
}

func (c *zctx) tr(e ast.Expr, ty string) (string, error) {
	switch x := e.(type) {
	case *ast.BasicLit:
		if x.Kind == token.INT {
			v, err := c.p.evalInt(x, 0)
			if err != nil {
				return "", err
			}
			return fmt.Sprintf("%d", v), nil
		}
	case *ast.Ident:
		if c.params[x.Name] {
			return x.Name, nil
		}
		if v, err := c.p.evalInt(x, 0); err == nil {
			return fmt.Sprintf("%d", v), nil
		}
		return "", fmt.Errorf("free identifier %s is not a declared parameter", x.Name)
	case *ast.ParenExpr:
		s, err := c.tr(x.X, ty)
		if err != nil {
			return "", err
		}
		return "(" + s + ")", nil
	case *ast.BinaryExpr:
		a, err := c.tr(x.X, ty)
		if err != nil {
			return "", err
		}
		switch x.Op {
		case token.SHL:
			b, err := c.tr(x.Y, "int")
			if err != nil {
				return "", err
			}
			return c.wrap(ty, "Z.shiftl ("+a+") ("+b+")"), nil
		case token.ADD, token.SUB, token.MUL, token.QUO:
			b, err := c.tr(x.Y, ty)
			if err != nil {
				return "", err
			}
			op := map[token.Token]string{token.ADD: "+", token.SUB: "-", token.MUL: "*"}[x.Op]
			if x.Op == token.QUO {
				return c.wrap(ty, "Z.quot ("+a+") ("+b+")"), nil
			}
			return c.wrap(ty, "("+a+") "+op+" ("+b+")"), nil
		}
		return "", fmt.Errorf("unsupported operator %s", x.Op)
	case *ast.CallExpr:
		fn := c.p.exprText(x.Fun)
		if len(x.Args) != 1 {
			return "", fmt.Errorf("unsupported call %s", fn)
		}
		switch fn {
		case "int", "uint", "int64", "uint64":
			return c.tr(x.Args[0], "int")
		case "uint16", "uint32", "uint8", "byte":
			s, err := c.tr(x.Args[0], "int")
			if err != nil {
				return "", err
			}
			return c.wrap(fn, s), nil
		case "bits.Len":
			s, err := c.tr(x.Args[0], "int")
			if err != nil {
				return "", err
			}
			return "(if (" + s + ") =? 0 then 0 else Z.log2 (" + s + ") + 1)", nil
		case "len":
			nm := "len_" + c.p.exprText(x.Args[0])
			if c.params[nm] {
				return nm, nil
			}
			return "", fmt.Errorf("len(...) needs parameter %s", nm)
		}
		return "", fmt.Errorf("unsupported call %s", fn)
	}
	return "", fmt.Errorf("unsupported expression %s", c.p.exprText(e))
}

// findPlainFunc finds a function (not a method) by name.
func findPlainFunc(p *pkgInfo, name string) *ast.FuncDecl {
	for _, f := range p.files {
		for _, d := range f.Decls {
			fd, ok := d.(*ast.FuncDecl)
			if ok && fd.Name.Name == name && fd.Recv == nil {
				return fd
			}
		}
	}
	return nil
}

func genZExpr(root string, p *pkgInfo, it item) (string, error) {
	fd := findPlainFunc(p, it.Name)
	if fd == nil {
		return "", fmt.Errorf("function not found")
	}
	var found []ast.Expr
	ast.Inspect(fd, func(n ast.Node) bool {
		switch x := n.(type) {
		case *ast.KeyValueExpr:
			if id, ok := x.Key.(*ast.Ident); ok && id.Name == it.Lhs && it.Op == "" {
				found = append(found, x.Value)
			}
		case *ast.AssignStmt:
			if len(x.Lhs) == 1 && len(x.Rhs) == 1 && p.exprText(x.Lhs[0]) == it.Lhs &&
				(it.Op == "" || x.Tok.String() == it.Op) {
				found = append(found, x.Rhs[0])
			}
		}
		return true
	})
	if len(found) != 1 {
		return "", fmt.Errorf("expected exactly one definition of %s (op %q), found %d", it.Lhs, it.Op, len(found))
	}
	c := &zctx{p: p, params: map[string]bool{}}
	var names []string
	for _, a := range strings.Split(it.Arg, ",") {
		a = strings.TrimSpace(a)
		if a != "" {
			c.params[a] = true
			names = append(names, a)
		}
	}
	body, err := c.tr(found[0], it.Ctype)
	if err != nil {
		return "", err
	}
	src := fmt.Sprintf("(* Go: %s *)\n", strings.ReplaceAll(strings.ReplaceAll(p.exprText(found[0]), "*)", "* )"), "(*", "( *"))
	return src + fmt.Sprintf("Definition %s (%s : Z) : Z := (%s)%%Z.\n", it.Coq, strings.Join(names, " "), body), nil
}
