package main

// Item kinds used by property C15 (end-to-end layout).
//
//	boolmap     a package-level map[string]bool composite literal whose keys
//	            are 4-byte tags: emitted as an association list (tag as N,
//	            value) sorted by tag
//	localrunes  a []string composite literal assigned to the local variable
//	            named by "arg" inside the function "name": emitted as a list
//	            of rune lists
//	andlits     the integer literals c of all expressions `<lhs> & c` inside
//	            the function "name", in source order

import (
	"fmt"
	"go/ast"
	"go/token"
	"sort"
	"strconv"
	"strings"
)

func init() {
	kinds["boolmap"] = kindBoolMap
	kinds["localrunes"] = kindLocalRunes
	kinds["andlits"] = kindAndLits
}

func kindBoolMap(root string, p *pkgInfo, it item) (string, error) {
	v, gd, _ := p.findValue(it.Name)
	if gd == nil || v == nil {
		return "", fmt.Errorf("not found")
	}
	cl, ok := v.(*ast.CompositeLit)
	if !ok {
		return "", fmt.Errorf("not a composite literal")
	}
	if p.exprText(cl.Type) != "map[string]bool" {
		return "", fmt.Errorf("type is %s, not map[string]bool", p.exprText(cl.Type))
	}
	type kv struct {
		k int64
		v bool
	}
	var kvs []kv
	seen := map[int64]bool{}
	for _, e := range cl.Elts {
		pair, ok := e.(*ast.KeyValueExpr)
		if !ok {
			return "", fmt.Errorf("not a key/value element")
		}
		bl, ok := pair.Key.(*ast.BasicLit)
		if !ok || bl.Kind != token.STRING {
			return "", fmt.Errorf("non-literal key")
		}
		s, err := strconv.Unquote(bl.Value)
		if err != nil {
			return "", err
		}
		k, err := tagN(s)
		if err != nil {
			return "", err
		}
		id, ok := pair.Value.(*ast.Ident)
		if !ok || (id.Name != "true" && id.Name != "false") {
			return "", fmt.Errorf("value of %q is not a boolean literal", s)
		}
		if seen[k] {
			return "", fmt.Errorf("duplicate key %q", s)
		}
		seen[k] = true
		kvs = append(kvs, kv{k, id.Name == "true"})
	}
	sort.Slice(kvs, func(i, j int) bool { return kvs[i].k < kvs[j].k })
	var parts []string
	for _, x := range kvs {
		parts = append(parts, fmt.Sprintf("(%d%%N, %v)", x.k, x.v))
	}
	return fmt.Sprintf("Definition %s : list (N * bool) := [%s].\n", it.Coq, strings.Join(parts, "; ")), nil
}

func kindLocalRunes(root string, p *pkgInfo, it item) (string, error) {
	fd := p.findFunc(it.Name)
	if fd == nil {
		return "", fmt.Errorf("function not found")
	}
	var lits []*ast.CompositeLit
	ast.Inspect(fd, func(n ast.Node) bool {
		as, ok := n.(*ast.AssignStmt)
		if !ok || len(as.Lhs) != 1 || len(as.Rhs) != 1 {
			return true
		}
		id, ok := as.Lhs[0].(*ast.Ident)
		if !ok || id.Name != it.Arg {
			return true
		}
		if cl, ok := as.Rhs[0].(*ast.CompositeLit); ok {
			lits = append(lits, cl)
		}
		return true
	})
	if len(lits) != 1 {
		return "", fmt.Errorf("expected exactly one assignment of a composite literal to %s, found %d", it.Arg, len(lits))
	}
	if p.exprText(lits[0].Type) != "[]string" {
		return "", fmt.Errorf("type is %s, not []string", p.exprText(lits[0].Type))
	}
	var parts []string
	for _, e := range lits[0].Elts {
		bl, ok := e.(*ast.BasicLit)
		if !ok || bl.Kind != token.STRING {
			return "", fmt.Errorf("non-string element")
		}
		s, err := strconv.Unquote(bl.Value)
		if err != nil {
			return "", err
		}
		var rs []string
		for _, r := range s {
			rs = append(rs, fmt.Sprintf("%d%%N", r))
		}
		parts = append(parts, "["+strings.Join(rs, "; ")+"]")
	}
	return fmt.Sprintf("Definition %s : list (list N) := [%s].\n", it.Coq, strings.Join(parts, "; ")), nil
}

func kindAndLits(root string, p *pkgInfo, it item) (string, error) {
	fd := p.findFunc(it.Name)
	if fd == nil {
		return "", fmt.Errorf("function not found")
	}
	var found []string
	ast.Inspect(fd, func(n ast.Node) bool {
		be, ok := n.(*ast.BinaryExpr)
		if !ok || be.Op != token.AND {
			return true
		}
		if p.exprText(be.X) != it.Lhs {
			return true
		}
		v, err := p.evalInt(be.Y, 0)
		if err == nil {
			found = append(found, coqInt(v, it.Ctype))
		}
		return true
	})
	if len(found) == 0 {
		return "", fmt.Errorf("no expression `%s & <literal>` found", it.Lhs)
	}
	return fmt.Sprintf("Definition %s : list %s := [%s].\n", it.Coq, it.Ctype, strings.Join(found, "; ")), nil
}
