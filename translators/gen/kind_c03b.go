package main

// Translator kinds of part C03B (table-map assembly of the three font writers
// of /repo/write.go).
//
//	c03b_prelude   the step language the writer items are emitted in (fixed text)
//	c03b_writer    the body of the method `name` of receiver type `op`,
//	               executed SYMBOLICALLY statement by statement into one linear
//	               list of steps per path (one path per case of the type switch
//	               on f.Outlines, a single path when there is none).  Local
//	               variables are replaced by the expressions they were bound to,
//	               so that every table source is named by a closed expression
//	               over the receiver: `hheaData` becomes "f.makeHmtx()#0",
//	               `enc.GlyfData` becomes
//	               "f.Outlines.(*glyf.Outlines).Glyphs.Encode().GlyfData", the
//	               `outlines` of a type-switch case becomes "f.Outlines.(T)".
//	               Two writers that hand the same expression to the same key
//	               therefore show the same text.
//	c03b_boolcond  the condition of the one `if` statement of function `name`
//	               (receiver `op`, empty = plain function) whose printed text
//	               contains `arg`, as a Coq function over bool: supported are
//	               !x, x || y, x && y, parentheses, identifiers and `e != nil`
//	               / `e == nil`; the atoms become the arguments, in order of
//	               first occurrence (their texts are emitted next to it)
//	c03b_litkeys   the field names of the one composite literal of type `arg`
//	               inside function `name` (receiver `op`), with the printed
//	               value expressions                     -> list (string * string)
//
// Supported statement shapes of c03b_writer (anything else loses the item, so
// a new kind of statement in a writer breaks C03B/Tie.v until the model
// follows):
//
//	tableData := make(map[string][]byte)                     (first statement)
//	x, y := call()  /  x := expr  /  x = expr  /  var x T    bindings
//	x := e.(T)                                               assert + binding
//	tableData["k"] = expr                                    set
//	tableData["a"], tableData["b"] = call()                  two sets
//	if e != nil { tableData["k"] = expr }                    conditional set
//	x, err := call(); if err != nil { return [0,] err }      error check
//	switch v := f.Outlines.(type) { case T: ...; default: panic(..) }
//	for k, v := range m { tableData[k] = v }                 range
//	for init; cond; post { tableData[K] = V }                the extraTables loop (texts)
//	panic(...)
//	return header.Write(w, s, tableData)
//	_, err = header.Write(w, s, tableData); return err

import (
	"fmt"
	"go/ast"
	"go/printer"
	"go/token"
	"strconv"
	"strings"
)

const c03bPrelude = `Inductive c03b_step : Type :=
| C03b_set (key src : string)                  (* tableData[key] = src *)
| C03b_set_if (cond key src : string)          (* if cond != nil { tableData[key] = src } *)
| C03b_range (m : string)                      (* for name, data := range m { tableData[name] = data } *)
| C03b_assert (x ty : string)                  (* x.(ty), single-valued form: panics on another dynamic type *)
| C03b_errcheck (call : string)                (* ..., err := call; if err != nil { return ..., err } *)
| C03b_extra (init cond post key val : string) (* for init; cond; post { tableData[key] = val } *)
| C03b_panic
| C03b_write (scaler : string).                (* return header.Write(w, scaler, tableData) *)
`

type c03bPath struct {
	guard string
	steps []string
	done  bool
}

type c03bExec struct {
	p        *pkgInfo
	mapName  string // "tableData"
	switched bool
}

func (x *c03bExec) norm(e ast.Expr, env map[string]string) (string, error) {
	switch v := e.(type) {
	case *ast.Ident:
		if s, ok := env[v.Name]; ok {
			return s, nil
		}
		return v.Name, nil
	case *ast.BasicLit:
		return v.Value, nil
	case *ast.ParenExpr:
		s, err := x.norm(v.X, env)
		return "(" + s + ")", err
	case *ast.SelectorExpr:
		s, err := x.norm(v.X, env)
		return s + "." + v.Sel.Name, err
	case *ast.StarExpr:
		s, err := x.norm(v.X, env)
		return "*" + s, err
	case *ast.UnaryExpr:
		s, err := x.norm(v.X, env)
		return v.Op.String() + s, err
	case *ast.BinaryExpr:
		a, err := x.norm(v.X, env)
		if err != nil {
			return "", err
		}
		b, err := x.norm(v.Y, env)
		return a + " " + v.Op.String() + " " + b, err
	case *ast.IndexExpr:
		a, err := x.norm(v.X, env)
		if err != nil {
			return "", err
		}
		b, err := x.norm(v.Index, env)
		return a + "[" + b + "]", err
	case *ast.TypeAssertExpr:
		if v.Type == nil {
			return "", fmt.Errorf(".(type) outside a type switch")
		}
		a, err := x.norm(v.X, env)
		return a + ".(" + x.p.exprText(v.Type) + ")", err
	case *ast.CallExpr:
		f, err := x.norm(v.Fun, env)
		if err != nil {
			return "", err
		}
		var args []string
		for _, a := range v.Args {
			s, err := x.norm(a, env)
			if err != nil {
				return "", err
			}
			args = append(args, s)
		}
		return f + "(" + strings.Join(args, ", ") + ")", nil
	case *ast.CompositeLit:
		var parts []string
		for _, el := range v.Elts {
			kv, ok := el.(*ast.KeyValueExpr)
			if !ok {
				return "", fmt.Errorf("positional composite literal")
			}
			s, err := x.norm(kv.Value, env)
			if err != nil {
				return "", err
			}
			parts = append(parts, x.p.exprText(kv.Key)+": "+s)
		}
		return x.p.exprText(v.Type) + "{" + strings.Join(parts, ", ") + "}", nil
	}
	return "", fmt.Errorf("unsupported expression %s", x.p.exprText(e))
}

// mapKey returns the literal key of `tableData["k"]`, ok=false for another expression.
func (x *c03bExec) mapKey(e ast.Expr) (key string, lit bool, isMap bool) {
	ix, ok := e.(*ast.IndexExpr)
	if !ok {
		return "", false, false
	}
	id, ok := ix.X.(*ast.Ident)
	if !ok || id.Name != x.mapName {
		return "", false, false
	}
	bl, ok := ix.Index.(*ast.BasicLit)
	if !ok || bl.Kind != token.STRING {
		return "", false, true
	}
	s, err := strconv.Unquote(bl.Value)
	if err != nil {
		return "", false, true
	}
	return s, true, true
}

func cloneEnv(env map[string]string) map[string]string {
	n := make(map[string]string, len(env))
	for k, v := range env {
		n[k] = v
	}
	return n
}

func c03bStep(name string, args ...string) string {
	var q []string
	for _, a := range args {
		q = append(q, coqString(a))
	}
	if len(q) == 0 {
		return name
	}
	return name + " " + strings.Join(q, " ")
}

func isHeaderWrite(p *pkgInfo, e ast.Expr, mapName string) (scaler ast.Expr, ok bool) {
	c, isCall := e.(*ast.CallExpr)
	if !isCall || p.exprText(c.Fun) != "header.Write" || len(c.Args) != 3 {
		return nil, false
	}
	if p.exprText(c.Args[0]) != "w" || p.exprText(c.Args[2]) != mapName {
		return nil, false
	}
	return c.Args[1], true
}

// exec runs stmts on one path; the type switch forks and runs the remaining
// statements on every fork.
func (x *c03bExec) exec(stmts []ast.Stmt, env map[string]string, cur c03bPath) ([]c03bPath, error) {
	for i, st := range stmts {
		if cur.done {
			// unreachable: the path ended in a panic or a return inside a case body
			break
		}
		switch s := st.(type) {
		case *ast.DeclStmt:
			gd, ok := s.Decl.(*ast.GenDecl)
			if !ok || gd.Tok != token.VAR {
				return nil, fmt.Errorf("unsupported declaration")
			}
			for _, sp := range gd.Specs {
				vs := sp.(*ast.ValueSpec)
				if len(vs.Values) == 0 {
					if vs.Type == nil {
						return nil, fmt.Errorf("var without type")
					}
					for _, n := range vs.Names {
						env[n.Name] = "zero(" + x.p.exprText(vs.Type) + ")"
					}
					continue
				}
				if len(vs.Values) != len(vs.Names) {
					return nil, fmt.Errorf("unsupported var declaration")
				}
				for j, n := range vs.Names {
					t, err := x.norm(vs.Values[j], env)
					if err != nil {
						return nil, err
					}
					env[n.Name] = t
				}
			}
		case *ast.AssignStmt:
			if err := x.assign(s, env, &cur); err != nil {
				return nil, err
			}
		case *ast.IfStmt:
			if err := x.ifStmt(s, env, &cur); err != nil {
				return nil, err
			}
		case *ast.ExprStmt:
			c, ok := s.X.(*ast.CallExpr)
			if !ok || x.p.exprText(c.Fun) != "panic" {
				return nil, fmt.Errorf("unsupported expression statement %s", x.stmtText(st))
			}
			cur.steps = append(cur.steps, "C03b_panic")
			cur.done = true
		case *ast.RangeStmt:
			if s.Key == nil || s.Value == nil || s.Tok != token.DEFINE || len(s.Body.List) != 1 {
				return nil, fmt.Errorf("unsupported range loop")
			}
			as, ok := s.Body.List[0].(*ast.AssignStmt)
			if !ok || as.Tok != token.ASSIGN || len(as.Lhs) != 1 || len(as.Rhs) != 1 {
				return nil, fmt.Errorf("unsupported range body")
			}
			want := x.mapName + "[" + x.p.exprText(s.Key) + "]"
			if x.p.exprText(as.Lhs[0]) != want || x.p.exprText(as.Rhs[0]) != x.p.exprText(s.Value) {
				return nil, fmt.Errorf("range body is not %s = %s", want, x.p.exprText(s.Value))
			}
			m, err := x.norm(s.X, env)
			if err != nil {
				return nil, err
			}
			cur.steps = append(cur.steps, c03bStep("C03b_range", m))
		case *ast.ForStmt:
			if s.Init == nil || s.Cond == nil || s.Post == nil || len(s.Body.List) != 1 {
				return nil, fmt.Errorf("unsupported for loop")
			}
			as, ok := s.Body.List[0].(*ast.AssignStmt)
			if !ok || as.Tok != token.ASSIGN || len(as.Lhs) != 1 || len(as.Rhs) != 1 {
				return nil, fmt.Errorf("unsupported for body")
			}
			ix, ok := as.Lhs[0].(*ast.IndexExpr)
			if !ok || x.p.exprText(ix.X) != x.mapName {
				return nil, fmt.Errorf("for body does not assign to %s", x.mapName)
			}
			cur.steps = append(cur.steps, c03bStep("C03b_extra", x.stmtText(s.Init), x.p.exprText(s.Cond),
				x.stmtText(s.Post), x.p.exprText(ix.Index), x.p.exprText(as.Rhs[0])))
		case *ast.TypeSwitchStmt:
			if x.switched {
				return nil, fmt.Errorf("more than one type switch")
			}
			x.switched = true
			if s.Init != nil {
				return nil, fmt.Errorf("type switch with init")
			}
			as, ok := s.Assign.(*ast.AssignStmt)
			if !ok || len(as.Lhs) != 1 || len(as.Rhs) != 1 {
				return nil, fmt.Errorf("unsupported type switch")
			}
			ta, ok := as.Rhs[0].(*ast.TypeAssertExpr)
			if !ok || ta.Type != nil {
				return nil, fmt.Errorf("unsupported type switch")
			}
			subj, err := x.norm(ta.X, env)
			if err != nil {
				return nil, err
			}
			vname := x.p.exprText(as.Lhs[0])
			var out []c03bPath
			hasDefault := false
			for _, cl := range s.Body.List {
				cc := cl.(*ast.CaseClause)
				e2 := cloneEnv(env)
				p2 := c03bPath{steps: append([]string(nil), cur.steps...)}
				switch len(cc.List) {
				case 0:
					hasDefault = true
					p2.guard = subj + ".(default)"
					e2[vname] = subj
				case 1:
					ty := x.p.exprText(cc.List[0])
					p2.guard = subj + ".(" + ty + ")"
					e2[vname] = subj + ".(" + ty + ")"
				default:
					return nil, fmt.Errorf("case with several types")
				}
				rest := append(append([]ast.Stmt(nil), cc.Body...), stmts[i+1:]...)
				ps, err := x.exec(rest, e2, p2)
				if err != nil {
					return nil, err
				}
				out = append(out, ps...)
			}
			if !hasDefault {
				// no case taken: the statements after the switch run
				p2 := c03bPath{guard: subj + ".(default)", steps: append([]string(nil), cur.steps...)}
				ps, err := x.exec(stmts[i+1:], cloneEnv(env), p2)
				if err != nil {
					return nil, err
				}
				out = append(out, ps...)
			}
			return out, nil
		case *ast.ReturnStmt:
			if len(s.Results) == 0 {
				return nil, fmt.Errorf("bare return")
			}
			last := s.Results[len(s.Results)-1]
			if sc, ok := isHeaderWrite(x.p, last, x.mapName); ok && len(s.Results) == 1 {
				t, err := x.norm(sc, env)
				if err != nil {
					return nil, err
				}
				cur.steps = append(cur.steps, c03bStep("C03b_write", t))
				cur.done = true
				break
			}
			t, err := x.norm(last, env)
			if err != nil {
				return nil, err
			}
			if t == "header.Write#err" && len(s.Results) == 1 {
				cur.done = true
				break
			}
			return nil, fmt.Errorf("unsupported return %s", x.stmtText(st))
		default:
			return nil, fmt.Errorf("unsupported statement %s", x.stmtText(st))
		}
	}
	if !cur.done {
		return nil, fmt.Errorf("path %q falls off the end of the function", cur.guard)
	}
	return []c03bPath{cur}, nil
}

func (x *c03bExec) stmtText(s ast.Stmt) string { return c03bNodeText(x.p, s) }

func c03bNodeText(p *pkgInfo, n ast.Node) string {
	var b strings.Builder
	_ = printer.Fprint(&b, p.fset, n)
	return strings.Join(strings.Fields(b.String()), " ")
}

func (x *c03bExec) assign(s *ast.AssignStmt, env map[string]string, cur *c03bPath) error {
	if s.Tok != token.DEFINE && s.Tok != token.ASSIGN {
		return fmt.Errorf("unsupported assignment operator in %s", x.stmtText(s))
	}
	// header.Write as the right-hand side: the file is written here
	if len(s.Rhs) == 1 {
		if sc, ok := isHeaderWrite(x.p, s.Rhs[0], x.mapName); ok {
			if len(s.Lhs) != 2 || x.p.exprText(s.Lhs[0]) != "_" {
				return fmt.Errorf("unsupported use of header.Write: %s", x.stmtText(s))
			}
			t, err := x.norm(sc, env)
			if err != nil {
				return err
			}
			cur.steps = append(cur.steps, c03bStep("C03b_write", t))
			env[x.p.exprText(s.Lhs[1])] = "header.Write#err"
			return nil
		}
	}
	nMap := 0
	for _, l := range s.Lhs {
		if _, _, isMap := x.mapKey(l); isMap {
			nMap++
		}
	}
	if nMap > 0 {
		if nMap != len(s.Lhs) || s.Tok != token.ASSIGN {
			return fmt.Errorf("mixed assignment %s", x.stmtText(s))
		}
		var srcs []string
		switch {
		case len(s.Rhs) == len(s.Lhs):
			for _, r := range s.Rhs {
				t, err := x.norm(r, env)
				if err != nil {
					return err
				}
				srcs = append(srcs, t)
			}
		case len(s.Rhs) == 1:
			t, err := x.norm(s.Rhs[0], env)
			if err != nil {
				return err
			}
			for j := range s.Lhs {
				srcs = append(srcs, fmt.Sprintf("%s#%d", t, j))
			}
		default:
			return fmt.Errorf("unsupported assignment %s", x.stmtText(s))
		}
		for j, l := range s.Lhs {
			k, lit, _ := x.mapKey(l)
			if !lit {
				return fmt.Errorf("table key is not a string literal in %s", x.stmtText(s))
			}
			cur.steps = append(cur.steps, c03bStep("C03b_set", k, srcs[j]))
		}
		return nil
	}
	// bindings of local variables
	var names []string
	for _, l := range s.Lhs {
		id, ok := l.(*ast.Ident)
		if !ok {
			return fmt.Errorf("unsupported left-hand side in %s", x.stmtText(s))
		}
		names = append(names, id.Name)
	}
	if len(names) == 1 && names[0] == x.mapName {
		if s.Tok != token.DEFINE || len(cur.steps) != 0 || x.p.exprText(s.Rhs[0]) != "make(map[string][]byte)" {
			return fmt.Errorf("the table map is not created empty at the start: %s", x.stmtText(s))
		}
		return nil
	}
	var vals []string
	switch {
	case len(s.Rhs) == len(names):
		for _, r := range s.Rhs {
			if ta, ok := r.(*ast.TypeAssertExpr); ok {
				if ta.Type == nil {
					return fmt.Errorf("unsupported type assertion")
				}
				sub, err := x.norm(ta.X, env)
				if err != nil {
					return err
				}
				cur.steps = append(cur.steps, c03bStep("C03b_assert", sub, x.p.exprText(ta.Type)))
			}
			t, err := x.norm(r, env)
			if err != nil {
				return err
			}
			vals = append(vals, t)
		}
	case len(s.Rhs) == 1:
		if _, ok := s.Rhs[0].(*ast.CallExpr); !ok {
			return fmt.Errorf("unsupported multi-value binding %s", x.stmtText(s))
		}
		t, err := x.norm(s.Rhs[0], env)
		if err != nil {
			return err
		}
		for j := range names {
			vals = append(vals, fmt.Sprintf("%s#%d", t, j))
		}
	default:
		return fmt.Errorf("unsupported assignment %s", x.stmtText(s))
	}
	for j, n := range names {
		if n != "_" {
			env[n] = vals[j]
		}
	}
	return nil
}

func (x *c03bExec) ifStmt(s *ast.IfStmt, env map[string]string, cur *c03bPath) error {
	if s.Init != nil || s.Else != nil || len(s.Body.List) != 1 {
		return fmt.Errorf("unsupported if statement %s", x.stmtText(s))
	}
	be, ok := s.Cond.(*ast.BinaryExpr)
	if !ok || be.Op != token.NEQ || x.p.exprText(be.Y) != "nil" {
		return fmt.Errorf("unsupported condition %s", x.p.exprText(s.Cond))
	}
	c, err := x.norm(be.X, env)
	if err != nil {
		return err
	}
	switch b := s.Body.List[0].(type) {
	case *ast.AssignStmt:
		if b.Tok != token.ASSIGN || len(b.Lhs) != 1 || len(b.Rhs) != 1 {
			return fmt.Errorf("unsupported conditional statement %s", x.stmtText(b))
		}
		k, lit, isMap := x.mapKey(b.Lhs[0])
		if !isMap || !lit {
			return fmt.Errorf("unsupported conditional statement %s", x.stmtText(b))
		}
		t, err := x.norm(b.Rhs[0], env)
		if err != nil {
			return err
		}
		cur.steps = append(cur.steps, c03bStep("C03b_set_if", c, k, t))
		return nil
	case *ast.ReturnStmt:
		// error check: the condition is the error result of a call
		j := strings.LastIndex(c, "#")
		if j < 0 || len(b.Results) == 0 {
			return fmt.Errorf("unsupported early return %s", x.stmtText(s))
		}
		for _, r := range b.Results[:len(b.Results)-1] {
			if x.p.exprText(r) != "0" {
				return fmt.Errorf("early return with a non-zero count: %s", x.stmtText(b))
			}
		}
		t, err := x.norm(b.Results[len(b.Results)-1], env)
		if err != nil {
			return err
		}
		if t != c {
			return fmt.Errorf("early return does not return the error tested: %s", x.stmtText(s))
		}
		cur.steps = append(cur.steps, c03bStep("C03b_errcheck", c[:j]))
		return nil
	}
	return fmt.Errorf("unsupported if body %s", x.stmtText(s))
}

// ---- boolean conditions ----

type c03bBool struct {
	p     *pkgInfo
	atoms []string
}

func (c *c03bBool) atom(text string) string {
	for i, a := range c.atoms {
		if a == text {
			return fmt.Sprintf("a%d", i)
		}
	}
	c.atoms = append(c.atoms, text)
	return fmt.Sprintf("a%d", len(c.atoms)-1)
}

func (c *c03bBool) tr(e ast.Expr) (string, error) {
	switch v := e.(type) {
	case *ast.ParenExpr:
		s, err := c.tr(v.X)
		return "(" + s + ")", err
	case *ast.UnaryExpr:
		if v.Op != token.NOT {
			return "", fmt.Errorf("unsupported operator %s", v.Op)
		}
		s, err := c.tr(v.X)
		return "(negb " + s + ")", err
	case *ast.Ident:
		return c.atom(v.Name), nil
	case *ast.BinaryExpr:
		switch v.Op {
		case token.LOR, token.LAND:
			a, err := c.tr(v.X)
			if err != nil {
				return "", err
			}
			b, err := c.tr(v.Y)
			op := "||"
			if v.Op == token.LAND {
				op = "&&"
			}
			return "(" + a + " " + op + " " + b + ")", err
		case token.NEQ, token.EQL:
			if c.p.exprText(v.Y) != "nil" {
				// any other comparison is an atom of its own
				return c.atom(c.p.exprText(v)), nil
			}
			a := c.atom(c.p.exprText(v.X) + " != nil")
			if v.Op == token.EQL {
				return "(negb " + a + ")", nil
			}
			return a, nil
		}
	}
	return "", fmt.Errorf("unsupported condition %s", c.p.exprText(e))
}

func c03bFindFunc(p *pkgInfo, name, recv string) *ast.FuncDecl {
	for _, f := range p.files {
		for _, d := range f.Decls {
			fd, ok := d.(*ast.FuncDecl)
			if !ok || fd.Name.Name != name {
				continue
			}
			if recv == "" {
				if fd.Recv == nil {
					return fd
				}
				continue
			}
			if fd.Recv != nil && len(fd.Recv.List) == 1 {
				if strings.TrimPrefix(p.exprText(fd.Recv.List[0].Type), "*") == recv {
					return fd
				}
			}
		}
	}
	return nil
}

func init() {
	kinds["c03b_prelude"] = func(root string, p *pkgInfo, it item) (string, error) {
		return c03bPrelude, nil
	}

	kinds["c03b_writer"] = func(root string, p *pkgInfo, it item) (string, error) {
		fd := c03bFindFunc(p, it.Name, it.Op)
		if fd == nil || fd.Body == nil {
			return "", fmt.Errorf("method not found")
		}
		x := &c03bExec{p: p, mapName: "tableData"}
		paths, err := x.exec(fd.Body.List, map[string]string{}, c03bPath{})
		if err != nil {
			return "", err
		}
		var b strings.Builder
		// the signature, so that a new argument or result is seen
		var params []string
		for _, f := range fd.Type.Params.List {
			for _, n := range f.Names {
				params = append(params, n.Name+" "+p.exprText(f.Type))
			}
		}
		var results []string
		if fd.Type.Results != nil {
			for _, f := range fd.Type.Results.List {
				results = append(results, p.exprText(f.Type))
			}
		}
		fmt.Fprintf(&b, "Definition %s_signature : string := %s%%string.\n", it.Coq,
			coqString("("+strings.Join(params, ", ")+") ("+strings.Join(results, ", ")+")"))
		fmt.Fprintf(&b, "Definition %s_paths : list (string * list c03b_step) := [\n", it.Coq)
		for i, pa := range paths {
			fmt.Fprintf(&b, "  (%s%%string, [\n", coqString(pa.guard))
			for j, s := range pa.steps {
				sep := ";"
				if j == len(pa.steps)-1 {
					sep = ""
				}
				fmt.Fprintf(&b, "     %s%s\n", s, sep)
			}
			if i == len(paths)-1 {
				b.WriteString("  ]%string)\n")
			} else {
				b.WriteString("  ]%string);\n")
			}
		}
		b.WriteString("].\n")
		return b.String(), nil
	}

	kinds["c03b_boolcond"] = func(root string, p *pkgInfo, it item) (string, error) {
		fd := c03bFindFunc(p, it.Name, it.Op)
		if fd == nil {
			return "", fmt.Errorf("function not found")
		}
		var found []*ast.IfStmt
		ast.Inspect(fd, func(n ast.Node) bool {
			if is, ok := n.(*ast.IfStmt); ok {
				// only the statement's own header and body, not a nested one's text
				if strings.Contains(c03bNodeText(p, is), it.Arg) {
					found = append(found, is)
				}
			}
			return true
		})
		// an outer if contains the text of the inner one: keep the innermost
		var inner []*ast.IfStmt
		for _, a := range found {
			nested := false
			for _, b := range found {
				if a != b && b.Pos() >= a.Pos() && b.End() <= a.End() {
					nested = true
				}
			}
			if !nested {
				inner = append(inner, a)
			}
		}
		if len(inner) != 1 {
			return "", fmt.Errorf("expected exactly one if statement containing %q, found %d", it.Arg, len(inner))
		}
		c := &c03bBool{p: p}
		body, err := c.tr(inner[0].Cond)
		if err != nil {
			return "", err
		}
		var args, atoms []string
		for i, a := range c.atoms {
			args = append(args, fmt.Sprintf("a%d", i))
			atoms = append(atoms, coqString(a))
		}
		initText := ""
		if inner[0].Init != nil {
			initText = c03bNodeText(p, inner[0].Init)
		}
		var b strings.Builder
		cm := strings.NewReplacer("*)", "* )", "(*", "( *")
		fmt.Fprintf(&b, "(* Go: if %s; %s *)\n", cm.Replace(initText), cm.Replace(p.exprText(inner[0].Cond)))
		fmt.Fprintf(&b, "Definition %s (%s : bool) : bool := %s.\n", it.Coq, strings.Join(args, " "), body)
		fmt.Fprintf(&b, "Definition %s_atoms : list string := [%s]%%string.\n", it.Coq, strings.Join(atoms, "; "))
		fmt.Fprintf(&b, "Definition %s_init : string := %s%%string.\n", it.Coq, coqString(initText))
		return b.String(), nil
	}

	kinds["c03b_litkeys"] = func(root string, p *pkgInfo, it item) (string, error) {
		fd := c03bFindFunc(p, it.Name, it.Op)
		if fd == nil {
			return "", fmt.Errorf("function not found")
		}
		var found []*ast.CompositeLit
		ast.Inspect(fd, func(n ast.Node) bool {
			cl, ok := n.(*ast.CompositeLit)
			if ok && cl.Type != nil && p.exprText(cl.Type) == it.Arg {
				found = append(found, cl)
			}
			return true
		})
		if len(found) != 1 {
			return "", fmt.Errorf("expected exactly one composite literal of type %s, found %d", it.Arg, len(found))
		}
		var parts []string
		for _, e := range found[0].Elts {
			kv, ok := e.(*ast.KeyValueExpr)
			if !ok {
				return "", fmt.Errorf("positional element")
			}
			parts = append(parts, "("+coqString(p.exprText(kv.Key))+", "+coqString(c03bNodeText(p, kv.Value))+")")
		}
		return fmt.Sprintf("Definition %s : list (string * string) := [%s]%%string.\n", it.Coq, strings.Join(parts, ";\n  ")), nil
	}
}
