// Translator kind added for part C12C: the hmtx half of hmtx.Decode as a Coq
// function, by the imperative-to-functional translator of part C17B (helpers
// COPIED from kind_c17b.go, which is left untouched; the generated code is
// written in the runtime Gen/C17B.v defines).
//
//	c12c_fragment  in function `name`: the statements between the statement whose
//	               text is `lhs` (which must define the integer input) and the
//	               statement whose text is `op`, as
//	               Definition <coq> (fuel : nat) (inputs) : mres unit (option outputs);
//	               `arg` = "in1 type1; in2 type2 -> out1, out2".  `return nil,
//	               fmt.Errorf(...)` is the result None; falling off the end of
//	               the fragment is Some (outputs).
//
// On top of the fragment kind_c17b.go understands: `var x T` (zero value),
// `for init; cond; post { }` without continue (init; for cond { body; post }),
// `xs = append(xs, v)`, `s = s[e:]` on a local slice, the type funit.Int16.
// Everything else loses the item.
package main

import (
	"fmt"
	"go/ast"
	goparser "go/parser"
	"go/printer"
	"go/token"
	"sort"
	"strings"
)

func init() {
	kinds["c12c_fragment"] = kindC12CFragment
}

// ---------------------------------------------------------------- types

type c12cTy struct {
	k      string // "int", "bool", "err", "slice", "reader", "state", "untyped"
	bits   int
	signed bool
	elem   *c12cTy
}

func (t c12cTy) coq() string {
	switch t.k {
	case "int", "untyped":
		return "Z"
	case "bool":
		return "bool"
	case "err":
		return "gerr"
	case "slice":
		return "(list Z)"
	case "reader":
		return "reader"
	}
	return "?"
}

func (t c12cTy) zero() string {
	switch t.k {
	case "int", "untyped":
		return "0"
	case "bool":
		return "false"
	case "err":
		return "ENil"
	case "slice":
		return "[]"
	}
	return "?"
}

type c12cCtx struct {
	p          *pkgInfo
	structName string
	readerType string // name of the interface type of the reader field
	fields     []string
	fieldTy    map[string]c12cTy
}

func (c *c12cCtx) parseType(e ast.Expr) (c12cTy, error) {
	switch x := e.(type) {
	case *ast.Ident:
		switch x.Name {
		case "int", "int64":
			return c12cTy{k: "int", bits: 64, signed: true}, nil
		case "int32", "rune":
			return c12cTy{k: "int", bits: 32, signed: true}, nil
		case "int16":
			return c12cTy{k: "int", bits: 16, signed: true}, nil
		case "int8":
			return c12cTy{k: "int", bits: 8, signed: true}, nil
		case "uint64", "uint":
			return c12cTy{k: "int", bits: 64}, nil
		case "uint32":
			return c12cTy{k: "int", bits: 32}, nil
		case "uint16":
			return c12cTy{k: "int", bits: 16}, nil
		case "uint8", "byte":
			return c12cTy{k: "int", bits: 8}, nil
		case "bool":
			return c12cTy{k: "bool"}, nil
		case "error":
			return c12cTy{k: "err"}, nil
		}
		if x.Name == c.readerType && c.readerType != "" {
			return c12cTy{k: "reader"}, nil
		}
	case *ast.SelectorExpr:
		if c.p.exprText(x) == "funit.Int16" {
			return c12cTy{k: "int", bits: 16, signed: true}, nil
		}
	case *ast.ArrayType:
		if x.Len == nil {
			el, err := c.parseType(x.Elt)
			if err == nil && el.k == "int" {
				return c12cTy{k: "slice", elem: &el}, nil
			}
		}
	case *ast.StarExpr:
		if id, ok := x.X.(*ast.Ident); ok && id.Name == c.structName {
			return c12cTy{k: "state"}, nil
		}
	}
	return c12cTy{}, fmt.Errorf("unsupported type %s", c.p.exprText(e))
}

func c12cFindStruct(p *pkgInfo, name string) (*ast.StructType, error) {
	for _, f := range p.files {
		for _, d := range f.Decls {
			gd, ok := d.(*ast.GenDecl)
			if !ok || gd.Tok != token.TYPE {
				continue
			}
			for _, s := range gd.Specs {
				ts := s.(*ast.TypeSpec)
				if ts.Name.Name != name {
					continue
				}
				st, ok := ts.Type.(*ast.StructType)
				if !ok {
					return nil, fmt.Errorf("%s is not a struct type", name)
				}
				return st, nil
			}
		}
	}
	return nil, fmt.Errorf("type %s not found", name)
}

// c12cIsReaderIface: an interface type embedding io.ReadSeeker and declaring
// Size() int64 (the shape the runtime's reader implements).
func c12cIsReaderIface(p *pkgInfo, name string) bool {
	for _, f := range p.files {
		for _, d := range f.Decls {
			gd, ok := d.(*ast.GenDecl)
			if !ok || gd.Tok != token.TYPE {
				continue
			}
			for _, s := range gd.Specs {
				ts := s.(*ast.TypeSpec)
				it, ok := ts.Type.(*ast.InterfaceType)
				if ts.Name.Name != name || !ok {
					continue
				}
				var parts []string
				for _, m := range it.Methods.List {
					txt := p.exprText(m.Type)
					for _, n := range m.Names {
						txt = n.Name + " " + txt
					}
					parts = append(parts, txt)
				}
				sort.Strings(parts)
				return strings.Join(parts, ";") == "Size func() int64;io.ReadSeeker"
			}
		}
	}
	return false
}

func c12cNewCtx(p *pkgInfo, name string) (*c12cCtx, error) {
	st, err := c12cFindStruct(p, name)
	if err != nil {
		return nil, err
	}
	c := &c12cCtx{p: p, structName: name, fieldTy: map[string]c12cTy{}}
	for _, f := range st.Fields.List {
		if len(f.Names) == 0 {
			return nil, fmt.Errorf("embedded field in %s", name)
		}
		if id, ok := f.Type.(*ast.Ident); ok && c12cIsReaderIface(p, id.Name) {
			if c.readerType != "" && c.readerType != id.Name {
				return nil, fmt.Errorf("two reader types")
			}
			c.readerType = id.Name
		}
		ty, err := c.parseType(f.Type)
		if err != nil {
			return nil, err
		}
		if ty.k == "state" {
			return nil, fmt.Errorf("recursive struct")
		}
		for _, n := range f.Names {
			c.fields = append(c.fields, n.Name)
			c.fieldTy[n.Name] = ty
		}
	}
	return c, nil
}

// ---------------------------------------------------------------- functions

type c12cSig struct {
	fd       *ast.FuncDecl
	name     string // Go name
	coq      string
	recv     string // receiver variable ("" for a constructor)
	params   []string
	ptys     []c12cTy
	results  []c12cTy // without the state
	retState bool     // constructor: the single result is the state
	outs     []string // slice parameters (out-parameters)
	calls    map[string]bool
}

type c12cVar struct {
	goName  string
	coq     string
	ty      c12cTy
	alias   bool // slice snapshot obtained from a method call
	invalid bool
	out     bool // slice parameter
}

type c12cTr struct {
	c      *c12cCtx
	sigs   map[string]*c12cSig
	sig    *c12cSig
	stVar  string
	scopes []map[string]*c12cVar
	order  []*c12cVar // visible declarations in order
	tmp    int
	pre    []string
	// set by the make([]T, n) statement for the assignment it performs
	fromMake bool
	frag     bool // a fragment: returns are `nil, fmt.Errorf(...)` only
}

func (t *c12cTr) errf(n ast.Node, f string, a ...interface{}) error {
	pos := t.c.p.fset.Position(n.Pos())
	return fmt.Errorf("%s line %d: %s", t.sig.name, pos.Line, fmt.Sprintf(f, a...))
}

func (t *c12cTr) fresh() string {
	t.tmp++
	return fmt.Sprintf("t%d", t.tmp)
}

func (t *c12cTr) lookup(name string) *c12cVar {
	for i := len(t.scopes) - 1; i >= 0; i-- {
		if v, ok := t.scopes[i][name]; ok {
			return v
		}
	}
	return nil
}

func (t *c12cTr) push() { t.scopes = append(t.scopes, map[string]*c12cVar{}) }
func (t *c12cTr) pop() {
	top := t.scopes[len(t.scopes)-1]
	t.scopes = t.scopes[:len(t.scopes)-1]
	var keep []*c12cVar
	for _, v := range t.order {
		if top[v.goName] != v {
			keep = append(keep, v)
		}
	}
	t.order = keep
}

func (t *c12cTr) declare(name string, ty c12cTy) *c12cVar {
	coq := "v_" + name
	if t.lookup(name) != nil {
		t.tmp++
		coq = fmt.Sprintf("v_%s_%d", name, t.tmp)
	}
	v := &c12cVar{goName: name, coq: coq, ty: ty}
	t.scopes[len(t.scopes)-1][name] = v
	t.order = append(t.order, v)
	return v
}

// flush wraps inner into the pending bindings (outermost first) and clears them.
func (t *c12cTr) flush(inner string) string {
	pre := t.pre
	t.pre = nil
	return c12cWrap(pre, inner)
}

func c12cWrap(pre []string, inner string) string {
	s := inner
	for i := len(pre) - 1; i >= 0; i-- {
		s = pre[i] + "\n" + s + ")"
	}
	return s
}

func (t *c12cTr) invalidateAliases() {
	for _, v := range t.order {
		if v.alias {
			v.invalid = true
		}
	}
}

func c12cWrapInt(ty c12cTy, e string) string {
	if ty.k != "int" {
		return e
	}
	if ty.signed {
		return fmt.Sprintf("(wrap_s %d %s)", ty.bits, e)
	}
	return fmt.Sprintf("(wrap_u %d %s)", ty.bits, e)
}

// contained: every value of type a is a value of type b
func c12cContained(a, b c12cTy) bool {
	if a.k != "int" || b.k != "int" {
		return false
	}
	if a.signed == b.signed {
		return a.bits <= b.bits
	}
	return !a.signed && b.signed && a.bits < b.bits
}

func (t *c12cTr) isRecv(e ast.Expr) bool {
	id, ok := e.(*ast.Ident)
	return ok && t.stVar != "" && id.Name == t.stVar
}

// readerCall recognises recv.<readerfield>.<Method>(...)
func (t *c12cTr) readerCall(ce *ast.CallExpr) (string, bool) {
	se, ok := ce.Fun.(*ast.SelectorExpr)
	if !ok {
		return "", false
	}
	in, ok := se.X.(*ast.SelectorExpr)
	if !ok || !t.isRecv(in.X) {
		return "", false
	}
	if ty, ok := t.c.fieldTy[in.Sel.Name]; !ok || ty.k != "reader" {
		return "", false
	}
	return se.Sel.Name, true
}

func (t *c12cTr) readerField(ce *ast.CallExpr) string {
	return ce.Fun.(*ast.SelectorExpr).X.(*ast.SelectorExpr).Sel.Name
}

// methodCall recognises recv.M(...) for a method of the struct
func (t *c12cTr) methodCall(ce *ast.CallExpr) (*c12cSig, bool) {
	se, ok := ce.Fun.(*ast.SelectorExpr)
	if !ok || !t.isRecv(se.X) {
		return nil, false
	}
	s, ok := t.sigs[se.Sel.Name]
	if !ok || s.recv == "" {
		return nil, false
	}
	return s, true
}

func c12cReadsField(e ast.Expr, recv string) bool {
	found := false
	ast.Inspect(e, func(n ast.Node) bool {
		if ce, ok := n.(*ast.CallExpr); ok {
			// the receiver position of a method call is not a field read
			if se, ok := ce.Fun.(*ast.SelectorExpr); ok {
				if id, ok := se.X.(*ast.Ident); ok && id.Name == recv {
					for _, a := range ce.Args {
						if c12cReadsField(a, recv) {
							found = true
						}
					}
					return false
				}
			}
		}
		if se, ok := n.(*ast.SelectorExpr); ok {
			if id, ok := se.X.(*ast.Ident); ok && id.Name == recv {
				found = true
			}
		}
		return true
	})
	return found
}

func c12cHasMethodCall(e ast.Node, recv string) bool {
	found := false
	ast.Inspect(e, func(n ast.Node) bool {
		if ce, ok := n.(*ast.CallExpr); ok {
			if se, ok := ce.Fun.(*ast.SelectorExpr); ok {
				if id, ok := se.X.(*ast.Ident); ok && id.Name == recv {
					found = true
				}
				if in, ok := se.X.(*ast.SelectorExpr); ok {
					if id, ok := in.X.(*ast.Ident); ok && id.Name == recv {
						found = true // a call on a field of the receiver (the reader)
					}
				}
			}
		}
		return true
	})
	return found
}

// callArgs translates the arguments of a method call against its signature.
func (t *c12cTr) callArgs(ce *ast.CallExpr, s *c12cSig) (string, error) {
	if len(ce.Args) != len(s.params) {
		return "", t.errf(ce, "argument count of %s", s.name)
	}
	var parts []string
	for i, a := range ce.Args {
		if s.ptys[i].k == "slice" {
			// an out-parameter is handed over by value: a local slice variable only
			id, ok := a.(*ast.Ident)
			if !ok {
				return "", t.errf(a, "slice argument is not a variable")
			}
			_ = id
		}
		x, ty, err := t.expr(a, &s.ptys[i])
		if err != nil {
			return "", err
		}
		_ = ty
		parts = append(parts, x)
	}
	if len(parts) == 0 {
		return "", nil
	}
	return " " + strings.Join(parts, " "), nil
}

// sliceOperand: a local slice variable or a slice field, as a pure term
func (t *c12cTr) sliceOperand(e ast.Expr) (string, c12cTy, error) {
	switch x := e.(type) {
	case *ast.ParenExpr:
		return t.sliceOperand(x.X)
	case *ast.Ident:
		v := t.lookup(x.Name)
		if v == nil || v.ty.k != "slice" {
			return "", c12cTy{}, t.errf(e, "%s is not a local slice", x.Name)
		}
		if v.invalid {
			return "", c12cTy{}, t.errf(e, "slice %s (a snapshot of the receiver's buffer) is used after a later call on the receiver", x.Name)
		}
		return v.coq, v.ty, nil
	case *ast.SelectorExpr:
		if t.isRecv(x.X) {
			if ty, ok := t.c.fieldTy[x.Sel.Name]; ok && ty.k == "slice" {
				return fmt.Sprintf("(g_%s st)", x.Sel.Name), ty, nil
			}
		}
	}
	return "", c12cTy{}, t.errf(e, "unsupported slice operand %s", t.c.p.exprText(e))
}

// expr translates an expression; panicking / calling subexpressions are hoisted
// into t.pre in evaluation order.
func (t *c12cTr) expr(e ast.Expr, want *c12cTy) (string, c12cTy, error) {
	p := t.c.p
	switch x := e.(type) {
	case *ast.ParenExpr:
		return t.expr(x.X, want)
	case *ast.BasicLit:
		if x.Kind == token.INT || x.Kind == token.CHAR {
			v, err := p.evalInt(x, 0)
			if err != nil {
				return "", c12cTy{}, t.errf(e, "%v", err)
			}
			return c12cLit(v), c12cTy{k: "untyped"}, nil
		}
	case *ast.Ident:
		switch x.Name {
		case "true", "false":
			return x.Name, c12cTy{k: "bool"}, nil
		case "nil":
			if want == nil {
				return "", c12cTy{}, t.errf(e, "nil without a known type")
			}
			switch want.k {
			case "slice":
				return "[]", *want, nil
			case "err":
				return "ENil", *want, nil
			}
			return "", c12cTy{}, t.errf(e, "nil of unsupported type")
		}
		if v := t.lookup(x.Name); v != nil {
			if v.invalid {
				return "", c12cTy{}, t.errf(e, "slice %s (a snapshot of the receiver's buffer) is used after a later call on the receiver", x.Name)
			}
			if v.out {
				return "", c12cTy{}, t.errf(e, "slice parameter %s used as a value", x.Name)
			}
			return v.coq, v.ty, nil
		}
		if x.Name == t.stVar {
			return "", c12cTy{}, t.errf(e, "the receiver is used as a value")
		}
		if _, gd, _ := p.findValue(x.Name); gd != nil && gd.Tok == token.CONST {
			v, err := p.evalInt(x, 0)
			if err != nil {
				return "", c12cTy{}, t.errf(e, "%v", err)
			}
			return c12cLit(v), c12cTy{k: "untyped"}, nil
		}
		return "", c12cTy{}, t.errf(e, "unknown identifier %s", x.Name)
	case *ast.SelectorExpr:
		if t.isRecv(x.X) {
			ty, ok := t.c.fieldTy[x.Sel.Name]
			if !ok {
				return "", c12cTy{}, t.errf(e, "unknown field %s", x.Sel.Name)
			}
			if ty.k == "reader" {
				return "", c12cTy{}, t.errf(e, "the reader is used as a value")
			}
			return fmt.Sprintf("(g_%s st)", x.Sel.Name), ty, nil
		}
		switch p.exprText(x) {
		case "io.EOF":
			return "EEOF", c12cTy{k: "err"}, nil
		case "io.ErrUnexpectedEOF":
			return "EUnexpectedEOF", c12cTy{k: "err"}, nil
		case "io.SeekStart":
			return "0", c12cTy{k: "untyped"}, nil
		}
	case *ast.CallExpr:
		if id, ok := x.Fun.(*ast.Ident); ok && t.lookup(id.Name) == nil {
			switch id.Name {
			case "len":
				if len(x.Args) != 1 {
					break
				}
				if aid, ok := x.Args[0].(*ast.Ident); ok {
					if v := t.lookup(aid.Name); v != nil && v.out {
						return fmt.Sprintf("(zlen %s)", v.coq), c12cTy{k: "int", bits: 64, signed: true}, nil
					}
				}
				s, _, err := t.sliceOperand(x.Args[0])
				if err != nil {
					return "", c12cTy{}, err
				}
				return fmt.Sprintf("(zlen %s)", s), c12cTy{k: "int", bits: 64, signed: true}, nil
			}
			// conversion
			if ty, err := t.c.parseType(id); err == nil && ty.k == "int" && len(x.Args) == 1 {
				a, aty, err := t.expr(x.Args[0], &ty)
				if err != nil {
					return "", c12cTy{}, err
				}
				if aty.k != "int" && aty.k != "untyped" {
					return "", c12cTy{}, t.errf(e, "conversion of a non-integer")
				}
				if aty.k == "int" && c12cContained(aty, ty) {
					return a, ty, nil
				}
				return c12cWrapInt(ty, a), ty, nil
			}
		}
		if se, ok := x.Fun.(*ast.SelectorExpr); ok && len(x.Args) == 1 {
			if ty, err := t.c.parseType(se); err == nil && ty.k == "int" {
				a, aty, err := t.expr(x.Args[0], &ty)
				if err != nil {
					return "", c12cTy{}, err
				}
				if aty.k != "int" && aty.k != "untyped" {
					return "", c12cTy{}, t.errf(e, "conversion of a non-integer")
				}
				if aty.k == "int" && c12cContained(aty, ty) {
					return a, ty, nil
				}
				return c12cWrapInt(ty, a), ty, nil
			}
		}
		if name, ok := t.readerCall(x); ok && name == "Size" && len(x.Args) == 0 {
			return fmt.Sprintf("(r_size (g_%s st))", t.readerField(x)), c12cTy{k: "int", bits: 64, signed: true}, nil
		}
		if s, ok := t.methodCall(x); ok {
			if len(s.results) != 1 || len(s.outs) != 0 || s.retState {
				return "", c12cTy{}, t.errf(e, "method %s in an expression does not have exactly one result", s.name)
			}
			args, err := t.callArgs(x, s)
			if err != nil {
				return "", c12cTy{}, err
			}
			t.invalidateAliases()
			tn := t.fresh()
			t.pre = append(t.pre, fmt.Sprintf("mbind (%s fuel st%s) (fun st %s =>", s.coq, args, tn))
			return tn, s.results[0], nil
		}
	case *ast.IndexExpr:
		if id, ok := x.X.(*ast.Ident); ok {
			if v := t.lookup(id.Name); v != nil && v.out {
				i, _, err := t.expr(x.Index, nil)
				if err != nil {
					return "", c12cTy{}, err
				}
				tn := t.fresh()
				t.pre = append(t.pre, fmt.Sprintf("pbind st (go_index %s %s) (fun %s =>", v.coq, i, tn))
				return tn, *v.ty.elem, nil
			}
		}
		s, sty, err := t.sliceOperand(x.X)
		if err != nil {
			return "", c12cTy{}, err
		}
		i, _, err := t.expr(x.Index, nil)
		if err != nil {
			return "", c12cTy{}, err
		}
		tn := t.fresh()
		t.pre = append(t.pre, fmt.Sprintf("pbind st (go_index %s %s) (fun %s =>", s, i, tn))
		return tn, *sty.elem, nil
	case *ast.SliceExpr:
		if x.Slice3 {
			break
		}
		s, sty, err := t.sliceOperand(x.X)
		if err != nil {
			return "", c12cTy{}, err
		}
		// slices are modelled with cap = len: true of make([]T, n) results (the only
		// values a slice field or local is ever given) but not of a snapshot
		if id, ok := x.X.(*ast.Ident); ok {
			if v := t.lookup(id.Name); v != nil && v.alias {
				return "", c12cTy{}, t.errf(e, "slice expression of %s, a snapshot whose capacity is not modelled", id.Name)
			}
		}
		lo, hi := "0", fmt.Sprintf("(zlen %s)", s)
		if x.Low != nil {
			if lo, _, err = t.expr(x.Low, nil); err != nil {
				return "", c12cTy{}, err
			}
		}
		if x.High != nil {
			if hi, _, err = t.expr(x.High, nil); err != nil {
				return "", c12cTy{}, err
			}
		}
		tn := t.fresh()
		t.pre = append(t.pre, fmt.Sprintf("pbind st (go_slice %s %s %s) (fun %s =>", s, lo, hi, tn))
		return tn, sty, nil
	case *ast.UnaryExpr:
		a, aty, err := t.expr(x.X, want)
		if err != nil {
			return "", c12cTy{}, err
		}
		switch x.Op {
		case token.NOT:
			if aty.k == "bool" {
				return fmt.Sprintf("(negb %s)", a), aty, nil
			}
		case token.SUB:
			if aty.k == "int" {
				return c12cWrapInt(aty, fmt.Sprintf("(- %s)", a)), aty, nil
			}
			if aty.k == "untyped" {
				return fmt.Sprintf("(- %s)", a), aty, nil
			}
		}
	case *ast.BinaryExpr:
		return t.binary(x, want)
	}
	return "", c12cTy{}, t.errf(e, "unsupported expression %s", p.exprText(e))
}

func c12cLit(v int64) string {
	if v < 0 {
		return fmt.Sprintf("(%d)", v)
	}
	return fmt.Sprintf("%d", v)
}

func (t *c12cTr) binary(x *ast.BinaryExpr, want *c12cTy) (string, c12cTy, error) {
	p := t.c.p
	boolTy := c12cTy{k: "bool"}
	switch x.Op {
	case token.LAND, token.LOR:
		a, aty, err := t.expr(x.X, &boolTy)
		if err != nil {
			return "", c12cTy{}, err
		}
		n := len(t.pre)
		b, bty, err := t.expr(x.Y, &boolTy)
		if err != nil {
			return "", c12cTy{}, err
		}
		if len(t.pre) != n {
			return "", c12cTy{}, t.errf(x, "the right operand of %s may panic or calls a method", x.Op)
		}
		if aty.k != "bool" || bty.k != "bool" {
			return "", c12cTy{}, t.errf(x, "non-boolean operand of %s", x.Op)
		}
		op := "&&"
		if x.Op == token.LOR {
			op = "||"
		}
		return fmt.Sprintf("(%s %s %s)%%bool", a, op, b), boolTy, nil
	}
	// a method call among the operands: the other operands must not read a field
	if t.stVar != "" && c12cHasMethodCall(x, t.stVar) && c12cReadsField(x, t.stVar) {
		return "", c12cTy{}, t.errf(x, "an expression both calls a method of the receiver and reads its fields (evaluation order)")
	}
	// error comparisons
	if x.Op == token.EQL || x.Op == token.NEQ {
		for _, pair := range [][2]ast.Expr{{x.X, x.Y}, {x.Y, x.X}} {
			txt := p.exprText(pair[1])
			if txt == "nil" || txt == "io.EOF" {
				errTy := c12cTy{k: "err"}
				a, aty, err := t.expr(pair[0], &errTy)
				if err != nil {
					return "", c12cTy{}, err
				}
				if aty.k != "err" {
					return "", c12cTy{}, t.errf(x, "comparison of a non-error with %s", txt)
				}
				f := "err_is_nil"
				if txt == "io.EOF" {
					f = "err_is_eof"
				}
				r := fmt.Sprintf("(%s %s)", f, a)
				if x.Op == token.NEQ {
					r = fmt.Sprintf("(negb %s)", r)
				}
				return r, boolTy, nil
			}
		}
	}
	a, aty, err := t.expr(x.X, want)
	if err != nil {
		return "", c12cTy{}, err
	}
	b, bty, err := t.expr(x.Y, want)
	if err != nil {
		return "", c12cTy{}, err
	}
	isInt := func(ty c12cTy) bool { return ty.k == "int" || ty.k == "untyped" }
	if !isInt(aty) || !isInt(bty) {
		return "", c12cTy{}, t.errf(x, "unsupported operand types of %s", x.Op)
	}
	switch x.Op {
	case token.SHL, token.SHR:
		// the shift count must be a constant; the result has the left type
		if bty.k != "untyped" {
			return "", c12cTy{}, t.errf(x, "shift by a non-constant")
		}
		if x.Op == token.SHL {
			r := fmt.Sprintf("(Z.shiftl %s %s)", a, b)
			if aty.k == "int" {
				r = c12cWrapInt(aty, r)
			}
			return r, aty, nil
		}
		return fmt.Sprintf("(Z.shiftr %s %s)", a, b), aty, nil
	}
	rty := aty
	if rty.k == "untyped" {
		rty = bty
	}
	if aty.k == "int" && bty.k == "int" && (aty.bits != bty.bits || aty.signed != bty.signed) {
		return "", c12cTy{}, t.errf(x, "operands of different integer types")
	}
	switch x.Op {
	case token.ADD, token.SUB, token.MUL:
		op := map[token.Token]string{token.ADD: "+", token.SUB: "-", token.MUL: "*"}[x.Op]
		r := fmt.Sprintf("(%s %s %s)", a, op, b)
		if rty.k == "int" {
			r = c12cWrapInt(rty, r)
		}
		return r, rty, nil
	case token.OR:
		return fmt.Sprintf("(Z.lor %s %s)", a, b), rty, nil
	case token.AND:
		return fmt.Sprintf("(Z.land %s %s)", a, b), rty, nil
	case token.XOR:
		return fmt.Sprintf("(Z.lxor %s %s)", a, b), rty, nil
	case token.LSS:
		return fmt.Sprintf("(%s <? %s)", a, b), boolTy, nil
	case token.GTR:
		return fmt.Sprintf("(%s >? %s)", a, b), boolTy, nil
	case token.LEQ:
		return fmt.Sprintf("(%s <=? %s)", a, b), boolTy, nil
	case token.GEQ:
		return fmt.Sprintf("(%s >=? %s)", a, b), boolTy, nil
	case token.EQL:
		return fmt.Sprintf("(%s =? %s)", a, b), boolTy, nil
	case token.NEQ:
		return fmt.Sprintf("(negb (%s =? %s))", a, b), boolTy, nil
	}
	return "", c12cTy{}, t.errf(x, "unsupported operator %s", x.Op)
}

// ---------------------------------------------------------------- statements

func c12cIsPanic(s ast.Stmt) bool {
	es, ok := s.(*ast.ExprStmt)
	if !ok {
		return false
	}
	ce, ok := es.X.(*ast.CallExpr)
	if !ok {
		return false
	}
	id, ok := ce.Fun.(*ast.Ident)
	return ok && id.Name == "panic"
}

func c12cAbrupt(list []ast.Stmt) bool {
	if len(list) == 0 {
		return false
	}
	switch s := list[len(list)-1].(type) {
	case *ast.ReturnStmt:
		return true
	case *ast.ExprStmt:
		return c12cIsPanic(s)
	case *ast.IfStmt:
		if s.Else == nil || !c12cAbrupt(s.Body.List) {
			return false
		}
		switch e := s.Else.(type) {
		case *ast.BlockStmt:
			return c12cAbrupt(e.List)
		case *ast.IfStmt:
			return c12cAbrupt([]ast.Stmt{e})
		}
	}
	return false
}

// carried: the variables visible now that the statements assign (in order of
// declaration); declarations inside the statements hide outer names.
func (t *c12cTr) carried(list []ast.Stmt) []*c12cVar {
	set := map[*c12cVar]bool{}
	var walk func(list []ast.Stmt, hidden map[string]bool)
	mark := func(e ast.Expr, hidden map[string]bool, reslice bool) {
		for {
			if ix, ok := e.(*ast.IndexExpr); ok {
				e = ix.X
				continue
			}
			break
		}
		if id, ok := e.(*ast.Ident); ok && !hidden[id.Name] {
			if v := t.lookup(id.Name); v != nil {
				set[v] = true
				if v.out && reslice {
					if o := t.lookup(id.Name + "·out"); o != nil {
						set[o] = true
					}
				}
			}
		}
	}
	walk = func(list []ast.Stmt, hidden map[string]bool) {
		h := map[string]bool{}
		for k := range hidden {
			h[k] = true
		}
		for _, st := range list {
			switch s := st.(type) {
			case *ast.AssignStmt:
				for _, r := range s.Rhs {
					if ce, ok := r.(*ast.CallExpr); ok {
						if id, ok := ce.Fun.(*ast.Ident); ok && id.Name == "copy" && len(ce.Args) == 2 {
							mark(ce.Args[0], h, false)
						}
					}
				}
				if s.Tok == token.DEFINE {
					// carried is only asked about nested blocks: a := there declares
					for _, l := range s.Lhs {
						if id, ok := l.(*ast.Ident); ok && id.Name != "_" {
							h[id.Name] = true
						}
					}
				} else {
					for _, l := range s.Lhs {
						_, isSlice := s.Rhs[0].(*ast.SliceExpr)
						mark(l, h, isSlice)
					}
				}
			case *ast.IncDecStmt:
				mark(s.X, h, false)
			case *ast.ExprStmt:
				if ce, ok := s.X.(*ast.CallExpr); ok {
					if id, ok := ce.Fun.(*ast.Ident); ok && id.Name == "copy" && len(ce.Args) == 2 {
						mark(ce.Args[0], h, false)
					}
				}
			case *ast.IfStmt:
				walk(s.Body.List, h)
				if s.Else != nil {
					switch e := s.Else.(type) {
					case *ast.BlockStmt:
						walk(e.List, h)
					case *ast.IfStmt:
						walk([]ast.Stmt{e}, h)
					}
				}
			case *ast.ForStmt:
				walk(s.Body.List, h)
			case *ast.RangeStmt:
				hh := map[string]bool{}
				for k := range h {
					hh[k] = true
				}
				if id, ok := s.Key.(*ast.Ident); ok {
					hh[id.Name] = true
				}
				walk(s.Body.List, hh)
			}
		}
	}
	walk(list, map[string]bool{})
	var out []*c12cVar
	for _, v := range t.order {
		if set[v] {
			out = append(out, v)
		}
	}
	return out
}

func c12cTuple(vs []*c12cVar) string {
	if len(vs) == 0 {
		return "tt"
	}
	var parts []string
	for _, v := range vs {
		parts = append(parts, v.coq)
	}
	if len(parts) == 1 {
		return parts[0]
	}
	return "(" + strings.Join(parts, ", ") + ")"
}

func c12cPat(vs []*c12cVar) string {
	if len(vs) == 0 {
		return "_"
	}
	if len(vs) == 1 {
		return vs[0].coq
	}
	return "'" + c12cTuple(vs)
}

// assignTo emits the binding of value val (of type vty) to the lvalue lhs.
func (t *c12cTr) assignTo(lhs ast.Expr, define bool, val string, vty c12cTy, alias bool) (string, error) {
	fromMake := t.fromMake
	t.fromMake = false
	switch l := lhs.(type) {
	case *ast.Ident:
		if l.Name == "_" {
			return "", nil
		}
		var v *c12cVar
		if define {
			if cur, ok := t.scopes[len(t.scopes)-1][l.Name]; ok {
				v = cur // re-assignment by := in the same scope
			} else {
				if vty.k == "untyped" {
					vty = c12cTy{k: "int", bits: 64, signed: true}
				}
				v = t.declare(l.Name, vty)
			}
		} else {
			v = t.lookup(l.Name)
			if v == nil {
				return "", t.errf(lhs, "assignment to unknown variable %s", l.Name)
			}
		}
		if v.out {
			return "", t.errf(lhs, "unsupported assignment to the slice parameter %s", l.Name)
		}
		if v.ty.k != vty.k && !(v.ty.k == "int" && vty.k == "untyped") {
			return "", t.errf(lhs, "type mismatch in the assignment to %s", l.Name)
		}
		v.alias = alias
		v.invalid = false
		return fmt.Sprintf("let %s := %s in", v.coq, val), nil
	case *ast.SelectorExpr:
		if define || !t.isRecv(l.X) {
			break
		}
		fty, ok := t.c.fieldTy[l.Sel.Name]
		if !ok || fty.k == "reader" {
			break
		}
		if fty.k != vty.k && !(fty.k == "int" && vty.k == "untyped") {
			return "", t.errf(lhs, "type mismatch in the assignment to field %s", l.Sel.Name)
		}
		if fty.k == "slice" {
			// only make([]T, n) results (cap = len) and nil are stored in a slice field
			if !fromMake && val != "[]" {
				return "", t.errf(lhs, "a slice field is assigned something else than make([]T, n) or nil")
			}
			t.invalidateAliases()
		}
		return fmt.Sprintf("let st := set_g_%s st %s in", l.Sel.Name, val), nil
	case *ast.IndexExpr:
		if define {
			break
		}
		id, ok := l.X.(*ast.Ident)
		if !ok {
			break
		}
		v := t.lookup(id.Name)
		if v == nil || v.ty.k != "slice" || v.out || v.alias {
			return "", t.errf(lhs, "element store into %s is not supported", id.Name)
		}
		i, _, err := t.expr(l.Index, nil)
		if err != nil {
			return "", err
		}
		tn := t.fresh()
		t.pre = append(t.pre, fmt.Sprintf("pbind st (go_store %s %s %s) (fun %s =>", v.coq, i, val, tn))
		return fmt.Sprintf("let %s := %s in", v.coq, tn), nil
	}
	return "", t.errf(lhs, "unsupported assignment target %s", t.c.p.exprText(lhs))
}

// simple translates a statement without control flow into binding lines
// (which may leave hoisted bindings open: the caller nests the rest inside).
// It returns the text to put in front of the rest.
func (t *c12cTr) simple(st ast.Stmt) (func(rest string) string, error) {
	p := t.c.p
	lines := func(ls ...string) func(string) string {
		pre := t.pre
		t.pre = nil
		var keep []string
		for _, l := range ls {
			if l != "" {
				keep = append(keep, l)
			}
		}
		return func(rest string) string {
			body := rest
			if len(keep) > 0 {
				body = strings.Join(keep, "\n") + "\n" + rest
			}
			return c12cWrap(pre, body)
		}
	}
	switch s := st.(type) {
	case *ast.IncDecStmt:
		a, aty, err := t.expr(s.X, nil)
		if err != nil {
			return nil, err
		}
		op := "+"
		if s.Tok == token.DEC {
			op = "-"
		}
		l, err := t.assignTo(s.X, false, c12cWrapInt(aty, fmt.Sprintf("(%s %s 1)", a, op)), aty, false)
		if err != nil {
			return nil, err
		}
		return lines(l), nil
	case *ast.ExprStmt:
		ce, ok := s.X.(*ast.CallExpr)
		if !ok {
			break
		}
		if id, ok := ce.Fun.(*ast.Ident); ok && id.Name == "copy" && t.lookup("copy") == nil {
			l, err := t.copyCall(ce, nil, false)
			if err != nil {
				return nil, err
			}
			return lines(l...), nil
		}
		if sig, ok := t.methodCall(ce); ok {
			args, err := t.callArgs(ce, sig)
			if err != nil {
				return nil, err
			}
			if len(sig.outs) > 0 {
				return nil, t.errf(st, "call of %s (slice parameter) as a statement", sig.name)
			}
			t.invalidateAliases()
			t.pre = append(t.pre, fmt.Sprintf("mbind (%s fuel st%s) (fun st _ =>", sig.coq, args))
			return lines(), nil
		}
	case *ast.AssignStmt:
		define := s.Tok == token.DEFINE
		// compound assignment
		if s.Tok != token.ASSIGN && s.Tok != token.DEFINE {
			ops := map[token.Token]token.Token{token.ADD_ASSIGN: token.ADD, token.SUB_ASSIGN: token.SUB, token.MUL_ASSIGN: token.MUL,
				token.OR_ASSIGN: token.OR, token.AND_ASSIGN: token.AND, token.XOR_ASSIGN: token.XOR, token.SHL_ASSIGN: token.SHL, token.SHR_ASSIGN: token.SHR}
			op, ok := ops[s.Tok]
			if !ok || len(s.Lhs) != 1 || len(s.Rhs) != 1 {
				return nil, t.errf(st, "unsupported assignment operator %s", s.Tok)
			}
			if _, isIdx := s.Lhs[0].(*ast.IndexExpr); isIdx {
				return nil, t.errf(st, "compound assignment to an element")
			}
			val, vty, err := t.binary(&ast.BinaryExpr{X: s.Lhs[0], Op: op, Y: s.Rhs[0], OpPos: s.TokPos}, nil)
			if err != nil {
				return nil, err
			}
			l, err := t.assignTo(s.Lhs[0], false, val, vty, false)
			if err != nil {
				return nil, err
			}
			return lines(l), nil
		}
		if len(s.Rhs) == 1 {
			if ce, ok := s.Rhs[0].(*ast.CallExpr); ok {
				// builtin copy / make
				if id, ok := ce.Fun.(*ast.Ident); ok && t.lookup(id.Name) == nil {
					switch id.Name {
					case "copy":
						if len(s.Lhs) != 1 {
							return nil, t.errf(st, "copy with %d results", len(s.Lhs))
						}
						l, err := t.copyCall(ce, s.Lhs[0], define)
						if err != nil {
							return nil, err
						}
						return lines(l...), nil
					case "make":
						if len(s.Lhs) != 1 || len(ce.Args) != 2 {
							return nil, t.errf(st, "unsupported make")
						}
						ty, err := t.c.parseType(ce.Args[0])
						if err != nil || ty.k != "slice" {
							return nil, t.errf(st, "make of something else than an integer slice")
						}
						n, _, err := t.expr(ce.Args[1], nil)
						if err != nil {
							return nil, err
						}
						tn := t.fresh()
						t.pre = append(t.pre, fmt.Sprintf("pbind st (go_make %s) (fun %s =>", n, tn))
						t.fromMake = true
						l, err := t.assignTo(s.Lhs[0], define, tn, ty, false)
						if err != nil {
							return nil, err
						}
						return lines(l), nil
					}
				}
				// calls on the reader
				if name, ok := t.readerCall(ce); ok && (name == "Read" || name == "Seek") {
					return t.readerStmt(s, ce, name, lines)
				}
				// a method with several results
				if sig, ok := t.methodCall(ce); ok && (len(s.Lhs) > 1 || len(sig.outs) > 0) {
					if len(s.Lhs) != len(sig.results) || sig.retState {
						return nil, t.errf(st, "result count of %s", sig.name)
					}
					if len(sig.outs) > 0 {
						return nil, t.errf(st, "call of %s (slice parameter) from another method", sig.name)
					}
					args, err := t.callArgs(ce, sig)
					if err != nil {
						return nil, err
					}
					t.invalidateAliases()
					var names []string
					var ls []string
					for i, l := range s.Lhs {
						tn := t.fresh()
						names = append(names, tn)
						a, err := t.assignTo(l, define, tn, sig.results[i], sig.results[i].k == "slice")
						if err != nil {
							return nil, err
						}
						ls = append(ls, a)
					}
					t.pre = append(t.pre, fmt.Sprintf("mbind (%s fuel st%s) (fun st '(%s) =>", sig.coq, args, strings.Join(names, ", ")))
					return lines(ls...), nil
				}
			}
			// the state variable of a constructor: v := &T{field: e}
			if ue, ok := s.Rhs[0].(*ast.UnaryExpr); ok && ue.Op == token.AND && define && len(s.Lhs) == 1 {
				cl, ok := ue.X.(*ast.CompositeLit)
				id, ok2 := s.Lhs[0].(*ast.Ident)
				if ok && ok2 && p.exprText(cl.Type) == t.c.structName {
					if t.stVar != "" {
						return nil, t.errf(st, "a second value of type %s", t.c.structName)
					}
					vals := map[string]string{}
					for _, el := range cl.Elts {
						kv, ok := el.(*ast.KeyValueExpr)
						if !ok {
							return nil, t.errf(st, "positional struct literal")
						}
						f := p.exprText(kv.Key)
						fty, ok := t.c.fieldTy[f]
						if !ok {
							return nil, t.errf(st, "unknown field %s", f)
						}
						var x string
						if fty.k == "reader" {
							vid, ok := kv.Value.(*ast.Ident)
							v := (*c12cVar)(nil)
							if ok {
								v = t.lookup(vid.Name)
							}
							if v == nil || v.ty.k != "reader" {
								return nil, t.errf(st, "the reader field is not initialised from a parameter")
							}
							x = v.coq
						} else {
							var xty c12cTy
							var err error
							x, xty, err = t.expr(kv.Value, &fty)
							if err != nil {
								return nil, err
							}
							_ = xty
						}
						vals[f] = x
					}
					var parts []string
					for _, f := range t.c.fields {
						if x, ok := vals[f]; ok {
							parts = append(parts, x)
						} else {
							z := t.c.fieldTy[f].zero()
							if z == "?" {
								return nil, t.errf(st, "field %s has no zero value in the model", f)
							}
							parts = append(parts, z)
						}
					}
					t.stVar = id.Name
					return lines(fmt.Sprintf("let st := mk%s %s in", t.c.structName, strings.Join(parts, " "))), nil
				}
			}
		}
		if len(s.Lhs) != len(s.Rhs) || len(s.Lhs) != 1 {
			return nil, t.errf(st, "unsupported assignment shape")
		}
		if id, ok := s.Lhs[0].(*ast.Ident); ok && !define {
			if v := t.lookup(id.Name); v != nil && v.ty.k == "slice" && !v.out && !v.alias {
				// xs = append(xs, e)
				if ce, ok := s.Rhs[0].(*ast.CallExpr); ok && p.exprText(ce.Fun) == "append" && len(ce.Args) == 2 &&
					p.exprText(ce.Args[0]) == id.Name && !ce.Ellipsis.IsValid() {
					e, ety, err := t.expr(ce.Args[1], v.ty.elem)
					if err != nil {
						return nil, err
					}
					if ety.k != "int" && ety.k != "untyped" {
						return nil, t.errf(st, "append of a non-integer")
					}
					return lines(fmt.Sprintf("let %s := %s ++ [%s] in", v.coq, v.coq, e)), nil
				}
				// s = s[e:]
				if se, ok := s.Rhs[0].(*ast.SliceExpr); ok && se.High == nil && !se.Slice3 && se.Low != nil && p.exprText(se.X) == id.Name {
					val, _, err := t.expr(se, nil)
					if err != nil {
						return nil, err
					}
					return lines(fmt.Sprintf("let %s := %s in", v.coq, val)), nil
				}
			}
		}
		// out-parameter: p = p[e:]
		if id, ok := s.Lhs[0].(*ast.Ident); ok && !define {
			if v := t.lookup(id.Name); v != nil && v.out {
				se, ok := s.Rhs[0].(*ast.SliceExpr)
				if !ok || se.High != nil || se.Slice3 || se.Low == nil || p.exprText(se.X) != id.Name {
					return nil, t.errf(st, "the slice parameter %s is assigned something else than %s[e:]", id.Name, id.Name)
				}
				lo, _, err := t.expr(se.Low, nil)
				if err != nil {
					return nil, err
				}
				o := t.lookup(id.Name + "·out")
				tn := t.fresh()
				t.pre = append(t.pre, fmt.Sprintf("pbind st (go_slice %s %s (zlen %s)) (fun %s =>", v.coq, lo, v.coq, tn))
				return lines(
					fmt.Sprintf("let %s := %s ++ firstn (Z.to_nat %s) %s in", o.coq, o.coq, lo, v.coq),
					fmt.Sprintf("let %s := %s in", v.coq, tn)), nil
			}
		}
		var want *c12cTy
		if !define {
			if id, ok := s.Lhs[0].(*ast.Ident); ok {
				if v := t.lookup(id.Name); v != nil {
					want = &v.ty
				}
			} else if se, ok := s.Lhs[0].(*ast.SelectorExpr); ok && t.isRecv(se.X) {
				if fty, ok := t.c.fieldTy[se.Sel.Name]; ok {
					want = &fty
				}
			}
		}
		val, vty, err := t.expr(s.Rhs[0], want)
		if err != nil {
			return nil, err
		}
		alias := false
		if vty.k == "slice" {
			// a slice value is a snapshot: nil, or a slice expression of a receiver field
			// (refused once the field is written or a method is called afterwards)
			se, isSlice := s.Rhs[0].(*ast.SliceExpr)
			switch {
			case p.exprText(s.Rhs[0]) == "nil":
			case isSlice:
				fe, ok := se.X.(*ast.SelectorExpr)
				if !ok || !t.isRecv(fe.X) {
					return nil, t.errf(st, "a slice of a local slice is stored in a variable (aliasing)")
				}
				alias = true
			default:
				return nil, t.errf(st, "a slice is copied between variables (aliasing)")
			}
		}
		l, err := t.assignTo(s.Lhs[0], define, val, vty, alias)
		if err != nil {
			return nil, err
		}
		return lines(l), nil
	}
	return nil, t.errf(st, "unsupported statement")
}

// copyCall: [k :=] copy(dst, src)
func (t *c12cTr) copyCall(ce *ast.CallExpr, lhs ast.Expr, define bool) ([]string, error) {
	if len(ce.Args) != 2 {
		return nil, t.errf(ce, "copy with %d arguments", len(ce.Args))
	}
	// the source is evaluated first (it may be a slice expression of dst)
	src, sty, err := t.expr(ce.Args[1], nil)
	if err != nil {
		return nil, err
	}
	if sty.k != "slice" {
		return nil, t.errf(ce, "copy from a non-slice")
	}
	ta, tb := t.fresh(), t.fresh()
	var out []string
	switch d := ce.Args[0].(type) {
	case *ast.Ident:
		v := t.lookup(d.Name)
		if v == nil || v.ty.k != "slice" || v.alias {
			return nil, t.errf(ce, "copy into %s is not supported", d.Name)
		}
		out = append(out, fmt.Sprintf("let '(%s, %s) := go_copy %s %s in", ta, tb, v.coq, src),
			fmt.Sprintf("let %s := %s in", v.coq, ta))
	case *ast.SelectorExpr:
		fty, ok := t.c.fieldTy[d.Sel.Name]
		if !t.isRecv(d.X) || !ok || fty.k != "slice" {
			return nil, t.errf(ce, "copy into %s is not supported", t.c.p.exprText(d))
		}
		t.invalidateAliases()
		out = append(out, fmt.Sprintf("let '(%s, %s) := go_copy (g_%s st) %s in", ta, tb, d.Sel.Name, src),
			fmt.Sprintf("let st := set_g_%s st %s in", d.Sel.Name, ta))
	default:
		return nil, t.errf(ce, "copy into %s is not supported", t.c.p.exprText(ce.Args[0]))
	}
	if lhs != nil {
		l, err := t.assignTo(lhs, define, tb, c12cTy{k: "int", bits: 64, signed: true}, false)
		if err != nil {
			return nil, err
		}
		out = append(out, l)
	}
	return out, nil
}

// readerStmt: n, err := recv.r.Read(s[a:b])  /  _, err := recv.r.Seek(e, io.SeekStart)
func (t *c12cTr) readerStmt(s *ast.AssignStmt, ce *ast.CallExpr, name string, lines func(...string) func(string) string) (func(string) string, error) {
	define := s.Tok == token.DEFINE
	rf := t.readerField(ce)
	if len(s.Lhs) != 2 {
		return nil, t.errf(s, "%s with %d results", name, len(s.Lhs))
	}
	intTy := c12cTy{k: "int", bits: 64, signed: true}
	errTy := c12cTy{k: "err"}
	if name == "Seek" {
		if len(ce.Args) != 2 || t.c.p.exprText(ce.Args[1]) != "io.SeekStart" {
			return nil, t.errf(s, "Seek with a whence other than io.SeekStart")
		}
		off, oty, err := t.expr(ce.Args[0], &intTy)
		if err != nil {
			return nil, err
		}
		_ = oty
		ta, tb, tc := t.fresh(), t.fresh(), t.fresh()
		l1, err := t.assignTo(s.Lhs[0], define, ta, intTy, false)
		if err != nil {
			return nil, err
		}
		l2, err := t.assignTo(s.Lhs[1], define, tb, errTy, false)
		if err != nil {
			return nil, err
		}
		return lines(fmt.Sprintf("let '(%s, %s, %s) := r_seek (g_%s st) %s 0 in", ta, tb, tc, rf, off),
			fmt.Sprintf("let st := set_g_%s st %s in", rf, tc), l1, l2), nil
	}
	// Read: the argument is a slice expression of a slice field or local
	if len(ce.Args) != 1 {
		return nil, t.errf(s, "Read with %d arguments", len(ce.Args))
	}
	se, ok := ce.Args[0].(*ast.SliceExpr)
	if !ok || se.Slice3 {
		return nil, t.errf(s, "the argument of Read is not a slice expression s[a:b]")
	}
	base, _, err := t.sliceOperand(se.X)
	if err != nil {
		return nil, err
	}
	lo := "0"
	if se.Low != nil {
		if lo, _, err = t.expr(se.Low, nil); err != nil {
			return nil, err
		}
	}
	win, _, err := t.expr(se, nil) // bounds check; the window's length is the space
	if err != nil {
		return nil, err
	}
	t.invalidateAliases()
	ta, tb, tc := t.fresh(), t.fresh(), t.fresh()
	ls := []string{
		fmt.Sprintf("let '(%s, %s, %s) := r_read (g_%s st) (zlen %s) in", ta, tb, tc, rf, win),
		fmt.Sprintf("let st := set_g_%s st %s in", rf, tc),
	}
	// write the delivered bytes back into the base
	switch b := se.X.(type) {
	case *ast.SelectorExpr:
		ls = append(ls, fmt.Sprintf("let st := set_g_%s st (go_write %s %s %s) in", b.Sel.Name, base, lo, ta))
	case *ast.Ident:
		v := t.lookup(b.Name)
		if v.alias || v.out {
			return nil, t.errf(s, "Read into %s is not supported", b.Name)
		}
		ls = append(ls, fmt.Sprintf("let %s := go_write %s %s %s in", v.coq, base, lo, ta))
	default:
		return nil, t.errf(s, "Read into %s is not supported", t.c.p.exprText(se.X))
	}
	l1, err := t.assignTo(s.Lhs[0], define, fmt.Sprintf("(zlen %s)", ta), intTy, false)
	if err != nil {
		return nil, err
	}
	l2, err := t.assignTo(s.Lhs[1], define, tb, errTy, false)
	if err != nil {
		return nil, err
	}
	ls = append(ls, l1, l2)
	return lines(ls...), nil
}

func (t *c12cTr) retTuple(parts []string) string {
	for _, o := range t.sig.outs {
		v := t.lookup(o)
		ov := t.lookup(o + "·out")
		parts = append(parts, fmt.Sprintf("(%s ++ %s)", ov.coq, v.coq))
	}
	if len(parts) == 0 {
		return "tt"
	}
	if len(parts) == 1 {
		return parts[0]
	}
	return "(" + strings.Join(parts, ", ") + ")"
}

// stmts translates a statement list; k is the term for falling off its end
// ("" = must not happen).
func (t *c12cTr) stmts(list []ast.Stmt, k string) (string, error) {
	if len(list) == 0 {
		if k == "" {
			return "", fmt.Errorf("%s: control reaches the end of a block that must return", t.sig.name)
		}
		return k, nil
	}
	st, rest := list[0], list[1:]
	switch s := st.(type) {
	case *ast.ReturnStmt:
		if len(rest) > 0 {
			return "", t.errf(st, "statements after return")
		}
		if t.frag {
			if len(s.Results) == 2 && t.c.p.exprText(s.Results[0]) == "nil" {
				if ce, ok := s.Results[1].(*ast.CallExpr); ok && t.c.p.exprText(ce.Fun) == "fmt.Errorf" {
					return "CRet st None", nil
				}
			}
			return "", t.errf(st, "a return other than `return nil, fmt.Errorf(...)` inside the fragment")
		}
		if t.sig.retState {
			if len(s.Results) != 1 || !t.isRecv(s.Results[0]) {
				return "", t.errf(st, "the constructor does not return its state variable")
			}
			return "CRet st tt", nil
		}
		// return recv.M(args) with several results
		if len(s.Results) == 1 && len(t.sig.results) > 1 {
			ce, ok := s.Results[0].(*ast.CallExpr)
			if !ok {
				return "", t.errf(st, "unsupported return")
			}
			sig, ok := t.methodCall(ce)
			if !ok || len(sig.results) != len(t.sig.results) || len(sig.outs) > 0 || len(t.sig.outs) > 0 {
				return "", t.errf(st, "unsupported return")
			}
			args, err := t.callArgs(ce, sig)
			if err != nil {
				return "", err
			}
			tn := t.fresh()
			t.pre = append(t.pre, fmt.Sprintf("mbind (%s fuel st%s) (fun st %s =>", sig.coq, args, tn))
			return t.flush(fmt.Sprintf("CRet st %s", tn)), nil
		}
		if len(s.Results) != len(t.sig.results) {
			return "", t.errf(st, "return with %d results", len(s.Results))
		}
		var parts []string
		for i, r := range s.Results {
			x, xty, err := t.expr(r, &t.sig.results[i])
			if err != nil {
				return "", err
			}
			if xty.k != "untyped" && xty.k != t.sig.results[i].k {
				return "", t.errf(st, "result %d has the wrong type", i)
			}
			parts = append(parts, x)
		}
		return t.flush("CRet st " + t.retTuple(parts)), nil
	case *ast.ExprStmt:
		if c12cIsPanic(s) {
			if len(rest) > 0 {
				return "", t.errf(st, "statements after panic")
			}
			if t.stVar == "" {
				return "", t.errf(st, "panic before the state exists")
			}
			return "CPanic st", nil
		}
	case *ast.IfStmt:
		return t.ifStmt(s, rest, k)
	case *ast.DeclStmt:
		gd, ok := s.Decl.(*ast.GenDecl)
		if !ok || gd.Tok != token.VAR {
			return "", t.errf(st, "unsupported declaration")
		}
		var ls []string
		for _, sp := range gd.Specs {
			vs := sp.(*ast.ValueSpec)
			if vs.Type == nil || len(vs.Values) != 0 {
				return "", t.errf(st, "only `var x T` is understood")
			}
			ty, err := t.c.parseType(vs.Type)
			if err != nil || ty.zero() == "?" {
				return "", t.errf(st, "unsupported type in a var declaration")
			}
			for _, n := range vs.Names {
				v := t.declare(n.Name, ty)
				ls = append(ls, fmt.Sprintf("let %s := %s in", v.coq, ty.zero()))
			}
		}
		r, err := t.stmts(rest, k)
		if err != nil {
			return "", err
		}
		return strings.Join(ls, "\n") + "\n" + r, nil
	case *ast.ForStmt:
		if s.Init != nil && s.Post != nil && s.Cond != nil {
			// for init; cond; post { body }  =  { init; for cond { body; post } }  (no continue: refused anyway)
			body := &ast.BlockStmt{List: append(append([]ast.Stmt{}, s.Body.List...), s.Post)}
			inner := &ast.ForStmt{For: s.For, Cond: s.Cond, Body: body}
			t.push()
			r1, err := t.stmts([]ast.Stmt{s.Init, inner}, "CNorm st "+c12cTuple(t.carried([]ast.Stmt{&ast.ForStmt{Cond: s.Cond, Body: s.Body}})))
			t.pop()
			if err != nil {
				return "", err
			}
			w := t.carried([]ast.Stmt{&ast.ForStmt{Cond: s.Cond, Body: s.Body}})
			r, err := t.stmts(rest, k)
			if err != nil {
				return "", err
			}
			return fmt.Sprintf("cbind (\n%s)\n(fun st %s =>\n%s)", r1, c12cPat(w), r), nil
		}
		if s.Init != nil || s.Post != nil || s.Cond == nil {
			return "", t.errf(st, "only `for cond { }` loops are understood")
		}
		if c12cHasMethodCall(s.Body, t.stVar) {
			t.invalidateAliases()
		}
		w := t.carried(s.Body.List)
		boolTy := c12cTy{k: "bool"}
		n := len(t.pre)
		c, cty, err := t.expr(s.Cond, &boolTy)
		if err != nil {
			return "", err
		}
		if len(t.pre) != n || cty.k != "bool" {
			return "", t.errf(st, "the loop condition may panic, calls a method or is not boolean")
		}
		t.push()
		body, err := t.stmts(s.Body.List, "CNorm st "+c12cTuple(w))
		t.pop()
		if err != nil {
			return "", err
		}
		if c12cHasMethodCall(s.Body, t.stVar) {
			t.invalidateAliases()
		}
		r, err := t.stmts(rest, k)
		if err != nil {
			return "", err
		}
		return fmt.Sprintf("cbind (loop_while fuel (fun st %s => %s) (fun st %s =>\n%s) st %s)\n(fun st %s =>\n%s)",
			c12cPat(w), c, c12cPat(w), body, c12cTuple(w), c12cPat(w), r), nil
	case *ast.RangeStmt:
		if s.Value != nil || s.Tok != token.DEFINE || s.Key == nil {
			return "", t.errf(st, "only `for i := range s { }` loops are understood")
		}
		kid, ok := s.Key.(*ast.Ident)
		if !ok || kid.Name == "_" {
			return "", t.errf(st, "unsupported range key")
		}
		x, xty, err := t.sliceOperand(s.X)
		if err != nil {
			return "", err
		}
		_ = xty
		if c12cHasMethodCall(s.Body, t.stVar) {
			t.invalidateAliases()
		}
		w := t.carried(s.Body.List)
		count := fmt.Sprintf("(Z.to_nat (zlen %s))", x)
		t.push()
		kv := t.declare(kid.Name, c12cTy{k: "int", bits: 64, signed: true})
		body, err := t.stmts(s.Body.List, "CNorm st "+c12cTuple(w))
		t.pop()
		if err != nil {
			return "", err
		}
		if c12cHasMethodCall(s.Body, t.stVar) {
			t.invalidateAliases()
		}
		r, err := t.stmts(rest, k)
		if err != nil {
			return "", err
		}
		return fmt.Sprintf("cbind (loop_range %s 0 (fun %s st %s =>\n%s) st %s)\n(fun st %s =>\n%s)",
			count, kv.coq, c12cPat(w), body, c12cTuple(w), c12cPat(w), r), nil
	case *ast.BlockStmt, *ast.SwitchStmt, *ast.BranchStmt, *ast.DeferStmt, *ast.GoStmt,
		*ast.TypeSwitchStmt, *ast.SelectStmt, *ast.LabeledStmt, *ast.SendStmt:
		return "", t.errf(st, "unsupported statement")
	}
	f, err := t.simple(st)
	if err != nil {
		return "", err
	}
	r, err := t.stmts(rest, k)
	if err != nil {
		return "", err
	}
	return f(r), nil
}

func (t *c12cTr) block(list []ast.Stmt, k string) (string, error) {
	t.push()
	defer t.pop()
	return t.stmts(list, k)
}

func (t *c12cTr) ifStmt(s *ast.IfStmt, rest []ast.Stmt, k string) (string, error) {
	if s.Init != nil {
		return "", t.errf(s, "if with an init statement")
	}
	boolTy := c12cTy{k: "bool"}
	c, cty, err := t.expr(s.Cond, &boolTy)
	if err != nil {
		return "", err
	}
	if cty.k != "bool" {
		return "", t.errf(s, "non-boolean condition")
	}
	pre := t.pre
	t.pre = nil
	branches := func(kk string) (string, string, error) {
		// the alias state after the if is the union of both branches
		th, err := t.block(s.Body.List, kk)
		if err != nil {
			return "", "", err
		}
		el := kk
		switch e := s.Else.(type) {
		case nil:
			if kk == "" {
				return "", "", t.errf(s, "control reaches the end of a block that must return")
			}
		case *ast.BlockStmt:
			if el, err = t.block(e.List, kk); err != nil {
				return "", "", err
			}
		case *ast.IfStmt:
			if el, err = t.block([]ast.Stmt{e}, kk); err != nil {
				return "", "", err
			}
		default:
			return "", "", t.errf(s, "unsupported else")
		}
		return th, el, nil
	}
	var out string
	switch {
	case s.Else == nil && c12cAbrupt(s.Body.List):
		th, err := t.block(s.Body.List, "")
		if err != nil {
			return "", err
		}
		r, err := t.stmts(rest, k)
		if err != nil {
			return "", err
		}
		out = fmt.Sprintf("if %s then (\n%s) else\n%s", c, th, r)
	case len(rest) == 0:
		th, el, err := branches(k)
		if err != nil {
			return "", err
		}
		out = fmt.Sprintf("if %s then (\n%s) else (\n%s)", c, th, el)
	default:
		w := t.carried([]ast.Stmt{s})
		kk := "CNorm st " + c12cTuple(w)
		th, el, err := branches(kk)
		if err != nil {
			return "", err
		}
		r, err := t.stmts(rest, k)
		if err != nil {
			return "", err
		}
		out = fmt.Sprintf("cbind (if %s then (\n%s) else (\n%s))\n(fun st %s =>\n%s)", c, th, el, c12cPat(w), r)
	}
	return c12cWrap(pre, out), nil
}

// ---------------------------------------------------------------- driver

func c12cIndent(s string) string {
	// indentation by parenthesis depth (the text is a single Coq term)
	var b strings.Builder
	depth := 1
	for _, line := range strings.Split(s, "\n") {
		d := depth
		trim := strings.TrimSpace(line)
		// a line that starts by closing goes back first
		for _, ch := range trim {
			if ch == ')' {
				d--
			} else {
				break
			}
		}
		if d < 0 {
			d = 0
		}
		b.WriteString(strings.Repeat("  ", d))
		b.WriteString(trim)
		b.WriteString("\n")
		for _, ch := range trim {
			switch ch {
			case '(':
				depth++
			case ')':
				depth--
			}
		}
	}
	return strings.TrimRight(b.String(), "\n")
}

func kindC12CFragment(root string, p *pkgInfo, it item) (string, error) {
	fds := p.findFuncs(it.Name)
	if len(fds) != 1 {
		return "", fmt.Errorf("expected exactly one function %s", it.Name)
	}
	fd := fds[0]
	a, b := -1, -1
	for i, st := range fd.Body.List {
		var sb strings.Builder
		printer.Fprint(&sb, p.fset, st)
		switch sb.String() {
		case it.Lhs:
			a = i
		case it.Op:
			b = i
		}
	}
	if a < 0 || b < 0 || b <= a {
		return "", fmt.Errorf("the fragment `%s` ... `%s` was not found in %s", it.Lhs, it.Op, it.Name)
	}
	parts := strings.Split(it.Arg, "->")
	if len(parts) != 2 {
		return "", fmt.Errorf("bad arg")
	}
	c := &c12cCtx{p: p, structName: "\x00none", fieldTy: map[string]c12cTy{}}
	sig := &c12cSig{fd: fd, name: it.Name, calls: map[string]bool{}}
	t := &c12cTr{c: c, sigs: map[string]*c12cSig{}, sig: sig, frag: true}
	t.push()
	var params []string
	for _, in := range strings.Split(parts[0], ";") {
		f := strings.Fields(in)
		if len(f) != 2 {
			return "", fmt.Errorf("bad input %q", in)
		}
		tyExpr, err := parserParseExpr(f[1])
		if err != nil {
			return "", err
		}
		ty, err := c.parseType(tyExpr)
		if err != nil {
			return "", err
		}
		v := t.declare(f[0], ty)
		params = append(params, fmt.Sprintf("(%s : %s)", v.coq, strings.Trim(ty.coq(), "()")))
	}
	var outs []string
	for _, o := range strings.Split(parts[1], ",") {
		outs = append(outs, strings.TrimSpace(o))
	}
	// the outputs are read at the end of the fragment: a placeholder continuation,
	// filled in once the variables are known
	body, err := t.stmts(fd.Body.List[a+1:b], "\x00K")
	if err != nil {
		return "", err
	}
	var ovs, otys []string
	for _, o := range outs {
		v := t.lookup(o)
		if v == nil || v.ty.k != "slice" {
			return "", fmt.Errorf("output %s is not a slice variable of the fragment", o)
		}
		ovs = append(ovs, v.coq)
		otys = append(otys, "list Z")
	}
	body = strings.ReplaceAll(body, "\x00K", "CRet st (Some ("+strings.Join(ovs, ", ")+"))")
	pos := p.fset.Position(fd.Body.List[a].Pos())
	return fmt.Sprintf("(* %s, the statements after line %d *)\nDefinition %s (fuel : nat) %s : mres unit (option (%s)) :=\n  finish (\n  let st := tt in\n%s)%%Z.\n",
		it.Name, pos.Line, it.Coq, strings.Join(params, " "), strings.Join(otys, " * "), c12cIndent(body)), nil
}

func parserParseExpr(s string) (ast.Expr, error) { return goparser.ParseExpr(s) }
