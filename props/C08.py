CONFIG = {
    "coq_dir": "C08",
    "driver": "c08_driver.ml",
    "model_module": "c08_model",
    "level": "proof",
    "level_text": "Coq theorems (no axioms) about executable models of the GSUB/GPOS/GDEF binary codecs: coverage tables round-trip for every strictly increasing glyph list, EncodeLen equals the emitted length, the smaller format is chosen, indices are 0..n-1 in glyph order, the reader is total.",
    "level_note": "Trusted: Coq kernel, extraction (ExtrOcamlBasic), the Go harness and its oracles; the Go code is modelled (C08/Model*.v), not verified.",
    "trusted_base": [
        "modelled, not verified: opentype/coverage (Read, ReadSet, encInfo, EncodeLen, Encode); tied by running the real code and the extracted model on the same generated tables and (mutated) byte strings",
        "parser.Parser is replaced by the plain byte view (justified by C17)",
    ],
    "assumptions": [
        "glyph ids are 16-bit (type glyph.ID); coverage tables handed to the encoder satisfy the documented Table invariant (indices 0..n-1, strictly monotonic) - other tables make the encoder panic or are outside the theorem",
    ],
    "coq_timeout": 1500,
}
