CONFIG = {
    "coq_dir": "C20",
    "driver": "c20_driver.ml",
    "model_module": "c20_model",
    "level": "proof",
    "level_text": "Theorems (Coq, no axioms) about an executable model of (*Font).MakeGlyphNames, (*cff.Outlines).makeNames and PostScriptName: for every glyph count, every pattern of existing names, every cmap, every list of GSUB 1.1/1.2/3.1/4.1 subtables and every behaviour of the external package names (Section variables, nothing assumed except is_valid(\".notdef\") for the CFF .notdef clause) the result has exactly one non-empty name per glyph, pairwise distinct, glyph 0 = .notdef, the first glyph carrying an existing name keeps it, the numbering loops terminate within fuel |used|+1 (pigeonhole over injective decimal formatting), the function never indexes out of range when GSUB refers to existing glyphs, and the installed result is a fixed point; the character class parsed from the regular expression in font.go is exactly the PostScript regular characters. The model is tied to the source by regenerated constants (the regular expression and the format strings) and by running MakeGlyphNames / MakeSimple / PostScriptName and the extracted model on generated fonts.",
    "level_note": "Trusted: Coq kernel, extraction (ExtrOcamlBasic), the Go harness and its oracle; the Go code is modelled (C20/Model.v), not verified; names.FromUnicode / names.IsValid are external (their finite tables are computed by the real package and passed inside each case line).",
    "trusted_base": [
        "modelled, not verified: names.go (MakeGlyphNames, makeVariant), cff/convert.go (makeNames), font.go (PostScriptName character class); Go map iteration over coverage tables is modelled as iteration in increasing glyph id, which is what the repaired code does through Coverage.Glyphs()",
        "external package seehuhn.de/go/postscript/type1/names: FromUnicode and IsValid are Section variables; the sfnt theorems hold for every behaviour of FromUnicode; the CFF theorems use is_valid(\".notdef\") = true for the .notdef clause and is_valid(orn%03d) = true for idempotence only",
        "Go regexp semantics for a negated character class of ASCII ranges: ReplaceAllString removes exactly the characters outside the class (bytes >= 0x80 belong to multi-byte or invalid sequences, all removed); compared with the implementation on all 256 byte values and on all code points",
        "fmt.Sprintf(\"%d\"/\"%03d\") = decimal digits without sign, zero-padded to width 3; Go int counters do not wrap (would need 2^63 used names)",
    ],
    "assumptions": [
        "the font has at least one glyph (glyph 0), and GSUB type 1/3/4 subtables refer to existing glyphs with coverage indices inside their arrays (the property's quantifier); outside of that the model and the code both index out of range and the case is compared as `panic`",
        "cff.Outlines.Glyphs contains no nil entries and no pointer twice",
    ],
    "coq_timeout": 900,
    "gen_timeout": 1800,
}
