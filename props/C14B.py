CONFIG = {
    "part_of": "C14",
    "coq_dir": "C14B",
    "coq_deps": ["C14", "C08"],
    "driver": "c14b_driver.ml",
    "model_module": "c14b_model",
    "level": "proof",
    "level_text": (
        "Part C14B - the layers underneath C14's codecs, modelled as the code is: name.Table as a struct (the string fields in declaration order and the Extra map, "
        "get / set / keys with the switch statements and the two bounds of keys regenerated from name/table.go), name.Info.Encode's enumeration over the language tables "
        "with the caller's maps keyed by strings (exact byte-wise match, nil pointers, missing keys) and name.Decode's inverse (each accepted record stored with Table.set), "
        "composed by import with C14's byte-level record codec; opentype/gtab/locale.go as string functions (padding to 4 bytes, trimming ALL trailing spaces, the -x- suffix, "
        "dflt/DFLT, ToUpper, the table lookups) with golang.org/x/text as a Section variable under C14's hypothesis xtext_spec, and ScriptListInfo.encode / readScriptList at the "
        "level of tags on top of C08's byte-level script list codec (by import). Coq theorems (Qed, closed under the global context): "
        "table_get_set (get after set, every id, well-formedness kept); "
        "keys_complete (keys() = every id with a non-empty string - named field, the field-less id 15, Extra - exactly once, ascending, for every iteration order of the Extra map; "
        "rests on regenerated facts: every case label <= the loop bound = maxID, Extra filter starts at maxID+1) and keys_from_256_refuted (the variant of seed C14-h); "
        "name_records_exact (for every iteration order of both language tables, every Windows encoding id and every Info, no size bound: header + ascending records + storage; a record "
        "(platform, language id, name id) is written exactly when the language id's string is byte-for-byte a key with a non-nil table whose get(name id) is non-empty; no triple twice; "
        "the bytes are those of C14's encoder on the abstraction, so name_roundtrip / name_strings_shared apply); "
        "name_decode_encode (within C14's two 16-bit guards and for representable strings: Decode(Encode(info)) holds under a string exactly `survives`: nothing for unsupported keys, "
        "nil pointers and tables without names, otherwise the table with the same strings under get and Extra reduced to the non-empty entries under ids without a field, nil if none), "
        "name_roundtrip_identity (identity on clean Info values) with unsupported_key_refuted, extra_collision_refuted, mac_not_representable_refuted; decode_steps_refine "
        "(C14's finite-map step = lookup / &Table{} / Table.set / store on structs); language_keys_verbatim (a table under ANY built-in language string, e.g. \"mo\", is written under that "
        "string's language id only and decoded under the SAME string only) and language_keys_verbatim_all (executed in Coq for all regenerated entries of appleBCP and msBCP); "
        "otf_tag_string_roundtrip (for EVERY 4-byte script tag that is DFLT or 1..4 digits/lower-case letters + spaces, other than dflt, and every language tag \"\" or 1..4 digits/upper-case "
        "letters + spaces, any padding 0..3: the private-use part is well-formed and bcp47ToOtf recovers (script, language) from its lower-cased form), otf_tag_there_and_back (under xtext_spec; "
        "otfToBCP47 errs exactly on a script or non-empty language outside the tables), builtin_tags_all_convert (finite over the regenerated scriptBcp47/langBcp47: every tag has the shape, every pair "
        "converts and comes back, incl. \"yi  \", \"HO  \", \"WA  \"), xtext_spec_satisfiable, trim_one_space_refuted (seed C08-j), shape_needed_refuted; "
        "plain_tag_is_function (bcp47ToOtf on a tag WITHOUT an x extension - the Chinese special cases and the two table searches, which keep the smallest matching OpenType tag after fixes/C08-bcp47-plain-tag-deterministic.diff - gives the same answer for every iteration order of langBcp47 and scriptBcp47; the search shape is regenerated from the source: a return to break-on-first-match flips the regenerated flag and breaks the proof), plain_tag_as_found_refuted (bn-Beng: beng in one order, bng2 in another), scriptlist_plain_keys_function (ScriptListInfo.encode with x-extension or plain keys does not depend on the order of the two tables); "
        "scriptlist_tags_all_survive (C08's scriptlist_roundtrip composed with the conversion: for every finite map from distinct built-in (script, language) pairs to language systems - equal to the "
        "default or not - whatever encode writes, readScriptList assigns exactly these language systems to exactly these pairs) and drop_equal_default_refuted (seed C14-i); c14b_total. "
        "Tie: translator items name.Table's string fields and map field, the case-label -> field correspondence of get and of set, the loop bound and the Extra filter bound of keys (coq/Gen/C14B.v), "
        "plus C14's regenerated language-id, maxID and tag tables; correspondence of the extracted model with the Go code through the public API (name.Info.Encode / name.Decode, Table through exported "
        "fields by reflection) and hooks (get/set/keys, otfToBCP47/bcp47ToOtf, ScriptListInfo.encode/readScriptList): table operation sequences, struct-level Infos (every language of both platforms, "
        "other spellings of every key, every id class, nil/empty tables, Extra collisions), raw and mutated name tables, all script x padded-language pairs, x extensions of every shape, script lists over "
        "all built-in tags with language systems equal to the default, hand-laid script lists with unknown tags and shared LangSys tables."
    ),
    "level_note": (
        "Partial: golang.org/x/text is a Section variable (xtext_spec); the extracted model runs with the stand-in xtext_strict (meets xtext_spec, rejects ill-formed private-use parts) and every case "
        "compares the extension string x/text really returns. bcp47ToOtf's branch for tags WITHOUT an x extension is modelled on what x/text reports of the tag (Chinese special case, Raw language, Script), which the case line carries and the harness re-derives; two plain keys that name the same (script, language) pair (e.g. two unknown languages of one script) remain order-dependent in encode and are not generated. "
        "Decode's byte parsing is C14's M_name_decode (imported); the struct level is its concretisation, tied by decode_steps_refine. The two unguarded 16-bit limits of Encode (C14's open findings) "
        "are hypotheses here as there. ScriptListInfo == nil (encode returns nil) and duplicate (script, language) pairs under different BCP 47 keys are not modelled."
    ),
    "trusted_base": [
        "C14B: modelled, not verified: name/table.go (get, set, keys), name/name.go (Encode's loops over appleBCP/msBCP, Decode's table bookkeeping), opentype/gtab/locale.go (otfToBCP47, bcp47ToOtf x-extension branch), opentype/gtab/scriptlist.go (grouping by script in encode, the skip of unconvertible tags in readScriptTable) - coq/C14B/Model.v, ModelTags2.v on top of C14/Model.v, C14/ModelTags.v, C08/ModelSL.v",
        "C14B: Section-style hypothesis xtext_spec (golang.org/x/text/language), as in C14; shown satisfiable by xtext_strict, observed in Go on every compared pair",
        "C14B: Go map iteration order is a parameter (language tables: any permutation; Extra: any permutation, keys_complete); Go maps are canonicalised as sorted association lists",
        "C14B: independent readers used by the oracle, written from the OpenType text in harness/c14b: name table records (info.go), script list writer and reader (scriptlist.go); golang.org/x/text charmap.Macintosh; name id -> struct field table written from the OpenType name-id list (table.go), struct fields reached by reflection",
    ],
    "assumptions": [
        "C14B: name ids are 16-bit, strings valid UTF-8; Windows encoding id 1 for the decode theorems (Decode ignores other Windows encodings)",
        "C14B: name_decode_encode / name_roundtrip_identity / language_keys_verbatim: 6 + 12*records <= 65535 and distinct-string storage <= 65535 (C14's open findings name-record-area-exceeds-65535, name-storage-exceeds-65535)",
        "C14B: scriptlist_tags_all_survive: pairwise distinct (script, language) pairs, feature indices < 0xFFFF, total work within the reader's 2^18 budget; encode's explicit 16-bit refusals are the hypothesis `encode = Ok b`",
    ],
    "coq_timeout": 900,
    "gen_timeout": 900,
}
