CONFIG = {
    "part_of": "C04",
    "coq_dir": "C04B",
    "coq_deps": ["C04", "C05"],
    "driver": "c04b_driver.ml",
    "model_module": "c04b_model",
    "level": "proof",
    "level_text": (
        "Part C04B (imports C04's M_t2enc / theorems and C05's S_t2, nothing copied). "
        "(1) Translator tie of cff/t2encode.go: regenerated from the Go AST on every run (coq/Gen/C04B.v, translators/gen/kind_c04b.go) are "
        "encodeInt as a Coq function statement by statement (case conditions, offsets 139 / 108 / 247 / 251, prefix 28, int16 wrap and byte "
        "truncation explicit) together with its clause bodies and its case ranges on their own, encodeNumber (the tolerance 0.5/65536 of the "
        "integer test as a fraction, the scale inside math.Round, the divisor of the reported value, the byte layout 255 b3 b2 b1 b0), every "
        "t2op constant the file refers to with its value, the two-byte threshold of t2op.Bytes / copyOp, maxStack, the eleven len(code)+K "
        "comparisons with maxStack of AppendEdges per clause, the operand lists of its append(code, ...) calls as (command, affine index in "
        "offs / checkIdx) and the operators handed to copyOp. Tie.v proves (reflexivity / evaluation on all 65536 int16 values) that C04's "
        "hand-written enc_int / enc_number / op_bytes / fits / flex_edges / hh_loop use exactly these values (t2encode_literals_tie, "
        "t2encode_operand_order_tie). regen_encode_number_exact: the encoder ASSEMBLED FROM THE REGENERATED PIECES reports every 16.16 grid "
        "value of [-32768, 32768) exactly and its bytes decode under C05's number reader to that value; regen_boundaries_partition: the "
        "regenerated case ranges are the value ranges of the reader's one- and two-byte forms, every integer of [-1131, 1131] lies in exactly "
        "one, the selected form decodes to the integer and is a shortest among ALL byte strings the reader decodes to it; "
        "boundary_107_108_refuted / boundary_1131_1132_refuted: with a boundary moved by one (108, 106, 1132) some integer is read back wrong, "
        "with 1130 the form is no longer the shortest. "
        "(2) The Glyph builder of cff/glyph.go: M_build is driven by the regenerated method table (operator constant and parameter-to-Args "
        "wiring of MoveTo / LineTo / CurveTo, the fields NewGlyph sets; the doc comments the specification was written from are regenerated "
        "too). builder_commands (after ANY call sequence the glyph holds one command per call, in order, with the call's coordinates, no "
        "stems, the given width - the builder normalises nothing; one more call appends one command and leaves the others alone; the Type 2 "
        "drawing the command list stands for is the drawing the doc comments describe: MoveTo closes the open sub-path and starts one), "
        "builder_then_compile_preserves (composition with C04's t2_any_path_correct: built through the methods, EVERY charstring "
        "encodeCharString can emit for EVERY default / nominal width executes under S_t2 to exactly the calls and the width), builder_total "
        "(the builder never fails; every sequence with coordinates below 16384 in magnitude compiles), builder_lineto_first_refuted (LineTo on "
        "a fresh glyph is accepted and compiled, the specification rejects the charstring). "
        "(3) Font-level widths of cff/write.go / cff/font.go: M_select_widths mirrors selectWidths (histogram with strict >, skip above the "
        "regenerated 32767, mean over ALL glyphs, clamp with the regenerated margins 107 / 107, +Inf when no glyph differs), M_font_widths the "
        "truncation and non-finite guard of encodeCharStrings, M_font_write_widths the ONE pair written into every private dictionary "
        "(makePrivateDict: int32 entries, absent for 0); the statements of all four functions are regenerated as text and checked in Tie.v. "
        "width_choice_transparent (for EVERY default / nominal pair the reader's rule - C05's glyph_of, C05B's width_rule - gives the glyph's "
        "width back, and the code's choice survives the Private DICT), per_fd_widths (each glyph is read under the pair of ITS private "
        "dictionary, for every FDSelect, dictionaries without glyphs included; also for a writer choosing a pair per dictionary) with "
        "per_fd_widths_refuted, width_choice_of_the_code (default = a most frequent width among those <= 32767 in magnitude; nominal = rounded "
        "mean moved into [min+107, max-107]; optimal number of operand-free glyphs when the most frequent width is an integer) with "
        "width_choice_optimal_refuted (a fractional most frequent width is truncated and matches no glyph). "
        "Correspondence: glyphs built THROUGH THE BUILDER METHODS (random call sequences with MoveTo twice in a row, LineTo / CurveTo before "
        "any MoveTo, zero-length segments, repeated points, fractional coordinates, paths of up to 4000 calls), compiled and compared with "
        "M_build + C04's verified checker + S_t2; the regenerated number encoder against encodeNumber; selectWidths against M_select_widths on "
        "eleven width distributions (all equal, all equal fractional, two tied most frequent, all distinct, a width equal to the nominal "
        "width, fractional, negative, default 0, near the operand limits, beyond 32767, random); whole fonts of 1..300 glyphs, name-keyed and "
        "CID-keyed with 1..4 private dictionaries (one without glyphs), written by Font.Write and read by an independent TN5176 reader "
        "(Private DICT entries per Font DICT, FDSelect, width operand per charstring through harness/c05's reference interpreter) and by "
        "cff.Read, compared with M_font_write_widths / S_font_read_widths. Oracle = the property on the real code: every glyph comes back "
        "with the calls made and its width, from both readers."
    ),
    "level_note": (
        "Trusted for this part: translators/gen/kind_c04b.go, harness/c04b (generators, the TN5176 reader specread.go, oracle), harness/c05's "
        "reference interpreter, extraction and ocaml/c04b_driver.ml. The statement-text ties (selectWidths, encodeCharStrings, the width "
        "lines of makePrivateDict / Font.Write / encodeCharString, encodeNumber) break on ANY edit of those statements, also harmless ones; "
        "the check then searches for a failing input and reports no-failing-input-found when there is none. float64 arithmetic of selectWidths "
        "is exact on the 16.16 grid for the generated widths (|w| < 2^20, at most 300 glyphs: the sum is exact and sum/n is never closer than "
        "half an ulp to a half-integer without being one). Coordinates finer than 2^-16 are oracle-only (2^-16 bound per coordinate through "
        "Font.Write / cff.Read). Glyphs that draw before their first MoveTo are outside the property (C04's assumption glyph_wf): the oracle "
        "only requires that they are rejected by both readers, never read back as another outline. A width whose operand relative to the "
        "chosen nominal width is outside [-32768, 32768) falls under C04's open finding t2enc-delta-magnitude-ge-32768 (three font-level "
        "witnesses are generated per run and tagged with that signature). NaN / infinite widths are not generated."
    ),
    "trusted_base": [
        "C04B: modelled, not verified: cff/glyph.go (NewGlyph, MoveTo, LineTo, CurveTo; method table regenerated), cff/write.go selectWidths / encodeCharStrings / the width lines of Font.Write, cff/font.go makePrivateDict width entries (constants and statement texts regenerated, control flow mirrored by hand); tied by correspondence on every run through the public API (cff.NewGlyph and the methods, Font.Write, cff.Read) and the existing hooks VerifC04EncodeNumber / VerifC04EncodeCharString / VerifC04SelectWidths / VerifC05Decode",
        "C04B: the independent CFF reader harness/c04b/specread.go (TN5176: header, INDEX, DICT operands incl. reals, Top DICT, FDArray, FDSelect formats 0 and 3, Private DICT) and harness/c05's reference Type 2 interpreter define what a written font says",
        "C04B: DICT integer encoding of the two width entries is C13's subject (dict integers regenerated there); here the entries are integers in the model and are read back from the file by the independent reader",
    ],
    "assumptions": [
        "C04B: builder_then_compile_preserves: nothing is drawn before the first MoveTo (builder_wf; witness that it is needed: builder_lineto_first_refuted) and every operand fits [-32768, 32768) (emits; C04's open finding otherwise)",
        "C04B: per_fd_widths: FDSelect maps every glyph to an existing private dictionary; default / nominal width within the int32 range of makePrivateDict's conversion (always true for widths below 2^31 - 108 in magnitude)",
    ],
    "coq_timeout": 900,
    "gen_timeout": 600,
}
