CONFIG = {
    "part_of": "C17",
    "coq_dir": "C17B",
    "coq_deps": ["C17"],
    "driver": "c17b_driver.ml",
    "model_module": "c17b_model",
    "level": "proof",
    "level_text": (
        "Part C17B (the model IS the code): the bodies of ALL methods of parser.Parser (New, Size, Pos, SeekPos, Discard, Read, "
        "ReadUint8/16/32, ReadInt16, ReadUint16Slice, ReadBytes) are REGENERATED on every run from parser/parser.go into Coq functions "
        "(Gen/C17B.v) by a small imperative-to-functional translator (translators/gen/kind_c17b.go): the struct becomes a record, every "
        "method a function over it, `for cond` loops fuelled, `for i := range` loops structural, panic a Panic outcome, every integer "
        "operation wrapped at its Go width, slices by value with bounds checks; the underlying io.ReadSeeker is a scripted oracle that "
        "decides per Read call how many bytes come and with which error ((n, nil), short, (0, nil), (n > 0, io.EOF), (n, other error)) and "
        "per Seek call whether it fails, and logs the calls. A statement shape the translator does not understand LOSES the item, so the "
        "proofs (which unfold the generated definitions and fetch the loop bodies from the generated terms) no longer compile. Coq theorems "
        "(Qed, no axioms), C17's model and theorems imported: "
        "(1) generated_refines_model: from EVERY state satisfying the representation invariant, for every legal reader behaviour, every "
        "method call through the generated function returns what C17's hand-written model step returns and reaches a state with the "
        "abstraction of C17's next state; generated_run_refines_model for histories from New; generated_refines_view (composition with "
        "C17's parser_refines_view): any history through the generated functions returns what the plain random-access view returns, "
        "position included, UnexpectedEOF iff the read passes the end, no partial data as success. "
        "(2) generated_inv_init / generated_inv_step / generated_inv_preserved: 0 <= pos <= used <= len(buf), len(buf) in {0, bufferSize}, "
        "buf[0:used] = input[from, from+used), reader positioned at from+used hold after New and after every call for EVERY reader "
        "behaviour (errors with data, failing Seeks) and every int64 argument (negative ones, oversized ReadBytes: panic) - error returns "
        "and panics included; the fuel never runs out; generated_read_after_any_state: from every such state (the one a failure left "
        "behind included) a 16-bit read in range returns the big-endian value and moves the cursor by 2, one passing the end fails with "
        "UnexpectedEOF and leaves it. "
        "(3) _refuted witnesses (vm_compute): each invariant clause is needed (inv_pos_le_used_, inv_used_le_len_, inv_buffer_length_, "
        "inv_buffer_contents_, inv_reader_position_, inv_reader_input_needed_refuted), new_reader_not_at_zero_refuted (New does not "
        "seek), position_range_needed_refuted (int64), and three wrong variants in the generated shape do not refine the view: "
        "readbytes_as_found_refuted (the code AS FOUND dropped bytes delivered together with a non-EOF error: genuine defect "
        "c17-readbytes-drops-bytes-delivered-with-error, repaired), readbytes_drops_eof_data_refuted, readuint16_alias_refuted (seed "
        "C17-m: the translator refuses that source because a buffer slice is used after a later call on the receiver). "
        "Correspondence: the real parser and the extracted GENERATED functions run the same histories over the same scripted reader; "
        "compared per call: result, Pos(), from/pos/used/lastRead/len(buf) (hook VerifC17bState); at the end the whole buffer and the "
        "sequence of Read sizes and Seek offsets issued to the underlying reader. Streams: exhaustive pairs over boundary offsets x "
        "{u8,u16,u32,slice,bytes 1023/1024,read 1025/2049} for inputs of 0,1,1023,1024,1025,2047,2048,2049,3072,5000 bytes under five "
        "legal reader styles (full, 1-byte, always data+EOF, (0,nil) runs, random); random long histories; misbehaving readers and "
        "callers (errors with/without data at scripted calls, failing Seeks, negative/oversized arguments) continued after every failure "
        "and ended by reads in range; a failing read retried at once at every window alignment; New on a pre-positioned reader. Oracles "
        "on the real code: the representation invariant after every call whatever the reader did, and the plain view for every call "
        "during which the reader did not fail (from the position reported before the call)."
    ),
    "level_note": (
        "Trusted: Coq kernel, extraction (ExtrOcamlBasic), the OCaml driver, the Go harness (scripted reader, slice-backed view, "
        "invariant check through the read-only hook), the translator translators/gen/kind_c17b.go INCLUDING the fixed runtime text it "
        "emits in front of the generated functions (Go integer wrap-around, slices by value: copy = memmove, a slice returned by a "
        "method or cut from the receiver's buffer is a snapshot and the translator refuses any use of it after a later call or buffer "
        "write; a []byte parameter is an out-parameter; the scripted io.ReadSeeker). The correspondence run compares the generated "
        "functions with the real methods down to the private fields, the buffer bytes and the calls on the reader, which is what ties the "
        "translation itself. int = int64 (64-bit platforms)."
    ),
    "trusted_base": [
        "C17B: translator translators/gen/kind_c17b.go (statement/expression fragment listed in its header; anything else loses Gen/C17B.v's methods) and its runtime text: Go values by value, scripted reader r_read / r_seek, control operators ctl / loop_while / loop_range",
        "C17B: the underlying reader: Read delivers the next bytes of the input (count and error as scripted), a failed or negative Seek leaves the position where it was, Size() = length of the input",
        "C17B: oracle = harness/c17b/c17b.go viewStep (plain slice view) and checkInv (the invariant stated on the real fields)",
    ],
    "assumptions": [
        "C17B: parser.New is handed a reader positioned at offset 0 (New does not seek: new_reader_not_at_zero_refuted; every caller in /repo passes a fresh section reader)",
        "C17B: positions and sizes stay below 2^62 (int64 arithmetic does not wrap: position_range_needed_refuted); the refinement theorems speak about legal readers (no error other than io.EOF at the end, Seek to an offset >= 0 succeeds, finitely many scripted (0, nil) reads), the invariant theorems about every reader",
    ],
    "coq_timeout": 900,
    "gen_timeout": 600,
}
