CONFIG = {
    "coq_dir": "C05",
    "driver": "c05_driver.ml",
    "model_module": "c05_model",
    "level": "proof",
    "level_text": "S_t2 (Coq, C05/Model.v) is a strict specification interpreter for Type 2 charstrings written from Adobe TN5177/TN5176: five operand encodings, all path operators with their alternation rules, four flex variants, stems, hint/counter masks with implicit vstem and ceil(n/8) mask bytes, arithmetic/conditional/storage operators on the 16.16 grid, callsubr/callgsubr with size-dependent bias, width detection, limits 48/10/32. Theorems (no axioms): t2_terminates (fuel 11 always suffices - no program loops), t2_stack_bound (operand stack <= maxStack, 32 storage slots, nesting <= 10 in every reachable final state), storage_index_bound, bias_correct (getSubr regenerated from the Go source equals the 107/1131/32768 rule, call valid iff biased index in range), malformed_rejected and call_depth_rejected (every single-fault class yields Err), t2_code_composes. The property itself - the implementation yields what the specification defines - is decided on every run by executing cff's interpreter and the extracted S_t2 on grammar-generated programs covering every operator, subroutine tables of sizes 0/1/1239/1240/33899/33900/40000, nesting to depth 10/11 and single-fault mutations, with a second reference interpreter in the harness as oracle.",
    "level_note": "Trusted: Coq kernel, extraction (ExtrOcamlBasic), the Go harness (generator, reference interpreter); the Go interpreter is compared with S_t2, not verified. S_t2 was written from the text of TN5177 as remembered (no network): number domain 16.16; results the specification leaves undefined (overflow, inexact mul/div/sqrt, random, get of an unwritten slot, seac-endchar, dotsection) are outside the compared domain. Two classes are excluded and reported as open findings: operators with an illegal operand count (accepted leniently by the code) and path deltas above 32000 (clamped by the code).",
    "trusted_base": [
        "compared, not verified: cff/t2decode.go decodeCharString/getSubr (through the verif hook VerifC05Decode/VerifC05GetSubr); tied to S_t2 by running both on the same generated programs, and by the translator items cff.getSubr (leafz), cff.maxStack, the call-depth and storage-size literals",
        "the harness's reference interpreter (harness/c05/ref.go, written from TN5177) is the oracle that classifies programs (well-formed / error class / unspecified) and defines the excluded classes",
        "float64 arithmetic of the Go interpreter is exact on the generated domain (16.16 operands, |coordinates| < 2^36, products and quotients on the grid) - generator constraint, checked by the harness (off-grid results are printed as such)",
    ],
    "assumptions": [
        "programs whose result TN5177 leaves undefined are outside the compared domain (S_t2 outcome T2Unspec)",
    ],
    "coq_timeout": 900,
}
