CONFIG = {
    "part_of": "C03",
    "coq_dir": "C03B",
    "coq_deps": ["C03"],
    "driver": "c03b_driver.ml",
    "model_module": "c03b_model",
    "level": "proof",
    "level_text": (
        "Part C03B (imports C03's model of header.Write / header.Read and C03's theorems write_wf, write_directory, "
        "whole_file_checksum, read_write_roundtrip, write_total, write_order_independent; nothing copied): the TABLE-MAP ASSEMBLY of the "
        "three font writers of write.go - (*Font).Write, (*Font).WriteTrueTypePDF, (*Font).WriteOpenTypeCFFPDF. A font is described by what "
        "the assembly observes (dynamic type of f.Outlines; which of cmap / Gdef / Gsub / Gpos / glyf Widths are nil; whether the CFF encoder "
        "fails; the raw table map Outlines.Tables with any names and nil values; the bytes each table maker returns), extraTables by a list "
        "of values of type any (strings, byte slices incl. nil ones, anything else). Each writer is a list of steps (set / conditional set / "
        "range over the raw tables / assertion on f.Outlines / error check / the extraTables loop / panic / header.Write with a scaler) "
        "REGENERATED from the Go AST on every run (coq/Gen/C03B.v, translators/gen/kind_c03b.go: the body is executed symbolically, one path "
        "per case of the type switch, every table source named by a closed expression over the receiver so that two writers storing the same "
        "expression show the same text) and converted step by step into the model's lists in Tie.v (writers_regenerated); also regenerated: "
        "the signatures, makeHmtx's widths condition, the fields makeHmtx sets in hmtx.Info, hmtx.Info.Encode's lsbs default and nil-return "
        "condition, header.Write's keep condition (nil_conditions_regenerated). Coq theorems (Qed, closed under the global context), for EVERY "
        "description and EVERY extraTables list: writers_wf (each file a writer produces is a well-formed container in C03's sense - count "
        "and search fields, sorted directory, alignment, consecutive disjoint tables, length, zero padding, checksums - and sums to "
        "0xB1B0AFBA when a head table of >= 12 bytes is among the tables, a caller-supplied head included); writers_table_set (the directory "
        "is EXACTLY the specification's set Spec.S_layers - required tables of the writer and outline kind, optional ones iff their source is "
        "non-nil, raw tables over the tables made from the font's fields but under maxp / head / the font's own layout tables, the caller's "
        "tables over everything, the last pair of a name wins; a nil value - hmtx of a glyf font without widths in WriteTrueTypePDF, a nil "
        "raw table, a nil extraTables slice - removes the table and is not counted; an override replaces, never duplicates; names not 4 bytes "
        "long are not written; scaler type by outline kind) with writers_table_set_plain (the explicit lists without raw / extra tables); "
        "writers_read_back (header.Read accepts, its table of contents is exactly that set, ReadTableBytes returns every table byte for "
        "byte, head up to bytes 8..11); pdf_writers_are_subsets (same scaler; every table of a PDF writer's file that is not a layout table "
        "the font has data of its own for is in Font.Write's file with identical bytes, head up to its checksum adjustment which really "
        "differs, maxp identical) with pdf_subset_layout_conflict_refuted (a raw table named GDEF next to f.Gdef: the PDF writer writes the raw "
        "one, Font.Write the font's); writers_total (never loops; inside the domain - font kind the writer is made for, extraTables a sequence "
        "of string / []byte pairs where an unpaired last argument is never looked at, at least one table left - no panic: the CFF encoder's "
        "error before anything is written, or a file; outside: panic) with writers_always_something (Font.Write and WriteOpenTypeCFFPDF always "
        "have a table to write; WriteTrueTypePDF unless the caller passes a nil head); writers_raw_table_order_irrelevant (the file does not "
        "depend on the enumeration order of the Go map Outlines.Tables). Correspondence: harness/c03b builds real fonts (Go Regular read from "
        "its file and cut by Font.Subset; synthetic TrueType and CFF fonts built in memory and the same read back from files; "
        "debug.MakeSimpleFont with pinned time stamps; CID-keyed CFF with two private dictionaries) under every switch (cmap, Gdef / Gsub / "
        "Gpos each nil or not, Widths nil, Tables nil / empty / with entries incl. nil values, names of wrong length and names of default "
        "and layout tables, CFF encoder error, no outlines), calls the three writers with fixed and random extraTables lists (new tables, "
        "overrides, nil slices, repeated names, names of wrong length, odd counts, values of other types in every position, everything "
        "removed) and compares scaler, count, search fields, every directory entry (tag, offset, length, checksum), per-table MD5, file MD5 "
        "and the panic / error / success outcome with the extracted model fed with the description read off the font through hooks."
    ),
    "level_note": (
        "Trusted for this part: translators/gen/kind_c03b.go (symbolic execution of the writer bodies; unsupported statement shapes lose "
        "the item), harness/c03b (recipes, the description read off the font through the VerifC03b hooks and the public encoders, the "
        "independent table-set specification spec.go, oracle), harness/c03/export_c03b.go (exports of C03's structural walk and minimal "
        "reader), extraction and ocaml/c03b_driver.ml (MD5 from OCaml's Digest). The table CONTENTS are opaque byte strings here (they are "
        "the business of C09 C11 C12 C13 C14 C08); that the same source expression gives the same bytes in two writers rests on the "
        "expression text being identical (Tie.v) and is observed by the harness (the PDF file's tables are compared with Font.Write's). "
        "The step-list tie breaks on ANY edit of a writer body that changes a table name, a source expression, a condition or the order of "
        "two statements - also on harmless ones (renaming a local variable is absorbed by the symbolic execution). "
        "A glyf font without widths is written without hmtx and with numberOfHMetrics = 0 by design (fix C01-glyf-nil-widths keeps the "
        "cycle a fixed point); golang.org/x/image rejects such a file, which is outside this part's statements. header.Write patching a "
        "caller-supplied head table in place is documented behaviour and allowed by the oracle."
    ),
    "trusted_base": [
        "C03B: modelled, not verified: write.go (Font.Write, Font.WriteTrueTypePDF, Font.WriteOpenTypeCFFPDF as step lists regenerated into coq/Gen/C03B.v; makeHmtx's widths condition), hmtx/hmtx.go (the nil-return condition of Info.Encode); header.Write is C03's model",
        "C03B: table makers (makeHmtx, makeOS2, makeName, makePost, makeHead, makeCFF, Glyphs.Encode, maxp.Info.Encode, CMapTable.Encode, Gdef/Gsub/Gpos.Encode) are opaque: the description carries the bytes they return, read through /repo/verif_hooks_c03b.go",
        "C03B: the Go map tableData and the range over Outlines.Tables are modelled by lists (writers_raw_table_order_irrelevant, C03's write_order_independent)",
    ],
    "assumptions": [
        "C03B: names (raw table names, extraTables strings) are strings of bytes; C03's size bounds on the assembled map (fewer than 4096 written tables, file below 4 GiB)",
        "C03B: writers_read_back / pdf_writers_are_subsets: printable names and at most 280 tables (C03's read_write_roundtrip)",
        "C03B: pdf_writers_are_subsets excludes GDEF / GSUB / GPOS taken from the raw tables while the font has layout data of its own (pdf_subset_layout_conflict_refuted)",
    ],
    "coq_timeout": 900,
}
