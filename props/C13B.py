CONFIG = {
    "part_of": "C13",
    "coq_dir": "C13B",
    "coq_deps": ["C13"],
    "driver": "c13b_driver.ml",
    "model_module": "c13b_model",
    "level": "proof",
    "level_text": (
        "Part C13B (assembly of a CFF font; reuses C13's INDEX / DICT-operand / charset / encoding / FDSelect / layout models): "
        "Coq theorems (Qed, no axioms) about executable models of cffStrings, cffDict.encode / decodeDict at the entry level, makeTopDict / "
        "setFontMatrix / makePrivateDict with the field extraction of Read and readPrivate, (*Font).Write over abstract sections with C13's "
        "layout loop, and cff.Read following the offsets. "
        "(a) strings_roundtrip (every string interned during a write is found again under its SID, in the table and through the written "
        "String INDEX), sid_unique (SIDs equal exactly for equal strings), sid_assignment (standard strings keep their fixed SID, custom "
        "strings get 391+k in first-use order), write_refuses_sid_overflow (a font Write accepts has all glyph-name SIDs in 16 bits). "
        "(b) real_operand_roundtrip (encodeFloat layout read back by decodeFloat, clamps included, for every canonical decimal that is 0 or "
        "in [1e-300,1e300]), dict_entries_roundtrip (encode interns strings in key order, decodeDict returns exactly the entries written), "
        "dict_operators_once_sorted (each operator once, ROS first, two-byte operators as 12 x), topdict_roundtrip and private_roundtrip "
        "(read(write v) = the stated normal form: strings as valid UTF-8, ItalicAngle in [-180,180), BlueScale in [0,1], StdHW/StdVW in "
        "[0,10000]), topdict_defaults_omitted / private_defaults_omitted (a field is omitted exactly when it has the default the reader "
        "substitutes), operand_counts_legal, delta_arrays_roundtrip with delta_arrays_old_refuted for the code before the repair, "
        "tables_match_source (operator codes, isString set, defaults, 391 pairwise different standard strings are regenerated from the Go "
        "source on every run). "
        "(c) write_offsets_correct (simple and CID-keyed fonts: the sections tile the file, every offset operand equals the position of its "
        "section, Subrs operands are the distance to the Private DICT, Private size operands the length written), "
        "write_read_roundtrip (M_read (M_write f) = Ok (normal form of f) for every simple font in the domain - all four encoding "
        "regimes - and every CID-keyed font in the domain - 1..256 private dictionaries, any FDSelect, GIDToCID, per-dictionary matrices -, "
        "for any standard / expert encoding tables). (d) read_is_total (M_read never returns Panic / OutOfFuel on any bytes). "
        "Tie: translator items C13B.json (39 operator / default constants, isString, sortedKeys' special keys, stdStrings as bytes); "
        "correspondence of the extracted models with the real code on string tables, DICT builders and accessors, readPrivate, whole fonts "
        "written by Font.Write (byte for byte, with the section offsets found by an independent walker) and files read by cff.Read "
        "(Go-written, assembled by the harness's own CFF assembler, structurally damaged, and blindly mutated)."
    ),
    "level_note": (
        "Trusted for this part: the translator kinds of translators/gen/kind_c13b.go, the Go harness harness/c13b with its oracles "
        "(independent DICT parser and CFF walker written from TN5176, independent CFF assembler, field-by-field comparison across "
        "Write/Read), extraction and ocaml/c13b_driver.ml. Limits: the round-trip theorem takes 'Write returned bytes' and 'the largest "
        "possible file size fits an int32' as hypotheses; charstrings and subroutines are opaque byte strings (C04/C05), so Read's verdict is modelled up to the "
        "decoding of charstrings; numbers are decimals (sign, mantissa, exponent) with exact arithmetic - the float64 digit extraction of "
        "encodeFloat and the rounding of ParseFloat are not modelled (inputs of the correspondence have at most 9, reader inputs at most "
        "15 significant digits)."
    ),
    "trusted_base": [
        "modelled, not verified (part C13B): cff/strings.go (lookup, get, encode), cff/dict.go (cffDict.encode entry level, sortedKeys, typed accessors, setDeltaF16, setFontMatrix, makeTopDict, dictNumber, readPrivate), cff/font.go (makePrivateDict), cff/write.go (section list and operand wiring of Font.Write), cff/read.go (Read, normaliseAngle in exact arithmetic); tied by correspondence on every run",
        "regenerated from the source on every run (translator, coq/Gen/C13B.v): 39 dictOp / default constants, the operator set of dictOp.isString, the special keys of sortedKeys, defaultFontMatrix and defaultBlueScale as decimals, stdStrings as byte strings",
        "psenc.StandardEncodingRev and cff.expertEnc are Section variables of the Coq development (every theorem holds for any two tables); the driver gets the real tables in each case line",
        "charstrings, global and local subroutines are opaque byte strings: Write takes the charstrings and integer default / nominal widths that encodeCharStrings returns, M_read stops before decodeCharString; the correspondence compares Read only on inputs whose charstrings Read reaches unchanged",
        "reals are exact decimals: encodeFloat's digit extraction (log10/pow10/round) and ParseFloat's rounding are not modelled; getString's string([]rune(x)) is modelled by a UTF-8 well-formedness scanner (utf8_fix) compared with Go's conversion on generated byte strings",
    ],
    "assumptions": [
        "part C13B: fonts in the domain of write_read_roundtrip have fewer than 65536 glyphs; simple fonts: distinct glyph names, one private dictionary, an encoding vector that is empty or has 256 entries referring to existing glyphs; CID-keyed fonts: 1..256 private dictionaries with one six-entry matrix each, FDSelect values below their number, one CID per glyph, int32 supplement; numbers: reals that are 0 or have 1e-300 <= |x| <= 1e300, int16 blue values, int32 BlueShift / BlueFuzz / widths; Write returned bytes and the largest possible file size fits an int32",
        "part C13B: FamilyBlues, FamilyOtherBlues, StemSnapH/V and FontBBox are not part of type1.PrivateDict / FontInfo and are neither written nor read by the library (nothing to model)",
    ],
    "coq_timeout": 1500,
}
