CONFIG = {
    "part_of": "C08",
    "coq_dir": "C08B",
    "coq_deps": ["C08"],
    "driver": "c08b_driver.ml",
    "model_module": "c08b_model",
    "level": "proof",
    "level_text": "Part C08B: Coq theorems (Qed, no axioms) about executable models of the binary codecs of GPOS 2.2 (class pair adjustment), 3.1 (cursive), 4.1 (mark-to-base), 5.1 (mark-to-ligature) and 6.1 (mark-to-mark) with opentype/anchor and opentype/markarray, reusing C08's models of coverage tables, class definition tables and value records. For each of 2.2, 3.1, 4.1, 6.1 and for all inputs: encodeLen = |encode| (_len_agrees); every well-formed value (boolean predicate _wf) the encoder accepts reads back, wherever the bytes sit in a file, as its normal form (_roundtrip; 2.2: class 0 entries dropped, nil = all-zero value record per side); for every well-formed value the encoder either panics or every Go int written into a 16-bit offset/count field is at most 65535 (_refuses_or_fits); the reader never panics on any byte string (_read_total, also for anchor.Read and markarray.Read). GPOS 5.1: the library has no encoder (gpos5_1_encode_refuses: always a loud refusal), the repaired reader never panics (gpos5_1_read_total) and decodes the MarkLigPosFormat1 layout written from the OpenType text (gpos5_1_read_spec). The _refuted_found theorems hold concrete witnesses for the code as it was found (silent 16-bit truncation in Gpos6_1/Gpos2_2/Gpos3_1.encode, encodeLen != |encode| in Gpos3_1, index-out-of-range panic in readGpos5_1, markClassCount/baseCount wrap in Gpos4_1/6_1). Tied on every run by 12 constants regenerated from the Go source (reader and encoder limits) and by running the real code and the extracted model on the same generated structures, byte strings and their mutations.",
    "level_note": "Trusted: Coq kernel, extraction (ExtrOcamlBasic), the Go harness and its oracles (independent structural walk written from the OpenType specification); the Go code is modelled (C08B/Model*.v), not verified. The models mirror /repo with fixes/C08-gpos61-offset-guards.diff, C08-gpos41-markclasscount.diff, C08-gpos22-gpos31-offset-guards.diff and C08-gpos51-reader.diff applied. Not modelled: the apply functions (C06/C07); device / variation tables behind anchor formats 2, 3 and value-record device offsets are carried as numbers (the library ignores them); *PairAdjust entries of Gpos2_2.Adjust are assumed non-nil.",
    "trusted_base": [
        "modelled, not verified: opentype/anchor (Read, Append, IsEmpty), opentype/markarray (Read), opentype/gtab gpos.go (Gpos2_2 and Gpos3_1: encodeLen, encode, readers), gpos4.go, gpos5.go (reader; encoder = panic), gpos6.go, the GPOS reader dispatch for these formats; tied by running the real code and the extracted models on the same inputs",
        "GPOS 5.1 has no encoder in the library: its reader is checked against the layout of the OpenType text written in Coq (S_gpos51_bytes) and, in the harness, against the same layout written in Go (compared byte for byte with the Coq one on every generated case)",
    ],
    "assumptions": [
        "Gpos2_2.Adjust is rectangular with non-nil *PairAdjust entries, BaseArray/Mark2Array rows have one entry per mark class, one MarkArray/Records entry per covered glyph (the _wf predicates; other inputs are compared with the model but are outside the round-trip theorems)",
        "the anchor (0, 0) is the library's representation of 'no anchor' (anchor.Table.IsEmpty): a real anchor at the origin cannot be represented in base arrays and entry/exit records",
    ],
    "coq_timeout": 1500,
}
