CONFIG = {
    "coq_dir": "C04",
    "coq_deps": ["C05"],
    "driver": "c04_driver.ml",
    "model_module": "c04_model",
    "level": "proof",
    "level_text": "M_t2enc (Coq, C04/Model.v) mirrors cff/t2encode.go on the 16.16 grid: encodeInt/encodeNumber, encodeArgs (position tracking with the encoded values), encoder.AppendEdges (all twelve operator forms with the 48-entry stack tests), the width/stem header of encodeCharString (chunks, hm selection, omitted vstem) and encodePaths; the Type 2 specification interpreter S_t2 of C05 is the semantics. Theorems (no axioms): encode_number_exact (every grid value in [-32768,32768) is reported exactly and its bytes decode to it), t2_edges_sound (every edge AppendEdges offers draws exactly the commands it skips, with legal operand counts within 48 stack entries), t2_edges_progress (an edge leaves every command, a path always exists), t2_any_path_correct (for every well-formed glyph description and EVERY path through the edges - the shortest-path search is not trusted - the emitted charstring executes under S_t2 to exactly the same moves/lines/curves/masks, stems and width; exact equality, so nothing accumulates), t2_emitted_limits (stack <= maxStack), t2_checked_charstring_correct (the extracted checker run on every charstring the implementation really emits is sound), encode_number_range_refuted (operands >= 32768 are not representable: open finding).",
    "level_note": "Trusted: Coq kernel, extraction (ExtrOcamlBasic), the Go harness; the Go encoder is modelled, not verified. Tie: encodeNumber compared exhaustively on all int16 integers and on boundary/random 16.16 values, encodeArgs and AppendEdges compared edge-list by edge-list on generated runs, every emitted charstring validated by the extracted checker and executed by S_t2; oracle = reference Type 2 interpreter of the harness plus the library's own decoder and Font.Write/cff.Read. Partial: coordinates finer than 2^-16 and the float rounding inside encodeNumber are outside the grid model (the harness checks the 2^-16 bound on them); dijkstra.ShortestPath is made irrelevant by the any-path theorem; default/nominal width selection is covered by C13 (finding c13-width-default-nominal-truncated).",
    "trusted_base": [
        "modelled, not verified: cff/t2encode.go (encodeCharString, encodePaths, encodeArgs, encodeSubPath, encoder.AppendEdges, encodeNumber, encodeInt) through the verif hooks VerifC04*; seehuhn.de/go/dijkstra is untrusted (any path is proved correct; the emitted path is checked to be a path of the mirror)",
        "S_t2 (C05) as the meaning of a charstring; float64 arithmetic of encodeArgs/encodeNumber is exact on the 16.16 grid with |values| < 2^36 (generator constraint)",
    ],
    "assumptions": [
        "glyph descriptions are well formed: drawing commands only after a moveto, masks only when stems exist and with ceil(n/8) bytes, even stem lists (glyph_wf); every operand (successive coordinate difference, stem delta, width - nominalWidth) lies in [-32768, 32768) - outside it the encoder silently emits a different number (open finding t2enc-delta-magnitude-ge-32768)",
    ],
    "coq_timeout": 1500,
}
