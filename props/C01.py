CONFIG = {
    "coq_dir": "C01",
    "driver": "c01_driver.ml",
    "model_module": "c01_model",
    "level": "proof",
    "level_text": "PLACEHOLDER",
    "level_note": "PLACEHOLDER",
    "trusted_base": [],
    "assumptions": [],
    "coq_timeout": 900,
    "gen_timeout": 1800,
}
