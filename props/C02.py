CONFIG = {
    "coq_dir": "C02",
    "driver": "c02_driver.ml",
    "model_module": "c02_model",
    "level": "proof",
    "level_text": "Theorems (Coq, no axioms) for the modelled top-level GSUB/GPOS reader: gtab_read_total (never panics / never runs out of fuel on any byte string, for any non-panicking subtable reader), gtab_lookup_objects_bounded and script_list_work_bounded (accepted work is bounded by the constants regenerated from the source, whatever offsets alias); the totality theorems of the other decoders are proved with their codecs (C03 read_dir, C08 coverage/classdef, C09 cmap, C11 glyf, C12 hmtx/head/maxp, C13 CFF INDEX/charset/encoding/FDSelect, C14 name/post, C15 kern, C17 parser). The property over ALL decoders of its list (sfnt.Read, cff.Read, gtab.Read with the real subtable readers, gdef, os2, ...) is decided by the guard oracle: every decoder on valid, truncated, corrupted and aliasing-offset inputs with panic, watchdog and allocation observation, then the lazy decoders/accessors on every accepted value.",
    "level_note": "Trusted: Coq kernel, extraction, the harness guard (recover, runtime.MemStats TotalAlloc deltas, wall-clock watchdog) and its bounds (alloc <= 96 MiB + 2048*len, time <= 4 s + 4 ms/KiB); decoders other than the modelled reader are covered by the oracle and by the per-codec theorems of the other properties, not by C02's own theorems; the Go code is modelled, not verified.",
    "trusted_base": [
        "modelled, not verified: opentype/gtab readGtab, readScriptList/readScriptTable/readLangSysTable (accept/reject + budget), readFeatureList, readLookupList incl. extension resolution (C02/Model.v), tied by the hook VerifC02ReadGtab which runs the real readGtab with a recording subtable reader",
        "C17 parser_refines_view justifies modelling parser reads as reads of a plain byte view",
        "all other decoders of the property's list: guard oracle only in this check",
    ],
    "assumptions": [
        "time and allocation bounds are measured (wall clock, TotalAlloc), not proved",
        "BCP47 conversion of script/language tags (x/text) does not influence accept/reject (conversion errors are skipped by the code)",
    ],
    "gen_timeout": 1200,
}
