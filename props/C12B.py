CONFIG = {
    "part_of": "C12",
    "coq_dir": "C12B",
    "coq_deps": ["C12"],
    "driver": "c12b_driver.ml",
    "model_module": "c12b_model",
    "level": "proof",
    "level_text": (
        "Part C12B: the QUERY side of a font - cff Glyph.Extent, cff/glyf Outlines.GlyphBBoxPDF and BBox, sfnt.Font NumGlyphs / Widths / "
        "WidthsPDF / WidthsMapPDF / GlyphWidth / GlyphWidthPDF / GlyphBBox / GlyphBBoxes / FontBBox / FontBBoxPDF / IsFixedPitch / "
        "glyphHeight / GlyphName, and write.go's makeHmtx / makeOS2 / makeHead / makePost (and read.go's cap-height fallback) as consumers "
        "of these queries. The model is the REAL-NUMBER MEANING of the float64 expressions, evaluated in exact rational arithmetic (Coq Q; "
        "Floor / Ceil = Qfloor / Qceiling; the Int16 conversion of Extent mirrored as the gc/amd64 truncation with wrap); float rounding is "
        "outside the model. Coq theorems (Qed, closed under the global context), for all command lists, glyph lists, matrices and fonts: "
        "extent_is_bbox (Extent = (floor min x, floor min y, ceil max x, ceil max y) over the points of the commands the regenerated "
        "switch gives a point to = the END points of moveto / lineto / curveto; the minima / maxima are elements of the point list bounding "
        "every point; hintmask / cntrmask / unknown ops contribute nothing wherever they stand, also first; no point = zero rectangle; "
        "identity of the Int16 conversion when the rounded coordinates fit; a point command without its arguments panics), with "
        "extent_is_bbox_idx0_refuted (initialising at command index 0: seed C12-h), extent_wraps_refuted (coordinates beyond Int16 wrap to an "
        "improper box) and extent_ignores_control_points (a curve can leave the box: stated, not repaired); "
        "glyph_bbox_pdf_def + glyph_chain_def (GlyphBBoxPDF = bounding box of the points mapped by the glyph's Font DICT matrix, THEN the "
        "font matrix, THEN x1000 - matrices applied one after the other, which also proves Mul composes in that order -, font matrix then x1000 "
        "for simple fonts; blank = zero; result proper) with glyph_bbox_pdf_swapped_refuted (seed C12-i), glyf_glyph_bbox_pdf_def (four "
        "corners of the stored box), font_bbox_pdf_def (FontBBoxPDF = union of the non-zero glyph boxes, both outline kinds, extrema "
        "characterised); font_bbox_def (FontBBox folds exactly GlyphBBoxes(); = C12's S_fontbbox = union of the non-empty boxes, composed "
        "with C12.fontbbox_union; this is the value makeHead writes); width_queries_agree (CFF: Widths()[gid] = GlyphWidth(gid) = the glyph's "
        "width; with M = Font DICT matrix x FontMatrix (CID) or FontMatrix: WidthsPDF()[gid] = width*M[0], GlyphWidthPDF(gid) = "
        "width*(q*1000), q = M[0] - M[1]M[2]/M[3] if |M[3]| > 1e-6 else M[0], hence GlyphWidthPDF = 1000*WidthsPDF when M[1]M[2] = 0 or "
        "|M[3]| <= 1e-6; WidthsMapPDF nil iff CID-keyed, else every name's entry is GlyphWidthPDF of the last glyph carrying it), "
        "width_queries_agree_glyf (Widths non-nil: w, w/upem, w/(upem/1000) = 1000*WidthsPDF; Widths nil: Widths() all zeros but WidthsPDF() "
        "nil, GlyphWidth / GlyphWidthPDF 0 for every id, IsFixedPitch true), widths_pdf_cid_old_refuted (the code before the repair), "
        "fixed_pitch_queries (true iff a glyph exists and every non-zero width is within 1/2 of the first non-zero one; on integer widths = "
        "C12's M_fixedpitch, composed with C12.fixed_pitch_def: all non-zero widths equal); derived_fields_from_queries / _glyf / _glyf_nil "
        "(numGlyphs, head.FontBBox, hhea advanceWidthMax / minLSB / minRSB / xMaxExtent / numberOfHMetrics, OS/2 avg width, first / last char, "
        "winAscent = FontBBox.URy, winDescent = -FontBBox.LLy, post.isFixedPitch = C12's definitions evaluated on the Extents and Widths(), by "
        "composition with C12.derived_gen / hhea aggregates; derived_float_is_integer_model: funit.Int16(w), int(w), |a-b| >= 0.5 on "
        "Int16-integer widths are C12's integer computations), hmtx_lsb_from_boxes (lsb = LLx of the box, table reads back by "
        "C12.hmtx_roundtrip), read_height_def (CapHeight / XHeight on reading: OS/2 value, else glyphHeight of the glyph 'H' / 'x' maps to if "
        "not .notdef and existing, else 0); queries_total / queries_total_glyf (no query panics for a glyph id in range on any value the reader "
        "can deliver; out-of-range ids: index panic, except GlyphName and the nil-Widths queries) with glyphname_short_names_old_refuted; "
        "cff_font_queries_agree (the CFF package's own copies: for EVERY cff.Font value cff.Font.Widths / GlyphWidthPDF / WidthsMapPDF / FontBBoxPDF "
        "are the same functions as the sfnt.Font queries on the font wrapping the same outlines and FontMatrix - FontBBoxPDF tests the accumulator "
        "instead of a first flag, which rect.Extend does anyway -; WidthsPDF differs by documented unit, cff = 1000 x sfnt entry for entry, panicking "
        "together), outlines_bbox_def (Outlines.BBox = Font.FontBBox = C12's union of the non-zero Extents), builtin_encoding_def (nil unless exactly "
        "256 entries; .notdef for glyph id 0 / ids outside the font, the glyph's name otherwise), clone_is_shallow (store model: the clone's two "
        "structs are new locations with copied fields - assigning any field of the clone leaves the original unchanged -, every slice / map / pointer "
        "reference is shared - an element written through the clone is seen through the original -, the FontMatrix array is private); "
        "near_sound (the checker's tolerance). Tie: Gen/C12B.v regenerates the op codes, the two switch tables (consumed by the model), "
        "the `first ||` conditions, the operands of every .Mul chain in source order (Tie.v breaks on a reordering), the width formulas and "
        "guards; correspondence through the public API on generated fonts (masks at every position, curves, blank glyphs, single points, "
        "Int16 extremes, fractions, coordinates beyond Int16; simple and CID-keyed CFF with 1..4 Font DICT matrices from 17 matrices incl. "
        "translations, shears, anisotropic scales, rotations by 90/180/270 degrees, the 1e-6 guard; TrueType with / without Widths and "
        "with short name lists; fonts after Write + Read; malformed values; cff.Font / cff.Outlines methods called directly on generated values "
        "incl. exactly representable matrices, Encodings of every length, Clone with every field assigned / written through), float answers checked by the extracted checker Qnear "
        "(relative tolerance 1e-9 of the term magnitudes), exact observables compared as strings; oracle = the definitions with math/big."
    ),
    "level_note": (
        "Trusted: Coq kernel, extraction (ExtrOcamlBasic), the OCaml driver, the Go harness (its math/big oracle is independent of the "
        "model). The Go code is modelled, not verified. float64 rounding is outside the model: the tie accepts |got - exact| <= 1e-9 x "
        "(magnitude of the terms); inputs are handed to the model as the exact dyadic rationals the float64s hold. The generator avoids "
        "matrices whose |M[3]| lies within 1e-9 of the 1e-6 guard together with a shear (which side the float comparison falls on is "
        "rounding). Two defects found were repaired: WidthsPDF ignored the Font DICT matrices of CID-keyed fonts; GlyphName panicked on a "
        "font whose post table names fewer glyphs than the font has. Observations stated, not repaired: Extent / GlyphBBoxPDF use end "
        "points only (a curve without extremum points leaves the box); coordinates beyond Int16 wrap in Extent."
    ),
    "trusted_base": [
        "C12B: modelled, not verified: cff/glyph.go (Extent), cff/outlines.go (NumGlyphs, BBox, GlyphBBoxPDF), glyf/glyf.go (NumGlyphs, GlyphBBoxPDF), font.go (FontBBox, FontBBoxPDF, NumGlyphs, Widths, WidthsPDF, WidthsMapPDF, GlyphBBoxes, GlyphWidth, GlyphWidthPDF, GlyphBBox, glyphHeight, GlyphName, IsFixedPitch), cff/font.go (Clone, FontBBoxPDF, Widths, WidthsPDF, WidthsMapPDF, GlyphWidthPDF), cff/outlines.go BuiltinEncoding, write.go (makeHead, makeHmtx, makeOS2, makePost as consumers), read.go (cap height / x-height fallback), seehuhn.de/go/geom matrix.Mul / Apply / Scale and rect.Rect.IsZero / Extend, funit.Rect16",
        "C12B: float64 arithmetic: the model is exact rational arithmetic; the correspondence accepts a relative error of 1e-9 of the term magnitudes (Qnear, near_sound); math.Floor / Ceil / Abs / Trunc on exactly represented inputs are exact",
        "C12B: funit.Int16(x) of an out-of-range float64 is implementation-defined in Go; go_i16 mirrors gc on amd64 (int32 truncation with the 0x80000000 indefinite value, then the low 16 bits), compared on every run",
        "C12B: verif hook (add-only, //go:build verif): /repo/verif_hooks_c12b.go (glyphHeight)",
    ],
    "assumptions": [
        "C12B: command lists as the reader delivers them: moveto / lineto carry 2 arguments, curveto 6 (otherwise Extent / GlyphBBoxPDF panic: extent_is_bbox states it)",
        "C12B: extent_is_bbox identity clause, font_bbox_def, derived_fields_from_queries: rounded end-point coordinates fit Int16 (extent_wraps_refuted otherwise; reachable from a CFF file whose relative moves add up beyond 32767)",
        "C12B: CID-keyed fonts: FDSelect is defined for every glyph and its values index FontMatrices (cff.Read checks both)",
        "C12B: TrueType fonts: Widths is nil or as long as the glyph list (sfnt.Read checks it); unitsPerEm <> 0 for the PDF-unit width relations",
        "C12B: derived_fields_from_queries: the hypotheses of C12.writer_derived_fields (1..65535 glyphs, non-negative Int16 integer widths, representable right side bearings, cmap with a code point)",
    ],
    "coq_timeout": 900,
    "gen_timeout": 900,
}
