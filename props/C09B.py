CONFIG = {
    "part_of": "C09",
    "coq_dir": "C09B",
    "coq_deps": ["C09", "C14"],
    "driver": "c09b_driver.ml",
    "model_module": "c09b_model",
    "level": "proof",
    "level_text": (
        "Part C09B (the VALUE level of the cmap package: the Subtable interface as callers use it; imports, never copies, C09's byte "
        "codecs, table codec, key order and InstallCMap key choice, and C14's Mac Roman decoder): Coq theorems (Qed, no axioms) about "
        "subtable VALUES *Format0 / Format4 / Format12 (Go maps as sorted association lists in which a key may be present with glyph 0). "
        "The bodies of the three Lookup and the three CodeRange methods are REGENERATED from the Go AST into Gen/C09B.v as Coq functions "
        "(conversions uint16/uint32/rune as the modular arithmetic Go performs; CodeRange as a fold over the map keys in iteration "
        "order), as are the decoder table of subtable.go, the Macintosh test of Table.Get, the shape of InstallCMap (a FRESH map literal "
        "with the keys C09 names, both entries holding s.Encode(0)), the width of the loop variable of the CodeRange loops in names.go / "
        "explain.go and the code2rune branch of decodeFormat0. "
        "(1) lookup_total_function: for every value and EVERY rune (negative, BMP, supplementary, beyond U+10FFFF) Lookup returns the "
        "glyph of the code point if it is a mapped code of the subtable's code space (0..255, 0..0xFFFF, uint32) and 0 otherwise "
        "(lookup_mapped_glyph, lookup_never_another_code, lookup_unmapped_is_notdef, rune_of_code_injective); the one panic of today's "
        "code is named: Format0.Lookup on a negative rune (lookup0_negative_rune_refuted; unreachable from Layout / MakeGlyphNames, "
        "reachable by a direct call), lookup_total_on_code_points: no panic for r >= 0. "
        "(2) coderange_covers: low <= c <= high for every mapped code, both ends are mapped codes (map types), (0,0) for the empty map, "
        "(0,255) for a *Format0 whatever it maps (coderange0_not_tight_refuted), both ends are runes; coderange_any_iteration_order: the "
        "same result for every order in which Go may range over the map. "
        "(3) enumerate_by_range: the loop `a, b := CodeRange(); for c := int64(a); c <= int64(b); c++ { Lookup(rune(c)) }` ends for every "
        "value, never panics, and sees with a non-zero glyph EXACTLY the non-zero entries of the mapping, each once, by ascending rune; "
        "enumerate_as_found_maxint_refuted: with the loop variable a rune (as found) a Format12 holding code 0x7FFFFFFF made the loop run "
        "for ever (genuine defect c09-coderange-loop-maxint32, fixed). "
        "(4) lookup_after_roundtrip: for every value C09's round trips cover (any *Format0; Format4 for EVERY path of the segment graph "
        "that fits; Format12 with at most 65536 keys below 0xFFFFFFFF), every language and non-Macintosh key, Table.Get(Encode(s)) "
        "looks up every integer exactly like s. "
        "(5) installcmap_replaces: on ANY heap of map objects and ANY font value the new table has exactly the two keys of C09's "
        "installcmap_ids, both holding Encode(s,0); no other key answers; the rest of the font is untouched; every font value that "
        "existed before (a struct copy sharing the old map in particular) still sees the table it saw; GetBest selects the new "
        "subtable and it looks up every integer like s; installcmap_inplace_refuted: the variant that stores into the existing map "
        "changes the copy's table, keeps a stale key and lets GetBest answer with the OLD mapping. "
        "(6) get_dispatch: Table.Get = the decoder of the format word over the regenerated table (0/4/6/12 decoded, 2/8/10/13/14 "
        "refused, no entry = nil func), decoders_all_known, get_agrees_with_C09 / getbest_agrees_with_C09 (refinement of C09's M_get / "
        "M_getbest, so get_total and getbest_preference speak about the values), get_mac_format0_translated: under the Macintosh key a "
        "byte table is handed out translated (glyph of Mac code c at mac.DecodeOne(c), all 256 codes; mac.DecodeOne injective and inside "
        "the BMP decided on the regenerated table), get_mac_format0_as_found_refuted (genuine defect "
        "c09-format0-mac-codes-not-translated, fixed). The model is tied to the code by running the public API (Lookup, CodeRange, "
        "Encode, Table.Get, GetBest, Font.InstallCMap) and the extracted model on generated values: boundary values of every type "
        "(empty maps, zero-valued keys, codes 0 / 0xFF / 0x100 / 0xFFFE / 0xFFFF / 0x10000 / 0x10FFFF / 0x110000 / 0x7FFFFFFE / "
        "0x7FFFFFFF / 0x80000000 / 0xFFFFFFFE / 0xFFFFFFFF, glyph 65535) and random ones; Lookup over {-2^31, -2^16, -1, 0, mapped "
        "codes and their neighbours, mapped + 2^16 k, 0xFFFF, 0x10000, 0x10FFFF, 0x110000, 2^31-1, random runes}; CodeRange with the "
        "model folding over descending and shuffled key orders; the enumeration loop with exact and one-short budgets; Encode + Get "
        "under 8 keys; Get on subtables written from the OpenType text by independent writers (formats 0, 4, 6, 12; Macintosh codes "
        "under (1,0), (3,1), (0,3), unsupported Mac encodings), stubs of every refused format, format words without entry, truncated and "
        "mutated bytes; GetBest on tables of 1-5 records incl. undecodable ones; InstallCMap on fonts whose previous table is nil, "
        "empty, BMP, full-Unicode, one-key, with Macintosh records, both, or junk, with a struct copy of the font taken before the call."
    ),
    "level_note": (
        "Trusted: Coq kernel, extraction (ExtrOcamlBasic), the OCaml driver, the Go harness with its ground-truth maps, its writers and "
        "readers of the four subtable formats (written from the OpenType text) and the child process that calls MakeGlyphNames under a "
        "time limit. The Go code is modelled, not verified: method bodies and shapes named above are regenerated, the rest is tied by the "
        "correspondence run. Format4.Encode's shortest-path answer is a parameter of the model (pick); the harness hands the segments "
        "found in the implementation's output to the model, which checks that they are a path of ITS segment graph (C09's path_ok) and "
        "emits the bytes along it. A Go rune is an int32: the theorems quantify over is_rune; Format12 identifies a rune with the uint32 "
        "of the same 32 bits (negative runes are the codes from 2^31 up), exactly as the code does."
    ),
    "trusted_base": [
        "C09B: modelled, not verified: cmap/format0.go, format4.go, format12.go (Lookup, CodeRange: regenerated bodies; Encode by import of C09), cmap/subtable.go (regenerated decoder table), cmap/cmap.go Table.Get / GetBest, write.go Font.InstallCMap, the CodeRange loops of names.go and opentype/gtab/builder/explain.go",
        "C09B: the heap model of Go map aliasing (a Font holds a reference to a map object; a struct copy shares it; a map literal allocates a fresh object with an address no live reference has)",
        "C09B: mac.DecodeOne = C14's M_mac_dec1 over the regenerated table Gen/C14.mac_dec",
        "C09B: oracle = ground-truth Go maps (the property text: same glyph for every mapped code point, 0 otherwise) and harness/c09b/values.go specLookup (formats 0, 4, 6, 12 from the OpenType text)",
    ],
    "assumptions": [
        "C09B: Format0.Lookup is not asked for a negative rune (the code indexes Data[r] after testing only r > 255: lookup0_negative_rune_refuted)",
        "C09B: round trips / InstallCMap: the value is one C09's round trips cover (Format4: the subtable fits 65535 bytes; Format12: at most 65536 keys, all below 0xFFFFFFFF); font values compared across InstallCMap hold live references (no dangling map address)",
        "C09B: Format12 keys from 2^31 up are denoted by negative runes: CodeRange reports them as negative code points and InstallCMap chooses BMP encoding ids for a map that holds only such codes (mirrored as the code is; outside Unicode)",
    ],
    "coq_timeout": 900,
    "gen_timeout": 900,
}
