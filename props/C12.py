CONFIG = {
    "coq_dir": "C12",
    "driver": "c12_driver.ml",
    "model_module": "c12_model",
    "level": "proof",
    "level_text": (
        "Coq theorems (no axioms) about executable models of hmtx/hhea, head (+ timestamps), maxp, the post header, OS/2 "
        "and of the fields Font.Write derives. hmtx_roundtrip: for all width / side-bearing vectors of equal length >= 1 "
        "with Int16 entries, every length of constant tail and numberOfHMetrics <= 65535 (in particular every glyph count "
        "1..65535), Decode(Encode(info)) returns widths, side bearings, ascent, descent, line gap, caret slope rise/run and "
        "caret offset unchanged; hmtx_numlong_least: numberOfHMetrics is the least k >= 1 whose table reads back; "
        "hhea_aggregates: advanceWidthMax, minLeftSideBearing, minRightSideBearing, xMaxExtent written into hhea equal "
        "their OpenType definitions over the glyphs with a non-zero box (0 when none) and are the extrema they are named "
        "after; head_roundtrip (all 2^8 flag/style combinations, any unitsPerEm, timestamps by time_roundtrip: every "
        "int64 Unix second except 1904-01-01T00:00:00Z, to the second), maxp_roundtrip, post_header_roundtrip (italic "
        "angle as 16.16 integer, underline metrics, isFixedPitch), os2_roundtrip (style, permission and code-page bits, "
        "Unicode ranges, all metrics) on their normal forms, and *_decode_fixpoint: whatever each decoder accepts (OS/2 "
        "under every version 0..5 and table length) is in the normal form, so bytes->Info->bytes->Info is stable; "
        "fontbbox_union, avg_width_def, first_last_char_def, fixed_pitch_def, writer_derived_fields: FontBBox = union of "
        "the non-empty proper glyph boxes, xAvgCharWidth = nearest integer to the mean positive width, first/last "
        "character = min/max code point clamped to 0xFFFF, isFixedPitch iff all non-zero widths agree; "
        "version_round_idempotent / version_round_keeps_string for head.Version; *_decode_total for C02. "
        "PARTIAL: the float code is not modelled - caret angle <-> rise/run (atan2, sin, cos, bestRationalApproximation; "
        "the model takes fromAngle's rise/run as input), arbitrary float64 italic angles and CFF widths, and the "
        "PDF-unit queries (WidthsPDF, GlyphWidthPDF, FontBBoxPDF); these are checked on the real code only, with exact "
        "math/big rationals. post version 2.0 name data is left to C14. "
        "The models are tied to the code by regenerated constants (hheaLength, headLength, zeroTime and every bit mask / "
        "version threshold of head.Read/Encode, os2.Read/Encode, maxp.Read, hmtx.Decode: theorem "
        "model_constants_match_source) and by running each Encode/Decode pair, encodeTime/decodeTime, Version.Round/String "
        "and (*sfnt.Font).Write (glyf and CFF fonts, tables re-read from the written file with an independent directory "
        "parser) against the extracted models on generated cases."
    ),
    "level_note": (
        "Trusted: Coq kernel; extraction (ExtrOcamlBasic) and the OCaml driver; the Go harness with its oracles (Go-level "
        "round trips, independent readers of the table layouts written from the OpenType descriptions, definitions "
        "computed in plain integer / big.Rat arithmetic, golang.org/x/image/font/sfnt as an independent reader of the "
        "written fonts); the verif hook wrappers. The Go code is modelled, not verified. Two defects found were repaired "
        "(hhea extents ignoring Info.LSB; Version.Round vs String at ties); one is recorded open (the second "
        "1904-01-01T00:00:00Z reads back as 'no timestamp')."
    ),
    "trusted_base": [
        "modelled, not verified: hmtx/hmtx.go (Info.Encode, Decode), head/head.go (Read, Info.Encode, Version.Round/String), head/time.go, maxp/maxp.go, os2/os2.go (Read, Info.Encode), post/post.go (the 32-byte header of Read / Info.Encode), write.go makeHead/makeHmtx/makeOS2/makePost, font.go FontBBox/IsFixedPitch/Widths/GlyphBBoxes, cmap Format4/Format12.CodeRange, funit.Rect16.IsZero/Extend",
        "encoding/binary.Read of a fixed-size struct and io.ReadFull are all-or-nothing (any short read is an error): the models read field by field and return Err when the bytes run out",
        "time.Time: IsZero() <-> Unix() = -62135596800 and Nanosecond() = 0; time.Unix(s, 0).Unix() = s for every int64 s (wrap-around included); checked on every run on the boundary values",
        "float64 arithmetic of Version.Round/String is exact on uint32/65536*1000 (42 significant bits) and the second rounding never meets a tie (argued in Model3.v); checked against the Go code on random and tie values, thorough tier 20000 values",
        "unmodelled float code (caret angle, non-grid italic angles, PDF-unit queries): oracle only",
        "verif hooks (add-only, //go:build verif): /repo/hmtx/verif_hooks_c12.go (fromAngle, toAngle, bestRationalApproximation), /repo/head/verif_hooks_c12.go (encodeTime, decodeTime)",
    ],
    "assumptions": [
        "hmtx: Widths, LSB (or GlyphExtents when LSB is nil) and GlyphExtents have equal lengths (Encode documents a panic otherwise; the model has the same Panic outcomes)",
        "hhea aggregates: advance widths are non-negative and each glyph's aw - (lsb + xMax - xMin) and lsb + xMax - xMin fit Int16 (the hhea fields are Int16; outside, the Int16 arithmetic wraps: hhea_rsb_wrap_refuted)",
        "FontBBox: glyph boxes have xMin <= xMax and yMin <= yMax (fontbbox_union_improper_refuted otherwise)",
        "derived fields: integer advance widths (glyf fonts; CFF fonts with integer widths)",
        "timestamps: not the second 1904-01-01T00:00:00Z (open finding c12-head-time-1904-epoch-reads-as-unset)",
        "OS/2 normal form: IsRegular excludes IsBold/IsItalic, 4-byte vendor tag, PermUse in 0..3, Unicode-range bit 57 follows LastCharIndex = 0xFFFF, cap height and x-height non-negative (what an OS/2 table can express)",
        "Version.Round: v < 4294967264 (above, the result 2^32 does not fit uint32 and Go's conversion is platform dependent)",
    ],
    "coq_timeout": 900,
    "gen_timeout": 1800,
}
