CONFIG = {
    "coq_dir": "C12",
    "driver": "c12_driver.ml",
    "model_module": "c12_model",
    "level": "proof",
    "level_text": "work in progress",
    "level_note": "work in progress",
    "trusted_base": [],
    "assumptions": [],
    "coq_timeout": 900,
    "gen_timeout": 1800,
}
