CONFIG = {
    "coq_dir": "C19",
    "driver": "c19_driver.ml",
    "model_module": "c19_model",
    "level": "proof",
    "level_text": "in progress",
    "level_note": "in progress",
    "trusted_base": [],
    "assumptions": [],
    "coq_timeout": 1800,
    "gen_timeout": 1800,
}
