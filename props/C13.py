CONFIG = {
    "coq_dir": "C13",
    "driver": "c13_driver.ml",
    "model_module": "c13_model",
    "level": "proof",
    "level_text": (
        "Coq theorems (Qed, no axioms) about executable models of the CFF codecs of cff/: "
        "index_roundtrip (every INDEX with < 65536 entries and < 2^32-1 data bytes is read back, wherever it is embedded) with "
        "index_offsize_minimal and index_read_total (never a panic, allocation <= file size + 28*65536); "
        "dict_int_roundtrip for every int32 with the size classes switching exactly at +-107/+-1131/int16 "
        "(the encoder is regenerated from cffDict.encode by the translator on every run), dict_ints_roundtrip, dict_decode_total; "
        "dict_real_value (the nibble layout of encodeFloat for any sign, digit string and decimal-point position is consumed exactly by decodeFloat, "
        "accepted by ParseFloat's decimal grammar and denotes exactly +-D*10^(l-m)); "
        "charset_roundtrip (formats 0/1/2 as selected), encoding_roundtrip (formats 0/1 with supplements for multiply-encoded glyphs, under the contiguity rule), "
        "fdselect_roundtrip (formats 0/3, including the binary search of the returned closure), each reader total; "
        "predefined_charsets_match_spec; layout_fixpoint_terminates_consistent (the offset loop of Font.Write stops within 4*(#layout operands)+2 rounds, "
        "without 32-bit overflow, every offset operand equal to the position of its section); width_recovered / width_recovered_repaired on the 16.16 grid, "
        "with width_recovered_refuted for the code before the repair. "
        "The models are tied to /repo on every run by the translator (DICT integer encoder, offsSize, predefined charset tables, nStdString) and by running "
        "the real code through verif hooks and the extracted models on the same generated values, mutated byte strings and whole fonts "
        "(the layout model reproduces the offsets of every font written)."
    ),
    "level_note": (
        "Trusted: Coq kernel, extraction (ExtrOcamlBasic), the translator kinds of translators/gen/kind_c13.go, the Go harness and its oracles "
        "(specification-side readers for INDEX, DICT, charset, encoding, FDSelect; structural walk of emitted CFF files; field-by-field comparison of cff.Font across Write/Read). "
        "The Go code is modelled (C13/Model*.v), not verified. Partial: the digit extraction of encodeFloat (log10/pow10 float code) is not modelled - the harness "
        "checks it against strconv on decimal inputs (exact) and on arbitrary float64 values (nine significant digits); the assembly of whole fonts "
        "(string table, Top DICT contents, FontInfo fields, standard/expert encodings by name) is covered by the oracle only; charstring outlines belong to C04/C05."
    ),
    "trusted_base": [
        "modelled, not verified: cff/index.go (readIndex, cffIndex.encode), cff/dict.go (decodeDict, decodeFloat, layout of encodeFloat after digit extraction), cff/charset.go, cff/encoding.go, cff/fdselect.go, the offset loop of cff/write.go, width coding of t2encode.go/t2decode.go on the 16.16 grid; tied by correspondence on every run",
        "regenerated from the source on every run (translator): the int32 operand encoder inside (cffDict).encode, offsSize, the three predefined charset tables as SIDs, the number of standard strings",
        "parser.Parser is replaced by a plain byte view (justified by C17); a read of 0 bytes always succeeds",
        "encodeEncoding is modelled position by position (first code of each glyph, later codes as supplements, maxGid) instead of by its one-pass map construction; the correspondence check ties the two",
        "strconv.ParseFloat: accepted grammar over the characters 0-9 . e - and overflow threshold 2^1024-2^970 are specification-side definitions (S_real_parse, S_real_overflow), exercised against the real function by the harness",
        "not modelled: digit extraction in encodeFloat (math.Log10 / math.Pow10 / math.Round), float64 rounding of ParseFloat, psenc.StandardEncodingRev and expertEnc name tables",
    ],
    "assumptions": [
        "identifiers handed to encodeCharset fit 16 bits (checked by the repaired code, which otherwise returns an error); glyph names have distinct SIDs; encoding vectors have 256 entries referring to existing glyphs",
        "FDSelect values are below 256 and below the number of private dictionaries; nGlyphs < 65536",
        "DICT reals are finite with 1e-300 <= |x| <= 1e300 or 0 (decodeFloat maps smaller values to 0 and clamps larger ones); nine significant digits are kept",
        "layout: every layout operand refers to an existing section and the largest possible file size fits an int32 (Font.Write keeps offsets in int32)",
        "widths lie on the 16.16 grid with |width - nominalWidth| < 32768",
        "private dictionary values inside the ranges the reader keeps: BlueScale in [0,1], StdHW/StdVW in [0,10000]; ItalicAngle in (-180,180)",
    ],
    "coq_timeout": 1500,
}
