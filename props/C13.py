CONFIG = {
    "coq_dir": "C13",
    "driver": "c13_driver.ml",
    "model_module": "c13_model",
    "level": "proof",
    "level_text": "Coq theorems (no axioms) about executable models of the CFF codecs: INDEX round trip with minimal offSize, DICT integer operands (all int32, size classes), DICT real nibble layout vs exact decimal value, charset / encoding / FDSelect round trips with their format selection, totality of every reader, termination and consistency of the offset fixed-point loop of Font.Write, width recovery on the 16.16 grid.",
    "level_note": "Trusted: Coq kernel, extraction (ExtrOcamlBasic), the translator for the DICT integer encoder and offsSize, the Go harness and its oracles; the Go code is modelled (C13/Model*.v), not verified.",
    "trusted_base": [
        "modelled, not verified: cff/index.go, dict.go (operand codec), charset.go, encoding.go, fdselect.go, the offset loop of write.go; tied by running the real code (through verif hooks) and the extracted model on the same generated values and mutated byte strings",
        "parser.Parser is replaced by a plain byte view (justified by C17)",
    ],
    "assumptions": [],
    "coq_timeout": 1500,
}
