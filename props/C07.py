CONFIG = {
    "coq_dir": "C07",
    "driver": "c07_driver.ml",
    "model_module": "c07_model",
    "level": "proof",
    "level_text": "(work in progress) M_shape mirrors the lookup-application engine; theorems are being added stage by stage.",
    "level_note": "Trusted: Coq kernel, extraction (ExtrOcamlBasic), the Go harness and its oracle; the Go code is modelled (C07/Model.v), not verified.",
    "trusted_base": [
        "modelled, not verified: opentype/gtab layout.go, filter.go and every Subtable.apply (C07/Model.v), tied by running the real gtab.Context and the extracted model on the same tables, sequences and call histories",
    ],
    "assumptions": [],
    "coq_timeout": 1800,
    "gen_timeout": 1800,
}
