CONFIG = {
    "coq_dir": "C09",
    "driver": "c09_driver.ml",
    "model_module": "c09_model",
    "level": "proof",
    "level_text": "Coq theorems (no axioms) about executable models of the cmap code: format 12 encode/decode round trip for every sorted map (groups sorted, disjoint, minimal; decoder = specification lookup); format 4: every vertex has an edge that makes progress, and for EVERY path of makeSegments.AppendEdges edges whose emitted size fits 65535 bytes the specification lookup (written from the OpenType text, independent of the library's decoder) on the emitted bytes returns the map's glyph for all 65536 codes, so the Dijkstra package is not trusted; the library's decoders agree with the specification lookups and never panic. The models are tied to /repo by regenerated constants (Gen/C09.v) and by running implementation and extracted model on the same inputs.",
    "level_note": "Trusted: Coq kernel, extraction (ExtrOcamlBasic), the Go harness with its independent format-4/12 readers, the verif hook wrappers in cmap/verif_hooks_c09.go; the Go code is modelled (C09/Model*.v), not verified.",
    "trusted_base": [
        "modelled, not verified: cmap/format0.go, format4.go, format6.go, format12.go, cmap.go (Decode, Encode, Get, GetBest), write.go InstallCMap; tied by Gen/C09.v constants and by the correspondence run",
        "seehuhn.de/go/dijkstra is NOT trusted: format4_any_path_correct holds for every path of AppendEdges edges; the harness checks that the segments found in Encode's output form such a path",
        "Go maps are canonicalised as strictly sorted association lists / total functions code -> glyph (0 = absent)",
        "sort.Search on the slice of occupied ranges in cmap.Decode is modelled as 'first index whose start is >= o' (the slice is kept sorted by start); slices.Insert as list insertion",
        "code2rune for platform 1 (mac.DecodeOne) is a parameter of the decoder models; the correspondence run passes the implementation's 256-entry table",
        "oracle readers: harness/c09/spec.go (formats 0, 4, 6, 12 written from the OpenType text) and golang.org/x/image/font/sfnt GlyphIndex on Go Regular carrying the encoded table",
    ],
    "assumptions": [
        "table round trip: entries are subtables cmap.Decode can return (wf_entry), at most 65535 records, total size below 2^32",
        "format 4: the emitted subtable fits the 16-bit length field (2*(8+4*segCount+|glyphIdArray|) <= 65535); larger maps are outside the property's quantifier (the Length field wraps silently, DESIGN 5.C)",
        "format 12: keys below 0xFFFFFFFF (the decoder rejects endCharCode = 0xFFFFFFFF), at most 65536 entries",
        "glyph ids are 16 bit (glyph.ID = uint16)",
    ],
    "coq_timeout": 1800,
    "gen_timeout": 1800,
}
