CONFIG = {
    "part_of": "C08",
    "coq_dir": "C08C",
    "coq_deps": ["C08"],
    "driver": "c08c_driver.ml",
    "model_module": "c08c_model",
    "level": "proof",
    "level_text": "Part C08C - the binary codecs of the contextual lookup subtables: SeqContext1/2/3 (GSUB 5, GPOS 7), ChainedSeqContext1/2/3 (GSUB 6, GPOS 8) and Gsub8_1 (reverse chaining single substitution). Coq theorems (Qed, no axioms) about executable models of encodeLen / encode / read of each format, reusing C08's models of coverage and class definition tables, each for all inputs of its domain: <fmt>_len_agrees (declared size = emitted size for every subtable the encoder does not refuse), <fmt>_roundtrip (whatever the encoder writes for a well-formed subtable - valid coverage tables, one rule set per covered glyph, 16-bit glyph ids, classes and record fields - reads back, wherever the bytes sit in a file, as the same structure in the reader's normal form: nil and empty rule sets kept apart, class-0 entries dropped, rule sets beyond the largest class dropped), <fmt>_refuses_or_fits (for every input the encoder panics or every count and offset it passes through a 16-bit field is the value itself), <fmt>_refuses_only_overflow (a well-formed subtable is refused only when such a value exceeds 65535 or a class table is unrepresentable), <fmt>_read_total and ctx_read_total (the readers and their dispatch never panic, on any byte string; also serves C02). The models are tied to the code by the 16-bit limits of the encoders' and readers' tests regenerated from the Go source on every run (coq/Gen/C08C.v, checked in Tie.v) and by running the real encoders and readers and the extracted models on the same generated structures, byte strings and their mutations, including families in which every critical offset and count sweeps across 65535.",
    "level_note": "The models mirror /repo with fixes/C08-context-offset-guards.diff applied (silent 16-bit truncation of offsets and counts in SeqContext1, SeqContext3, ChainedSeqContext1/2/3 and Gsub8_1 encode turned into loud refusals; ModelPre.v keeps the unrepaired encoders and Props.v the refutations with concrete witnesses). ch2_roundtrip assumes class tables without explicit class-0 entries (the oracle covers the others). Reader size tests that sit inside the parsing loops are modelled after the loops (same result: every way out of the loops is an error).",
    "trusted_base": [
        "modelled, not verified: opentype/gtab nested.go (readSeqContext1-3, readChainedSeqContext1-3, their encodeLen and encode, readNested) and gsub.go (readGsub8_1, Gsub8_1.encodeLen/encode, the dispatch of readGsubSubtable/readGposSubtable for lookup types 5-8); coverage.Read/ReadSet/Encode/EncodeLen/Prune and classdef.Read/Append/AppendLen/NumClasses through the models of C08; tied by running the real code and the extracted models on the same inputs",
        "C08C: parser.Parser is replaced by the plain byte view (justified by C17)",
    ],
    "assumptions": [
        "C08C: glyph ids, classes and sequence-lookup record fields are 16-bit (the Go types); coverage tables handed to encoders satisfy the documented Table invariant, arrays indexed by coverage index have one entry per covered glyph, format 3 subtables have at least one input coverage set (other inputs make the encoder panic or are outside the round-trip theorems; the readers' pruning of such data is mirrored in the models and compared on every case)",
    ],
    "coq_timeout": 1500,
}
