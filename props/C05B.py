CONFIG = {
    "part_of": "C05",
    "coq_dir": "C05B",
    "coq_deps": ["C05", "C13", "C13B"],
    "driver": "c05b_driver.ml",
    "model_module": "c05b_model",
    "level": "proof",
    "level_text": (
        "Part C05B (the plumbing BETWEEN the file and the interpreter; imports C05's S_t2, C13's INDEX / DICT / FDSelect readers and "
        "C13B's model of cff.Read up to the charstrings - nothing copied): mirror M_read_private of cffDict.readPrivate driven by the "
        "accessor table regenerated from cff/dict.go (which operator is read with getInt / getFloat / getPair / getDeltaF16 and with "
        "which default; Subrs relative to the Private DICT offset in int32, the size check against the data), mirror M_cff_read = "
        "C13B's M_read + the glyph loop (decoders[fdSelect(gid)], decodeInfo fields wired by the two literals regenerated from "
        "cff/read.go, one decodeCharString = S_t2 per glyph, Panic for an index out of range); specification S_cff_glyphs written from "
        "TN5176 / TN5177 as a function of the bytes and a glyph index (S_index: count, offSize, offset array, objects between "
        "neighbouring offsets - an object may be empty; Private [size offset] of the glyph's own Font DICT found through FDSelect; "
        "defaultWidthX / nominalWidthX as NUMBERS, absent = 0; Subrs = offset (self); width = defaultWidthX without a width operand, "
        "nominalWidthX + operand otherwise, as an exact decimal). Coq theorems (Qed, closed under the global context, unbounded): "
        "glyphs_conform (whenever M_cff_read accepts a byte string, S_cff_glyphs defines the same glyph list, glyph by glyph - width, "
        "stems, outline; callsubr in ITS Font DICT's Subrs INDEX, callgsubr in the Global Subr INDEX), width_rule (the width is the "
        "default width or the EXACT sum nominal + operand/65536), subr_numbering (operand v selects object v + bias of the INDEX, "
        "bias by its number of objects), private_per_fd (every Font DICT gets the Private info decoded from exactly size bytes at "
        "offset of ITS OWN Private operands; equal (size, offset) = shared, same offset and different size = each its own) with "
        "private_cache_by_offset_refuted (a cache keyed by the offset gives an empty Private DICT at a shared offset the widths and "
        "subroutines of its neighbour), fd_loop_of_read, empty_index_entries_accepted (any list of objects with empty ones anywhere "
        "is read back as such by readIndex's mirror and by S_index, subroutine numbering unchanged) with index_read_conforms (for ANY "
        "bytes readIndex accepts, the result is the specification's INDEX) and strict_offsets_refuted, width_operand_forms (a width "
        "entry written in any operand form is read as the number's value) with number_value_encoding_independent (the three integer "
        "forms; two reals m1*10^e1 = m2*10^e2; an integral real = the integer; C13's dict_real_value layouts) and "
        "integer_accessor_refuted (getInt for the widths turns 250.5 and 500. into 0), read_glyphs_total (no Panic / OutOfFuel on any "
        "bytes: C13B's totality + C13's FDSelect totality + C05's t2_terminates), tables_match_source and source_shape (the "
        "regenerated accessor table, privateInfo / decodeInfo literals, guards and the statements pInfo := fontDict.readPrivate(..), "
        "info := decoders[fdIdx], pdOffs + subrsIndexOffs are the ones the mirror was written from: a changed accessor, default, "
        "wiring or a cache in front of readPrivate breaks a proof). Correspondence through the public cff.Read on fonts assembled "
        "from the specification (name-keyed and CID-keyed, 1..4 Font DICTs, Private DICTs own / shared / empty / empty at a shared "
        "offset / prefix / overlapping, every integer and real operand form of the two widths, integer and 16.16 width operands, "
        "local and global Subrs of 0 / 1 / 1239 / 1240 / 33899 / 33900 objects with empty objects everywhere, any offSize, both call "
        "operators, nested calls, calls outside the table), fonts written by Font.Write, byte-level damage of both, readPrivate and "
        "readIndex alone; compared per glyph with M_cff_read and (well-formed fonts) with S_cff_glyphs; oracle = an own reader of the "
        "CFF structures written from TN5176 feeding harness/c05's reference Type 2 interpreter."
    ),
    "level_note": (
        "Trusted for this part: translators/gen/kind_c05b.go, harness/c05b (assembler, specification reader, oracle), extraction and "
        "ocaml/c05b_driver.ml. The interpreter is C05's S_t2 (compared with cff/t2decode.go by the main development); programs whose "
        "result TN5177 leaves open, operand-count leniency and path deltas above 32000 (C05's open findings) are outside the compared "
        "domain here as there. On damaged fonts the library also accepts a subroutine that ends without return and stem operators "
        "after the hint section (the reference interpreter rejects both); these two classes concern the interpreter, not the plumbing, "
        "and are not compared. Width entries that are not exact float64 values (0.1, 20-digit reals) are compared by the oracle up to "
        "rounding only; the models use exact decimals. S_index folds an Offset field of more than 4 bytes into 32 bits as readIndex "
        "does (an offSize above 4 is outside the specification; readIndex accepts it). Offset operands (Private, Subrs, CharStrings, "
        "FDArray, FDSelect) are integer operands in S as in the code."
    ),
    "trusted_base": [
        "C05B: modelled, not verified: cff/dict.go readPrivate (accessor table, privateInfo literal, guards regenerated; control flow mirrored by hand), cff/read.go glyph loop and decodeInfo literals (regenerated), cff/index.go readIndex through C13's mirror; tied by correspondence on every run through cff.Read and the hooks VerifC05bReadPrivate / VerifC05bReadIndex",
        "C05B: C13B's M_read is taken as the model of cff.Read up to the charstrings (its own correspondence is part of C13's check); this part re-runs it against cff.Read on whole fonts including the glyphs",
        "C05B: the oracle's CFF reader (harness/c05b/specread.go, written from TN5176) and harness/c05's reference interpreter define what a well-formed font's glyphs are; the assembler (harness/c05b/asm.go) defines the well-formed fonts",
    ],
    "assumptions": [
        "C05B: data is a byte string (bytes_ok); files below 2 GiB are the only ones cff.Read can address (int32 offsets) - beyond that the mirror rejects and the theorem says nothing",
    ],
    "coq_timeout": 1500,
    "gen_timeout": 900,
}
