CONFIG = {
    "coq_dir": "C03",
    "driver": "c03_driver.ml",
    "model_module": "c03_model",
    "level": "proof",
    "level_text": "Coq theorems without axioms about a model of header.Write / header.Read / the checksum: checksum_chunking (streaming checksum = block definition for every split of the data; zero padding irrelevant), write_wf (for every scaler type and every table map with 1 <= n < 4096 written tables and a file below 4 GiB: count and search fields = OpenType formulas, directory strictly sorted, tables 4-aligned, behind the directory, inside the file, consecutive, pairwise disjoint, length formula, zero padding, per-table checksums), write_directory (nil-valued / wrongly named entries are not counted; directory = tables given), whole_file_checksum (0xB1B0AFBA when head >= 12 bytes), read_write_roundtrip (header.Read accepts, ReadTableBytes returns every table byte for byte, head up to bytes 8..11), container_checker_sound (the boolean checker run on the bytes the implementation produced implies every clause, for any byte string), write_order_independent (the bytes do not depend on the order in which the map's entries are listed), model_matches_source_expressions (the model's search-field / offset arithmetic equals the expressions regenerated from header/write.go). The model is tied to header/*.go by regenerated constants and expressions (table order, 0xB1B0AFBA, 280, search-field / offset expressions, coq/Gen/C03.v + Proofs_Tie.v) and by comparing implementation bytes with model bytes on generated table maps, header.Read with read_dir on written and mutated directories, and the checker with an independent Go walk.",
    "level_note": "Trusted: Coq kernel, extraction (ExtrOcamlBasic), translator, Go harness with its independent structural walk. The Go code is modelled (C03/Model.v), not verified. The comparison of complete fonts with golang.org/x/image/font/sfnt is differential testing supporting the search, not a theorem. header.Write with no table to write panics (1 << -1) and produces no file: outside the statement, modelled as Panic.",
    "trusted_base": [
        "modelled, not verified: header/write.go (Write, clearChecksum, patchChecksum), header/checksum.go (check.Write, Sum, checksum), header/tables.go (Read, ReadTableBytes via slice_table); model C03/Model.v mirrors the code as repaired by fixes/C03-nil-table-count.diff and fixes/C03-short-head-guard.diff",
        "Go maps are modelled as lists of entries with pairwise different names; sort.Slice is modelled by insertion sort (the keys compared are distinct, so the result does not depend on the algorithm)",
        "io.ReaderAt contract for bytes.Reader: ReadAt returns an error unless all requested bytes exist; negative offset is an error",
        "second implementation golang.org/x/image/font/sfnt v0.18.0 used as differential oracle on complete fonts (not part of any theorem)",
    ],
    "assumptions": [
        "table names are strings of bytes, pairwise different (map keys); 1 <= number of written tables < 4096 (uint16 search fields; the reader accepts at most 280); total file size < 2^32 (uint32 offsets)",
        "read_write_roundtrip: scaler type is one of the three header.Read knows, names are printable ASCII, at most 280 tables",
    ],
    "coq_timeout": 900,
}
