CONFIG = {
    "coq_dir": "C15",
    "driver": "c15_driver.ml",
    "model_module": "c15_model",
    "level": "proof",
    "level_text": "Coq theorems (Qed, no axioms) about executable models of gtab.Info.FindLookups, kern.Read, the kern->GPOS conversion and standardLigatures of sfnt.Read, and Font.NewLayouter/Layouter.Layout. find_lookups_wf: for EVERY answer of the x/text matcher and every enumeration order of Go's two maps the selected lookups are in range, strictly ascending (no duplicates) and exactly the lookups of the required feature plus those of the optional features switched on (selection_rule) of the language system the matcher pointed at; find_lookups_deterministic: the result does not depend on map iteration order (find_lookups_unsorted_refuted: it did before fixes/C15-findlookups-order.diff); layouter_nil_means_defaults: nil switch map = the regenerated default feature sets. kern_read_total: kern.Read never panics, terminates, record count bounded; kern_reads_file_format: on the bytes of any well-formed version-0 table the record stream is that of the selected format-0 subtables; kern_read_lookup / kern_value_sum / _override / _minimum: the stored value of a pair is the table read for that pair alone (sum, max, override as the coverage bits say, kern_flag_reading). kern_exact: a font carrying only kern is laid out one glyph per character with glyph i advanced by exactly the table's value for (glyph i, glyph i+1), for every language, matcher and switch map. layout_no_rule_identity: with no applicable rule the output is one glyph per character carrying that character and the font's advance (0 for GDEF marks); panic iff a character maps outside the glyph set. standard_ligatures_def / _longest_first, liga_first_match_wins, layout_outcome (text conserved, never longer, no fuel exhaustion). The models are tied to the code by regenerated constants (default feature sets, ligature list, kern masks) and by running the real code and the extracted model on generated script lists (0..20 language systems), kern tables (structured, mutated, random, all 256 coverage bytes), in-memory fonts and font files written, extended with a kern table and read back through sfnt.Read.",
    "level_note": "Trusted: Coq kernel, extraction (ExtrOcamlBasic), the Go harness and its oracles. The Go code is modelled, not verified. The x/text language matcher is external: every theorem holds for every matcher function (a matcher index beyond the tag list is the only source of Panic in feature selection). The shaping engine is modelled only on the fragment sfnt.Read synthesises itself (one pair-adjustment lookup from kern with flags 0, one ligature lookup from the cmap with flags 0, lookups without subtables); other lookups are C06/C07's and are exercised here by oracle-only cases. cmap subtable selection (GetBest) and the table round trips used to build font files are C09/C01's. NewLayouter's error return (no usable cmap) is not modelled.",
    "trusted_base": [
        "modelled, not verified: opentype/gtab/lookup.go FindLookups, kern/kern.go Read, read.go (kern -> GPOS, call of standardLigatures), ligatures.go, layout.go, gdef.IsMark, Font.GlyphWidth; tied by regenerated constants (Gen/C15.v) and by correspondence on generated inputs",
        "golang.org/x/text/language matcher: a Section variable (any function lang -> tag list -> index); the harness asks x/text for the index on the sorted tag list and hands it to the model as a table",
        "language.Tag.String() is injective on the keys of one script list (the repaired FindLookups sorts by it) and language.Parse(t.String()) == t for the tags the harness uses",
        "Go's `for _, r := range s` decoding of the string into runes; the model starts from the rune list",
        "Gpos2_1.apply / Gsub4_1.apply / Context.Apply restricted to LookupFlags = 0, no nested actions (what read.go builds); mirrored by pair_pass / liga_pass",
    ],
    "assumptions": [
        "Go map keys are distinct (NoDup on the script list's tags)",
        "feature tags are 4 bytes; FeatureList entries are non-nil (what gtab.Read delivers)",
        "glyph widths are integers in the int16 range (glyf: always; CFF: integer-valued widths)",
        "kern_value_sum: partial sums stay inside int16 (Go's int16 addition wraps silently; witness kern_overflow_refuted: 30000+30000 = -5536); kern_exact states the advance with the same wrap (wrapi16)",
        "kern from a kern table is the *required* feature of the synthetic GPOS (read.go: Required: 0): it is applied whatever the caller's switches say; kern_exact is stated accordingly",
    ],
    "coq_timeout": 900,
    "gen_timeout": 1800,
}
