CONFIG = {
    "coq_dir": "C15",
    "driver": "c15_driver.ml",
    "model_module": "c15_model",
    "level": "proof",
    "level_text": "Coq theorems (no axioms) about executable models of gtab.Info.FindLookups, kern.Read, the kern->GPOS conversion and standardLigatures of sfnt.Read, and Font.NewLayouter/Layouter.Layout. find_lookups_wf: for EVERY answer of the x/text matcher and every enumeration order of Go's maps the selected lookups are in range, strictly ascending (no duplicates) and exactly the lookups of the required feature plus those of the optional features switched on, of the language system the matcher pointed at; find_lookups_deterministic: the result does not depend on map iteration order (refuted for the code before fixes/C15-findlookups-order.diff); nil switch map = regenerated default feature sets. The models are tied to the code by regenerated constants (default feature sets, ligature list, kern flag masks) and by running the real code and the extracted model on generated script lists (1..20 language systems), kern tables (structured, mutated, random), in-memory fonts and font files read back through sfnt.Read.",
    "level_note": "Trusted: Coq kernel, extraction (ExtrOcamlBasic), the Go harness and its oracles. The Go code is modelled, not verified. The x/text language matcher is external: every theorem holds for every matcher function. The shaping engine is modelled only on the fragment sfnt.Read synthesises itself (one pair-adjustment lookup from kern, one ligature lookup from the cmap, lookups without subtables); other lookups are C06/C07's and are exercised by oracle-only cases. cmap subtable selection (GetBest) and table round trips are C09/C01's.",
    "trusted_base": [
        "modelled, not verified: opentype/gtab/lookup.go FindLookups, kern/kern.go Read, read.go (kern -> GPOS), ligatures.go, layout.go; tied by regenerated constants (Gen/C15.v) and by correspondence on generated inputs",
        "golang.org/x/text/language matcher: a Section variable (any function lang -> tag list -> index); the harness asks x/text for the index on the sorted tag list and hands it to the model",
        "language.Tag.String() is injective on the keys of one script list (the repaired FindLookups sorts by it)",
        "Go's `for _, r := range s` decoding of the string into runes; the model starts from the rune list",
    ],
    "assumptions": [
        "feature tags are 4 bytes; FeatureList entries are non-nil (what gtab.Read delivers)",
        "glyph widths are integers in the int16 range (glyf: always; CFF: integer-valued widths)",
        "kern_exact: accumulated kern values and advance+kern stay inside int16 (Go's int16 arithmetic wraps silently; witness kern_overflow_refuted)",
    ],
    "coq_timeout": 900,
    "gen_timeout": 1800,
}
