CONFIG = {
    "coq_dir": "C10",
    "driver": "c10_driver.ml",
    "model_module": "c10_model",
    "level": "proof",
    "level_text": "TODO",
    "level_note": "TODO",
    "trusted_base": [],
    "assumptions": [],
}
