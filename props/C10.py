CONFIG = {
    "coq_dir": "C10",
    "driver": "c10_driver.ml",
    "model_module": "c10_model",
    "level": "proof",
    "level_text": "Theorems glyph_i_is_original, closure_minimal_and_closed, cmap_exact, kerning_commutes, ligatures_commute, encoding_transferred, cff_subset_glyph_i_is_original, spec_selection, selection_matches_spec (Coq, no axioms) about M_subset, a step-by-step model of (*Font).Subset over abstract fonts (glyph records with outline id / width / name / CID / FD, composite reference lists, cmap subtables, built-in encoding, GSUB 1.1/4.1 rules, GPOS 2.1 pairs, private dicts and matrices per FD): for every well-formed abstract font, every duplicate-free glyph list and every map-iteration order the model returns a subset whose glyph i is the original glyph listed at i, whose appended glyphs are exactly the least set closed under substitution rules and then composite components, whose composite references point to the new glyph carrying the original component, whose cmap maps c to k iff c mapped to the glyph listed at k, and on which kerning and substitution lookups (same lookup indices) commute with renumbering on all sequences of listed or rule-produced glyphs. The nMissing-counter loop of SubsetGsub and the worklist of SubsetGlyf are modelled with fuel and proved to terminate. The executable specification S_subset (given list, then the other needed glyphs in increasing order) is proved to select exactly the needed glyphs, and the model's glyph list is proved to be a permutation of it with the same prefix. The model is tied to subset.go / cff/subset.go by running the real Subset and the extracted model (and the independent executable specification S_subset) on generated fonts and comparing canonical observations; a Go oracle states the clauses on the real fonts with the real shaping engine and Write/Read.",
    "level_note": "Trusted: Coq kernel, extraction (ExtrOcamlBasic), the Go harness (font builder, projection to the abstract font, canonicaliser, oracle). The Go code is modelled (C10/Model.v mirrors the repaired subset.go), not verified. Outlines, private dictionaries and matrices are opaque ids; Write/Read of the subset is checked by the oracle only (open finding: CFF built-in encoding with a gap). 'Retained' is read as 'listed' for the cmap and as 'listed or produced by a substitution rule' for kerning/ligatures: the code builds the cmap before and GSUB/GPOS between the two closures (Examples.v: cmap_covers_extras_refuted, rules_after_components_refuted).",
    "trusted_base": [
        "modelled, not verified: subset.go (Subset, getNewGid, retained, SubsetCMap, SubsetGsub steps 1-3, SubsetGpos, SubsetCFF, SubsetGlyf, pop), cff/subset.go (Outlines.Subset), glyf/composite.go (Components, FixComponents) as C10/Model.v; tied by running the real code and the extracted model on the same abstract fonts and glyph lists",
        "harness projection *sfnt.Font <-> abstract font (harness/c10/build.go): outline ids are stored inside the real outlines; every case line is checked to be a fixed point of build/project",
        "Go map iteration order is an explicit oracle argument of the model; all theorems quantify over it; the compared observation is order-independent (extras and maps sorted by original glyph id)",
        "cmap subtable encode/decode (format 4/12), GSUB/GPOS/CFF/glyf binary codecs and the shaping engine used by the oracle are the subjects of C09, C08, C13, C11, C06/C07",
    ],
    "assumptions": [
        "fonts carry only layout data the subsetter declares supported (GSUB 1.1/4.1, GPOS 2.1, no GDEF; at least one lookup per table), cmap subtables of format 4 or 12, at most 65536 glyphs, references in range (wf_fontb)",
        "glyph lists are duplicate-free lists of glyphs of the font (wf_listb); 'starts with glyph 0' is needed by no theorem",
    ],
    "coq_timeout": 900,
    "gen_timeout": 1800,
}
