CONFIG = {
    "coq_dir": "C18",
    "coq_deps": ["C03"],
    "driver": "c18_driver.ml",
    "model_module": "c18_model",
    "level": "proof",
    "level_text": "Coq theorems without axioms about a model of the write loops and of header.Read: write_count_exact (for every io.Writer obeying the contract - any pattern of short and failing writes - and every table list, header.Write's count equals the bytes the writer accepted, which are a prefix of the file; err = nil iff no call failed, and then the count is the file length), first_error_returned (for every writer, no Write call is made after the first error and that error is returned), write_success_length (= C03's length formula), cff_first_error_returned (section loop of cff.Font.Write), truncation_rejected (for every container header.Write produces and every k below the end of the table data, header.Read rejects the first k bytes and rejects a ReaderAt failing on any access touching an offset >= k), fault_enumeration_on_lengths (the loop on lengths used for enumeration simulates the loop on bytes for both fault-injecting writers). ENUMERATED, not proved: propagation of read errors through sfnt.Read's table readers beyond the directory, and the byte accounting of (*sfnt.Font).Write / WriteTrueTypePDF / WriteOpenTypeCFFPDF / (*cff.Font).Write as whole functions - these are decided by running the real code at EVERY fault point k in 0..len(file)+1 of complete fonts (CFF and glyf outlines; budget and short-write destinations; truncated files, failing ReaderAt with and without partial data, failing and truncated streaming Reader, single bad byte) and comparing (n, err, number of calls, calls after the error) with the model.",
    "level_note": "Trusted: Coq kernel, extraction, Go harness with its fault-injecting writers/readers. The Go code is modelled (C18/Model.v on top of C03/Model.v), not verified. The exhaustive per-byte fault enumeration covers the fonts of the corpus (debug CFF font, a 48-glyph cut of Go Regular; thorough: Go Regular and Go Mono in full), not all fonts.",
    "trusted_base": [
        "modelled, not verified: header/write.go lines 'write the tables' to the end (M_write_loop), cff/write.go final section loop (M_cff_write_loop), header/tables.go Read (C03's M_read_dir_r against a failing reader)",
        "io.Writer contract as hypothesis writer_ok: 0 <= n <= len(p), n < len(p) implies err != nil; a writer is any function of the chunks offered so far and the current chunk",
        "fault enumeration (not a theorem): sfnt.Read's error propagation beyond the directory; the table encoders feeding header.Write are assumed not to touch the writer",
    ],
    "assumptions": [
        "truncation_rejected: hypotheses of C03.read_write_roundtrip (valid scaler type, printable distinct names, at most 280 tables, file below 4 GiB)",
        "write_count_exact: the destination obeys io.Writer's contract (a destination returning n < len(p) with a nil error breaks the accounting: Examples.ex_lying_writer)",
    ],
    "coq_timeout": 900,
    "gen_timeout": 1800,
}
