CONFIG = {
    "coq_dir": "C17",
    "driver": "c17_driver.ml",
    "model_module": "c17_model",
    "level": "proof",
    "level_text": "Theorem parser_refines_view (Coq, no axioms): for every input, every short-read behaviour of the underlying reader and every operation history the model of parser.Parser returns exactly what a plain random-access view returns and reports the same position; corollaries give each clause (big-endian value at the offset, position just past the bytes consumed, failure iff the read passes the end, UnexpectedEOF without partial data). The model is tied to parser/parser.go by the regenerated bufferSize constant and by running the real parser and the extracted model on exhaustive boundary histories and random long histories with short reads.",
    "level_note": "Trusted: Coq kernel, extraction (ExtrOcamlBasic), the Go harness and its slice-backed reference oracle; the Go code is modelled (C17/Model.v), not verified; io.ReadSeeker contract for the underlying reader.",
    "trusted_base": [
        "modelled, not verified: parser/parser.go (the model C17/Model.v mirrors SeekPos, Discard, Read, ReadUint8/16/32, ReadInt16, ReadUint16Slice, ReadBytes; tied by running the real parser.Parser and the extracted model on the same histories and short-read oracles)",
        "underlying io.ReadSeeker: Seek beyond EOF succeeds and the next Read reports io.EOF; Read returns at least one byte or io.EOF (a reader returning (0,nil) forever is outside io.Reader's contract)",
    ],
    "assumptions": [
        "SeekPos arguments are non-negative; ReadBytes sizes are <= bufferSize (the documented contract)",
    ],
}
