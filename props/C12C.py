CONFIG = {
    "part_of": "C12",
    "coq_dir": "C12C",
    "coq_deps": ["C12", "C17", "C17B"],
    "driver": "c12c_driver.ml",
    "model_module": "c12c_model",
    "level": "proof",
    "level_text": (
        "Part C12C (the hmtx half of hmtx.Decode REGENERATED from hmtx/hmtx.go): the statements of Decode between "
        "`numHorMetrics := int(hheaEnc.NumOfLongHorMetrics)` and `info.Widths = widths` (the loop over the long metrics and the "
        "trailing left side bearings with its three `hmtx too short` exits) are translated on every run into the Coq function "
        "Gen/C12C.hmtx_decode_loop by translators/gen/kind_c12c.go (the imperative-to-functional translator of part C17B, helpers "
        "copied; written in the runtime of Gen/C17B.v: fuelled loop, bounds-checked indexing, int16 wrap-around of "
        "funit.Int16(b0)<<8 | funit.Int16(b1)). Coq theorems (Qed, no axioms), C12's model imported: "
        "generated_hmtx_decode_is_model (on every byte table and every numberOfHMetrics the generated loop returns exactly what C12's "
        "dec_long - the hmtx half of M_hmtx_decode - returns), generated_hmtx_decode_total (never panics, ends within its fuel), "
        "generated_hmtx_numlong_least (C12's hmtx_numlong_least for the generated reader: a table written with k long records reads "
        "back exactly iff k >= numLong). A statement shape the translator does not understand loses the item and the proofs no longer "
        "compile (seeds C02-n and C12-o both lose it). Correspondence: hmtx.Decode and the extracted generated loop on "
        "numberOfHMetrics in {0,1,2,16383,16384,16385,32767,32768,65535} x glyph counts around them x tables cut by 0..5 and extended "
        "by 1..3 bytes, random tables, and the tables Info.Encode writes for every length of constant tail; oracle: a reader written "
        "from the OpenType description, no panic, input not modified, Decode(Encode(info)) = info, numberOfHMetrics minimal."
    ),
    "level_note": (
        "Trusted: Coq kernel, extraction, the OCaml driver, the Go harness and its format reader, the translator kind_c12c.go and the "
        "runtime text of Gen/C17B.v. NOT regenerated in this part (cut for time): the hhea half of Decode (binary.Read of binaryHhea; "
        "C12's hand-written model stays the only model) and Info.Encode (no generated_hmtx_encode_is_model)."
    ),
    "trusted_base": [
        "C12C: translator translators/gen/kind_c12c.go (fragment of kind_c17b.go plus var declarations, three-clause for without continue, xs = append(xs, v), s = s[e:], funit.Int16); tables above 3000 bytes (thorough: 12000) are checked against the format reader only, not against the extracted model (quadratic list append)",
    ],
    "assumptions": [
        "C12C: hmtx tables shorter than 2^62 bytes (int arithmetic of the loop counter does not wrap)",
    ],
    "coq_timeout": 600,
    "gen_timeout": 300,
}
