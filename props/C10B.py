CONFIG = {
    "part_of": "C10",
    "coq_dir": "C10B",
    "coq_deps": ["C10", "C11", "C13", "C13B", "C09"],
    "driver": "c10b_driver.ml",
    "model_module": "c10b_model",
    "level": "proof",
    "level_text": (
        "Part C10B (the CONCRETE data transformations of subsetting; imports, never copies, C10's subsetter state / SubsetCMap / SubsetGsub / "
        "SubsetGpos, C11's TrueType glyph and component records with encoder and decoder, C13B's private dictionaries and reals, C09's cmap "
        "decoders and encoders): Coq theorems (Qed, no axioms) about step-by-step models of cff.Outlines.Subset and SubsetCFF (glyph "
        "transfer, the loop that keeps the used private dictionaries and matrices and re-numbers the FD indices, the new FDSelect incl. the "
        "`== 1` rule, encoding, ROS, GIDToCID), SubsetGlyf (closure over a Go map with an iteration-order oracle, FixComponents, widths, "
        "names), the cmap loop of Font.Subset (raw decoding, SubsetCMap, Encode) and Font.Subset itself. "
        "(1) cff_subset_fd_preserved: for every CID-keyed outlines value, every FDSelect function and every glyph list on which the call is "
        "defined, glyph i of the subset is the glyph listed at i with the same CID and, through the new FDSelect and the re-numbered FD "
        "array, a private dictionary and font matrix EQUAL to the original's; the subset's dictionaries are exactly the used ones, each "
        "once, in the order of first use. (2) cff_subset_simple: names, widths, charstrings and the built-in encoding of simple fonts, "
        "multiply-encoded glyphs and the .notdef rule included. (3) glyf_subset_components: for every glyph set with arbitrarily nested, "
        "shared, blank or cyclic composites, every state and every map-iteration order SubsetGlyf returns, appends exactly the "
        "transitively referenced components (each once), and new glyph i is FixComponents of the listed glyph: by import of C11's "
        "components_fix the same component list with every id mapped old->new and nothing else changed; every mapped id is the position "
        "of the original component; the encoded bytes have the same length and are identical outside the glyph-id positions "
        "(rewritten_composite_gid_bytes: those positions hold the new ids), and C11's decoder reads the rewritten glyph back. "
        "(4) cmap_subset_roundtrips: every subtable the loop keeps holds exactly c -> new(old(c)) for listed glyphs, and whatever the "
        "writer emits (Format12.Encode; Format4.Encode for ANY path of its segment graph, as in C09) decodes with the library's decoder "
        "to that map. (5) subset_refines_abstract: for EVERY assignment of ids to glyph programs / names / private dictionaries / matrices "
        "/ index-erased TrueType glyphs, the abstraction of the concrete subset is the result of C10's M_subset on the abstraction of the "
        "font, so C10's theorems speak about the concrete subset; transferred: glyph_i_is_original_concrete (CFF: equal values, not equal "
        "ids) and composite_components_identical_concrete (TrueType). Written and read back, inside Coq: cid_subset_stays_writable (the font "
        "assembled from the subset of CID-keyed outlines in the domain of C13B's write/read round trip lies in that domain again) and "
        "cid_subset_written_and_read_back (so C13B's write_read_roundtrip applies to the subset). "
        "(6) totality: cff_subset_total, cmap_loop_total, subset_total (no "
        "Panic, no OutOfFuel in the documented domain), and 14 `_refuted` witnesses of preconditions the code relies on silently (nil / "
        "out-of-range / negative FDSelect, short FontMatrices / GIDToCID / Widths / Names, component index out of range, cmap format 0 and "
        "unknown format word, GDEF present, list not starting with glyph 0), each a corpus line replayed on the Go code. "
        "Tie: translator items C10B.json (12 component flag bits, the `== 1` literals of both functions, the raw cmap key, the field-by-"
        "field shape of FixComponents and the transfer expressions of Subset / SubsetCFF / SubsetGlyf as source text: theorem "
        "source_shape); correspondence of the extracted model with the real code through the public API (cff.Outlines.Subset, Font.Subset) "
        "and add-only hooks for the unexported subsetter (SubsetCFF, SubsetGlyf with a state extended the way SubsetGsub extends it) on "
        "generated CID-keyed outlines (1..256 dictionaries, six FDSelect shapes), simple outlines with encodings, TrueType glyph sets "
        "(nesting depth up to 5, shared / blank / cyclic components, every kind of component record), whole fonts with cmap subtables of "
        "formats 4, 6, 12 and undecodable ones, built in memory, with aliasing slices, or as sfnt.Read returns them; lists full, reversed, "
        "sparse, random, only .notdef, not starting with 0, and malformed; the compared observation is the complete concrete result. "
        "The Go oracle states the property on the real values (glyph i IS the listed glyph; dictionaries dropped / once / first-use order; "
        "composites re-pointed to the same glyph and the same resolved outline; closure exact; cmap exact through independent format 4 / "
        "12 readers; Write + Read of the subset against Write + Read of the original) and that Subset modifies none of its arguments (deep "
        "hash over everything reachable incl. spare slice capacity, FDSelect sampled, the caller's glyph list with sentinels behind it). "
        "The subset is observed twice: right after the call and again after the harness has OVERWRITTEN every slice it handed in (glyph list "
        "and extras with their spare capacity: other valid glyph ids, another order, or garbage); the two observations must agree "
        "(c10-subset-retains-caller-memory), and the observation compared with the model and every oracle clause use the second one. Last, "
        "the entries of the original's Glyphs / Private / FontMatrices / GIDToCID / Encoding / Widths / Names slices, its FDSelect function, "
        "ROS pointer and cmap entries are replaced and the subset must still be the same (c10-subset-retains-original-slices; the *Glyph / "
        "*PrivateDict values, glyph byte slices, Tables and Maxp stay shared as documented)."
    ),
    "level_note": (
        "Trusted for this part: the translator kinds of translators/gen/kind_c10b.go, the Go harness harness/c10b (builders, projection "
        "real value <-> case line with a fixed-point check on every case, canonical observation of SubsetGlyf's order-dependent result, "
        "oracles, deep hash), extraction and ocaml/c10b_driver.ml. Limits: a *cff.Glyph is its name, integer width and drawing commands "
        "as bytes (moveto / lineto / curveto with 16-bit arguments; hints and the charstring encoding are C04/C05); reals of private "
        "dictionaries and matrices are exact decimals carried through unchanged (the model never computes with them); Format4.Encode is "
        "modelled up to the choice of the path (C09); Tables / Maxp of TrueType outlines and all non-layout, non-cmap fields of the font "
        "are checked by the oracle only; the refinement is one-directional (concrete Ok => abstract Ok of the abstraction), the converse "
        "is subset_total."
    ),
    "trusted_base": [
        "modelled, not verified (part C10B): cff/subset.go (Outlines.Subset), subset.go (Subset: glyph-list copy, cmap loop, SubsetGdef refusal; SubsetCFF; SubsetGlyf; pop), glyf/composite.go (Components, FixComponents through C11's model) as C10B/Model.v; tied by correspondence on every run",
        "regenerated from the source on every run (translator, coq/Gen/C10B.v): the 12 ComponentFlag bits, the literal of `len(Private) == 1` in both functions, rawKey of the cmap loop, the key/value expressions of the three composite literals of FixComponents and 13 transfer expressions of Subset / SubsetCFF / SubsetGlyf as text (theorem source_shape breaks when one changes)",
        "Go map iteration order in SubsetGlyf is an explicit oracle argument of the model; theorems quantify over it; the compared observation lists appended glyphs by original id with component references pulled back to original ids; for Font.Subset on TrueType fonts the harness reconstructs the order from the component references (inconsistent references are reported)",
        "the FDSelect function value is observed by sampling it on glyphs 0..n (a panic is an observation)",
        "mac.DecodeOne is a parameter of the cmap models (never used: the loop decodes under the raw key (3,1)); the driver passes the identity",
    ],
    "assumptions": [
        "part C10B: cff_pre - the listed glyphs exist, FDSelect is non-nil and returns for each of them the index of an existing private dictionary (and font matrix, CID-keyed), GIDToCID (when present) covers them; glyf_pre - at most 65536 glyphs, component indices in range, one width and (when present) one name per glyph; font_pre - no GDEF, every cmap subtable has at least 10 bytes and a format word of the specification other than 0 (what cmap.Decode produces); outside these the code panics (Examples.v: *_refuted, corpus/C10B/2x-3x)",
        "part C10B: glyph lists are duplicate-free lists of glyphs of the font where C10's theorems are used; 'starts with glyph 0' is needed only for the .notdef reading of the encoding / cmap (cff_list_not_starting_with_0_refuted) and for Write of simple fonts",
        "part C10B: format 4 subtables of the subset that fit the 16-bit length field (C09's assumption); format 12 maps with at most 65536 entries",
    ],
    "coq_timeout": 1500,
    "gen_timeout": 1200,
}
