CONFIG = {
    "coq_dir": "C06",
    "driver": "c06_driver.ml",
    "model_module": "c06_model",
    "level": "proof",
    "level_text": "placeholder",
    "level_note": "placeholder",
    "trusted_base": [],
    "assumptions": [],
    "coq_timeout": 900,
    "gen_timeout": 1800,
}
