CONFIG = {
    "coq_dir": "C14",
    "driver": "c14_driver.ml",
    "model_module": "c14_model",
    "level": "proof",
    "level_text": (
        "Coq theorems (no axioms) about executable models of mac.Encode/Decode, utf16Encode/Decode, "
        "post.Info.Encode/post.Read and name.Info.Encode/name.Decode, over the tables regenerated from the Go source on every run: "
        "macroman_inverse (enc(dec b)=b for all 256 bytes, dec(enc r)=r on the repertoire, and for strings of any length); "
        "utf16_roundtrip (every string of Unicode scalar values: the encoder equals the Unicode definition of UTF-16BE and the decoder inverts it) and utf16_decode_total; "
        "post_roundtrip (nil -> format 3, standard Macintosh order -> format 1, any other list of <= 65535 names of <= 255 bytes whose glyphNameIndex fits 16 bits -> format 2: Read returns exactly the list and header) and post_read_total (no panic on any bytes; needs 255 <= parser.bufferSize, re-checked); "
        "name_roundtrip (every iteration order of the Go language maps, every Info that is a finite map with Mac strings in the repertoire and Windows strings of scalar values, Windows encoding id 1: if record area and string storage fit 16 bits, Decode(Encode(info)) maps every supported (platform, tag, name id) to the input string and nothing else), name_strings_shared (storage = concatenation of pairwise distinct strings), name_decode_total; "
        "langid_tables_injective (both language-id tables are bijections); otf_tag_roundtrip (every script x language pair of gtab's tables survives the BCP 47 private-use extension, under a stated and satisfiable hypothesis on golang.org/x/text). "
        "The guards Encode lacks are hypotheses of the theorems and recorded findings (witnesses *_refuted in Examples.v). "
        "Models are tied to /repo by the regenerated tables (mac.dec/enc, post.macRoman, name.appleBCP/msBCP, gtab.scriptBcp47/langBcp47, parser.bufferSize) and by running the extracted model and the Go code on the same generated and mutated inputs."
    ),
    "level_note": (
        "Partial: BCP 47 parsing/matching is golang.org/x/text (external); the tag round trip is proved under the hypothesis xtext_spec and "
        "additionally executed in Go for all 103 707 script x language pairs (directly and through an encoded ScriptList) and all 322 name language ids; Tables.Choose is executed, not modelled. "
        "The UTF-8 layer of Go strings ([]rune(s), string(runes)) and unicode/utf16 are modelled (utf16) or trusted (UTF-8), compared on every case. "
        "The Table struct <-> finite map (name id -> string) abstraction is harness glue (explicit field table written from the OpenType name-id list). "
        "ScriptList byte layout belongs to C08; here it is only exercised by the oracle."
    ),
    "trusted_base": [
        "modelled, not verified: mac/encoding.go, name/name.go (Encode, Decode, nameBuilder, utf16Encode/Decode), name/table.go keys() as 'sorted non-empty entries', post/post.go, post/names.go isMacRoman, opentype/gtab/locale.go string construction and x-extension parsing (C14/Model.v, C14/ModelTags.v)",
        "Section-style hypothesis xtext_spec (golang.org/x/text/language): a tag whose part before -x- has no singleton x and whose private-use subtags are 1..8 alphanumerics parses and Extension('x') is the lower-cased private-use part; shown satisfiable in Coq (xtext_ref) and observed in Go on every pair of the tables",
        "Go map iteration order is a parameter of the name model (any permutation of the language tables); the sort of records uses pairwise distinct keys (sort.Slice instability is irrelevant)",
        "independent readers used by the oracle: golang.org/x/text/encoding/charmap.Macintosh, a UTF-16 codec and name/post readers written from the specifications in the harness, golang.org/x/image/font/sfnt Name/GlyphName on the Go Regular font carrying the table under test",
    ],
    "assumptions": [
        "name.Info.Encode is called with windowsEncodingID = 1 (the only value the library uses, write.go); Decode ignores Windows records with other encoding ids",
        "name.Info values are finite maps: a name id below 26 other than 15 lives in its struct field, not in Extra; strings are valid UTF-8",
        "post glyph names are at most 255 bytes (the property's quantifier); the post header's ItalicAngle is a 16.16 value",
        "bytes are < 256 (bytes_ok) in the totality theorems",
    ],
    "coq_timeout": 1500,
    "gen_timeout": 1800,
}
