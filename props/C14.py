CONFIG = {
    "coq_dir": "C14",
    "driver": "c14_driver.ml",
    "model_module": "c14_model",
    "level": "proof",
    "level_text": "WORK IN PROGRESS",
    "level_note": "WORK IN PROGRESS",
    "trusted_base": [],
    "assumptions": [],
    "coq_timeout": 1200,
    "gen_timeout": 1800,
}
