package main

import (
	"os"
	"strconv"

	"seehuhn.de/go/sfnt/verifharness/c09b"
	"seehuhn.de/go/sfnt/verifharness/vlib"
)

func main() {
	// child process of the namesloop case (a loop that never ends can only be
	// stopped from outside the process)
	if len(os.Args) == 4 && os.Args[1] == "namesloop-child" {
		lo, e1 := strconv.ParseUint(os.Args[2], 10, 32)
		hi, e2 := strconv.ParseUint(os.Args[3], 10, 32)
		if e1 != nil || e2 != nil {
			os.Exit(2)
		}
		c09b.NamesLoopChild(uint32(lo), uint32(hi))
		return
	}
	vlib.Main(c09b.Gen, c09b.RunCase)
}
