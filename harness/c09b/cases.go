package c09b

import (
	"bytes"
	"fmt"
	"math"
	"os"
	"os/exec"
	"sort"
	"strings"
	"time"

	"seehuhn.de/go/sfnt"
	"seehuhn.de/go/sfnt/cmap"
	"seehuhn.de/go/sfnt/mac"
	"seehuhn.de/go/sfnt/verifharness/vlib"
)

func init() {
	handlers["lk"] = doLk
	handlers["range"] = doRange
	handlers["rangeord"] = doRange
	handlers["enum"] = doEnum
	handlers["rt"] = doRt
	handlers["get"] = doGet
	handlers["best"] = doBest
	handlers["install"] = doInstall
	handlers["namesloop"] = doNamesLoop
}

// lk SUB (R ...): Lookup over runes of every kind.
func doLk(args []vlib.Sx) (res result, err error) {
	if len(args) != 2 {
		return res, fmt.Errorf("lk: want 2 arguments")
	}
	v, err := parseSub(args[0])
	if err != nil {
		return res, err
	}
	rs, err := parseRunes(args[1])
	if err != nil {
		return res, err
	}
	s := v.build()
	l, gs, ps := lookupsOf(s, rs)
	res.impl = vlib.Str(l)
	res.nontrivial = len(v.entries()) > 0
	res.labels = append(res.labels, "sub:"+v.kind, sizeLabel("entries", len(v.entries())))
	for i, r := range rs {
		want := int(v.truth(r))
		switch {
		case ps[i] && v.kind == "f0" && r < 0:
			// Format0.Lookup indexes Data[r] after testing only r > 255: the
			// documented precondition (Coq: lookup0_negative_rune_refuted)
			res.labels = append(res.labels, "lk:format0-negative-rune-panics")
		case ps[i]:
			res.failf("c09b-lookup-panic", "%s Lookup(%d) panics", v.kind, r)
		case gs[i] != want:
			res.failf("c09b-lookup-total-function", "%s Lookup(%d) = %d, the mapping gives %d (glyph of a mapped code of the code space, 0 otherwise)", v.kind, r, gs[i], want)
		}
		switch {
		case r < 0:
			res.labels = append(res.labels, "rune:negative")
		case r <= 0xFFFF:
			res.labels = append(res.labels, "rune:bmp")
		case r <= 0x10FFFF:
			res.labels = append(res.labels, "rune:supplementary")
		default:
			res.labels = append(res.labels, "rune:beyond-10FFFF")
		}
	}
	return res, nil
}

// range SUB / rangeord SUB (k ...): CodeRange.  The model of rangeord folds
// over the keys in the given order; Go ranges over the map in its own order.
func doRange(args []vlib.Sx) (res result, err error) {
	if len(args) != 1 && len(args) != 2 {
		return res, fmt.Errorf("range: want 1 or 2 arguments")
	}
	v, err := parseSub(args[0])
	if err != nil {
		return res, err
	}
	if len(args) == 2 {
		ks, err := vlib.AsList(args[1])
		if err != nil || (v.kind != "f0" && len(ks) != len(v.m)) {
			return res, fmt.Errorf("rangeord: the key list is not a permutation of the keys")
		}
		seen := map[uint32]bool{}
		for _, k := range ks {
			n, err := vlib.AsInt(k)
			if err != nil || n < 0 || n > math.MaxUint32 {
				return res, fmt.Errorf("rangeord: bad key")
			}
			if _, ok := v.m[uint32(n)]; (!ok && v.kind != "f0") || seen[uint32(n)] {
				return res, fmt.Errorf("rangeord: the key list is not a permutation of the keys")
			}
			seen[uint32(n)] = true
		}
	}
	s := v.build()
	var lo, hi rune
	if p, msg := guard(func() { lo, hi = s.CodeRange() }); p {
		res.impl = "panic"
		res.failf("c09b-coderange-panic", "CodeRange panics: %s", msg)
		return res, nil
	}
	res.impl = vlib.Str(vlib.L(vlib.Int(int(lo)), vlib.Int(int(hi))))
	res.nontrivial = v.kind == "f0" || len(v.m) > 0
	wlo, whi := v.codeRange()
	if lo != wlo || hi != whi {
		res.failf("c09b-coderange", "%s CodeRange() = (%d, %d), the smallest and largest code point of the subtable are (%d, %d)", v.kind, lo, hi, wlo, whi)
	}
	res.labels = append(res.labels, "sub:"+v.kind, sizeLabel("keys", len(v.m)))
	if v.kind != "f0" && len(v.m) == 0 {
		res.labels = append(res.labels, "range:empty-map")
	}
	if lo < 0 {
		res.labels = append(res.labels, "range:negative-low")
	}
	return res, nil
}

// enumerate runs the loop of names.go / explain.go (as repaired: an int64 loop
// variable) on the subtable with a budget of condition checks.
func enumerate(s cmap.Subtable, fuel int) (out [][2]int64, outcome string) {
	outcome = "ok"
	if p, _ := guard(func() {
		a, b := s.CodeRange()
		checks := 0
		for c := int64(a); ; c++ {
			checks++
			if checks > fuel {
				outcome = "fuel"
				return
			}
			if !(c <= int64(b)) {
				break
			}
			r := rune(c)
			gid := s.Lookup(r)
			if gid != 0 {
				out = append(out, [2]int64{int64(r), int64(gid)})
			}
		}
	}); p {
		outcome = "panic"
	}
	return
}

// enum SUB FUEL
func doEnum(args []vlib.Sx) (res result, err error) {
	if len(args) != 2 {
		return res, fmt.Errorf("enum: want 2 arguments")
	}
	v, err := parseSub(args[0])
	if err != nil {
		return res, err
	}
	fuel, err := vlib.AsInt(args[1])
	if err != nil || fuel < 0 || fuel > 200000 {
		return res, fmt.Errorf("enum: bad fuel")
	}
	s := v.build()
	got, outcome := enumerate(s, fuel)
	lo, hi := v.codeRange()
	res.labels = append(res.labels, "sub:"+v.kind, sizeLabel("entries", len(v.entries())), "enum:"+outcome)
	res.nontrivial = len(v.entries()) > 1
	switch outcome {
	case "panic":
		res.impl = "panic"
		res.failf("c09b-enumerate-panic", "the loop over CodeRange panics")
		return res, nil
	case "fuel":
		res.impl = "fuel"
		if int64(hi)-int64(lo)+2 <= int64(fuel) {
			sig := "c09b-enumerate"
			if hi == math.MaxInt32 {
				sig = sigLoopMaxInt
			}
			res.failf(sig, "the loop over CodeRange() = (%d, %d) did not end within %d steps", lo, hi, fuel)
		}
		return res, nil
	}
	l := vlib.List{vlib.Atom("ok")}
	for _, e := range got {
		l = append(l, vlib.L(vlib.I64(e[0]), vlib.I64(e[1])))
	}
	res.impl = vlib.Str(l)
	want := v.entries()
	if len(got) != len(want) {
		res.failf("c09b-enumerate", "iterating CodeRange and calling Lookup finds %d non-zero entries, the mapping has %d", len(got), len(want))
		return res, nil
	}
	for i := range got {
		if got[i] != want[i] {
			res.failf("c09b-enumerate", "entry %d of the enumeration is %v, the mapping has %v", i, got[i], want[i])
			break
		}
	}
	return res, nil
}

// decodable probes of a written subtable: the value's probes plus all its codes
func allRunes(v *subVal, rs []int32) []int32 {
	set := map[int32]bool{}
	for _, r := range rs {
		set[r] = true
	}
	for _, e := range v.entries() {
		set[int32(e[0])] = true
	}
	for k := range v.m {
		set[int32(k)] = true
	}
	if v.kind == "f0" {
		for c := int32(0); c < 256; c++ {
			set[c] = true
		}
	}
	out := make([]int32, 0, len(set))
	for r := range set {
		out = append(out, r)
	}
	sort.Slice(out, func(i, j int) bool { return out[i] < out[j] })
	return out
}

// sameLookup states "Decode(Encode(s)).Lookup = s.Lookup": the decoded
// subtable gives the ground truth's glyph on every rune of rs.
func sameLookup(res *result, sig, what string, got cmap.Subtable, v *subVal, rs []int32) {
	for _, r := range rs {
		if v.kind == "f0" && r < 0 {
			continue
		}
		var g int
		if p, _ := guard(func() { g = int(got.Lookup(rune(r))) }); p {
			if _, isF0 := got.(*cmap.Format0); isF0 && r < 0 {
				continue
			}
			res.failf(sig, "%s: Lookup(%d) panics", what, r)
			return
		}
		if want := int(v.truth(r)); g != want {
			res.failf(sig, "%s: Lookup(%d) = %d, the installed / encoded mapping gives %d", what, r, g, want)
			return
		}
	}
}

// rt SUB LANG SEGS P E (R ...): Encode, then Table.Get under key (P, E, 0).
func doRt(args []vlib.Sx) (res result, err error) {
	if len(args) != 6 {
		return res, fmt.Errorf("rt: want 6 arguments")
	}
	v, err := parseSub(args[0])
	if err != nil {
		return res, err
	}
	lang, e1 := vlib.AsInt(args[1])
	p, e2 := vlib.AsInt(args[3])
	e, e3 := vlib.AsInt(args[4])
	rs, e4 := parseRunes(args[5])
	if e1 != nil || e2 != nil || e3 != nil || e4 != nil || lang < 0 || lang > 0xFFFF {
		return res, fmt.Errorf("rt: bad arguments")
	}
	s := v.build()
	var b []byte
	res.labels = append(res.labels, "sub:"+v.kind, sizeLabel("keys", len(v.m)), fmt.Sprintf("key:%d/%d", p, e))
	if pn, msg := guard(func() { b = s.Encode(uint16(lang)) }); pn {
		res.impl = "panic"
		res.failf("c09b-encode-panic", "Encode panics: %s", msg)
		return res, nil
	}
	if vlib.Str(segsOf(b)) != vlib.Str(args[2]) {
		return res, fmt.Errorf("rt: the segments in the case line are not those of Encode's output (%s)", vlib.Str(segsOf(b)))
	}
	key := cmap.Key{PlatformID: uint16(p), EncodingID: uint16(e)}
	var got cmap.Subtable
	var gerr error
	gotSx := vlib.Sx(vlib.Atom("err"))
	if pn, msg := guard(func() { got, gerr = cmap.Table{key: b}.Get(key) }); pn {
		gotSx = vlib.Atom("panic")
		res.failf("c09b-get-panic", "Table.Get panics on the output of Encode: %s", msg)
	} else if gerr == nil {
		l, _, _ := lookupsOf(got, rs)
		gotSx = vlib.L(renderSub(got), l)
	}
	res.impl = vlib.Str(vlib.L(vlib.Atom("ok"), vlib.Hex(b), vlib.Bool(true), gotSx))
	res.nontrivial = len(v.entries()) > 0
	if p != 1 {
		if gerr != nil {
			res.failf("c09b-roundtrip", "Table.Get refuses the output of Encode: %v", gerr)
		} else if got != nil {
			sameLookup(&res, "c09b-roundtrip", "Decode(Encode(s))", got, v, allRunes(v, rs))
		}
	}
	return res, nil
}

var macInjective = func() bool {
	seen := map[rune]bool{}
	for c := 0; c < 256; c++ {
		r := mac.DecodeOne(byte(c))
		if seen[r] {
			return false
		}
		seen[r] = true
	}
	return true
}()

// get P E x<bytes> (R ...): Table.Get on a subtable from a file.
func doGet(args []vlib.Sx) (res result, err error) {
	if len(args) != 4 {
		return res, fmt.Errorf("get: want 4 arguments")
	}
	p, e1 := vlib.AsInt(args[0])
	e, e2 := vlib.AsInt(args[1])
	b, e3 := vlib.AsBytes(args[2])
	rs, e4 := parseRunes(args[3])
	if e1 != nil || e2 != nil || e3 != nil || e4 != nil {
		return res, fmt.Errorf("get: bad arguments")
	}
	key := cmap.Key{PlatformID: uint16(p), EncodingID: uint16(e)}
	format := -1
	if len(b) >= 2 {
		format = int(b[0])<<8 | int(b[1])
	}
	res.labels = append(res.labels, fmt.Sprintf("key:%d/%d", p, e), fmt.Sprintf("format:%d", format))
	known := map[int]bool{0: true, 2: true, 4: true, 6: true, 8: true, 10: true, 12: true, 13: true, 14: true}
	reachable := len(b) >= 10 && known[format] // what cmap.Decode can hand out
	var got cmap.Subtable
	var gerr error
	if pn, msg := guard(func() { got, gerr = cmap.Table{key: b}.Get(key) }); pn {
		res.impl = "panic"
		if reachable {
			res.failf("c09b-get-panic", "Table.Get panics on a subtable cmap.Decode can return: %s", msg)
		} else {
			res.labels = append(res.labels, "get:panic-on-input-Decode-never-returns")
		}
		return res, nil
	}
	if gerr != nil {
		res.impl = "err"
		res.labels = append(res.labels, "get:err")
		// dispatch: formats with a decoder may be refused only if malformed;
		// formats without one must be refused
		return res, nil
	}
	res.nontrivial = true
	l, _, _ := lookupsOf(got, rs)
	var lo, hi rune
	if pn, _ := guard(func() { lo, hi = got.CodeRange() }); pn {
		res.failf("c09b-coderange-panic", "CodeRange of the decoded subtable panics")
	}
	res.impl = vlib.Str(vlib.L(renderSub(got), l, vlib.L(vlib.Int(int(lo)), vlib.Int(int(hi)))))
	res.labels = append(res.labels, "get:ok")
	if format != 0 && format != 4 && format != 6 && format != 12 {
		res.failf("c09b-get-dispatch", "Table.Get decodes a subtable of format %d, for which the library has no decoder", format)
		return res, nil
	}
	// the decoded value against the specification reader of the bytes
	type want struct {
		r rune
		g uint32
	}
	var wants []want
	if p == 1 {
		if !macInjective {
			return res, nil
		}
		// codes are Mac Roman: the subtable must not define a code above 255
		// (byte(code) would fold it)
		for c := uint32(256); c <= 0xFFFF && format != 0; c++ {
			if g, ok := specLookup(b, c); !ok || g != 0 {
				res.labels = append(res.labels, "get:mac-codes-above-255")
				return res, nil
			}
		}
		for c := uint32(0); c < 256; c++ {
			g, ok := specLookup(b, c)
			if !ok {
				return res, nil
			}
			wants = append(wants, want{mac.DecodeOne(byte(c)), g})
		}
	} else {
		codes := map[uint32]bool{}
		for _, r := range rs {
			if r >= 0 {
				codes[uint32(r)] = true
			}
		}
		for c := uint32(0); c < 600; c++ {
			codes[c] = true
		}
		for c := range codes {
			g, ok := specLookup(b, c)
			if !ok {
				continue
			}
			wants = append(wants, want{rune(c), g})
		}
	}
	sort.Slice(wants, func(i, j int) bool { return wants[i].r < wants[j].r })
	for _, w := range wants {
		if w.g > 0xFFFF {
			continue
		}
		var g int
		if pn, _ := guard(func() { g = int(got.Lookup(w.r)) }); pn {
			res.failf("c09b-lookup-panic", "Lookup(%d) on the decoded subtable panics", w.r)
			break
		}
		if g != int(w.g) {
			detail := fmt.Sprintf("key (%d,%d) format %d: Lookup(U+%04X) = %d, the subtable defines glyph %d for this character", p, e, format, w.r, g, w.g)
			if p == 1 && format == 0 {
				res.failf(sigMacFormat0, "%s (decodeFormat0 ignores code2rune: the *Format0 is indexed by the rune as if runes were Mac Roman codes)", detail)
			} else {
				res.failf("c09b-get-mapping", "%s", detail)
			}
			break
		}
	}
	return res, nil
}

func parseTable(x vlib.Sx) (cmap.Table, error) {
	if a, err := vlib.AsAtom(x); err == nil {
		if a == "nil" {
			return nil, nil
		}
		return nil, fmt.Errorf("bad table")
	}
	l, err := vlib.AsList(x)
	if err != nil {
		return nil, err
	}
	t := cmap.Table{}
	for _, e := range l {
		el, err := vlib.AsList(e)
		if err != nil || len(el) != 4 {
			return nil, fmt.Errorf("bad table entry")
		}
		p, e1 := vlib.AsInt(el[0])
		en, e2 := vlib.AsInt(el[1])
		la, e3 := vlib.AsInt(el[2])
		b, e4 := vlib.AsBytes(el[3])
		if e1 != nil || e2 != nil || e3 != nil || e4 != nil {
			return nil, fmt.Errorf("bad table entry")
		}
		t[cmap.Key{PlatformID: uint16(p), EncodingID: uint16(en), Language: uint16(la)}] = append([]byte(nil), b...)
	}
	return t, nil
}

func sortedKeys(t cmap.Table) []cmap.Key {
	ks := make([]cmap.Key, 0, len(t))
	for k := range t {
		ks = append(ks, k)
	}
	sort.Slice(ks, func(i, j int) bool {
		if ks[i].PlatformID != ks[j].PlatformID {
			return ks[i].PlatformID < ks[j].PlatformID
		}
		if ks[i].EncodingID != ks[j].EncodingID {
			return ks[i].EncodingID < ks[j].EncodingID
		}
		return ks[i].Language < ks[j].Language
	})
	return ks
}

func tableSx(t cmap.Table) vlib.Sx {
	l := vlib.List{}
	for _, k := range sortedKeys(t) {
		l = append(l, vlib.L(vlib.Int(int(k.PlatformID)), vlib.Int(int(k.EncodingID)), vlib.Int(int(k.Language)), vlib.Hex(t[k])))
	}
	return l
}

func tablesEqual(a, b cmap.Table) bool {
	if len(a) != len(b) {
		return false
	}
	for k, d := range a {
		d2, ok := b[k]
		if !ok || !bytes.Equal(d, d2) {
			return false
		}
	}
	return true
}

func cloneTable(t cmap.Table) cmap.Table {
	if t == nil {
		return nil
	}
	c := make(cmap.Table, len(t))
	for k, d := range t {
		c[k] = append([]byte(nil), d...)
	}
	return c
}

// the preference the property states: full Unicode over BMP over legacy
var preference = []cmap.Key{{PlatformID: 3, EncodingID: 10}, {PlatformID: 0, EncodingID: 4},
	{PlatformID: 3, EncodingID: 1}, {PlatformID: 0, EncodingID: 3}, {PlatformID: 1, EncodingID: 0}}

// bestOf renders GetBest and states the preference.
func bestOf(res *result, t cmap.Table, rs []int32) (vlib.Sx, cmap.Subtable) {
	var best cmap.Subtable
	var berr error
	if pn, msg := guard(func() { best, berr = t.GetBest() }); pn {
		reach := true
		for _, d := range t {
			if len(d) < 10 {
				reach = false
			}
		}
		if reach {
			res.failf("c09b-getbest-panic", "GetBest panics: %s", msg)
		} else {
			res.labels = append(res.labels, "best:panic-on-input-Decode-never-returns")
		}
		return vlib.Atom("panic"), nil
	}
	// the first key of the stated preference that decodes
	var want cmap.Subtable
	for _, k := range preference {
		var s cmap.Subtable
		var err error
		if pn, _ := guard(func() { s, err = t.Get(k) }); pn {
			break
		}
		if err == nil {
			want = s
			break
		}
	}
	if berr != nil {
		if want != nil {
			res.failf("c09b-getbest-preference", "GetBest fails although a candidate key decodes")
		}
		return vlib.Atom("none"), nil
	}
	if want == nil || vlib.Str(renderSub(want)) != vlib.Str(renderSub(best)) {
		res.failf("c09b-getbest-preference", "GetBest does not return the first decodable subtable of (3,10), (0,4), (3,1), (0,3), (1,0)")
	}
	l, _, _ := lookupsOf(best, rs)
	return vlib.L(vlib.Atom("best"), renderSub(best), l), best
}

// best TABLE (R ...)
func doBest(args []vlib.Sx) (res result, err error) {
	if len(args) != 2 {
		return res, fmt.Errorf("best: want 2 arguments")
	}
	t, err := parseTable(args[0])
	if err != nil {
		return res, err
	}
	rs, err := parseRunes(args[1])
	if err != nil {
		return res, err
	}
	sx, _ := bestOf(&res, t, rs)
	res.impl = vlib.Str(sx)
	res.nontrivial = len(t) >= 2
	res.labels = append(res.labels, sizeLabel("records", len(t)), "best:"+strings.SplitN(strings.Trim(res.impl, "()"), " ", 2)[0])
	return res, nil
}

// install TABLE SUB SEGS (R ...): InstallCMap(SUB) on a font whose cmap table is
// TABLE; a copy of the font value is taken before the call.
func doInstall(args []vlib.Sx) (res result, err error) {
	if len(args) != 4 {
		return res, fmt.Errorf("install: want 4 arguments")
	}
	prev, err := parseTable(args[0])
	if err != nil {
		return res, err
	}
	v, err := parseSub(args[1])
	if err != nil {
		return res, err
	}
	rs, err := parseRunes(args[3])
	if err != nil {
		return res, err
	}
	snapshot := cloneTable(prev)
	f := &sfnt.Font{FamilyName: "T", CMapTable: prev}
	cp := *f // a struct copy shares the map
	s := v.build()
	res.labels = append(res.labels, "sub:"+v.kind, sizeLabel("keys", len(v.m)), sizeLabel("prev-records", len(prev)))
	if prev == nil {
		res.labels = append(res.labels, "prev:nil")
	}
	for k := range prev {
		switch {
		case k.PlatformID == 3 && k.EncodingID == 10 || k.PlatformID == 0 && k.EncodingID == 4:
			res.labels = append(res.labels, "prev:full-unicode-key")
		case k.PlatformID == 3 && k.EncodingID == 1 || k.PlatformID == 0 && k.EncodingID == 3:
			res.labels = append(res.labels, "prev:bmp-key")
		case k.PlatformID == 1:
			res.labels = append(res.labels, "prev:mac-key")
		default:
			res.labels = append(res.labels, "prev:other-key")
		}
	}
	if pn, msg := guard(func() { f.InstallCMap(s) }); pn {
		res.impl = "panic"
		res.failf("c09b-installcmap-panic", "InstallCMap panics: %s", msg)
		return res, nil
	}
	now := f.CMapTable
	// the segments in the case line are those of the installed subtable (the
	// model emits along them); if no entry has them the model's bytes differ
	segsFound := len(now) == 0
	for _, d := range now {
		if vlib.Str(segsOf(d)) == vlib.Str(args[2]) {
			segsFound = true
		}
	}
	if !segsFound {
		res.labels = append(res.labels, "install:segments-of-the-case-line-not-installed")
	}
	copySame := tablesEqual(cp.CMapTable, snapshot) && (snapshot != nil || cp.CMapTable == nil)
	bsx, best := bestOf(&res, now, rs)
	res.impl = vlib.Str(vlib.L(vlib.Atom("ok"), tableSx(now), bsx, vlib.Bool(copySame)))
	res.nontrivial = true

	// ---- the property ----
	lo, hi := v.codeRange()
	wantKeys := []cmap.Key{{PlatformID: 0, EncodingID: 3}, {PlatformID: 3, EncodingID: 1}}
	if hi > 0xFFFF {
		wantKeys = []cmap.Key{{PlatformID: 0, EncodingID: 4}, {PlatformID: 3, EncodingID: 10}}
		res.labels = append(res.labels, "install:full-unicode")
	} else {
		res.labels = append(res.labels, "install:bmp")
	}
	if lo < 0 {
		res.labels = append(res.labels, "install:codes-from-2^31")
	}
	got := sortedKeys(now)
	if len(got) != 2 || got[0] != wantKeys[0] || got[1] != wantKeys[1] {
		res.failf("c09b-installcmap-replaces", "after InstallCMap the table has the keys %v, want exactly %v (nothing of the previous table may survive)", got, wantKeys)
		return res, nil
	}
	if !bytes.Equal(now[wantKeys[0]], now[wantKeys[1]]) {
		res.failf("c09b-installcmap-replaces", "the two installed subtables differ")
	}
	if !copySame {
		res.failf("c09b-installcmap-replaces", "a copy of the Font value taken before InstallCMap sees a changed cmap table: %s, before %s", vlib.Str(tableSx(cp.CMapTable)), vlib.Str(tableSx(snapshot)))
	}
	if best == nil {
		res.failf("c09b-installcmap-replaces", "GetBest finds no subtable after InstallCMap")
	} else {
		sameLookup(&res, "c09b-installcmap-replaces", "GetBest() after InstallCMap(s)", best, v, allRunes(v, rs))
	}
	// the result does not depend on the previous table
	fresh := &sfnt.Font{FamilyName: "T"}
	if pn, _ := guard(func() { fresh.InstallCMap(v.build()) }); pn || !tablesEqual(fresh.CMapTable, now) {
		res.failf("c09b-installcmap-replaces", "InstallCMap on a font with a previous table gives another table than on a fresh font")
	}
	return res, nil
}

// NamesLoopChild is the body of the child process of the namesloop case: a
// TrueType font without glyph names whose best cmap subtable (format 12) maps
// the codes low and high is written, read back with sfnt.Read and asked for
// glyph names.
func NamesLoopChild(low, high uint32) {
	f, err := sfnt.Read(bytes.NewReader(baseFont()))
	if err != nil {
		fmt.Println("base-font-error", err)
		return
	}
	dropNames(f)
	f.CMapTable = cmap.Table{{PlatformID: 3, EncodingID: 10}: cmap.Format12{low: 1, high: 2}.Encode(0)}
	buf := &bytes.Buffer{}
	if _, err := f.Write(buf); err != nil {
		fmt.Println("write-error", err)
		return
	}
	g, err := sfnt.Read(bytes.NewReader(buf.Bytes()))
	if err != nil {
		fmt.Println("read-error", err)
		return
	}
	fmt.Println("read-ok")
	os.Stdout.Sync()
	names := g.MakeGlyphNames()
	fmt.Println("done", len(names))
}

// namesloop LOW HIGH: oracle-only; MakeGlyphNames in a child process with a
// time limit (a loop that does not end cannot be stopped inside the process).
func doNamesLoop(args []vlib.Sx) (res result, err error) {
	if len(args) != 2 {
		return res, fmt.Errorf("namesloop: want 2 arguments")
	}
	lo, e1 := vlib.AsInt(args[0])
	hi, e2 := vlib.AsInt(args[1])
	if e1 != nil || e2 != nil || lo < 0 || hi < lo || hi > math.MaxUint32 {
		return res, fmt.Errorf("namesloop: bad arguments")
	}
	exe, err := os.Executable()
	if err != nil {
		return res, err
	}
	cmd := exec.Command(exe, "namesloop-child", fmt.Sprint(lo), fmt.Sprint(hi))
	var out bytes.Buffer
	cmd.Stdout = &out
	if err := cmd.Start(); err != nil {
		return res, err
	}
	done := make(chan error, 1)
	go func() { done <- cmd.Wait() }()
	status := "done"
	select {
	case <-done:
	case <-time.After(4 * time.Second):
		cmd.Process.Kill()
		<-done
		status = "timeout"
	}
	text := strings.Fields(out.String())
	readOK := len(text) > 0 && text[0] == "read-ok"
	res.nontrivial = true
	res.impl = vlib.Str(vlib.L(vlib.Atom("namesloop"), vlib.Bool(readOK), vlib.Atom(status)))
	res.labels = append(res.labels, "namesloop:"+status)
	if !readOK {
		res.failf("c09b-harness-error", "the child process could not build the font: %s", out.String())
		return res, nil
	}
	if status == "timeout" {
		detail := fmt.Sprintf("a font file accepted by sfnt.Read whose format 12 subtable maps the codes %d and %d: MakeGlyphNames does not return within 4 s", lo, hi)
		if int32(uint32(hi)) == math.MaxInt32 {
			res.failf(sigLoopMaxInt, "%s (for r := low; r <= high; r++ with high = MaxInt32 never ends)", detail)
		} else {
			res.failf("c09b-names-loop", "%s", detail)
		}
	}
	return res, nil
}
