package c09b

import (
	"bytes"
	"fmt"
	"math"
	"sort"

	"golang.org/x/image/font/gofont/goregular"

	"seehuhn.de/go/sfnt"
	"seehuhn.de/go/sfnt/cmap"
	"seehuhn.de/go/sfnt/glyf"
	"seehuhn.de/go/sfnt/verifharness/vlib"
)

func baseFont() []byte { return goregular.TTF }

func dropNames(f *sfnt.Font) {
	if o, ok := f.Outlines.(*glyf.Outlines); ok {
		o.Names = nil
	}
}

// ---- subtable values ----

type labelled struct {
	v      *subVal
	labels []string
}

func f0Of(fill func(c int) byte) *subVal {
	v := &subVal{kind: "f0"}
	for c := range v.data {
		v.data[c] = fill(c)
	}
	return v
}

func mapOf(kind string, kv ...uint32) *subVal {
	v := &subVal{kind: kind, m: map[uint32]uint16{}}
	for i := 0; i+1 < len(kv); i += 2 {
		v.m[kv[i]] = uint16(kv[i+1])
	}
	return v
}

// fixedValues are the boundary values of every type.
func fixedValues() []labelled {
	var out []labelled
	add := func(v *subVal, labels ...string) { out = append(out, labelled{v, labels}) }
	add(f0Of(func(c int) byte { return 0 }), "f0:nothing-mapped")
	add(f0Of(func(c int) byte { return byte(255 - c) }), "f0:reversed")
	add(f0Of(func(c int) byte { return byte(c) }), "f0:identity")
	add(f0Of(func(c int) byte {
		if c == 255 {
			return 9
		}
		return 0
	}), "f0:only-255")
	add(f0Of(func(c int) byte {
		if c == 0 {
			return 3
		}
		return 0
	}), "f0:only-0")
	add(f0Of(func(c int) byte {
		if c >= 0x20 && c < 0x7F {
			return byte(c - 0x1F)
		}
		return 0
	}), "f0:ascii")

	add(mapOf("f4"), "f4:empty")
	add(mapOf("f4", 0, 5), "f4:only-0")
	add(mapOf("f4", 0x41, 7), "f4:single")
	add(mapOf("f4", 5, 0), "f4:zero-valued-key")
	add(mapOf("f4", 0x41, 7, 0x42, 0, 0x50, 9), "f4:zero-valued-key")
	add(mapOf("f4", 0xFF, 1, 0x100, 2), "f4:255-256")
	add(mapOf("f4", 0xFFFF, 9), "f4:only-ffff")
	add(mapOf("f4", 0xFFFE, 8, 0xFFFF, 9), "f4:fffe-ffff")
	add(mapOf("f4", 0, 1, 0xFFFF, 65535), "f4:both-ends")
	add(mapOf("f4", 0x41, 65535, 0x42, 0, 0x43, 1), "f4:gid-wrap")

	add(mapOf("f12"), "f12:empty")
	add(mapOf("f12", 0x41, 7), "f12:single-bmp")
	add(mapOf("f12", 5, 0), "f12:zero-valued-key")
	add(mapOf("f12", 0x41, 7, 0xFFFF, 9), "f12:bmp-to-ffff")
	add(mapOf("f12", 0x41, 7, 0x10000, 9), "f12:first-supplementary")
	add(mapOf("f12", 0x1F600, 6), "f12:single-supplementary")
	add(mapOf("f12", 0x41, 4, 0x42, 5, 0x1F600, 6), "f12:mixed")
	add(mapOf("f12", 0x10FFFF, 3, 0x110000, 4), "f12:beyond-10ffff")
	add(mapOf("f12", 0x7FFFFFF0, 1, 0x7FFFFFFE, 2), "f12:to-maxint32-minus-1")
	add(mapOf("f12", 0x80000000, 1), "f12:codes-from-2^31")
	add(mapOf("f12", 0x41, 7, 0x80000000, 1, 0xFFFFFFFE, 2), "f12:codes-from-2^31")
	add(mapOf("f12", 0x41, 65535, 0x42, 0, 0x43, 1), "f12:gid-wrap")
	return out
}

// notEncodable values are outside the quantifier of the round trips (the
// decoder refuses them or the loop over the range does not end).
func extraValues() []labelled {
	return []labelled{
		{mapOf("f12", 0x7FFFFFF0, 1, 0x7FFFFFFF, 2), []string{"f12:to-maxint32"}},
		{mapOf("f12", 0xFFFFFFFF, 3), []string{"f12:code-ffffffff"}},
		{mapOf("f12", 0, 1, 0x7FFFFFFF, 2, 0x80000000, 3, 0xFFFFFFFF, 4), []string{"f12:all-corners"}},
	}
}

func randomValue(r *vlib.Rand) labelled {
	switch r.Intn(5) {
	case 0:
		dens := r.Range(1, 8)
		return labelled{f0Of(func(c int) byte {
			if r.Intn(8) < dens {
				return byte(r.Range(1, 255))
			}
			return 0
		}), []string{"f0:random"}}
	case 1, 2:
		v := mapOf("f4")
		n := r.Range(1, 40)
		c := uint32(r.Intn(0x400))
		for i := 0; i < n && c <= 0xFFFF; i++ {
			run := r.Range(1, 6)
			g := uint32(r.Range(0, 600))
			for j := 0; j < run && c <= 0xFFFF; j++ {
				if r.Chance(1, 12) {
					v.m[c] = 0
				} else if r.Chance(1, 3) {
					v.m[c] = uint16(r.Intn(0x10000))
				} else {
					v.m[c] = uint16(g + uint32(j))
				}
				c++
			}
			switch r.Intn(4) {
			case 0:
				c += uint32(r.Range(1, 6))
			case 1:
				c += uint32(r.Range(1, 0x2000))
			default:
				c += uint32(r.Range(1, 300))
			}
		}
		if r.Chance(1, 4) {
			v.m[0xFFFF] = uint16(r.Range(1, 100))
		}
		return labelled{v, []string{"f4:random"}}
	default:
		v := mapOf("f12")
		n := r.Range(1, 30)
		for i := 0; i < n; i++ {
			var c uint32
			switch r.Intn(6) {
			case 0, 1:
				c = uint32(r.Intn(0x10000))
			case 2, 3:
				c = uint32(r.Range(0x10000, 0x10FFFF))
			case 4:
				c = uint32(r.Range(0x110000, 0x7FFFFFFE))
			default:
				c = uint32(r.Intn(0x300))
			}
			run := r.Range(1, 5)
			g := r.Range(0, 65000)
			for j := 0; j < run; j++ {
				v.m[c+uint32(j)] = uint16(g + j)
			}
		}
		if r.Chance(1, 10) {
			v.m[uint32(r.Range(0x80000000, 0xFFFFFFFE))] = uint16(r.Range(1, 9))
		}
		return labelled{v, []string{"f12:random"}}
	}
}

// ---- writers of subtables "found in files", from the OpenType text ----

func be16(x int) []byte { return []byte{byte(x >> 8), byte(x)} }
func be32(x uint32) []byte {
	return []byte{byte(x >> 24), byte(x >> 16), byte(x >> 8), byte(x)}
}

func sortedCodes(m map[uint32]uint16) []uint32 {
	ks := make([]uint32, 0, len(m))
	for k := range m {
		ks = append(ks, k)
	}
	sort.Slice(ks, func(i, j int) bool { return ks[i] < ks[j] })
	return ks
}

// write0: byte encoding table
func write0(m map[uint32]uint16, lang int) []byte {
	b := append([]byte{0, 0, 1, 6}, be16(lang)...)
	arr := make([]byte, 256)
	for c, g := range m {
		if c < 256 {
			arr[c] = byte(g)
		}
	}
	return append(b, arr...)
}

// write6: trimmed table mapping over [first, first+count)
func write6(m map[uint32]uint16, first, count, lang int) []byte {
	b := []byte{0, 6}
	b = append(b, be16(10+2*count)...)
	b = append(b, be16(lang)...)
	b = append(b, be16(first)...)
	b = append(b, be16(count)...)
	for i := 0; i < count; i++ {
		b = append(b, be16(int(m[uint32(first+i)]))...)
	}
	return b
}

// write12: one group per mapped code
func write12(m map[uint32]uint16, lang int) []byte {
	ks := sortedCodes(m)
	b := []byte{0, 12, 0, 0}
	b = append(b, be32(uint32(16+12*len(ks)))...)
	b = append(b, 0, 0)
	b = append(b, be16(lang)...)
	b = append(b, be32(uint32(len(ks)))...)
	for _, k := range ks {
		b = append(b, be32(k)...)
		b = append(b, be32(k)...)
		b = append(b, be32(uint32(m[k]))...)
	}
	return b
}

// write4: one segment per mapped code; every second one through the
// glyphIdArray (idRangeOffset), the others by idDelta
func write4(m map[uint32]uint16, lang int) []byte {
	var ks []uint32
	for _, k := range sortedCodes(m) {
		if k < 0xFFFF && m[k] != 0 {
			ks = append(ks, k)
		}
	}
	n := len(ks) + 1
	var end, start, delta, ro, gia []int
	for i, k := range ks {
		end = append(end, int(k))
		start = append(start, int(k))
		if i%2 == 1 {
			delta = append(delta, 0)
			ro = append(ro, 2*(n-i+len(gia)))
			gia = append(gia, int(m[k]))
		} else {
			delta = append(delta, (int(m[k])-int(k))&0xFFFF)
			ro = append(ro, 0)
		}
	}
	end = append(end, 0xFFFF)
	start = append(start, 0xFFFF)
	delta = append(delta, 1)
	ro = append(ro, 0)
	sel := 0
	for 1<<(sel+1) <= n {
		sel++
	}
	b := []byte{0, 4}
	b = append(b, be16(2*(8+4*n+len(gia)))...)
	b = append(b, be16(lang)...)
	b = append(b, be16(2*n)...)
	b = append(b, be16(2<<sel)...)
	b = append(b, be16(sel)...)
	b = append(b, be16(2*n-(2<<sel))...)
	for _, x := range end {
		b = append(b, be16(x)...)
	}
	b = append(b, 0, 0)
	for _, l := range [][]int{start, delta, ro, gia} {
		for _, x := range l {
			b = append(b, be16(x)...)
		}
	}
	return b
}

// stub of a format the library has no decoder for
func writeStub(format int) []byte {
	b := make([]byte, 16)
	copy(b, be16(format))
	switch format {
	case 8, 10, 12, 13:
		copy(b[4:], be32(16))
	case 14:
		copy(b[2:], be32(16))
	default:
		copy(b[2:], be16(16))
	}
	return b
}

func mutate(r *vlib.Rand, b []byte) []byte {
	c := append([]byte(nil), b...)
	if len(c) == 0 {
		return c
	}
	for i := r.Range(1, 3); i > 0; i-- {
		c[r.Intn(len(c))] = byte(r.Uint64())
	}
	return c
}

// ---- the run ----

func lkLine(v *subVal, rs []int32) string {
	return vlib.Line(vlib.Atom("lk"), v.sx(), runesSx(rs))
}

func encodeSegs(v *subVal, lang int) (vlib.Sx, bool) {
	var b []byte
	if p, _ := guard(func() { b = v.build().Encode(uint16(lang)) }); p {
		return vlib.List{}, false
	}
	return segsOf(b), true
}

func encodableValue(v *subVal) bool {
	if v.kind == "f12" {
		if len(v.m) > 65536 {
			return false
		}
		if _, bad := v.m[0xFFFFFFFF]; bad {
			return false
		}
	}
	return true
}

// Gen writes the run for the given tier.
func Gen(run *vlib.Run, seed uint64, tier string) {
	run.Rule = "one case = one subtable value (or table, or font) with the public-API calls named by the case kind (Lookup over runes, CodeRange, the CodeRange/Lookup loop, Encode + Table.Get, Table.Get on file bytes, GetBest, InstallCMap); non-trivial = at least one non-zero entry (lk, rt), a non-empty map (range), two entries (enum), a decoded subtable (get), two records (best), every install case; distinct by case line"
	r := vlib.NewRand(seed)
	vals := fixedValues()
	rv := r.Fork("values")
	for i := vlib.Count(tier, 40, 1200); i > 0; i-- {
		vals = append(vals, randomValue(rv))
	}
	all := append(append([]labelled{}, vals...), extraValues()...)

	// 1. Lookup over boundary runes
	rl := r.Fork("lk")
	for _, lv := range all {
		emit(run, lkLine(lv.v, lv.v.probes(rl, vlib.Count(tier, 12, 60))), lv.labels...)
	}

	// 2. CodeRange; the model also folds over the keys in other orders
	ro := r.Fork("range")
	for _, lv := range all {
		emit(run, vlib.Line(vlib.Atom("range"), lv.v.sx()), lv.labels...)
		if lv.v.kind == "f0" || len(lv.v.m) < 2 {
			continue
		}
		ks := lv.v.keys()
		rev := make([]uint32, len(ks))
		for i, k := range ks {
			rev[len(ks)-1-i] = k
		}
		emit(run, vlib.Line(vlib.Atom("rangeord"), lv.v.sx(), vlib.Ints(rev)), append(lv.labels, "order:descending")...)
		sh := append([]uint32(nil), ks...)
		for i := len(sh) - 1; i > 0; i-- {
			j := ro.Intn(i + 1)
			sh[i], sh[j] = sh[j], sh[i]
		}
		emit(run, vlib.Line(vlib.Atom("rangeord"), lv.v.sx(), vlib.Ints(sh)), append(lv.labels, "order:shuffled")...)
	}

	// 3. the loop low..high (long ranges are expensive for the model: a budget)
	long := vlib.Count(tier, 60, 200)
	for _, lv := range all {
		lo, hi := lv.v.codeRange()
		span := int64(hi) - int64(lo)
		if span > 3000 && span <= 70000 {
			if long--; long < 0 {
				span = 70001
			}
		}
		switch {
		case span <= 70000:
			emit(run, vlib.Line(vlib.Atom("enum"), lv.v.sx(), vlib.Int(int(span)+2)), append(lv.labels, "enum:exact-fuel")...)
			if hi == math.MaxInt32 {
				run.Hist["enum:range-ends-at-maxint32"]++
			}
			if span > 4 && span < 3000 {
				emit(run, vlib.Line(vlib.Atom("enum"), lv.v.sx(), vlib.Int(int(span)+1)), append(lv.labels, "enum:one-step-short")...)
			}
		default:
			emit(run, vlib.Line(vlib.Atom("enum"), lv.v.sx(), vlib.Int(2000)), append(lv.labels, "enum:range-too-long-for-the-budget")...)
		}
	}

	// 4. Encode, then Table.Get
	rr := r.Fork("rt")
	keys := [][2]int{{3, 1}, {0, 3}, {3, 10}, {0, 4}, {0, 6}, {3, 0}, {1, 0}, {1, 1}}
	for i, lv := range vals {
		if !encodableValue(lv.v) {
			continue
		}
		if i >= len(fixedValues())+vlib.Count(tier, 25, 600) {
			break
		}
		lang := vlib.Pick(rr, []int{0, 0, 1, 0xFFFF})
		segs, ok := encodeSegs(lv.v, lang)
		if !ok {
			segs = vlib.List{}
		}
		k := keys[i%len(keys)]
		emit(run, vlib.Line(vlib.Atom("rt"), lv.v.sx(), vlib.Int(lang), segs, vlib.Int(k[0]), vlib.Int(k[1]),
			runesSx(lv.v.probes(rr, 6))), lv.labels...)
		if i%3 == 0 {
			k = keys[(i/3)%4]
			emit(run, vlib.Line(vlib.Atom("rt"), lv.v.sx(), vlib.Int(lang), segs, vlib.Int(k[0]), vlib.Int(k[1]),
				runesSx(lv.v.probes(rr, 6))), lv.labels...)
		}
	}

	// 5. Table.Get on subtables found in files
	genGet(run, r.Fork("get"), tier)

	// 6. GetBest
	genBest(run, r.Fork("best"), tier)

	// 7. InstallCMap on fonts with previous tables of every kind
	genInstall(run, r.Fork("install"), tier, vals)
}

func getLine(p, e int, b []byte, rs []int32) string {
	return vlib.Line(vlib.Atom("get"), vlib.Int(p), vlib.Int(e), vlib.Hex(b), runesSx(rs))
}

func smallMap(r *vlib.Rand, max uint32, n int) map[uint32]uint16 {
	m := map[uint32]uint16{}
	for i := 0; i < n; i++ {
		c := uint32(r.Intn(int(max)))
		if r.Chance(1, 2) {
			c = 0x20 + uint32(r.Intn(0xE0))
			if c >= max {
				c = max - 1
			}
		}
		m[c] = uint16(r.Range(1, 250))
	}
	return m
}

func genGet(run *vlib.Run, r *vlib.Rand, tier string) {
	probe := func(m map[uint32]uint16) []int32 {
		v := &subVal{kind: "f12", m: m}
		return v.probes(r, 4)
	}
	n := vlib.Count(tier, 14, 400)
	for i := 0; i < n; i++ {
		// Macintosh codes 0..255 in every format, under Unicode and Macintosh keys
		m := smallMap(r, 256, r.Range(1, 60))
		if i%4 == 0 {
			for c := uint32(0x80); c < 0x100; c++ {
				m[c] = uint16(c - 0x7F)
			}
		}
		lang := vlib.Pick(r, []int{0, 0, 3})
		first := r.Intn(0x40)
		for _, ke := range [][2]int{{1, 0}, {3, 1}, {0, 3}, {1, 2}} {
			if ke[0] == 1 && ke[1] != 0 && i%5 != 0 {
				continue
			}
			emit(run, getLine(ke[0], ke[1], write0(m, lang), probe(m)), "written:format0")
			emit(run, getLine(ke[0], ke[1], write6(m, first, 256-first, lang), probe(m)), "written:format6")
			emit(run, getLine(ke[0], ke[1], write4(m, lang), probe(m)), "written:format4")
			if ke[0] != 1 || i%3 == 0 {
				emit(run, getLine(ke[0], ke[1], write12(m, lang), probe(m)), "written:format12")
			}
		}
		// codes of every size under Unicode keys
		big := smallMap(r, 0xFFFF, r.Range(1, 40))
		emit(run, getLine(3, 1, write4(big, 0), probe(big)), "written:format4")
		emit(run, getLine(0, 3, write6(big, 0x20, r.Range(1, 700), 0), probe(big)), "written:format6")
		emit(run, getLine(1, 0, write6(big, 0x20, r.Range(300, 700), 0), probe(big)), "written:format6", "mac-fold")
		wide := smallMap(r, 0x7FFFFFFF, r.Range(1, 30))
		wide[0x41] = 7
		emit(run, getLine(3, 10, write12(wide, 0), probe(wide)), "written:format12")
		emit(run, getLine(0, 4, write12(wide, 0), probe(wide)), "written:format12")
		// malformed stream
		for _, b := range [][]byte{write0(m, 0), write4(big, 0), write6(big, 0x20, 40, 0), write12(wide, 0)} {
			mb := mutate(r, b)
			emit(run, getLine(vlib.Pick(r, []int{3, 1, 0}), vlib.Pick(r, []int{0, 1}), mb, probe(m)), "malformed:mutated")
			tb := b[:r.Intn(len(b)+1)]
			emit(run, getLine(3, 1, tb, probe(m)), "malformed:truncated")
		}
	}
	// the dispatch: every format word of interest, with and without a decoder
	ascii := map[uint32]uint16{0x41: 7}
	for _, f := range []int{2, 8, 10, 13, 14} {
		emit(run, getLine(3, 1, writeStub(f), probe(ascii)), "dispatch:notImplemented")
		emit(run, getLine(1, 0, writeStub(f), probe(ascii)), "dispatch:notImplemented")
	}
	for _, f := range []int{1, 3, 5, 7, 9, 11, 15, 16, 255, 256, 0x0400, 0xFFFF} {
		emit(run, getLine(3, 1, writeStub(f), probe(ascii)), "dispatch:no-entry")
	}
	for l := 0; l <= 12; l++ {
		emit(run, getLine(3, 1, make([]byte, l), probe(ascii)), "malformed:short")
		emit(run, getLine(1, 0, make([]byte, l), probe(ascii)), "malformed:short")
	}
}

func tableLine(entries [][4]any) vlib.Sx {
	l := vlib.List{}
	for _, e := range entries {
		l = append(l, vlib.L(vlib.Int(e[0].(int)), vlib.Int(e[1].(int)), vlib.Int(e[2].(int)), vlib.Hex(e[3].([]byte))))
	}
	return l
}

// previous tables of every kind
func prevTables(r *vlib.Rand) []struct {
	sx     vlib.Sx
	labels []string
} {
	oldBMP := cmap.Format4{0x41: 4, 0x42: 5, 0x5A: 29}.Encode(0)
	oldFull := cmap.Format12{0x41: 4, 0x42: 5, 0x1F600: 6}.Encode(0)
	oldMac := write0(map[uint32]uint16{0x41: 9, 0x8E: 3}, 0)
	junk := []byte{0, 4, 0, 10, 0, 0, 1, 2, 3, 4}
	type T = struct {
		sx     vlib.Sx
		labels []string
	}
	return []T{
		{vlib.Atom("nil"), []string{"prev:none"}},
		{vlib.List{}, []string{"prev:empty-map"}},
		{tableLine([][4]any{{0, 3, 0, oldBMP}, {3, 1, 0, oldBMP}}), []string{"prev:bmp"}},
		{tableLine([][4]any{{0, 4, 0, oldFull}, {3, 10, 0, oldFull}}), []string{"prev:full"}},
		{tableLine([][4]any{{3, 10, 0, oldFull}}), []string{"prev:full-one-key"}},
		{tableLine([][4]any{{0, 3, 0, oldBMP}, {3, 1, 0, oldBMP}, {1, 0, 0, oldMac}}), []string{"prev:bmp+mac"}},
		{tableLine([][4]any{{0, 4, 0, oldFull}, {3, 10, 0, oldFull}, {1, 0, 0, oldMac}, {1, 0, 5, oldMac}}), []string{"prev:full+mac"}},
		{tableLine([][4]any{{0, 3, 0, oldBMP}, {0, 4, 0, oldFull}, {3, 1, 0, oldBMP}, {3, 10, 0, oldFull}}), []string{"prev:both"}},
		{tableLine([][4]any{{3, 10, 0, junk}, {2, 1, 0, oldBMP}, {4, 7, 0, oldFull}}), []string{"prev:junk-and-other-platforms"}},
	}
}

func genInstall(run *vlib.Run, r *vlib.Rand, tier string, vals []labelled) {
	prevs := prevTables(r)
	n := 0
	for i, lv := range vals {
		if !encodableValue(lv.v) {
			continue
		}
		if i >= len(fixedValues())+vlib.Count(tier, 12, 400) {
			break
		}
		segs, ok := encodeSegs(lv.v, 0)
		if !ok {
			continue
		}
		// every value on two previous tables (all of them on the first few)
		for j, p := range prevs {
			if i >= 6 && (i+j)%4 != 0 {
				continue
			}
			emit(run, vlib.Line(vlib.Atom("install"), p.sx, lv.v.sx(), segs, runesSx(lv.v.probes(r, 4))),
				append(append([]string{}, lv.labels...), p.labels...)...)
			n++
		}
	}
	_ = n
}

func genBest(run *vlib.Run, r *vlib.Rand, tier string) {
	bmp := write4(map[uint32]uint16{0x41: 1, 0x42: 2}, 0)
	full := write12(map[uint32]uint16{0x41: 3, 0x1F600: 4}, 0)
	mac0 := write0(map[uint32]uint16{0x41: 5, 0x8E: 6}, 0)
	mac6 := write6(map[uint32]uint16{0x41: 5, 0x8E: 6}, 0x20, 0xE0, 0)
	junk := []byte{0, 4, 0, 10, 0, 0, 1, 2, 3, 4}
	stub := writeStub(14)
	cands := [][3]any{{3, 10, full}, {0, 4, full}, {3, 1, bmp}, {0, 3, bmp}, {1, 0, mac0}, {1, 0, mac6}, {3, 10, junk},
		{0, 4, stub}, {3, 1, junk}, {3, 0, bmp}, {0, 6, full}, {1, 1, mac0}, {3, 10, bmp}, {3, 1, full}}
	probes := []int32{0x41, 0x42, 0xE9, 0x1F600, 0x10041, -1 + 1}
	emit(run, vlib.Line(vlib.Atom("best"), vlib.Atom("nil"), runesSx(probes)), "best:nil-table")
	emit(run, vlib.Line(vlib.Atom("best"), vlib.List{}, runesSx(probes)), "best:empty-table")
	n := vlib.Count(tier, 60, 1500)
	for i := 0; i < n; i++ {
		var entries [][4]any
		seen := map[string]bool{}
		for k := r.Range(1, 5); k > 0; k-- {
			c := vlib.Pick(r, cands)
			lang := 0
			if c[0].(int) == 1 && r.Chance(1, 3) {
				lang = r.Range(1, 3)
			}
			id := fmt.Sprint(c[0], c[1], lang)
			if seen[id] {
				continue
			}
			seen[id] = true
			entries = append(entries, [4]any{c[0], c[1], lang, c[2]})
		}
		emit(run, vlib.Line(vlib.Atom("best"), tableLine(entries), runesSx(probes)))
	}
	// every single candidate and every pair of neighbours in the preference order
	pref := [][3]any{{3, 10, full}, {0, 4, full}, {3, 1, bmp}, {0, 3, bmp}, {1, 0, mac6}}
	for i := range pref {
		emit(run, vlib.Line(vlib.Atom("best"), tableLine([][4]any{{pref[i][0], pref[i][1], 0, pref[i][2]}}), runesSx(probes)), "best:single")
		for j := i + 1; j < len(pref); j++ {
			// the two subtables differ, so the choice shows
			a := pref[i][2].([]byte)
			b := pref[j][2].([]byte)
			if bytes.Equal(a, b) {
				b = write12(map[uint32]uint16{0x41: 33}, 0)
			}
			emit(run, vlib.Line(vlib.Atom("best"), tableLine([][4]any{{pref[j][0], pref[j][1], 0, b}, {pref[i][0], pref[i][1], 0, a}}), runesSx(probes)), "best:pair")
		}
	}
}
