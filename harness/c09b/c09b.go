// Package c09b is the harness of part C09B of property C09: the VALUE level of
// the cmap package - Subtable.Lookup / CodeRange / Encode on *Format0, Format4
// and Format12 values, Table.Get / GetBest and Font.InstallCMap.  Every case is
// one line "kind args..."; exec runs the implementation on it through the
// public API, renders the observation in the syntax the Coq model's driver
// prints (ocaml/c09b_driver.ml), and evaluates the property oracle: the same
// glyph for every mapped code point, glyph 0 for every other one, stated on
// ground-truth Go maps and on independent specification readers of the bytes.
package c09b

import (
	"errors"
	"fmt"
	"strings"

	"seehuhn.de/go/sfnt/verifharness/vlib"
)

// signatures of the two defects this part found (findings/C09.json, both
// repaired in /repo): if one of them comes back the failure carries the same
// signature again
const (
	sigMacFormat0 = "c09-format0-mac-codes-not-translated"
	sigLoopMaxInt = "c09-coderange-loop-maxint32"
)

// result of executing one case line on the implementation
type result struct {
	impl       string
	fail       string // oracle failure ("" = property holds on this input)
	sig        string
	nontrivial bool
	labels     []string
}

func (res *result) failf(sig, format string, args ...any) {
	if res.fail == "" {
		res.fail, res.sig = fmt.Sprintf(format, args...), sig
	}
}

type handler func(args []vlib.Sx) (result, error)

var handlers = map[string]handler{}

func execLine(line string) (result, error) {
	line = strings.TrimPrefix(strings.TrimSpace(line), "!")
	items, err := vlib.Parse(line)
	if err != nil {
		return result{}, err
	}
	if len(items) == 0 {
		return result{}, errors.New("empty case")
	}
	kind, err := vlib.AsAtom(items[0])
	if err != nil {
		return result{}, err
	}
	h, ok := handlers[kind]
	if !ok {
		return result{}, fmt.Errorf("unknown case kind %q", kind)
	}
	res, err := h(items[1:])
	if err != nil {
		return res, err
	}
	res.labels = append(res.labels, "kind:"+kind)
	return res, nil
}

// RunCase re-executes one case line (corpus, replays).
func RunCase(line string) (impl, fail, sig string, err error) {
	res, err := execLine(line)
	if err != nil {
		return "", "", "", err
	}
	return res.impl, res.fail, res.sig, nil
}

// emit executes a generated line and records it.
func emit(run *vlib.Run, line string, labels ...string) result {
	res, err := execLine(line)
	if err != nil {
		idx := run.Add(line, "(harness-error)", false, "harness-error")
		run.Fail(idx, line, "harness could not execute its own case: "+err.Error(), "c09b-harness-error")
		return res
	}
	idx := run.Add(line, res.impl, res.nontrivial, append(res.labels, labels...)...)
	if res.fail != "" {
		run.Fail(idx, line, res.fail, res.sig)
	}
	return res
}

// guard runs f and converts a panic into an observation.
func guard(f func()) (panicked bool, msg string) {
	defer func() {
		if e := recover(); e != nil {
			panicked = true
			msg = fmt.Sprint(e)
		}
	}()
	f()
	return
}

func sizeLabel(prefix string, n int) string {
	switch {
	case n == 0:
		return prefix + ":0"
	case n <= 4:
		return prefix + ":1-4"
	case n <= 32:
		return prefix + ":5-32"
	case n <= 256:
		return prefix + ":33-256"
	case n <= 4096:
		return prefix + ":257-4096"
	}
	return prefix + ":>4096"
}
