package c09b

import (
	"fmt"
	"math"
	"sort"

	"seehuhn.de/go/sfnt/cmap"
	"seehuhn.de/go/sfnt/glyph"
	"seehuhn.de/go/sfnt/verifharness/vlib"
)

// subVal is the ground truth of a subtable value: the description a case line
// carries.  The Go value handed to the library is built from it afresh for
// every call.
type subVal struct {
	kind string            // "f0", "f4", "f12"
	data [256]byte         // f0
	m    map[uint32]uint16 // f4 (keys < 65536), f12; a key may be present with glyph 0
}

func (v *subVal) keys() []uint32 {
	ks := make([]uint32, 0, len(v.m))
	for k := range v.m {
		ks = append(ks, k)
	}
	sort.Slice(ks, func(i, j int) bool { return ks[i] < ks[j] })
	return ks
}

func (v *subVal) sx() vlib.Sx {
	switch v.kind {
	case "f0":
		return vlib.L(vlib.Atom("f0"), vlib.Hex(v.data[:]))
	}
	l := vlib.List{vlib.Atom(v.kind)}
	for _, k := range v.keys() {
		l = append(l, vlib.L(vlib.U64(uint64(k)), vlib.Int(int(v.m[k]))))
	}
	return l
}

func parseSub(x vlib.Sx) (*subVal, error) {
	l, err := vlib.AsList(x)
	if err != nil || len(l) == 0 {
		return nil, fmt.Errorf("bad subtable value")
	}
	kind, err := vlib.AsAtom(l[0])
	if err != nil {
		return nil, err
	}
	v := &subVal{kind: kind}
	switch kind {
	case "f0":
		if len(l) != 2 {
			return nil, fmt.Errorf("f0: want one byte string")
		}
		b, err := vlib.AsBytes(l[1])
		if err != nil || len(b) != 256 {
			return nil, fmt.Errorf("f0: want 256 bytes")
		}
		copy(v.data[:], b)
	case "f4", "f12":
		v.m = map[uint32]uint16{}
		for _, p := range l[1:] {
			pl, err := vlib.AsList(p)
			if err != nil || len(pl) != 2 {
				return nil, fmt.Errorf("bad pair")
			}
			k, e1 := vlib.AsInt(pl[0])
			g, e2 := vlib.AsInt(pl[1])
			if e1 != nil || e2 != nil || k < 0 || k > math.MaxUint32 || g < 0 || g > 0xFFFF ||
				(kind == "f4" && k > 0xFFFF) {
				return nil, fmt.Errorf("bad pair")
			}
			if _, dup := v.m[uint32(k)]; dup {
				return nil, fmt.Errorf("duplicate key")
			}
			v.m[uint32(k)] = uint16(g)
		}
	default:
		return nil, fmt.Errorf("unknown subtable kind %q", kind)
	}
	return v, nil
}

// build makes the Go value.
func (v *subVal) build() cmap.Subtable {
	switch v.kind {
	case "f0":
		s := &cmap.Format0{}
		s.Data = v.data
		return s
	case "f4":
		s := cmap.Format4{}
		for k, g := range v.m {
			s[uint16(k)] = glyph.ID(g)
		}
		return s
	default:
		s := cmap.Format12{}
		for k, g := range v.m {
			s[k] = glyph.ID(g)
		}
		return s
	}
}

// truth is the property text: the glyph of the code point if it is a mapped
// code of the subtable's code space, glyph 0 otherwise.  Code spaces: 0..255
// (format 0), 0..0xFFFF (format 4), uint32 (format 12, a rune denoting the
// code with the same 32 bits).
func (v *subVal) truth(r int32) uint16 {
	switch v.kind {
	case "f0":
		if r >= 0 && r <= 255 {
			return uint16(v.data[r])
		}
		return 0
	case "f4":
		if r >= 0 && r <= 0xFFFF {
			return v.m[uint32(r)]
		}
		return 0
	default:
		return v.m[uint32(r)]
	}
}

// entries returns the non-zero entries of the mapping as (rune, glyph), by
// ascending rune.
func (v *subVal) entries() [][2]int64 {
	var out [][2]int64
	switch v.kind {
	case "f0":
		for c, g := range v.data {
			if g != 0 {
				out = append(out, [2]int64{int64(c), int64(g)})
			}
		}
	default:
		for k, g := range v.m {
			if g != 0 {
				out = append(out, [2]int64{int64(int32(k)), int64(g)})
			}
		}
	}
	sort.Slice(out, func(i, j int) bool { return out[i][0] < out[j][0] })
	return out
}

// codeRange is "the smallest and largest code point in the subtable" over the
// keys present (format 0: its code space), (0, 0) for an empty map.
func (v *subVal) codeRange() (lo, hi int32) {
	if v.kind == "f0" {
		return 0, 255
	}
	first := true
	for k := range v.m {
		r := int32(k)
		if first || r < lo {
			lo = r
		}
		if first || r > hi {
			hi = r
		}
		first = false
	}
	return
}

// probes returns the boundary runes of the task plus the value's own codes and
// their translates by multiples of 2^16.
func (v *subVal) probes(r *vlib.Rand, extra int) []int32 {
	set := map[int32]bool{}
	for _, x := range []int64{math.MinInt32, -0x10000, -256, -1, 0, 1, 0x41, 0xFF, 0x100, 0xFFFE, 0xFFFF, 0x10000, 0x10041,
		0x100FF, 0x1FFFF, 0x10FFFF, 0x110000, 0x7FFFFFFE, math.MaxInt32} {
		set[int32(x)] = true
	}
	add := func(c uint32) {
		set[int32(c)] = true
		for _, k := range []int64{1, 2, 16, 17, 0x7FFF, 0x8000, 0xFFFF} {
			set[int32(uint32(int64(c)+k<<16))] = true
			set[int32(uint32(int64(c)-k<<16))] = true
		}
		set[int32(c+1)] = true
		set[int32(c-1)] = true
	}
	switch v.kind {
	case "f0":
		n := 0
		for c, g := range v.data {
			if g != 0 && n < 6 {
				add(uint32(c))
				n++
			}
		}
	default:
		n := 0
		for _, k := range v.keys() {
			if n < 8 || r.Chance(1, 16) {
				add(k)
				n++
			}
			if n > 24 {
				break
			}
		}
	}
	for i := 0; i < extra; i++ {
		switch r.Intn(4) {
		case 0:
			set[int32(r.Intn(0x10000))] = true
		case 1:
			set[int32(r.Intn(0x110000))] = true
		case 2:
			set[int32(uint32(r.Uint64()))] = true
		default:
			set[-int32(r.Intn(0x20000))] = true
		}
	}
	out := make([]int32, 0, len(set))
	for x := range set {
		out = append(out, x)
	}
	sort.Slice(out, func(i, j int) bool { return out[i] < out[j] })
	return out
}

func runesSx(rs []int32) vlib.Sx { return vlib.Ints(rs) }

func parseRunes(x vlib.Sx) ([]int32, error) {
	l, err := vlib.AsList(x)
	if err != nil {
		return nil, err
	}
	out := make([]int32, len(l))
	for i, e := range l {
		n, err := vlib.AsInt(e)
		if err != nil || n < math.MinInt32 || n > math.MaxInt32 {
			return nil, fmt.Errorf("bad rune")
		}
		out[i] = int32(n)
	}
	return out, nil
}

// renderSub prints a decoded subtable in the model's syntax.
func renderSub(s cmap.Subtable) vlib.Sx {
	switch m := s.(type) {
	case *cmap.Format0:
		return vlib.L(vlib.Atom("f0"), vlib.Hex(m.Data[:]))
	case cmap.Format4:
		ks := make([]int, 0, len(m))
		for k := range m {
			ks = append(ks, int(k))
		}
		sort.Ints(ks)
		l := vlib.List{vlib.Atom("f4")}
		for _, k := range ks {
			l = append(l, vlib.L(vlib.Int(k), vlib.Int(int(m[uint16(k)]))))
		}
		return l
	case cmap.Format12:
		ks := make([]uint32, 0, len(m))
		for k := range m {
			ks = append(ks, k)
		}
		sort.Slice(ks, func(i, j int) bool { return ks[i] < ks[j] })
		l := vlib.List{vlib.Atom("f12")}
		for _, k := range ks {
			l = append(l, vlib.L(vlib.U64(uint64(k)), vlib.Int(int(m[k]))))
		}
		return l
	}
	return vlib.Atom("unknown-type")
}

// lookupsOf calls Lookup on every rune; a panic is an observation.
func lookupsOf(s cmap.Subtable, rs []int32) (vlib.Sx, []int, []bool) {
	l := make(vlib.List, len(rs))
	gs := make([]int, len(rs))
	ps := make([]bool, len(rs))
	for i, r := range rs {
		var g glyph.ID
		if p, _ := guard(func() { g = s.Lookup(rune(r)) }); p {
			l[i] = vlib.Atom("panic")
			ps[i] = true
			continue
		}
		l[i] = vlib.Int(int(g))
		gs[i] = int(g)
	}
	return l, gs, ps
}

// segsOf extracts the segments of a format-4 subtable as the encoder chose
// them: ((first last delta vals) ...); () for anything else.
func segsOf(b []byte) vlib.Sx {
	if len(b) < 16 || b[0] != 0 || b[1] != 4 {
		return vlib.List{}
	}
	n := (int(b[6])<<8 | int(b[7])) / 2
	if 16+8*n > len(b) {
		return vlib.List{}
	}
	w := func(off int) int { return int(b[off])<<8 | int(b[off+1]) }
	l := make(vlib.List, n)
	for i := 0; i < n; i++ {
		last := w(14 + 2*i)
		first := w(16 + 2*n + 2*i)
		delta := w(16 + 4*n + 2*i)
		ro := w(16 + 6*n + 2*i)
		l[i] = vlib.L(vlib.Int(first), vlib.Int(last), vlib.Int(delta), vlib.Bool(ro != 0))
	}
	return l
}

// ---- independent readers of the subtable bytes, from the OpenType text ----

// specLookup returns the glyph the specification defines for character code c
// in the subtable b; ok = false when the format is not one of 0, 4, 6, 12 or
// the specification prescribes an access outside the subtable.
func specLookup(b []byte, c uint32) (g uint32, ok bool) {
	if len(b) < 2 {
		return 0, false
	}
	w := func(off int) (int, bool) {
		if off < 0 || off+2 > len(b) {
			return 0, false
		}
		return int(b[off])<<8 | int(b[off+1]), true
	}
	switch int(b[0])<<8 | int(b[1]) {
	case 0: // byte encoding table: glyphIdArray[256] at offset 6
		if c > 255 {
			return 0, true
		}
		if 6+int(c) >= len(b) {
			return 0, false
		}
		return uint32(b[6+c]), true
	case 6: // trimmed table mapping
		first, ok1 := w(6)
		count, ok2 := w(8)
		if !ok1 || !ok2 {
			return 0, false
		}
		if int64(c) < int64(first) || int64(c) >= int64(first+count) {
			return 0, true
		}
		v, ok3 := w(10 + 2*(int(c)-first))
		return uint32(v), ok3
	case 4: // segment mapping to delta values
		if c > 0xFFFF {
			return 0, true
		}
		segX2, ok1 := w(6)
		if !ok1 {
			return 0, false
		}
		n := segX2 / 2
		for i := 0; i < n; i++ {
			end, ok2 := w(14 + 2*i)
			if !ok2 {
				return 0, false
			}
			if uint32(end) < c {
				continue
			}
			start, ok3 := w(16 + segX2 + 2*i)
			delta, ok4 := w(16 + 2*segX2 + 2*i)
			roOff := 16 + 3*segX2 + 2*i
			ro, ok5 := w(roOff)
			if !ok3 || !ok4 || !ok5 {
				return 0, false
			}
			if c < uint32(start) {
				return 0, true
			}
			if ro == 0 {
				return (c + uint32(delta)) & 0xFFFF, true
			}
			v, ok6 := w(roOff + ro + 2*(int(c)-start))
			if !ok6 {
				return 0, false
			}
			if v == 0 {
				return 0, true
			}
			return (uint32(v) + uint32(delta)) & 0xFFFF, true
		}
		return 0, true
	case 12: // segmented coverage
		if len(b) < 16 {
			return 0, false
		}
		rd := func(off int) uint32 {
			return uint32(b[off])<<24 | uint32(b[off+1])<<16 | uint32(b[off+2])<<8 | uint32(b[off+3])
		}
		n := rd(12)
		for i := uint32(0); i < n; i++ {
			off := 16 + int(i)*12
			if off+12 > len(b) {
				return 0, false
			}
			s, e, sg := rd(off), rd(off+4), rd(off+8)
			if s <= c && c <= e {
				return sg + (c - s), true
			}
		}
		return 0, true
	}
	return 0, false
}
