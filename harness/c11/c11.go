// Package c11 drives the glyf/loca code of go-sfnt (Glyphs.Encode, Decode,
// decodeGlyph, removePadding, encodeLoca/decodeLoca, SimpleGlyph.Decode,
// Components/FixComponents) with generated glyph sets and byte strings and
// records the observations in the syntax the Coq model (coq/C11) prints.
//
// The oracle states property C11 directly on the real code: encode/decode
// round trip equality, loca well-formedness checked by an independent loca
// reader, no panic, and an independent simple-glyph point decoder written
// from the TrueType specification (spec.go).
package c11

import (
	"bytes"
	"errors"
	"fmt"

	"seehuhn.de/go/postscript/funit"
	"seehuhn.de/go/sfnt/glyf"
	"seehuhn.de/go/sfnt/glyph"
	"seehuhn.de/go/sfnt/verifharness/vlib"
)

// ---------------------------------------------------------------- rendering

func boxSx(r funit.Rect16) vlib.Sx {
	return vlib.L(vlib.Int(int(r.LLx)), vlib.Int(int(r.LLy)), vlib.Int(int(r.URx)), vlib.Int(int(r.URy)))
}

func glyphSx(g *glyf.Glyph) vlib.Sx {
	if g == nil {
		return vlib.Atom("nil")
	}
	switch d := g.Data.(type) {
	case glyf.SimpleGlyph:
		return vlib.L(vlib.Atom("simple"), vlib.Int(int(d.NumContours)), boxSx(g.Rect16), vlib.Hex(d.Encoded))
	case glyf.CompositeGlyph:
		cs := vlib.List{}
		for _, c := range d.Components {
			cs = append(cs, vlib.L(vlib.Int(int(c.Flags)), vlib.Int(int(c.GlyphIndex)), vlib.Hex(c.Data)))
		}
		var ins vlib.Sx = vlib.Atom("nil")
		if d.Instructions != nil {
			ins = vlib.Hex(d.Instructions)
		}
		return vlib.L(vlib.Atom("comp"), boxSx(g.Rect16), cs, ins)
	}
	return vlib.Atom("badtype")
}

func glyphsSx(gg glyf.Glyphs) vlib.Sx {
	l := make(vlib.List, len(gg))
	for i, g := range gg {
		l[i] = glyphSx(g)
	}
	return l
}

func parseGlyph(x vlib.Sx) (*glyf.Glyph, error) {
	if a, ok := x.(vlib.Atom); ok {
		if a == "nil" {
			return nil, nil
		}
		return nil, errors.New("bad glyph atom")
	}
	l, err := vlib.AsList(x)
	if err != nil || len(l) != 4 {
		return nil, errors.New("bad glyph")
	}
	kind, _ := vlib.AsAtom(l[0])
	parseBox := func(x vlib.Sx) (funit.Rect16, error) {
		v, err := vlib.AsInts(x)
		if err != nil || len(v) != 4 {
			return funit.Rect16{}, errors.New("bad bbox")
		}
		for _, c := range v {
			if c < -32768 || c > 32767 {
				return funit.Rect16{}, errors.New("bbox out of int16")
			}
		}
		return funit.Rect16{LLx: funit.Int16(v[0]), LLy: funit.Int16(v[1]), URx: funit.Int16(v[2]), URy: funit.Int16(v[3])}, nil
	}
	switch kind {
	case "simple":
		nc, err := vlib.AsInt(l[1])
		if err != nil || nc < -32768 || nc > 32767 {
			return nil, errors.New("bad numContours")
		}
		box, err := parseBox(l[2])
		if err != nil {
			return nil, err
		}
		e, err := vlib.AsBytes(l[3])
		if err != nil {
			return nil, err
		}
		if e == nil {
			e = []byte{}
		}
		return &glyf.Glyph{Rect16: box, Data: glyf.SimpleGlyph{NumContours: int16(nc), Encoded: e}}, nil
	case "comp":
		box, err := parseBox(l[1])
		if err != nil {
			return nil, err
		}
		cl, err := vlib.AsList(l[2])
		if err != nil {
			return nil, err
		}
		var comps []glyf.GlyphComponent
		for _, c := range cl {
			t, err := vlib.AsList(c)
			if err != nil || len(t) != 3 {
				return nil, errors.New("bad component")
			}
			f, err1 := vlib.AsInt(t[0])
			gid, err2 := vlib.AsInt(t[1])
			d, err3 := vlib.AsBytes(t[2])
			if err1 != nil || err2 != nil || err3 != nil || f < 0 || f > 65535 || gid < 0 || gid > 65535 {
				return nil, errors.New("bad component fields")
			}
			if d == nil {
				d = []byte{}
			}
			comps = append(comps, glyf.GlyphComponent{Flags: glyf.ComponentFlag(f), GlyphIndex: glyph.ID(gid), Data: d})
		}
		var ins []byte
		if a, ok := l[3].(vlib.Atom); ok && a == "nil" {
			ins = nil
		} else {
			ins, err = vlib.AsBytes(l[3])
			if err != nil {
				return nil, err
			}
			if ins == nil {
				ins = []byte{}
			}
		}
		return &glyf.Glyph{Rect16: box, Data: glyf.CompositeGlyph{Components: comps, Instructions: ins}}, nil
	}
	return nil, errors.New("bad glyph kind")
}

func parseGlyphs(x vlib.Sx) (glyf.Glyphs, error) {
	l, err := vlib.AsList(x)
	if err != nil {
		return nil, err
	}
	gg := make(glyf.Glyphs, len(l))
	for i, y := range l {
		gg[i], err = parseGlyph(y)
		if err != nil {
			return nil, err
		}
	}
	return gg, nil
}

// ---------------------------------------------------------------- guarded calls

func guard(f func()) (panicked bool, msg string) {
	defer func() {
		if e := recover(); e != nil {
			panicked = true
			msg = fmt.Sprint(e)
		}
	}()
	f()
	return false, ""
}

func callEncode(gg glyf.Glyphs) (enc *glyf.Encoded, panicked bool) {
	panicked, _ = guard(func() { enc = gg.Encode() })
	return
}

func callDecode(enc *glyf.Encoded) (gg glyf.Glyphs, err error, panicked bool) {
	panicked, _ = guard(func() { gg, err = glyf.Decode(enc) })
	return
}

func callSimple(nc int16, e []byte) (info *glyf.GlyphInfo, err error, panicked bool) {
	panicked, _ = guard(func() {
		s := glyf.SimpleGlyph{NumContours: nc, Encoded: e}
		info, err = s.Decode()
	})
	return
}

func infoSx(info *glyf.GlyphInfo) vlib.Sx {
	cs := vlib.List{}
	for _, c := range info.Contours {
		pl := vlib.List{}
		for _, p := range c {
			pl = append(pl, vlib.L(vlib.Int(int(p.X)), vlib.Int(int(p.Y)), vlib.Bool(p.OnCurve)))
		}
		cs = append(cs, pl)
	}
	return vlib.L(vlib.Atom("ok"), cs, vlib.Hex(info.Instructions))
}

func encSx(e *glyf.Encoded) vlib.Sx {
	return vlib.L(vlib.Atom("ok"), vlib.Int(int(e.LocaFormat)), vlib.Hex(e.LocaData), vlib.Hex(e.GlyfData))
}

// ---------------------------------------------------------------- independent loca reader

// refLoca reads a loca table as the OpenType specification describes it and
// applies the acceptance conditions of the property: at least two entries,
// offsets non-decreasing and inside the glyf data.
func refLoca(format int, loca []byte, glen int) ([]int, bool) {
	var offs []int
	switch format {
	case 0:
		if len(loca)%2 != 0 || len(loca) < 4 {
			return nil, false
		}
		for i := 0; i+1 < len(loca); i += 2 {
			offs = append(offs, 2*(int(loca[i])*256+int(loca[i+1])))
		}
	case 1:
		if len(loca)%4 != 0 || len(loca) < 8 {
			return nil, false
		}
		for i := 0; i+3 < len(loca); i += 4 {
			offs = append(offs, ((int(loca[i])*256+int(loca[i+1]))*256+int(loca[i+2]))*256+int(loca[i+3]))
		}
	default:
		return nil, false
	}
	for i, o := range offs {
		if o > glen || (i > 0 && o < offs[i-1]) {
			return nil, false
		}
	}
	return offs, true
}

func intsEqual(a, b []int) bool {
	if len(a) != len(b) {
		return false
	}
	for i := range a {
		if a[i] != b[i] {
			return false
		}
	}
	return true
}

// ---------------------------------------------------------------- the cases

// result of one case: the implementation's observation, an oracle failure
// (empty = the property holds on this input), its signature, and what the
// case exercised (for the non-triviality rule and the histogram).
type result struct {
	impl   string
	fail   string
	sig    string
	nt     bool
	labels []string
}

func (r *result) failf(sig, format string, a ...any) {
	if r.fail == "" {
		r.fail = fmt.Sprintf(format, a...)
		r.sig = sig
	}
}

func (r *result) label(l string) { r.labels = append(r.labels, l) }

const maxGlyfLen = 1 << 22

func runLocaEnc(offs []int) (r result) {
	var data []byte
	var format int16
	p, _ := guard(func() { data, format = glyf.VerifC11EncodeLoca(offs) })
	valid := len(offs) >= 1
	for i, o := range offs {
		if o%2 != 0 || o < 0 || o >= 1<<32 || (i > 0 && o < offs[i-1]) {
			valid = false
		}
	}
	if p {
		r.impl = "panic"
		if valid {
			r.failf("c11-loca-encode-panic", "encodeLoca panicked on valid offsets %v", offs)
		}
		r.label("loca-enc:panic")
		return
	}
	r.impl = vlib.Str(vlib.L(vlib.Atom("ok"), vlib.Int(int(format)), vlib.Hex(data)))
	r.label(fmt.Sprintf("loca-enc:fmt%d", format))
	if !valid {
		r.label("loca-enc:invalid-input")
		return
	}
	last := offs[len(offs)-1]
	if format != 0 && format != 1 {
		r.failf("c11-loca-format", "format %d", format)
	}
	if len(offs) >= 2 {
		ref, ok := refLoca(int(format), data, last)
		if !ok || !intsEqual(ref, offs) {
			r.failf("c11-loca-roundtrip", "independent loca reader: %v (ok=%v), want %v", ref, ok, offs)
		}
		var back []int
		var err error
		p, _ := guard(func() {
			back, err = glyf.VerifC11DecodeLoca(&glyf.Encoded{GlyfData: make([]byte, min(last, maxGlyfLen)), LocaData: data, LocaFormat: format})
		})
		if last <= maxGlyfLen && (p || err != nil || !intsEqual(back, offs)) {
			r.failf("c11-loca-roundtrip", "decodeLoca(encodeLoca(%v)) = %v, %v, panic=%v", offs, back, err, p)
		}
		r.nt = len(offs) >= 3
	}
	return
}

func runLocaDec(format int, loca []byte, glen int) (r result) {
	var offs []int
	var err error
	p, _ := guard(func() {
		offs, err = glyf.VerifC11DecodeLoca(&glyf.Encoded{GlyfData: make([]byte, glen), LocaData: loca, LocaFormat: int16(format)})
	})
	ref, refOk := refLoca(format, loca, glen)
	switch {
	case p:
		r.impl = "panic"
		r.failf("c11-loca-decode-panic", "decodeLoca panicked")
	case err != nil:
		r.impl = "err"
		r.label("loca-dec:err")
		if refOk {
			r.failf("c11-loca-decode", "decodeLoca rejects a well-formed table; reference %v", ref)
		}
	default:
		r.impl = vlib.Str(vlib.L(vlib.Atom("ok"), vlib.Ints(offs)))
		r.label(fmt.Sprintf("loca-dec:ok-fmt%d", format))
		if !refOk || !intsEqual(ref, offs) {
			r.failf("c11-loca-decode", "decodeLoca = %v, independent reader = %v (ok=%v)", offs, ref, refOk)
		}
		r.nt = len(offs) >= 3
	}
	return
}

func glyphEqual(a, b *glyf.Glyph) bool { return vlib.Str(glyphSx(a)) == vlib.Str(glyphSx(b)) }

func runDecGlyph(data []byte) (r result) {
	var g *glyf.Glyph
	var err error
	p, _ := guard(func() { g, err = glyf.VerifC11DecodeGlyph(data) })
	switch {
	case p:
		r.impl = "panic"
		r.failf("c11-decodeglyph-panic", "decodeGlyph panicked")
	case err != nil:
		r.impl = "err"
		r.label("dec-glyph:err")
	default:
		r.impl = vlib.Str(vlib.L(vlib.Atom("ok"), glyphSx(g)))
		if g == nil {
			r.label("dec-glyph:nil")
			if len(data) != 0 {
				r.failf("c11-decodeglyph", "nil glyph from %d bytes", len(data))
			}
			return
		}
		// a decoded glyph is in normal form: encoding it and decoding again gives it back
		var back *glyf.Glyph
		var err2 error
		var re []byte
		p, _ := guard(func() {
			re = glyf.VerifC11Append(g, nil)
			back, err2 = glyf.VerifC11DecodeGlyph(re)
		})
		if p || err2 != nil || !glyphEqual(back, g) {
			r.failf("c11-glyph-reencode", "decodeGlyph(append(g)) != g (panic=%v err=%v)", p, err2)
		}
		if len(re)%2 != 0 || glyf.VerifC11EncodeLen(g) != len(re) {
			r.failf("c11-encodelen", "encodeLen %d, appended %d bytes", glyf.VerifC11EncodeLen(g), len(re))
		}
		switch d := g.Data.(type) {
		case glyf.SimpleGlyph:
			r.label("dec-glyph:simple")
			if len(data) < 10+len(d.Encoded) || !bytes.Equal(d.Encoded, data[10:10+len(d.Encoded)]) {
				r.failf("c11-decodeglyph", "Encoded is not a prefix of the glyph body")
			}
			checkSimple(&r, d.NumContours, d.Encoded)
			r.nt = d.NumContours > 0
		case glyf.CompositeGlyph:
			r.label("dec-glyph:composite")
			if d.Instructions != nil {
				r.label("dec-glyph:composite-instr")
			}
			r.nt = true
		}
	}
	return
}

func runRmpad(nc int, e []byte) (r result) {
	var out []byte
	var err error
	p, _ := guard(func() { out, err = glyf.VerifC11RemovePadding(int16(nc), e) })
	switch {
	case p:
		r.impl = "panic"
		r.label("rmpad:panic")
		if nc >= 0 {
			r.failf("c11-removepadding-panic", "removePadding panicked for numContours=%d", nc)
		}
	case err != nil:
		r.impl = "err"
		r.label("rmpad:err")
		// a complete description according to the format must be accepted
		// (and cut at its end) whatever follows it
		if n, ok := specLen(nc, e); ok {
			r.failf("c11-removepadding-rejects", "the first %d of %d bytes are a complete simple-glyph description (%d contours) but removePadding returns an error: %v", n, len(e), nc, err)
		}
	default:
		r.impl = vlib.Str(vlib.L(vlib.Atom("ok"), vlib.Hex(out)))
		r.label("rmpad:ok")
		if n, ok := specLen(nc, e); ok && n != len(out) {
			r.failf("c11-removepadding", "the description occupies %d bytes, removePadding keeps %d", n, len(out))
		}
		if len(out) > len(e) || !bytes.Equal(out, e[:len(out)]) {
			r.failf("c11-removepadding", "result is not a prefix of the input")
			return
		}
		if len(out) < len(e) {
			r.label("rmpad:stripped")
		}
		// exactness: the tight string is a fixed point, and any zero padding is removed again
		for _, pad := range []int{0, 1, 3} {
			in := append(append([]byte{}, out...), make([]byte, pad)...)
			var o2 []byte
			var e2 error
			p2, _ := guard(func() { o2, e2 = glyf.VerifC11RemovePadding(int16(nc), in) })
			if p2 || e2 != nil || !bytes.Equal(o2, out) {
				r.failf("c11-removepadding", "removePadding(tight ++ %d zero bytes) != tight", pad)
			}
		}
		checkSimple(&r, int16(nc), out)
		r.nt = nc > 0
	}
	return
}

// checkSimple: SimpleGlyph.Decode against the independent point decoder.
func checkSimple(r *result, nc int16, e []byte) {
	info, err, p := callSimple(nc, e)
	if p {
		r.failf("c11-simple-decode-panic", "SimpleGlyph.Decode panicked (numContours=%d, %d bytes)", nc, len(e))
		return
	}
	st, cs, ins := specDecode(int(nc), e)
	switch st {
	case specOK:
		if err != nil {
			r.failf("c11-simple-decode-spec", "SimpleGlyph.Decode rejects data the specification decoder reads")
			return
		}
		if !contoursEqual(info.Contours, cs) || !bytes.Equal(info.Instructions, ins) {
			r.failf("c11-simple-decode-spec", "SimpleGlyph.Decode differs from the specification decoder: %s vs %s",
				clip(vlib.Str(infoSx(info))), clip(vlib.Str(infoSx(&glyf.GlyphInfo{Contours: cs, Instructions: ins}))))
		}
	case specInvalid:
		if err == nil {
			r.failf("c11-simple-decode-spec", "SimpleGlyph.Decode accepts truncated/invalid data")
		}
	}
}

func clip(s string) string {
	if len(s) > 400 {
		return s[:400] + "..."
	}
	return s
}

func contoursEqual(a, b []glyf.Contour) bool {
	if len(a) != len(b) {
		return false
	}
	for i := range a {
		if len(a[i]) != len(b[i]) {
			return false
		}
		for j := range a[i] {
			if a[i][j] != b[i][j] {
				return false
			}
		}
	}
	return true
}

func runSimple(nc int, e []byte) (r result) {
	info, err, p := callSimple(int16(nc), e)
	switch {
	case p:
		r.impl = "panic"
		r.label("simple:panic")
	case err != nil:
		r.impl = "err"
		r.label("simple:err")
	default:
		r.impl = vlib.Str(infoSx(info))
		r.label("simple:ok")
		np := 0
		for _, c := range info.Contours {
			np += len(c)
		}
		if nc == 0 {
			r.label("simple:zero-contours")
		}
		r.nt = np > 0
	}
	st, _, _ := specDecode(nc, e)
	r.label("simple:spec-" + st.String())
	checkSimple(&r, int16(nc), e)
	return
}

// checkLocaOfEncoded: loca offsets non-decreasing, even, inside glyf, last =
// |glyf|, in the announced format; glyph i occupies [offs[i], offs[i+1]).
func checkLocaOfEncoded(r *result, gg glyf.Glyphs, enc *glyf.Encoded) []int {
	if enc.LocaFormat != 0 && enc.LocaFormat != 1 {
		r.failf("c11-loca-format", "LocaFormat %d", enc.LocaFormat)
		return nil
	}
	offs, ok := refLoca(int(enc.LocaFormat), enc.LocaData, len(enc.GlyfData))
	if !ok {
		r.failf("c11-loca-wf", "loca of the encoded set is not well-formed (format %d, %d bytes, glyf %d bytes)", enc.LocaFormat, len(enc.LocaData), len(enc.GlyfData))
		return nil
	}
	if len(offs) != len(gg)+1 {
		r.failf("c11-loca-wf", "%d loca entries for %d glyphs", len(offs), len(gg))
		return nil
	}
	for i, o := range offs {
		if o%2 != 0 {
			r.failf("c11-loca-wf", "odd offset %d", o)
		}
		if i < len(gg) && (gg[i] == nil) != (offs[i+1] == o) {
			r.failf("c11-loca-wf", "glyph %d: nil=%v but length %d", i, gg[i] == nil, offs[i+1]-o)
		}
	}
	if offs[0] != 0 || offs[len(offs)-1] != len(enc.GlyfData) {
		r.failf("c11-loca-wf", "first/last offset %d/%d, glyf length %d", offs[0], offs[len(offs)-1], len(enc.GlyfData))
	}
	return offs
}

// runEncode: claimNF = the generator built every glyph in normal form, so
// the round trip must give the set back.
func runEncode(gg glyf.Glyphs, claimNF bool) (r result) {
	enc, p := callEncode(gg)
	if p {
		r.impl = "panic"
		r.failf("c11-encode-panic", "Glyphs.Encode panicked")
		return
	}
	r.impl = vlib.Str(encSx(enc))
	r.label(fmt.Sprintf("encode:loca-fmt%d", enc.LocaFormat))
	for _, g := range gg {
		switch {
		case g == nil:
			r.label("glyph:nil")
		default:
			switch d := g.Data.(type) {
			case glyf.SimpleGlyph:
				r.label("glyph:simple")
				if d.NumContours == 0 {
					r.label("glyph:simple-zero-contours")
				}
				r.nt = true
			case glyf.CompositeGlyph:
				r.label("glyph:composite")
				if d.Instructions != nil {
					r.label("glyph:composite-instr")
				}
				for _, c := range d.Components {
					r.label(fmt.Sprintf("compflags:%02x", int(c.Flags)&0x1c9))
				}
				r.nt = true
			}
		}
	}
	n := len(enc.GlyfData)
	switch {
	case n <= 0xFFFF:
		r.label("size:<=0xFFFF")
	case n <= 0x1FFFE:
		r.label("size:0x10000..0x1FFFE")
	default:
		r.label("size:>0x1FFFE")
	}
	if len(gg) == 0 {
		r.label("encode:empty-set")
		return
	}
	if !claimNF {
		r.label("encode:not-normal-form")
		// only: decoding what was written must not panic
		_, _, p := callDecode(enc)
		if p {
			r.failf("c11-decode-panic", "Decode panicked on the output of Encode")
		}
		return
	}
	checkLocaOfEncoded(&r, gg, enc)
	back, err, p := callDecode(enc)
	if p || err != nil {
		r.failf("c11-roundtrip", "Decode(Encode(gg)): panic=%v err=%v", p, err)
		return
	}
	if len(back) != len(gg) {
		r.failf("c11-roundtrip", "%d glyphs written, %d read", len(gg), len(back))
		return
	}
	for i := range gg {
		if !glyphEqual(gg[i], back[i]) {
			r.failf("c11-roundtrip", "glyph %d: wrote %s read %s", i, clip(vlib.Str(glyphSx(gg[i]))), clip(vlib.Str(glyphSx(back[i]))))
			return
		}
	}
	return
}

func runDecode(format int, loca, glyfData []byte) (r result) {
	enc := &glyf.Encoded{GlyfData: glyfData, LocaData: loca, LocaFormat: int16(format)}
	gg, err, p := callDecode(enc)
	switch {
	case p:
		r.impl = "panic"
		r.failf("c11-decode-panic", "Decode panicked")
	case err != nil:
		r.impl = "err"
		r.label("decode:err")
	default:
		r.impl = vlib.Str(vlib.L(vlib.Atom("ok"), glyphsSx(gg)))
		r.label("decode:ok")
		offs, ok := refLoca(format, loca, len(glyfData))
		if !ok || len(offs) != len(gg)+1 {
			r.failf("c11-decode", "Decode accepted a loca table the independent reader rejects")
			return
		}
		for i, g := range gg {
			if (g == nil) != (offs[i] == offs[i+1]) {
				r.failf("c11-decode", "glyph %d nil=%v, slot length %d", i, g == nil, offs[i+1]-offs[i])
			}
			if g == nil {
				continue
			}
			r.nt = true
			if s, ok := g.Data.(glyf.SimpleGlyph); ok {
				checkSimple(&r, s.NumContours, s.Encoded)
			}
		}
		// decoded sets are in normal form: they survive a further round trip
		enc2, p := callEncode(gg)
		if p {
			r.failf("c11-encode-panic", "Encode panicked on a decoded set")
			return
		}
		back, err, p := callDecode(enc2)
		if p || err != nil || vlib.Str(glyphsSx(back)) != vlib.Str(glyphsSx(gg)) {
			r.failf("c11-roundtrip", "Decode(Encode(Decode(x))) != Decode(x) (panic=%v err=%v)", p, err)
		}
	}
	return
}

func runComps(g *glyf.Glyph) (r result) {
	var ids []glyph.ID
	p, _ := guard(func() { ids = g.Components() })
	if p {
		r.impl = "panic"
		r.failf("c11-components-panic", "Components panicked")
		return
	}
	r.impl = vlib.Str(vlib.Ints(ids))
	var want []glyph.ID
	if g != nil {
		if c, ok := g.Data.(glyf.CompositeGlyph); ok {
			for _, comp := range c.Components {
				want = append(want, comp.GlyphIndex)
			}
			r.nt = true
		}
	}
	if vlib.Str(vlib.Ints(want)) != r.impl {
		r.failf("c11-components", "Components = %s, want %s", r.impl, vlib.Str(vlib.Ints(want)))
	}
	r.label("comps")
	return
}

func runFix(m map[glyph.ID]glyph.ID, g *glyf.Glyph) (r result) {
	before := vlib.Str(glyphSx(g))
	var g2 *glyf.Glyph
	p, _ := guard(func() { g2 = g.FixComponents(m) })
	if p {
		r.impl = "panic"
		r.failf("c11-components-panic", "FixComponents panicked")
		return
	}
	r.impl = vlib.Str(glyphSx(g2))
	r.label("fix")
	if vlib.Str(glyphSx(g)) != before {
		r.failf("c11-fixcomponents", "FixComponents modified its receiver")
	}
	// expected: the same glyph with every GlyphIndex looked up in the map
	want, _ := parseGlyph(glyphSx(g))
	if want != nil {
		if c, ok := want.Data.(glyf.CompositeGlyph); ok {
			for i := range c.Components {
				c.Components[i].GlyphIndex = m[c.Components[i].GlyphIndex]
			}
			r.nt = true
		}
	}
	if vlib.Str(glyphSx(want)) != r.impl {
		r.failf("c11-fixcomponents", "FixComponents = %s, want %s", clip(r.impl), clip(vlib.Str(glyphSx(want))))
	}
	var a, b []glyph.ID
	guard(func() { a = g2.Components(); b = g.Components() })
	if len(a) != len(b) {
		r.failf("c11-fixcomponents", "component count changed")
	} else {
		for i := range a {
			if a[i] != m[b[i]] {
				r.failf("c11-fixcomponents", "component %d: %d, want newGid[%d]=%d", i, a[i], b[i], m[b[i]])
			}
		}
	}
	return
}

// ---------------------------------------------------------------- case lines

func runLine(line string) (r result, err error) {
	items, err := vlib.Parse(line)
	if err != nil {
		return r, err
	}
	if len(items) == 0 {
		return r, errors.New("empty case")
	}
	kind, err := vlib.AsAtom(items[0])
	if err != nil {
		return r, err
	}
	bad := errors.New("C11 case: bad arguments for " + kind)
	switch kind {
	case "loca-enc":
		if len(items) != 2 {
			return r, bad
		}
		l, err := vlib.AsList(items[1])
		if err != nil {
			return r, err
		}
		offs := make([]int, len(l))
		for i, x := range l {
			v, err := vlib.AsI64(x)
			if err != nil || v < 0 {
				return r, bad
			}
			offs[i] = int(v)
		}
		return runLocaEnc(offs), nil
	case "loca-dec":
		if len(items) != 4 {
			return r, bad
		}
		f, err1 := vlib.AsInt(items[1])
		loca, err2 := vlib.AsBytes(items[2])
		glen, err3 := vlib.AsInt(items[3])
		if err1 != nil || err2 != nil || err3 != nil || glen < 0 || glen > maxGlyfLen || f < -32768 || f > 32767 {
			return r, bad
		}
		return runLocaDec(f, loca, glen), nil
	case "dec-glyph":
		if len(items) != 2 {
			return r, bad
		}
		d, err := vlib.AsBytes(items[1])
		if err != nil {
			return r, err
		}
		return runDecGlyph(d), nil
	case "rmpad", "simple":
		if len(items) != 3 {
			return r, bad
		}
		nc, err1 := vlib.AsInt(items[1])
		e, err2 := vlib.AsBytes(items[2])
		if err1 != nil || err2 != nil || nc < -32768 || nc > 32767 {
			return r, bad
		}
		if kind == "rmpad" {
			return runRmpad(nc, e), nil
		}
		return runSimple(nc, e), nil
	case "decode":
		if len(items) != 4 {
			return r, bad
		}
		f, err1 := vlib.AsInt(items[1])
		loca, err2 := vlib.AsBytes(items[2])
		gl, err3 := vlib.AsBytes(items[3])
		if err1 != nil || err2 != nil || err3 != nil || f < -32768 || f > 32767 {
			return r, bad
		}
		return runDecode(f, loca, gl), nil
	case "encode", "encode-any":
		if len(items) != 2 {
			return r, bad
		}
		gg, err := parseGlyphs(items[1])
		if err != nil {
			return r, err
		}
		return runEncode(gg, kind == "encode"), nil
	case "!ximage-goregular":
		if len(items) != 2 {
			return r, bad
		}
		gid, err := vlib.AsInt(items[1])
		if err != nil {
			return r, err
		}
		return runXImage(gid), nil
	case "comps":
		if len(items) != 2 {
			return r, bad
		}
		g, err := parseGlyph(items[1])
		if err != nil {
			return r, err
		}
		return runComps(g), nil
	case "fix":
		if len(items) != 3 {
			return r, bad
		}
		ml, err := vlib.AsList(items[1])
		if err != nil {
			return r, err
		}
		m := map[glyph.ID]glyph.ID{}
		seen := map[int]bool{}
		for _, x := range ml {
			kv, err := vlib.AsInts(x)
			if err != nil || len(kv) != 2 || kv[0] < 0 || kv[0] > 65535 || kv[1] < 0 || kv[1] > 65535 || seen[kv[0]] {
				return r, bad
			}
			seen[kv[0]] = true
			m[glyph.ID(kv[0])] = glyph.ID(kv[1])
		}
		g, err := parseGlyph(items[2])
		if err != nil {
			return r, err
		}
		return runFix(m, g), nil
	}
	return r, errors.New("C11 case: unknown kind " + kind)
}

// RunCase re-executes one case line (corpus entries and replays).
func RunCase(line string) (impl, fail, sig string, err error) {
	r, err := runLine(line)
	if err != nil {
		return "", "", "", err
	}
	return r.impl, r.fail, r.sig, nil
}
