package c11

import (
	"strconv"
	"bytes"
	"fmt"

	"seehuhn.de/go/postscript/funit"
	"seehuhn.de/go/sfnt/glyf"
	"seehuhn.de/go/sfnt/glyph"
	"seehuhn.de/go/sfnt/verifharness/vlib"
)

type gen struct {
	run  *vlib.Run
	r    *vlib.Rand
	tier string
}

// add runs one case line through the same code RunCase uses and records it.
func (g *gen) add(line string, extra ...string) result {
	res, err := runLine(line)
	if err != nil {
		// a generator bug: make it visible as a failure of the run
		idx := g.run.Add("!"+line, "harness-error", false, "harness-error")
		g.run.Fail(idx, line, "generator produced an unparsable case: "+err.Error(), "c11-harness-selfcheck")
		return res
	}
	idx := g.run.Add(line, res.impl, res.nt, append(res.labels, extra...)...)
	if res.fail != "" {
		g.run.Fail(idx, line, res.fail, res.sig)
	}
	return res
}

func (g *gen) selfcheck(line, detail string) {
	idx := g.run.Add("!"+line, "harness-error", false, "harness-error")
	g.run.Fail(idx, line, detail, "c11-harness-selfcheck")
}

var boundary16 = []int{0, 1, -1, 255, 256, -255, -256, 32767, -32768, 127, 128}

func (g *gen) int16() int {
	if g.r.Chance(1, 3) {
		return vlib.Pick(g.r, boundary16)
	}
	return g.r.Range(-32768, 32767)
}

func (g *gen) box() funit.Rect16 {
	return funit.Rect16{LLx: funit.Int16(g.int16()), LLy: funit.Int16(g.int16()), URx: funit.Int16(g.int16()), URy: funit.Int16(g.int16())}
}

// contours with consecutive differences inside int16
func (g *gen) contours() []glyf.Contour {
	r := g.r
	nc := r.Intn(5)
	if r.Chance(1, 12) {
		nc = r.Range(5, 24)
	}
	mode := r.Intn(5)
	x, y := 0, 0
	step := func(v int) int {
		switch mode {
		case 0: // small deltas: short vectors, many zero deltas
			return v + vlib.Pick(r, []int{0, 0, 0, 1, -1, 7, -7, 255, -255, 256, -256, 100})
		case 1: // large
			return r.Range(-16383, 16383)
		case 2: // near the top of the range
			return 32767 - r.Intn(300)
		case 3: // near the bottom (first step from 0 is within int16)
			return -32768 + r.Intn(300)
		}
		if r.Bool() { // runs of identical points: long flag repeats
			return v
		}
		return v + r.Range(-300, 300)
	}
	cs := make([]glyf.Contour, nc)
	for i := range cs {
		np := r.Range(1, 8)
		if r.Chance(1, 20) {
			np = r.Range(250, 600) // repeat counts up to and beyond 255
		}
		c := make(glyf.Contour, np)
		for j := range c {
			nx, ny := step(x), step(y)
			if nx-x > 32767 || nx-x < -32768 {
				nx = x
			}
			if ny-y > 32767 || ny-y < -32768 {
				ny = y
			}
			if nx > 32767 || nx < -32768 {
				nx = x
			}
			if ny > 32767 || ny < -32768 {
				ny = y
			}
			x, y = nx, ny
			c[j] = glyf.Point{X: funit.Int16(x), Y: funit.Int16(y), OnCurve: r.Bool()}
		}
		cs[i] = c
	}
	return cs
}

func (g *gen) instructions() []byte {
	switch g.r.Intn(4) {
	case 0:
		return []byte{}
	case 1:
		return g.r.Bytes(g.r.Range(1, 9))
	case 2:
		return g.r.Bytes(g.r.Range(10, 300))
	}
	return g.r.Bytes(g.r.Range(0, 3))
}

// a simple glyph in normal form (tight Encoded), with the contours it encodes
func (g *gen) simple() (*glyf.Glyph, []glyf.Contour, []byte) {
	cs := g.contours()
	ins := g.instructions()
	e := specEncode(g.r, cs, ins)
	return &glyf.Glyph{Rect16: g.box(), Data: glyf.SimpleGlyph{NumContours: int16(len(cs)), Encoded: e}}, cs, ins
}

// argument/transform sizes as the OpenType specification gives them; when
// several transform bits are set (outside the specification) the first of
// scale, x-and-y-scale, two-by-two counts.
func compDataLen(flags int) int {
	n := 2
	if flags&0x0001 != 0 {
		n = 4
	}
	switch {
	case flags&0x0008 != 0:
		n += 2
	case flags&0x0040 != 0:
		n += 4
	case flags&0x0080 != 0:
		n += 8
	}
	return n
}

// the 32 combinations of the flag bits that decide sizes / instructions
func comboFlags(combo int) int {
	f := 0
	for i, bit := range []int{0x0001, 0x0008, 0x0040, 0x0080, 0x0100} {
		if combo>>i&1 == 1 {
			f |= bit
		}
	}
	return f
}

// a composite glyph in normal form; combo < 0 = random flags
func (g *gen) composite(combo int) *glyf.Glyph {
	r := g.r
	k := r.Range(1, 4)
	if r.Chance(1, 15) {
		k = r.Range(5, 20)
	}
	comps := make([]glyf.GlyphComponent, k)
	haveInstr := false
	for i := range comps {
		f := comboFlags(r.Intn(32))
		if combo >= 0 && i == 0 {
			f = comboFlags(combo)
		}
		for _, bit := range []int{0x0002, 0x0004, 0x0200, 0x0400, 0x0800, 0x1000} {
			if r.Chance(1, 3) {
				f |= bit
			}
		}
		if r.Chance(1, 10) {
			f |= vlib.Pick(r, []int{0x0010, 0x2000, 0x4000, 0x8000, 0xE010})
		}
		if i+1 < k {
			f |= 0x0020
		}
		if f&0x0100 != 0 {
			haveInstr = true
		}
		gid := r.Intn(65536)
		if r.Chance(1, 4) {
			gid = vlib.Pick(r, []int{0, 1, 255, 256, 65535})
		}
		comps[i] = glyf.GlyphComponent{Flags: glyf.ComponentFlag(f), GlyphIndex: glyph.ID(gid), Data: r.Bytes(compDataLen(f))}
	}
	var ins []byte
	if haveInstr && r.Chance(3, 4) {
		ins = g.instructions()
	}
	return &glyf.Glyph{Rect16: g.box(), Data: glyf.CompositeGlyph{Components: comps, Instructions: ins}}
}

// glyphs that are not in normal form (Encode must still work, Decode of the
// output must not panic; no round trip is claimed)
func (g *gen) abnormal() *glyf.Glyph {
	r := g.r
	switch r.Intn(6) {
	case 0: // trailing bytes inside Encoded
		gl, _, _ := g.simple()
		s := gl.Data.(glyf.SimpleGlyph)
		s.Encoded = append(append([]byte{}, s.Encoded...), r.Bytes(r.Range(1, 4))...)
		gl.Data = s
		return gl
	case 1: // random body
		return &glyf.Glyph{Rect16: g.box(), Data: glyf.SimpleGlyph{NumContours: int16(r.Range(-2, 3)), Encoded: r.Bytes(r.Intn(12))}}
	case 2: // MORE_COMPONENTS on the last component / missing on an inner one
		gl := g.composite(-1)
		c := gl.Data.(glyf.CompositeGlyph)
		i := r.Intn(len(c.Components))
		c.Components[i].Flags ^= 0x0020
		return gl
	case 3: // argument data of the wrong length
		gl := g.composite(-1)
		c := gl.Data.(glyf.CompositeGlyph)
		i := r.Intn(len(c.Components))
		c.Components[i].Data = r.Bytes(r.Intn(12))
		return gl
	case 4: // instructions without WE_HAVE_INSTRUCTIONS
		gl := g.composite(-1)
		c := gl.Data.(glyf.CompositeGlyph)
		for i := range c.Components {
			c.Components[i].Flags &^= 0x0100
		}
		c.Instructions = r.Bytes(r.Range(0, 5))
		gl.Data = c
		return gl
	}
	// no components at all
	return &glyf.Glyph{Rect16: g.box(), Data: glyf.CompositeGlyph{Instructions: nil}}
}

func encodeLine(kind string, gg glyf.Glyphs) string {
	return vlib.Line(vlib.Atom(kind), glyphsSx(gg))
}

func decodeLine(format int, loca, glyfData []byte) string {
	return vlib.Line(vlib.Atom("decode"), vlib.Int(format), vlib.Hex(loca), vlib.Hex(glyfData))
}

// everything derived from one glyph set
func (g *gen) set(gg glyf.Glyphs, nf bool, mutants int, tag string) {
	kind := "encode"
	if !nf {
		kind = "encode-any"
	}
	g.add(encodeLine(kind, gg), "set:"+tag)
	enc, p := callEncode(gg)
	if p || enc == nil {
		return
	}
	g.add(decodeLine(int(enc.LocaFormat), enc.LocaData, enc.GlyfData), "decode:of-encoded")
	g.simplesOf(enc, 12)
	if len(enc.GlyfData) > 4096 {
		mutants = min(mutants, 2)
	}
	for i := 0; i < mutants; i++ {
		g.mutant(enc)
	}
}

func (g *gen) mutant(enc *glyf.Encoded) {
	r := g.r
	gl := append([]byte{}, enc.GlyfData...)
	lo := append([]byte{}, enc.LocaData...)
	f := int(enc.LocaFormat)
	tag := ""
	switch r.Intn(8) {
	case 0, 1, 2: // one glyf byte
		if len(gl) > 0 {
			gl[r.Intn(len(gl))] = byte(r.Uint64())
		}
		tag = "glyf-byte"
	case 3: // one glyf bit in the first 16 bytes of a glyph
		if len(gl) > 0 {
			gl[r.Intn(min(len(gl), 16))] ^= 1 << r.Intn(8)
		}
		tag = "glyf-head-bit"
	case 4: // one loca byte
		if len(lo) > 0 {
			lo[r.Intn(len(lo))] = byte(r.Uint64())
		}
		tag = "loca-byte"
	case 5: // truncate glyf
		if len(gl) > 0 {
			gl = gl[:r.Intn(len(gl))]
		}
		tag = "glyf-truncated"
	case 6: // truncate / extend loca
		if r.Bool() && len(lo) > 0 {
			lo = lo[:r.Intn(len(lo))]
		} else {
			lo = append(lo, r.Bytes(r.Range(1, 4))...)
		}
		tag = "loca-length"
	case 7: // wrong format
		f = vlib.Pick(r, []int{1 - f, 2, -1})
		tag = "loca-format"
	}
	g.add(decodeLine(f, lo, gl), "mutant:"+tag)
	g.simplesOf(&glyf.Encoded{GlyfData: gl, LocaData: lo, LocaFormat: int16(f)}, 6)
}

// SimpleGlyph.Decode on the simple glyphs glyf.Decode returns for enc
func (g *gen) simplesOf(enc *glyf.Encoded, limit int) {
	gg, err, p := callDecode(enc)
	if err != nil || p {
		return
	}
	n := 0
	for _, gl := range gg {
		if gl == nil {
			continue
		}
		if s, ok := gl.Data.(glyf.SimpleGlyph); ok {
			if len(s.Encoded) > 4096 {
				continue
			}
			g.add(simpleLine(int(s.NumContours), s.Encoded), "simple:decoded-by-Decode")
			if n++; n >= limit {
				return
			}
		}
	}
}

func simpleLine(nc int, e []byte) string {
	return vlib.Line(vlib.Atom("simple"), vlib.Int(nc), vlib.Hex(e))
}

// one simple glyph built by the specification encoder: SimpleGlyph.Decode must
// return exactly the points that were encoded
func (g *gen) simpleCases() {
	r := g.r
	gl, cs, ins := g.simple()
	s := gl.Data.(glyf.SimpleGlyph)
	line := simpleLine(int(s.NumContours), s.Encoded)
	st, back, bins := specDecode(int(s.NumContours), s.Encoded)
	if st != specOK || !contoursEqual(back, cs) || !bytes.Equal(bins, ins) {
		g.selfcheck(line, "specification decoder does not read back what the specification encoder wrote")
		return
	}
	g.add(line, "simple:generated")
	// a simple glyph and the nil glyph have no components, and FixComponents
	// hands them back unchanged
	ml := vlib.List{vlib.L(vlib.Int(r.Intn(65536)), vlib.Int(r.Intn(65536)))}
	g.add(vlib.Line(vlib.Atom("comps"), glyphSx(gl)), "comps:simple")
	g.add(vlib.Line(vlib.Atom("fix"), ml, glyphSx(gl)), "fix:simple")
	g.add(vlib.Line(vlib.Atom("comps"), glyphSx(nil)), "comps:nil")
	g.add(vlib.Line(vlib.Atom("fix"), ml, glyphSx(nil)), "fix:nil")
	// tight + padding through removePadding
	pad := r.Intn(4)
	padded := append(append([]byte{}, s.Encoded...), make([]byte, pad)...)
	if r.Chance(1, 4) {
		padded = append(append([]byte{}, s.Encoded...), r.Bytes(r.Range(1, 3))...)
	}
	g.add(vlib.Line(vlib.Atom("rmpad"), vlib.Int(int(s.NumContours)), vlib.Hex(padded)), "rmpad:generated")
	// the whole glyph record through decodeGlyph, with padding
	rec := glyf.VerifC11Append(gl, nil)
	rec = append(rec, make([]byte, r.Intn(3))...)
	g.add(vlib.Line(vlib.Atom("dec-glyph"), vlib.Hex(rec)), "dec-glyph:generated")
	// mutations of the body
	nm := vlib.Count(g.tier, 3, 6)
	for i := 0; i < nm; i++ {
		e := append([]byte{}, s.Encoded...)
		nc := int(s.NumContours)
		switch r.Intn(6) {
		case 0, 1:
			if len(e) > 0 {
				e[r.Intn(len(e))] = byte(r.Uint64())
			}
		case 2:
			if len(e) > 0 {
				e[r.Intn(len(e))] ^= 1 << r.Intn(8)
			}
		case 3:
			if len(e) > 0 {
				e = e[:r.Intn(len(e))]
			}
		case 4:
			nc += r.Range(-2, 2)
		case 5: // end points: swap / duplicate
			if nc >= 2 {
				i := 2 * r.Intn(nc-1)
				if r.Bool() {
					e[i], e[i+1], e[i+2], e[i+3] = e[i+2], e[i+3], e[i], e[i+1]
				} else {
					e[i+2], e[i+3] = e[i], e[i+1]
				}
			}
		}
		g.add(simpleLine(nc, e), "simple:mutated")
		if nc >= 0 && r.Bool() {
			g.add(vlib.Line(vlib.Atom("rmpad"), vlib.Int(nc), vlib.Hex(e)), "rmpad:mutated")
		}
		if r.Chance(1, 3) {
			rec := append(append([]byte{byte(nc >> 8), byte(nc)}, r.Bytes(8)...), e...)
			g.add(vlib.Line(vlib.Atom("dec-glyph"), vlib.Hex(rec)), "dec-glyph:mutated")
		}
	}
}

func (g *gen) compositeCases(combo int) {
	r := g.r
	gl := g.composite(combo)
	rec := glyf.VerifC11Append(gl, nil)
	g.add(vlib.Line(vlib.Atom("dec-glyph"), vlib.Hex(rec)), "dec-glyph:generated")
	g.add(vlib.Line(vlib.Atom("comps"), glyphSx(gl)))
	// a map covering some of the components
	c := gl.Data.(glyf.CompositeGlyph)
	ml := vlib.List{}
	seen := map[int]bool{}
	for _, comp := range c.Components {
		k := int(comp.GlyphIndex)
		if r.Chance(1, 4) {
			k = r.Intn(65536)
		}
		if !seen[k] {
			seen[k] = true
			ml = append(ml, vlib.L(vlib.Int(k), vlib.Int(r.Intn(65536))))
		}
	}
	g.add(vlib.Line(vlib.Atom("fix"), ml, glyphSx(gl)))
	nm := vlib.Count(g.tier, 2, 5)
	for i := 0; i < nm; i++ {
		e := append([]byte{}, rec...)
		switch r.Intn(4) {
		case 0:
			e[r.Intn(len(e))] = byte(r.Uint64())
		case 1:
			e[10+r.Intn(2)] ^= 1 << r.Intn(8) // a flag bit of the first component
		case 2:
			e = e[:r.Intn(len(e))]
		case 3:
			e = append(e, r.Bytes(r.Range(1, 6))...)
		}
		g.add(vlib.Line(vlib.Atom("dec-glyph"), vlib.Hex(e)), "dec-glyph:mutated")
	}
}

func (g *gen) locaCases(n int) {
	r := g.r
	// explicit boundaries of the format decision and of the 32-bit field
	fixed := [][]int{
		{}, {0}, {0, 0}, {0, 2}, {2, 0}, {0, 1}, {0, 3, 4}, {4, 4, 4},
		{0, 65534}, {0, 65535}, {0, 65536}, {0, 65534, 65536}, {0, 131070}, {0, 131072},
		{0, 0x1FFFE}, {0, 0x20000}, {0, 1 << 24}, {0, 1<<32 - 2}, {0, 1 << 32}, {0, 1<<32 + 2},
		{65536}, {65534}, {10, 20, 30}, {0, 10, 8, 20},
	}
	for _, offs := range fixed {
		g.add(vlib.Line(vlib.Atom("loca-enc"), vlib.Ints(offs)), "loca:boundary")
	}
	for i := 0; i < n; i++ {
		k := r.Range(1, 12)
		offs := make([]int, k)
		cur := 0
		big := r.Chance(1, 4)
		for j := range offs {
			offs[j] = cur
			step := 2 * r.Intn(40)
			if big {
				step = 2 * r.Intn(30000)
			}
			if r.Chance(1, 4) {
				step = 0
			}
			cur += step
		}
		if r.Chance(1, 10) { // out of the valid domain
			j := r.Intn(k)
			if r.Bool() {
				offs[j]++
			} else {
				offs[j] = r.Intn(100)
			}
		}
		g.add(vlib.Line(vlib.Atom("loca-enc"), vlib.Ints(offs)), "loca:random")
		// the encoded table and mutations of it through decodeLoca
		var data []byte
		var f int16
		if p, _ := guard(func() { data, f = glyf.VerifC11EncodeLoca(offs) }); p {
			continue
		}
		glen := offs[k-1]
		if glen > maxGlyfLen {
			continue
		}
		g.add(vlib.Line(vlib.Atom("loca-dec"), vlib.Int(int(f)), vlib.Hex(data), vlib.Int(glen)), "loca-dec:of-encoded")
		for m := 0; m < 3; m++ {
			d := append([]byte{}, data...)
			ff, gl := int(f), glen
			switch r.Intn(5) {
			case 0:
				d[r.Intn(len(d))] = byte(r.Uint64())
			case 1:
				d = d[:r.Intn(len(d)+1)]
			case 2:
				gl = max(0, gl+vlib.Pick(r, []int{-2, -1, 1, 2}))
			case 3:
				ff = vlib.Pick(r, []int{0, 1, 2, -1, 256})
			case 4:
				d = append(d, r.Bytes(r.Range(1, 4))...)
			}
			g.add(vlib.Line(vlib.Atom("loca-dec"), vlib.Int(ff), vlib.Hex(d), vlib.Int(gl)), "loca-dec:mutated")
		}
	}
	// table lengths 0..9 for both formats
	for l := 0; l <= 9; l++ {
		for _, f := range []int{0, 1} {
			g.add(vlib.Line(vlib.Atom("loca-dec"), vlib.Int(f), vlib.Hex(make([]byte, l)), vlib.Int(0)), "loca-dec:length")
		}
	}
}

// a glyph whose encoding has exactly size bytes (size even, 12 <= size <= 65546)
func (g *gen) filler(size int) *glyf.Glyph {
	il := size - 12
	if il > 65535 {
		il = 65535
	}
	ins := g.r.Bytes(il)
	e := append([]byte{byte(il >> 8), byte(il)}, ins...)
	return &glyf.Glyph{Rect16: g.box(), Data: glyf.SimpleGlyph{NumContours: 0, Encoded: e}}
}

// sets whose total size sits at the loca format boundaries
func (g *gen) boundarySets(targets []int) {
	for _, target := range targets {
		var gg glyf.Glyphs
		total := 0
		gg = append(gg, nil)
		sg, _, _ := g.simple()
		gg = append(gg, sg)
		total += glyf.VerifC11EncodeLen(sg)
		cg := g.composite(-1)
		gg = append(gg, cg, nil)
		total += glyf.VerifC11EncodeLen(cg)
		for total < target {
			sz := target - total
			if sz > 65000 {
				sz = 65000
			}
			if sz < 12 {
				break
			}
			f := g.filler(sz)
			gg = append(gg, f)
			total += glyf.VerifC11EncodeLen(f)
		}
		gg = append(gg, nil)
		g.set(gg, true, 1, fmt.Sprintf("boundary-%d(got %d)", target, total))
	}
}

func (g *gen) realFont() {
	f := loadGoRegular()
	if f.err != nil {
		g.selfcheck("goregular", f.err.Error())
		return
	}
	g.add(decodeLine(f.format, f.loca, f.glyf), "real:goregular")
	if f.decErr != nil {
		g.add(vlib.Line(vlib.Atom("!ximage-goregular"), vlib.Int(0)), "real:goregular-ximage")
		return
	}
	gg := f.glyphs
	g.add(encodeLine("encode", gg), "real:goregular")
	step := vlib.Count(g.tier, 4, 1)
	for i := 0; i < len(gg); i++ {
		// oracle-only: golang.org/x/image reads the same glyph
		g.add(vlib.Line(vlib.Atom("!ximage-goregular"), vlib.Int(i)), "real:goregular-ximage")
		if gg[i] == nil || i%step != 0 {
			continue
		}
		switch d := gg[i].Data.(type) {
		case glyf.SimpleGlyph:
			g.add(simpleLine(int(d.NumContours), d.Encoded), "real:goregular-simple")
		case glyf.CompositeGlyph:
			g.add(vlib.Line(vlib.Atom("comps"), glyphSx(gg[i])), "real:goregular-composite")
		}
	}
}

// encodeForms writes a simple glyph from per-point deltas with the encoding
// form of every coordinate fixed by the caller (0 = same as previous, needs
// delta 0; 1 = short vector, needs |delta| <= 255; 2 = 16-bit delta) and the
// flag array compressed maximally: every run of identical flag bytes becomes
// one flag byte with REPEAT and a count of up to 255.
type dpoint struct {
	dx, dy int
	fx, fy int
	on     bool
}

func encodeForms(dps []dpoint, ends []int, ins []byte) ([]byte, []glyf.Contour) {
	var out []byte
	for _, e := range ends {
		out = append(out, byte(e>>8), byte(e))
	}
	out = append(out, byte(len(ins)>>8), byte(len(ins)))
	out = append(out, ins...)
	flags := make([]byte, len(dps))
	var xb, yb []byte
	one := func(d, form int, short, same byte, buf *[]byte) byte {
		switch form {
		case 0:
			return same
		case 1:
			f := short
			if d >= 0 {
				f |= same
			} else {
				d = -d
			}
			*buf = append(*buf, byte(d))
			return f
		}
		*buf = append(*buf, byte(uint16(int16(d))>>8), byte(uint16(int16(d))))
		return 0
	}
	pts := make([]glyf.Point, len(dps))
	x, y := 0, 0
	for i, p := range dps {
		var f byte
		if p.on {
			f = 0x01
		}
		f |= one(p.dx, p.fx, 0x02, 0x10, &xb)
		f |= one(p.dy, p.fy, 0x04, 0x20, &yb)
		flags[i] = f
		x += p.dx
		y += p.dy
		pts[i] = glyf.Point{X: funit.Int16(x), Y: funit.Int16(y), OnCurve: p.on}
	}
	for i := 0; i < len(flags); {
		j := i + 1
		for j < len(flags) && flags[j] == flags[i] && j-i < 256 {
			j++
		}
		if j-i == 1 {
			out = append(out, flags[i])
		} else {
			out = append(out, flags[i]|0x08, byte(j-i-1))
		}
		i = j
	}
	out = append(out, xb...)
	out = append(out, yb...)
	cs := make([]glyf.Contour, len(ends))
	start := 0
	for i, e := range ends {
		cs[i] = append(glyf.Contour{}, pts[start:e+1]...)
		start = e + 1
	}
	return out, cs
}

// directed stream: long runs of identical flag bytes, so that the flag array
// carries repeat counts 253, 254, 255 (and 255 followed by a further run)
func (g *gen) repeatRuns() {
	type form struct {
		name   string
		fx, fy int
		dx, dy func(i int) int
	}
	zero := func(int) int { return 0 }
	forms := []form{
		{"same-same", 0, 0, zero, zero},
		{"shortpos-same", 1, 0, func(int) int { return 1 }, zero},
		{"long-shortneg", 2, 1, func(i int) int { return 300 - 600*(i&1) }, func(int) int { return -1 }},
		{"same-long", 0, 2, zero, func(i int) int { return 1000 - 2000*(i&1) }},
	}
	other := []dpoint{{dx: 5, dy: -7, fx: 1, fy: 1, on: true}, {dx: 400, dy: 0, fx: 2, fy: 0, on: false}, {dx: 0, dy: 3, fx: 1, fy: 2, on: true}}
	for _, run := range []int{254, 255, 256, 257, 300, 511, 512, 513, 600} {
		for _, fm := range forms {
			for _, on := range []bool{true, false} {
				for pos := 0; pos < 3; pos++ { // run first / in the middle / last
					for _, multi := range []bool{false, true} {
						var dps []dpoint
						if pos > 0 {
							dps = append(dps, other...)
						}
						for i := 0; i < run; i++ {
							dps = append(dps, dpoint{dx: fm.dx(i), dy: fm.dy(i), fx: fm.fx, fy: fm.fy, on: on})
						}
						if pos < 2 {
							dps = append(dps, other...)
						}
						n := len(dps)
						ends := []int{n - 1}
						if multi {
							ends = []int{1, n / 2, n - 2, n - 1}
						}
						var ins []byte
						if run%2 == 1 {
							ins = []byte{0xb0, 0x01}
						}
						e, cs := encodeForms(dps, ends, ins)
						line := simpleLine(len(ends), e)
						st, back, bins := specDecode(len(ends), e)
						if st != specOK || !contoursEqual(back, cs) || !bytes.Equal(bins, ins) {
							g.selfcheck(line, "specification decoder does not read back the directed repeat-run glyph")
							continue
						}
						lab := fmt.Sprintf("repeat-run:%s", fm.name)
						g.add(line, "simple:repeat-run", lab, fmt.Sprintf("repeat-run:len%d", run))
						padded := append(append([]byte{}, e...), 0)
						g.add(vlib.Line(vlib.Atom("rmpad"), vlib.Int(len(ends)), vlib.Hex(padded)), "rmpad:repeat-run")
					}
				}
			}
		}
	}
}

// Gen writes the run for the given tier.
func Gen(run *vlib.Run, seed uint64, tier string) {
	run.Rule = "case = one call of encodeLoca/decodeLoca/decodeGlyph/removePadding/Glyphs.Encode/glyf.Decode/SimpleGlyph.Decode/Components/FixComponents; " +
		"non-trivial = accepted by the implementation and involving a simple glyph, a composite glyph, a decoded point, or (loca) at least three offsets; distinct by case line"
	root := vlib.NewRand(seed)
	g := &gen{run: run, tier: tier}

	// loca
	g.r = root.Fork("loca")
	g.locaCases(vlib.Count(tier, 150, 10000))

	// single glyphs: simple (specification encoder) and composite (all 32 size combinations)
	g.r = root.Fork("simple")
	for i, n := 0, vlib.Count(tier, 250, 20000); i < n; i++ {
		g.simpleCases()
	}
	g.r = root.Fork("composite")
	for rep, n := 0, vlib.Count(tier, 3, 150); rep < n; rep++ {
		for combo := 0; combo < 32; combo++ {
			g.compositeCases(combo)
		}
	}

	// directed: repeat counts 253..255 in the flag array
	g.repeatRuns()

	// exhaustive: every flag byte on one- and two-point glyphs (all short/long/
	// same/repeat combinations), with enough and with too few coordinate bytes
	for f := 0; f < 256; f++ {
		for _, np := range []int{1, 2} {
			for _, tail := range [][]byte{{1, 2, 3, 4, 250, 6, 7, 8, 9}, {0, 200}, {}} {
				e := append([]byte{0, byte(np - 1), 0, 0, byte(f)}, tail...)
				g.add(simpleLine(1, e), "simple:exhaustive-flag")
				g.add(vlib.Line(vlib.Atom("rmpad"), vlib.Int(1), vlib.Hex(e)), "rmpad:exhaustive-flag")
			}
		}
	}
	// exhaustive: every component flag word (thorough) / every combination of
	// the low 9 bits (quick) on a one-component record with 14 bytes following
	nflags := vlib.Count(tier, 512, 65536)
	for f := 0; f < nflags; f++ {
		rec := []byte{0xff, 0xff, 0, 1, 0, 2, 0, 3, 0, 4, byte(f >> 8), byte(f), 0, 7,
			1, 2, 3, 4, 5, 6, 7, 8, 9, 10, 11, 12, 0, 2, 13, 14}
		g.add(vlib.Line(vlib.Atom("dec-glyph"), vlib.Hex(rec)), "dec-glyph:exhaustive-compflags")
	}

	// glyph sets
	g.r = root.Fork("sets")
	for i, n := 0, vlib.Count(tier, 150, 12000); i < n; i++ {
		r := g.r
		k := r.Range(1, 10)
		if r.Chance(1, 25) {
			k = r.Range(50, 300)
		}
		nf := !r.Chance(1, 6)
		gg := make(glyf.Glyphs, k)
		pnil := r.Intn(4)
		for j := range gg {
			switch {
			case r.Intn(6) < pnil:
				gg[j] = nil
			case !nf && r.Chance(1, 3):
				gg[j] = g.abnormal()
			case r.Bool():
				gg[j], _, _ = g.simple()
			default:
				gg[j] = g.composite(-1)
			}
		}
		tag := "normal-form"
		if !nf {
			tag = "with-abnormal-glyphs"
		}
		g.set(gg, nf, vlib.Count(tier, 4, 8), tag)
	}
	// fixed small sets
	g.set(glyf.Glyphs{}, false, 0, "empty")
	g.set(glyf.Glyphs{nil}, true, 2, "single-nil")
	g.set(glyf.Glyphs{nil, nil, nil}, true, 2, "all-nil")
	z := &glyf.Glyph{Data: glyf.SimpleGlyph{NumContours: 0, Encoded: []byte{0, 0}}}
	g.set(glyf.Glyphs{z}, true, 2, "zero-contour")
	g.set(glyf.Glyphs{nil, z, nil, z}, true, 2, "zero-contour")

	// loca format boundaries (large byte strings: few)
	g.r = root.Fork("boundary")
	g.boundarySets([]int{65534, 65536, 131070, 131072})
	// the upper end of the glyph count: 65534 and 65535 glyphs (mostly empty)
	for _, n := range []int{65534, 65535} {
		gg := make(glyf.Glyphs, n)
		for _, i := range []int{0, 1, 255, 256, 32767, 32768, n - 2, n - 1} {
			gg[i], _, _ = g.simple()
		}
		gg[n/2] = g.composite(-1)
		g.set(gg, true, 0, "glyph-count-"+strconv.Itoa(n))
	}
	if tier == "thorough" {
		g.boundarySets([]int{65532, 65534, 65536, 65538, 131068, 131070, 131072, 131074, 200000, 65534, 65536})
		// many glyphs, mostly nil
		gg := make(glyf.Glyphs, 3000)
		for i := 0; i < len(gg); i += 7 {
			gg[i], _, _ = g.simple()
		}
		g.set(gg, true, 1, "many-glyphs")
		// instructions longer than the 16-bit length field: not normal form
		c := g.composite(16)
		cd := c.Data.(glyf.CompositeGlyph)
		cd.Instructions = g.r.Bytes(65536 + 4)
		c.Data = cd
		g.set(glyf.Glyphs{c}, false, 0, "instructions>65535")
	}

	// random bytes through Decode
	g.r = root.Fork("random")
	for i, n := 0, vlib.Count(tier, 100, 20000); i < n; i++ {
		r := g.r
		k := r.Range(1, 4)
		gl := r.Bytes(r.Intn(40))
		if r.Bool() && len(gl) >= 2 {
			gl[0] = vlib.Pick(r, []byte{0, 0, 0xff})
			gl[1] = byte(r.Intn(3))
		}
		var lo []byte
		f := r.Intn(2)
		cur := 0
		for j := 0; j <= k; j++ {
			if f == 0 {
				lo = append(lo, byte(cur/2>>8), byte(cur/2))
			} else {
				lo = append(lo, 0, 0, byte(cur>>8), byte(cur))
			}
			if j == k-1 {
				cur = len(gl) &^ 1
			} else if cur < len(gl) {
				cur += 2 * r.Intn((len(gl)-cur)/2+1)
			}
		}
		g.add(decodeLine(f, lo, gl), "decode:random-bytes")
	}

	// a real font
	g.realFont()
}
