package main

import (
	"seehuhn.de/go/sfnt/verifharness/c11"
	"seehuhn.de/go/sfnt/verifharness/vlib"
)

func main() { vlib.Main(c11.Gen, c11.RunCase) }
