package c11

// An independent reader and writer for the simple-glyph description of the
// TrueType "glyf" table, written from the OpenType specification
// (https://learn.microsoft.com/en-us/typography/opentype/spec/glyf,
// "Simple Glyph Description" and "Simple Glyph Flags"), not from go-sfnt.
//
//	uint16 endPtsOfContours[numberOfContours]
//	uint16 instructionLength
//	uint8  instructions[instructionLength]
//	uint8  flags[variable]
//	uint8 or int16 xCoordinates[variable]
//	uint8 or int16 yCoordinates[variable]
//
// Flag bits: 0x01 ON_CURVE_POINT, 0x02 X_SHORT_VECTOR, 0x04 Y_SHORT_VECTOR,
// 0x08 REPEAT_FLAG (next byte = number of additional repetitions),
// 0x10 X_IS_SAME_OR_POSITIVE_X_SHORT_VECTOR, 0x20 Y_IS_SAME_OR_POSITIVE_Y_SHORT_VECTOR.

import (
	"seehuhn.de/go/postscript/funit"
	"seehuhn.de/go/sfnt/glyf"
	"seehuhn.de/go/sfnt/verifharness/vlib"
)

type specStatus int

const (
	specOK          specStatus = iota // conforming data, decoded
	specInvalid                       // data ends early / negative contour count
	specUnspecified                   // outside what the specification defines (see below)
)

func (s specStatus) String() string {
	return [...]string{"ok", "invalid", "unspecified"}[s]
}

// specDecode reads the points of a simple glyph.  "Unspecified" is returned
// where the specification says nothing or the data violates a "must":
// endPtsOfContours not strictly increasing, a repeat count running past the
// last point, an absolute coordinate leaving the int16 range.
func specDecode(nc int, b []byte) (specStatus, []glyf.Contour, []byte) {
	if nc < 0 {
		return specInvalid, nil, nil
	}
	pos := 0
	need := func(k int) bool { return pos+k <= len(b) }
	u16 := func() int { v := int(b[pos])<<8 | int(b[pos+1]); pos += 2; return v }

	ends := make([]int, nc)
	for i := range ends {
		if !need(2) {
			return specInvalid, nil, nil
		}
		ends[i] = u16()
	}
	if !need(2) {
		return specInvalid, nil, nil
	}
	il := u16()
	if !need(il) {
		return specInvalid, nil, nil
	}
	ins := b[pos : pos+il]
	pos += il
	for i := 1; i < nc; i++ {
		if ends[i] <= ends[i-1] {
			return specUnspecified, nil, nil
		}
	}
	np := 0
	if nc > 0 {
		np = ends[nc-1] + 1
	}
	flags := make([]byte, 0, np)
	for len(flags) < np {
		if !need(1) {
			return specInvalid, nil, nil
		}
		f := b[pos]
		pos++
		flags = append(flags, f)
		if f&0x08 != 0 {
			if !need(1) {
				return specInvalid, nil, nil
			}
			rep := int(b[pos])
			pos++
			if len(flags)+rep > np {
				return specUnspecified, nil, nil
			}
			for ; rep > 0; rep-- {
				flags = append(flags, f)
			}
		}
	}
	coords := func(short, same byte) ([]int, specStatus) {
		out := make([]int, np)
		v := 0
		for i, f := range flags {
			switch {
			case f&short != 0:
				if !need(1) {
					return nil, specInvalid
				}
				d := int(b[pos])
				pos++
				if f&same != 0 {
					v += d
				} else {
					v -= d
				}
			case f&same != 0:
				// same as the previous coordinate
			default:
				if !need(2) {
					return nil, specInvalid
				}
				d := u16()
				if d >= 32768 {
					d -= 65536
				}
				v += d
			}
			out[i] = v
		}
		return out, specOK
	}
	xs, st := coords(0x02, 0x10)
	if st != specOK {
		return st, nil, nil
	}
	ys, st := coords(0x04, 0x20)
	if st != specOK {
		return st, nil, nil
	}
	for i := range xs {
		if xs[i] < -32768 || xs[i] > 32767 || ys[i] < -32768 || ys[i] > 32767 {
			return specUnspecified, nil, nil
		}
	}
	cs := make([]glyf.Contour, nc)
	start := 0
	for i, e := range ends {
		c := make(glyf.Contour, 0, e+1-start)
		for j := start; j <= e; j++ {
			c = append(c, glyf.Point{X: funit.Int16(xs[j]), Y: funit.Int16(ys[j]), OnCurve: flags[j]&0x01 != 0})
		}
		cs[i] = c
		start = e + 1
	}
	return specOK, cs, ins
}

// specEncode writes contours with a randomly chosen legal encoding of every
// point (short / long / same-as-previous deltas, flags merged into repeat runs
// or not, reserved bit 6 sometimes set).  All contours must be non-empty and
// consecutive coordinate differences must fit into int16.  The result has no
// trailing bytes.
func specEncode(r *vlib.Rand, cs []glyf.Contour, ins []byte) []byte {
	var out []byte
	n := 0
	for _, c := range cs {
		n += len(c)
		out = append(out, byte((n-1)>>8), byte(n-1))
	}
	out = append(out, byte(len(ins)>>8), byte(len(ins)))
	out = append(out, ins...)

	flags := make([]byte, 0, n)
	var xb, yb []byte
	px, py := 0, 0
	one := func(d int, short, same byte, buf *[]byte) byte {
		var f byte
		ad := d
		if ad < 0 {
			ad = -ad
		}
		choice := r.Intn(3)
		switch {
		case d == 0 && choice == 0:
			f = same
		case ad <= 255 && choice <= 1:
			f = short
			if d > 0 || (d == 0 && r.Bool()) {
				f |= same
			}
			*buf = append(*buf, byte(ad))
		default:
			*buf = append(*buf, byte(uint16(int16(d))>>8), byte(uint16(int16(d))))
		}
		return f
	}
	for _, c := range cs {
		for _, p := range c {
			var f byte
			if p.OnCurve {
				f |= 0x01
			}
			if r.Chance(1, 16) {
				f |= 0x40 // OVERLAP_SIMPLE
			}
			f |= one(int(p.X)-px, 0x02, 0x10, &xb)
			f |= one(int(p.Y)-py, 0x04, 0x20, &yb)
			px, py = int(p.X), int(p.Y)
			flags = append(flags, f)
		}
	}
	// run-length coding of the flags
	for i := 0; i < len(flags); {
		j := i + 1
		for j < len(flags) && flags[j] == flags[i] && j-i < 256 {
			j++
		}
		run := j - i
		switch r.Intn(4) {
		case 0: // no repeat
			run = 1
			out = append(out, flags[i])
		case 1: // repeat with a shorter count (possibly 0)
			run = 1 + r.Intn(run)
			out = append(out, flags[i]|0x08, byte(run-1))
		default:
			if run == 1 {
				out = append(out, flags[i])
			} else {
				out = append(out, flags[i]|0x08, byte(run-1))
			}
		}
		i += run
	}
	out = append(out, xb...)
	out = append(out, yb...)
	return out
}

// specLen: the number of bytes the simple-glyph description at the start of b
// occupies according to the format (end points, instructions, flags with
// repeats, x and y coordinates), if b holds all of it and the flag repeats do
// not overrun the point count.
func specLen(nc int, b []byte) (int, bool) {
	if nc < 0 {
		return 0, false
	}
	pos := 0
	need := func(k int) bool { return pos+k <= len(b) }
	np := 0
	for i := 0; i < nc; i++ {
		if !need(2) {
			return 0, false
		}
		e := int(b[pos])<<8 | int(b[pos+1])
		pos += 2
		if i > 0 && e+1 <= np {
			return 0, false
		}
		np = e + 1
	}
	if !need(2) {
		return 0, false
	}
	il := int(b[pos])<<8 | int(b[pos+1])
	pos += 2
	if !need(il) {
		return 0, false
	}
	pos += il
	xb, yb, got := 0, 0, 0
	for got < np {
		if !need(1) {
			return 0, false
		}
		f := b[pos]
		pos++
		rep := 1
		if f&0x08 != 0 {
			if !need(1) {
				return 0, false
			}
			rep += int(b[pos])
			pos++
		}
		if got+rep > np {
			return 0, false
		}
		got += rep
		switch {
		case f&0x02 != 0:
			xb += rep
		case f&0x10 == 0:
			xb += 2 * rep
		}
		switch {
		case f&0x04 != 0:
			yb += rep
		case f&0x20 == 0:
			yb += 2 * rep
		}
	}
	if !need(xb + yb) {
		return 0, false
	}
	return pos + xb + yb, true
}
