package c11

// Cross-check of SimpleGlyph.Decode against golang.org/x/image/font/sfnt on
// the glyphs of the Go Regular font: LoadGlyph delivers the outline as
// segments; the control points of its quadratic segments must be exactly the
// off-curve points go-sfnt decodes, and every on-curve point go-sfnt decodes
// must be the end point of a segment (x/image additionally inserts implied
// on-curve midpoints, which are ignored here).

import (
	"bytes"
	"fmt"
	"sort"
	"sync"

	"golang.org/x/image/font/gofont/goregular"
	xsfnt "golang.org/x/image/font/sfnt"
	"golang.org/x/image/math/fixed"
	"seehuhn.de/go/sfnt/glyf"
	"seehuhn.de/go/sfnt/header"
)

type goRegular struct {
	err    error // tables unreadable: a harness problem
	decErr error // glyf.Decode rejects the font: a property failure
	glyphs glyf.Glyphs
	format int
	loca   []byte
	glyf   []byte
	xfont  *xsfnt.Font
	upm    int
}

var (
	goRegOnce sync.Once
	goReg     goRegular
)

func loadGoRegular() *goRegular {
	goRegOnce.Do(func() {
		rd := bytes.NewReader(goregular.TTF)
		h, err := header.Read(rd)
		if err != nil {
			goReg.err = err
			return
		}
		glyfData, err1 := h.ReadTableBytes(rd, "glyf")
		locaData, err2 := h.ReadTableBytes(rd, "loca")
		headData, err3 := h.ReadTableBytes(rd, "head")
		if err1 != nil || err2 != nil || err3 != nil || len(headData) < 52 {
			goReg.err = fmt.Errorf("cannot read glyf/loca/head of Go Regular")
			return
		}
		goReg.format = int(int16(headData[50])<<8 | int16(headData[51]))
		goReg.upm = int(headData[18])<<8 | int(headData[19])
		goReg.glyf, goReg.loca = glyfData, locaData
		gg, err, p := callDecode(&glyf.Encoded{GlyfData: glyfData, LocaData: locaData, LocaFormat: int16(goReg.format)})
		if err != nil || p {
			goReg.decErr = fmt.Errorf("glyf.Decode fails on the glyf/loca tables of Go Regular: %v (panic=%v)", err, p)
			return
		}
		goReg.glyphs = gg
		goReg.xfont, goReg.err = xsfnt.Parse(goregular.TTF)
	})
	return &goReg
}

type pt struct{ x, y int }

func sortPts(p []pt) {
	sort.Slice(p, func(i, j int) bool {
		if p[i].x != p[j].x {
			return p[i].x < p[j].x
		}
		return p[i].y < p[j].y
	})
}

// runXImage compares glyph gid of Go Regular.
func runXImage(gid int) (r result) {
	f := loadGoRegular()
	if f.err != nil {
		r.impl = "harness-error"
		r.failf("c11-harness-selfcheck", "%v", f.err)
		return
	}
	if f.decErr != nil {
		r.impl = "err"
		r.failf("c11-decode-real-font", "%v", f.decErr)
		return
	}
	if gid < 0 || gid >= len(f.glyphs) {
		r.impl = "harness-error"
		r.failf("c11-harness-selfcheck", "no glyph %d", gid)
		return
	}
	g := f.glyphs[gid]
	r.impl = "skipped"
	if g == nil {
		return
	}
	s, ok := g.Data.(glyf.SimpleGlyph)
	if !ok {
		return
	}
	info, err, p := callSimple(s.NumContours, s.Encoded)
	if p || err != nil {
		r.impl = "err"
		r.failf("c11-simple-decode-ximage", "SimpleGlyph.Decode fails on Go Regular glyph %d (panic=%v err=%v)", gid, p, err)
		return
	}
	var buf xsfnt.Buffer
	segs, err := f.xfont.LoadGlyph(&buf, xsfnt.GlyphIndex(gid), fixed.I(f.upm), nil)
	if err != nil {
		r.impl = "skipped"
		return
	}
	r.impl = "ok"
	r.nt = true
	r.label("ximage:compared")
	conv := func(p fixed.Point26_6) (pt, bool) {
		if p.X%64 != 0 || p.Y%64 != 0 {
			return pt{}, false // an implied midpoint off the unit grid
		}
		return pt{int(p.X) / 64, -int(p.Y) / 64}, true
	}
	var xOff []pt
	ends := map[pt]bool{}
	for _, sg := range segs {
		switch sg.Op {
		case xsfnt.SegmentOpMoveTo, xsfnt.SegmentOpLineTo:
			if q, ok := conv(sg.Args[0]); ok {
				ends[q] = true
			}
		case xsfnt.SegmentOpQuadTo:
			q, ok := conv(sg.Args[0])
			if !ok {
				r.failf("c11-simple-decode-ximage", "glyph %d: x/image control point off the unit grid", gid)
				return
			}
			xOff = append(xOff, q)
			if q, ok := conv(sg.Args[1]); ok {
				ends[q] = true
			}
		default:
			r.failf("c11-simple-decode-ximage", "glyph %d: unexpected cubic segment", gid)
			return
		}
	}
	var off []pt
	for _, c := range info.Contours {
		for _, p := range c {
			q := pt{int(p.X), int(p.Y)}
			if p.OnCurve {
				if !ends[q] {
					r.failf("c11-simple-decode-ximage", "glyph %d: on-curve point %v is no segment end point in x/image", gid, q)
					return
				}
			} else {
				off = append(off, q)
			}
		}
	}
	sortPts(off)
	sortPts(xOff)
	if len(off) != len(xOff) {
		r.failf("c11-simple-decode-ximage", "glyph %d: %d off-curve points, x/image has %d control points", gid, len(off), len(xOff))
		return
	}
	for i := range off {
		if off[i] != xOff[i] {
			r.failf("c11-simple-decode-ximage", "glyph %d: off-curve point %v vs x/image control point %v", gid, off[i], xOff[i])
			return
		}
	}
	return
}
