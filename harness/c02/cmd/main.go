package main

import (
	"seehuhn.de/go/sfnt/verifharness/c02"
	"seehuhn.de/go/sfnt/verifharness/vlib"
)

func main() { vlib.Main(c02.Gen, c02.RunCase) }
