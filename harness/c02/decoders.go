// Package c02 is the oracle harness for "decoders are total on untrusted
// bytes": every decoder of the property's list is run on valid, truncated,
// corrupted and adversarial (aliasing-offset) inputs under a guard that
// observes panics, running time and allocation; whatever a successful decode
// returns is handed to the library's lazy decoders and accessors.
package c02

import (
	"bytes"
	"fmt"
	"regexp"
	"runtime"
	"runtime/debug"
	"strings"
	"time"

	"seehuhn.de/go/sfnt"
	"seehuhn.de/go/sfnt/cff"
	"seehuhn.de/go/sfnt/cmap"
	"seehuhn.de/go/sfnt/glyf"
	"seehuhn.de/go/sfnt/glyph"
	"seehuhn.de/go/sfnt/head"
	"seehuhn.de/go/sfnt/header"
	"seehuhn.de/go/sfnt/hmtx"
	"seehuhn.de/go/sfnt/kern"
	"seehuhn.de/go/sfnt/maxp"
	"seehuhn.de/go/sfnt/name"
	"seehuhn.de/go/sfnt/opentype/classdef"
	"seehuhn.de/go/sfnt/opentype/coverage"
	"seehuhn.de/go/sfnt/opentype/gdef"
	"seehuhn.de/go/sfnt/opentype/gtab"
	"seehuhn.de/go/sfnt/os2"
	"seehuhn.de/go/sfnt/parser"
	"seehuhn.de/go/sfnt/post"
)

// A decoder runs D(b) and, on success, the lazy decoders/accessors on the
// result.  It returns whether D accepted the input.
type decoder struct {
	name string
	run  func(b []byte) bool
}

func useFont(f *sfnt.Font) {
	n := f.NumGlyphs()
	_ = f.FontBBox()
	_ = f.Widths()
	_ = f.IsFixedPitch()
	lim := n
	if lim > 3000 {
		lim = 3000
	}
	for g := 0; g < lim; g++ {
		_ = f.GlyphWidth(glyph.ID(g))
		_ = f.GlyphBBox(glyph.ID(g))
		_ = f.GlyphName(glyph.ID(g))
	}
	if f.CMapTable != nil {
		useCmap(f.CMapTable)
	}
	if o, ok := f.Outlines.(*glyf.Outlines); ok {
		useGlyphs(o.Glyphs)
	}
}

func useCmap(t cmap.Table) {
	if st, err := t.GetBest(); err == nil && st != nil {
		for _, r := range []rune{0, 'A', 0xFFFF, 0x10000, 0x10FFFF} {
			_ = st.Lookup(r)
		}
	}
	for k := range t {
		if st, err := t.Get(k); err == nil && st != nil {
			_ = st.Lookup('A')
			_ = st.Lookup(0xFFFF)
			lo, hi := st.CodeRange()
			_, _ = lo, hi
		}
	}
	_ = t.Encode()
}

func useGlyphs(gg glyf.Glyphs) {
	for _, g := range gg {
		if g == nil {
			continue
		}
		switch d := g.Data.(type) {
		case glyf.SimpleGlyph:
			_, _ = d.Decode()
		case glyf.CompositeGlyph:
			_ = g.Components()
		}
	}
}

func decoders() []decoder {
	return []decoder{
		{"sfnt.Read", func(b []byte) bool {
			f, err := sfnt.Read(bytes.NewReader(b))
			if err != nil {
				return false
			}
			useFont(f)
			return true
		}},
		{"header.Read", func(b []byte) bool {
			info, err := header.Read(bytes.NewReader(b))
			if err != nil {
				return false
			}
			for tag := range info.Toc {
				_, _ = info.ReadTableBytes(bytes.NewReader(b), tag)
			}
			return true
		}},
		{"cff.Read", func(b []byte) bool {
			f, err := cff.Read(bytes.NewReader(b))
			if err != nil {
				return false
			}
			for i := range f.Glyphs {
				_ = f.Glyphs[i].Extent()
			}
			_ = f.NumGlyphs()
			return true
		}},
		{"cmap.Decode", func(b []byte) bool {
			t, err := cmap.Decode(b)
			if err != nil {
				return false
			}
			useCmap(t)
			return true
		}},
		{"gtab.Read/GSUB", func(b []byte) bool {
			_, err := gtab.Read(bytes.NewReader(b), gtab.TypeGsub)
			return err == nil
		}},
		{"gtab.Read/GPOS", func(b []byte) bool {
			_, err := gtab.Read(bytes.NewReader(b), gtab.TypeGpos)
			return err == nil
		}},
		{"gdef.Read", func(b []byte) bool {
			t, err := gdef.Read(bytes.NewReader(b))
			if err != nil {
				return false
			}
			_ = t.Encode()
			return true
		}},
		{"coverage.Read", func(b []byte) bool {
			t, err := coverage.Read(parser.New(bytes.NewReader(b)), 0)
			if err != nil {
				return false
			}
			_ = t.Encode()
			return true
		}},
		{"coverage.ReadSet", func(b []byte) bool {
			_, err := coverage.ReadSet(parser.New(bytes.NewReader(b)), 0)
			return err == nil
		}},
		{"classdef.Read", func(b []byte) bool {
			t, err := classdef.Read(parser.New(bytes.NewReader(b)), 0)
			if err != nil {
				return false
			}
			_ = t.NumClasses()
			return true
		}},
		{"name.Decode", func(b []byte) bool {
			t, err := name.Decode(b)
			if err != nil {
				return false
			}
			_ = t.Encode(1)
			return true
		}},
		{"head.Read", func(b []byte) bool {
			t, err := head.Read(bytes.NewReader(b))
			if err != nil {
				return false
			}
			_ = t.Encode()
			return true
		}},
		{"maxp.Read", func(b []byte) bool {
			t, err := maxp.Read(bytes.NewReader(b))
			if err != nil {
				return false
			}
			_ = t.Encode()
			return true
		}},
		{"os2.Read", func(b []byte) bool {
			t, err := os2.Read(bytes.NewReader(b))
			if err != nil {
				return false
			}
			_ = t.Encode()
			return true
		}},
		{"post.Read", func(b []byte) bool {
			t, err := post.Read(bytes.NewReader(b))
			if err != nil {
				return false
			}
			_ = t.Encode()
			return true
		}},
		{"kern.Read", func(b []byte) bool {
			_, err := kern.Read(bytes.NewReader(b))
			return err == nil
		}},
	}
}

// The two-input decoders take a length-prefixed pair: u32 len(first) first second.
func splitPair(b []byte) ([]byte, []byte) {
	if len(b) < 4 {
		return nil, b
	}
	n := int(b[0])<<24 | int(b[1])<<16 | int(b[2])<<8 | int(b[3])
	b = b[4:]
	if n > len(b) {
		n = len(b)
	}
	return b[:n], b[n:]
}

func joinPair(a, b []byte) []byte {
	n := len(a)
	out := []byte{byte(n >> 24), byte(n >> 16), byte(n >> 8), byte(n)}
	out = append(out, a...)
	return append(out, b...)
}

func pairDecoders() []decoder {
	return []decoder{
		{"hmtx.Decode", func(b []byte) bool {
			hhea, hm := splitPair(b)
			t, err := hmtx.Decode(hhea, hm)
			if err != nil {
				return false
			}
			_, _ = t.Encode()
			return true
		}},
		{"glyf.Decode", func(b []byte) bool {
			gl, loca := splitPair(b)
			// the first byte of loca selects the format
			format := int16(0)
			if len(loca) > 0 {
				format = int16(loca[0] & 1)
				loca = loca[1:]
			}
			gg, err := glyf.Decode(&glyf.Encoded{GlyfData: gl, LocaData: loca, LocaFormat: format})
			if err != nil {
				return false
			}
			useGlyphs(gg)
			_ = gg.Encode()
			return true
		}},
	}
}

// ---- guard -----------------------------------------------------------

type verdict struct {
	accepted bool
	panicked string // "" or signature
	detail   string
	hang     bool
	alloc    uint64
	dur      time.Duration
}

var repoFrame = regexp.MustCompile(`(?m)^\s+/repo/([^\s:]+):(\d+)`)

func panicSignature(stack string) string {
	// first frame inside /repo that is not a verif hook
	for _, m := range repoFrame.FindAllStringSubmatch(stack, -1) {
		if strings.Contains(m[1], "verif_hooks") {
			continue
		}
		return m[1] + ":" + m[2]
	}
	return "unknown"
}

// guard runs fn(b) observing panics, time and allocation.
func guard(fn func([]byte) bool, b []byte, timeout time.Duration) verdict {
	done := make(chan verdict, 1)
	go func() {
		var v verdict
		var m0, m1 runtime.MemStats
		runtime.ReadMemStats(&m0)
		t0 := time.Now()
		func() {
			defer func() {
				if e := recover(); e != nil {
					st := string(debug.Stack())
					v.panicked = panicSignature(st)
					v.detail = fmt.Sprintf("panic: %v", e)
				}
			}()
			v.accepted = fn(b)
		}()
		v.dur = time.Since(t0)
		runtime.ReadMemStats(&m1)
		v.alloc = m1.TotalAlloc - m0.TotalAlloc
		done <- v
	}()
	select {
	case v := <-done:
		return v
	case <-time.After(timeout):
		return verdict{hang: true, dur: timeout}
	}
}
