package c02

import (
	"encoding/hex"
	"errors"
	"fmt"
	"sort"
	"strings"
	"time"

	"seehuhn.de/go/sfnt/verifharness/vlib"
)

// Bounds of the property ("time and allocation linear in len(b) plus a fixed
// constant").  The constants are generous on purpose: a violation is an
// allocation or running time out of proportion to the input, e.g. a make() of
// an attacker-chosen 32-bit size or re-reading through aliased offsets.
const (
	allocConst   = 96 << 20 // bytes
	allocPerByte = 2048
	timeConst    = 4 * time.Second
	timePerKiB   = 4 * time.Millisecond
	watchdog     = 25 * time.Second
)

func allocBound(n int) uint64       { return allocConst + uint64(n)*allocPerByte }
func timeBound(n int) time.Duration { return timeConst + time.Duration(n/1024+1)*timePerKiB }

func allDecoders() map[string]decoder {
	m := map[string]decoder{}
	for _, d := range decoders() {
		m[d.name] = d
	}
	for _, d := range pairDecoders() {
		m[d.name] = d
	}
	return m
}

func be16(b []byte, off int, v int) {
	if off >= 0 && off+1 < len(b) {
		b[off] = byte(v >> 8)
		b[off+1] = byte(v)
	}
}

func be32(b []byte, off int, v uint32) {
	if off >= 0 && off+3 < len(b) {
		b[off] = byte(v >> 24)
		b[off+1] = byte(v >> 16)
		b[off+2] = byte(v >> 8)
		b[off+3] = byte(v)
	}
}

var interesting16 = []int{0, 1, 2, 3, 4, 6, 8, 0x7F, 0x80, 0xFF, 0x100, 0x7FFF, 0x8000, 0xFFFE, 0xFFFF}

// mutate returns a corrupted copy of b and a label of the mutation class.
func mutate(r *vlib.Rand, b []byte) ([]byte, string) {
	c := append([]byte(nil), b...)
	if len(c) == 0 {
		return c, "empty"
	}
	switch r.Intn(10) {
	case 0: // truncation
		return c[:r.Intn(len(c))], "truncate"
	case 1: // bit flips
		for i, n := 0, 1+r.Intn(4); i < n; i++ {
			c[r.Intn(len(c))] ^= 1 << uint(r.Intn(8))
		}
		return c, "bitflip"
	case 2: // byte set
		for i, n := 0, 1+r.Intn(3); i < n; i++ {
			c[r.Intn(len(c))] = vlib.Pick(r, []byte{0, 1, 0x7F, 0x80, 0xFF})
		}
		return c, "byteset"
	case 3, 4: // 16-bit field overwrite with boundary value, early in the table (headers) or anywhere
		for i, n := 0, 1+r.Intn(3); i < n; i++ {
			lim := len(c)
			if r.Bool() && lim > 64 {
				lim = 64
			}
			be16(c, r.Intn(lim)&^1, vlib.Pick(r, interesting16))
		}
		return c, "field16"
	case 5: // 32-bit field overwrite
		lim := len(c)
		if r.Bool() && lim > 128 {
			lim = 128
		}
		be32(c, r.Intn(lim)&^1, vlib.Pick(r, []uint32{0, 1, 0x7FFFFFFF, 0x80000000, 0xFFFFFFFF, uint32(len(c)), uint32(len(c) - 1), uint32(len(c) + 1)}))
		return c, "field32"
	case 6: // aliasing: copy one 16-bit word over another (offsets pointing at one structure)
		for i, n := 0, 1+r.Intn(6); i < n; i++ {
			src := r.Intn(len(c)) &^ 1
			dst := r.Intn(len(c)) &^ 1
			if src+1 < len(c) && dst+1 < len(c) {
				c[dst], c[dst+1] = c[src], c[src+1]
			}
		}
		return c, "alias16"
	case 7: // splice a chunk to another position
		if len(c) > 8 {
			n := 1 + r.Intn(min(len(c)/2, 64))
			src := r.Intn(len(c) - n)
			dst := r.Intn(len(c) - n)
			copy(c[dst:dst+n], b[src:src+n])
		}
		return c, "splice"
	case 8: // extend with zeros / garbage
		c = append(c, r.Bytes(r.Intn(40))...)
		return c, "extend"
	default: // count amplification: set a 16-bit word to 0xFFFF near the start
		lim := min(len(c), 32)
		be16(c, r.Intn(lim)&^1, 0xFFFF)
		return c, "count-ffff"
	}
}

func caseLine(name string, b []byte) string {
	return "!" + name + " x" + hex.EncodeToString(b)
}

// evaluate runs one decoder on one input and applies the oracle.
func evaluate(d decoder, b []byte) (obs string, fail string, sig string) {
	v := guard(d.run, b, watchdog)
	switch {
	case v.hang:
		return "hang", fmt.Sprintf("%s did not return within %v on %d bytes", d.name, watchdog, len(b)), "hang:" + d.name
	case v.panicked != "":
		return "panic", fmt.Sprintf("%s panicked at %s: %s", d.name, v.panicked, v.detail), "panic:" + v.panicked
	}
	obs = "err"
	if v.accepted {
		obs = "ok"
	}
	if v.alloc > allocBound(len(b)) {
		return obs, fmt.Sprintf("%s allocated %d bytes for an input of %d bytes (bound %d)", d.name, v.alloc, len(b), allocBound(len(b))), "alloc:" + d.name
	}
	if v.dur > timeBound(len(b)) {
		return obs, fmt.Sprintf("%s took %v for an input of %d bytes (bound %v)", d.name, v.dur, len(b), timeBound(len(b))), "time:" + d.name
	}
	return obs, "", ""
}

// Gen: seeds first (they must be accepted), then mutations of every seed for
// every decoder, then the targeted adversarial constructions.
func Gen(run *vlib.Run, seed uint64, tier string) {
	run.Rule = "decoder D on input b; non-trivial = b is a mutation of a valid table/font that D does not reject at its first length/version check (|b| >= 12) or an adversarial aliasing construction; distinct by (D, b)"
	r := vlib.NewRand(seed)
	ds := allDecoders()
	seeds := makeSeeds()
	names := make([]string, 0, len(ds))
	for n := range ds {
		names = append(names, n)
	}
	sort.Strings(names)
	perSeed := vlib.Count(tier, 250, 4000)
	maxAllocRatio := map[string]float64{}
	accepted := 0
	for _, n := range names {
		d := ds[n]
		rr := r.Fork(n)
		for si, s := range seeds[n] {
			obs, fail, sig := evaluate(d, s)
			idx := run.Add(caseLine(n, s), obs, true, "seed", "dec:"+n, "obs:"+obs)
			if fail != "" {
				run.Fail(idx, caseLine(n, s), fail, sig)
			}
			if obs != "ok" {
				run.Fail(idx, caseLine(n, s), "valid seed "+fmt.Sprint(si)+" rejected by "+n, "seed-rejected:"+n)
			}
			cnt := perSeed
			if len(s) > 100000 {
				cnt = perSeed / 4
			}
			for k := 0; k < cnt; k++ {
				m, label := mutate(rr, s)
				if rr.Chance(1, 4) {
					m, _ = mutate(rr, m)
					label = "double"
				}
				obs, fail, sig := evaluate(d, m)
				if obs == "ok" {
					accepted++
				}
				idx := run.Add(caseLine(n, m), obs, len(m) >= 12, "mut:"+label, "dec:"+n, "obs:"+obs)
				if fail != "" {
					run.Fail(idx, caseLine(n, m), fail, sig)
				}
			}
		}
	}
	for _, a := range adversarial() {
		d := ds[a.dec]
		obs, fail, sig := evaluate(d, a.data)
		cl := caseLine(a.dec+"@"+a.label, a.data)
		idx := run.Add(cl, obs, true, "adversarial:"+a.label, "dec:"+a.dec, "obs:"+obs)
		if fail != "" {
			// the construction is part of the signature: a known finding names
			// one construction, any other failure is still reported
			run.Fail(idx, cl, fail+" [construction "+a.label+"]", sig+":"+a.label)
		}
	}
	// model correspondence: the top-level GSUB/GPOS reader (header, script list,
	// feature list, lookup list with extension resolution) against C02/Model.v
	nModel := 0
	for _, which := range []string{"gsub", "gpos"} {
		dn := "gtab.Read/GSUB"
		if which == "gpos" {
			dn = "gtab.Read/GPOS"
		}
		rr := r.Fork("model-" + which)
		var pool [][]byte
		pool = append(pool, seeds[dn]...)
		for _, a := range adversarial() {
			if a.dec == dn && len(a.data) < 9000 {
				pool = append(pool, a.data)
			}
		}
		pool = append(pool, extensionTable(which, false), extensionTable(which, true))
		for _, s := range pool {
			if len(s) > 20000 {
				continue
			}
			run.Add(gtabCaseLine(which, s), observeGtab(which, s), true, "model:seed", "model:"+which)
			nModel++
			cnt := vlib.Count(tier, 40, 600)
			for k := 0; k < cnt; k++ {
				m, label := mutate(rr, s)
				// concentrate on the structure the model covers: the first bytes
				if rr.Chance(1, 2) && len(m) > 0 {
					lim := min(len(m), 120)
					be16(m, rr.Intn(lim)&^1, vlib.Pick(rr, interesting16))
					label = "head16"
				}
				obs := observeGtab(which, m)
				run.Add(gtabCaseLine(which, m), obs, len(m) >= 12, "model:"+label, "model:"+which, "modelobs:"+obs[:min(len(obs), 3)])
				nModel++
			}
		}
	}
	run.Extra["model_cases"] = nModel
	run.Extra["mutants_accepted"] = accepted
	run.Extra["alloc_ratio_max"] = maxAllocRatio
	run.Extra["bounds"] = fmt.Sprintf("alloc <= %d + %d*len; time <= %v + %v per KiB; watchdog %v", allocConst, allocPerByte, timeConst, timePerKiB, watchdog)
}

func RunCase(line string) (impl, fail, sig string, err error) {
	if strings.HasPrefix(line, "gtab ") {
		parts := strings.Fields(line)
		if len(parts) != 3 || !strings.HasPrefix(parts[2], "x") {
			return "", "", "", errors.New("C02 case: gtab <gsub|gpos> x<hex>")
		}
		b, err := hex.DecodeString(parts[2][1:])
		if err != nil {
			return "", "", "", err
		}
		return observeGtab(parts[1], b), "", "", nil
	}
	if !strings.HasPrefix(line, "!") {
		return "", "", "", errors.New("C02 case lines start with ! or gtab")
	}
	parts := strings.Fields(line[1:])
	if len(parts) != 2 || !strings.HasPrefix(parts[1], "x") {
		return "", "", "", errors.New("C02 case: !<decoder> x<hex>")
	}
	dname, label, _ := strings.Cut(parts[0], "@")
	d, ok := allDecoders()[dname]
	if !ok {
		return "", "", "", errors.New("unknown decoder " + dname)
	}
	b, err := hex.DecodeString(parts[1][1:])
	if err != nil {
		return "", "", "", err
	}
	impl, fail, sig = evaluate(d, b)
	if fail != "" && label != "" {
		fail += " [construction " + label + "]"
		sig += ":" + label
	}
	return impl, fail, sig, nil
}
