package c02

// Targeted constructions in which many offsets point at one structure, the
// case that makes nested readers super-linear.

type advCase struct {
	dec, label string
	data       []byte
}

func u16(v int) []byte { return []byte{byte(v >> 8), byte(v)} }

// gtabAliased builds a GSUB/GPOS table whose script list has nScripts records
// all pointing at one script table with nLang language systems all pointing at
// one LangSys table with nFeat feature indices.
func gtabAliased(nScripts, nLang, nFeat int) []byte {
	var b []byte
	b = append(b, 0, 1, 0, 0) // version 1.0
	b = append(b, u16(10)...) // script list
	b = append(b, 0, 0)       // feature list offset (patched)
	b = append(b, 0, 0)       // lookup list offset (patched)
	// script list at 10
	sl := u16(nScripts)
	scriptTableOff := 2 + 6*nScripts
	for i := 0; i < nScripts; i++ {
		sl = append(sl, 'l', 'a', 't', 'n')
		sl = append(sl, u16(scriptTableOff)...)
	}
	// script table
	langSysOff := 4 + 6*nLang
	st := append(u16(0), u16(nLang)...)
	for i := 0; i < nLang; i++ {
		st = append(st, 'D', 'E', 'U', ' ')
		st = append(st, u16(langSysOff)...)
	}
	// langsys
	ls := append(u16(0), u16(0xFFFF)...)
	ls = append(ls, u16(nFeat)...)
	for i := 0; i < nFeat; i++ {
		ls = append(ls, 0, 0)
	}
	st = append(st, ls...)
	sl = append(sl, st...)
	b = append(b, sl...)
	fl := len(b)
	b = append(b, 0, 0) // empty feature list
	ll := len(b)
	b = append(b, 0, 0) // empty lookup list
	if fl > 0xFFFF || ll > 0xFFFF || scriptTableOff > 0xFFFF || langSysOff > 0xFFFF {
		return nil
	}
	b[6], b[7] = byte(fl>>8), byte(fl)
	b[8], b[9] = byte(ll>>8), byte(ll)
	return b
}

// lookupAliased: many lookups, each with many subtable offsets, all pointing at
// one coverage-heavy subtable.
func lookupAliased(nLookups, nSub int) []byte {
	var b []byte
	b = append(b, 0, 1, 0, 0)
	b = append(b, u16(10)...)
	b = append(b, u16(12)...)
	b = append(b, u16(14)...)
	b = append(b, 0, 0) // script list: 0 scripts  (offset 10)
	b = append(b, 0, 0) // feature list: 0 features (offset 12)
	// lookup list at 14
	ll := u16(nLookups)
	lookupOff := 2 + 2*nLookups
	for i := 0; i < nLookups; i++ {
		ll = append(ll, u16(lookupOff)...)
	}
	subOff := 6 + 2*nSub
	lt := append(u16(1), u16(0)...) // type 1, flags 0
	lt = append(lt, u16(nSub)...)
	for i := 0; i < nSub; i++ {
		lt = append(lt, u16(subOff)...)
	}
	// GSUB 1.1 subtable: format 1, coverage offset 6, delta 1; coverage format 1 with many glyphs
	sub := append(u16(1), u16(6)...)
	sub = append(sub, u16(1)...)
	nGlyph := 2000
	cov := append(u16(1), u16(nGlyph)...)
	for i := 0; i < nGlyph; i++ {
		cov = append(cov, u16(i+1)...)
	}
	sub = append(sub, cov...)
	lt = append(lt, sub...)
	ll = append(ll, lt...)
	if lookupOff > 0xFFFF || subOff > 0xFFFF {
		return nil
	}
	return append(b, ll...)
}

// gsub2Aliased: a GSUB 2.1 subtable whose n sequence offsets all point at one
// sequence of n glyphs (n*n glyph ids decoded from about 4n bytes).
func gsub2Aliased(n int) []byte {
	var b []byte
	b = append(b, 0, 1, 0, 0)
	b = append(b, u16(10)...)
	b = append(b, u16(12)...)
	b = append(b, u16(14)...)
	b = append(b, 0, 0)
	b = append(b, 0, 0)
	// lookup list: one lookup, one subtable
	b = append(b, u16(1)...)
	b = append(b, u16(4)...)
	b = append(b, u16(2)...) // type 2
	b = append(b, u16(0)...)
	b = append(b, u16(1)...)
	b = append(b, u16(8)...)
	seqOff := 6 + 2*n
	covOff := seqOff + 2 + 2*n
	if covOff > 0xFFFF {
		return nil
	}
	sub := append(u16(1), u16(covOff)...)
	sub = append(sub, u16(n)...)
	for i := 0; i < n; i++ {
		sub = append(sub, u16(seqOff)...)
	}
	sub = append(sub, u16(n)...)
	for i := 0; i < n; i++ {
		sub = append(sub, u16(i+1)...)
	}
	// coverage format 2, one range 1..n
	sub = append(sub, u16(2)...)
	sub = append(sub, u16(1)...)
	sub = append(sub, u16(1)...)
	sub = append(sub, u16(n)...)
	sub = append(sub, u16(0)...)
	return append(b, sub...)
}

func adversarial() []advCase {
	var out []advCase
	add := func(dec, label string, b []byte) {
		if b != nil {
			out = append(out, advCase{dec, label, b})
		}
	}
	for _, tp := range []string{"gtab.Read/GSUB", "gtab.Read/GPOS"} {
		add(tp, "scriptlist-20x20x20", gtabAliased(20, 20, 20))
		add(tp, "scriptlist-300x300x300", gtabAliased(300, 300, 300))
		add(tp, "scriptlist-2000x2000x4000", gtabAliased(2000, 2000, 4000))
		add(tp, "lookups-50x50", lookupAliased(50, 50))
		add(tp, "lookups-70x80", lookupAliased(70, 80))
	}
	add("gtab.Read/GSUB", "ext-lookups-50x50", lookupAliasedExt(7, 50, 50))
	add("gtab.Read/GSUB", "ext-lookups-60x98", lookupAliasedExt(7, 60, 98))
	add("gtab.Read/GPOS", "ext-lookups-60x98", lookupAliasedExt(9, 60, 98))
	add("kern.Read", "overlapping-subtables", kernOverlapping(65535))
	// simple CFF fonts that select a predefined charset (Top DICT charset
	// operand 0, 1, 2 = ISOAdobe, Expert, ExpertSubset: 229, 166, 87 names)
	// with glyph counts below, at and above the size of each name list
	for _, cs := range []int{0, 1, 2} {
		for _, n := range []int{1, 2, 86, 87, 88, 100, 165, 166, 167, 200, 228, 229, 230, 300} {
			add("cff.Read", "predefined-charset-"+itoa(cs)+"-glyphs-"+itoa(n), cffPredefinedCharset(cs, n))
		}
	}
	// Type 2 operators met "cold": every one-byte operator and every escaped
	// (12 x) operator with 0..4 small operands in front, as the whole program of
	// a glyph (no stems declared, nothing stored, no subroutines, no move yet)
	for _, b := range t2ColdPrograms() {
		add("cff.Read", "t2-cold-ops", cffWithGlyph(b))
	}
	// composite glyphs (the Go fonts used as seeds have none) whose last
	// component record / instruction block is cut short by 1..8 bytes through
	// the loca table, for every argument and transform size
	for _, c := range compositeTruncations() {
		add("glyf.Decode", c.label, c.data)
	}
	add("gtab.Read/GSUB", "gsub2_1-aliased-sequences-2000", gsub2Aliased(2000))
	add("gtab.Read/GSUB", "gsub2_1-aliased-sequences-16000", gsub2Aliased(16000))
	return out
}

// extensionTable: a table whose second lookup consists of extension records
// (consistent or, if broken, with a record whose type equals the extension
// type itself).
func extensionTable(which string, broken bool) []byte {
	ext := 7
	if which == "gpos" {
		ext = 9
	}
	inner := 2
	if broken {
		inner = ext
	}
	b := []byte{0, 1, 0, 0, 0, 10, 0, 28, 0, 42}
	b = append(b, 0, 1, 'l', 'a', 't', 'n', 0, 8, 0, 4, 0, 0, 0, 0, 255, 255, 0, 0)
	b = append(b, 0, 1, 'l', 'i', 'g', 'a', 0, 8, 0, 0, 0, 1, 0, 0)
	b = append(b, 0, 2, 0, 6, 0, 16)
	b = append(b, 0, 1, 0, 0x10, 0, 1, 0, 10, 0, 3, 0, 1)
	b = append(b, 0, byte(ext), 0, 0, 0, 2, 0, 10, 0, 18, 0, 1, 0, byte(inner), 0, 0, 0, 16, 0, 1, 0, byte(inner), 0, 0, 0, 8, 0, 1, 0, 0)
	return b
}

// kernOverlapping: n subtables of declared length 14 each claiming 65535
// pairs, so that every subtable re-reads the rest of the table.
func kernOverlapping(n int) []byte {
	b := []byte{0, 0, byte(n >> 8), byte(n)}
	blk := []byte{0, 0, 0, 14, 0, 1, 0xFF, 0xFF, 0, 0, 0, 0, 0, 0}
	for i := 0; i < n; i++ {
		b = append(b, blk...)
	}
	return b
}

// lookupAliasedExt: like lookupAliased, but every lookup is an extension
// lookup whose subtable offsets all point at ONE extension record, which in
// turn points at one coverage-heavy subtable (GSUB 1.1 / GPOS 1.1 shaped: the
// format word, a coverage offset and one more word).
func lookupAliasedExt(extType, nLookups, nSub int) []byte {
	var b []byte
	b = append(b, 0, 1, 0, 0)
	b = append(b, u16(10)...)
	b = append(b, u16(12)...)
	b = append(b, u16(14)...)
	b = append(b, 0, 0)
	b = append(b, 0, 0)
	ll := u16(nLookups)
	lookupOff := 2 + 2*nLookups
	for i := 0; i < nLookups; i++ {
		ll = append(ll, u16(lookupOff)...)
	}
	subOff := 6 + 2*nSub
	lt := append(u16(extType), u16(0)...)
	lt = append(lt, u16(nSub)...)
	for i := 0; i < nSub; i++ {
		lt = append(lt, u16(subOff)...)
	}
	// the extension record: format 1, type 1, 32-bit offset 8
	lt = append(lt, 0, 1, 0, 1, 0, 0, 0, 8)
	var sub []byte
	if extType == 7 {
		// GSUB 1.1: format 1, coverage offset 6, delta 1
		sub = append(u16(1), u16(6)...)
		sub = append(sub, u16(1)...)
	} else {
		// GPOS 1.1: format 1, coverage offset 6, valueFormat 0
		sub = append(u16(1), u16(6)...)
		sub = append(sub, u16(0)...)
	}
	// coverage format 2: one range 0..65534
	sub = append(sub, u16(2)...)
	sub = append(sub, u16(1)...)
	sub = append(sub, u16(0)...)
	sub = append(sub, u16(65534)...)
	sub = append(sub, u16(0)...)
	lt = append(lt, sub...)
	ll = append(ll, lt...)
	return append(b, ll...)
}


func itoa(v int) string {
	if v == 0 {
		return "0"
	}
	var d []byte
	for ; v > 0; v /= 10 {
		d = append([]byte{byte('0' + v%10)}, d...)
	}
	return string(d)
}

// cffPredefinedCharset assembles, from the CFF specification (Adobe TN5176), a
// minimal simple (not CID-keyed) CFF font with nGlyphs glyphs (each the single
// operator endchar) whose Top DICT selects the predefined charset cs.
func cffPredefinedCharset(cs, nGlyphs int) []byte {
	int5 := func(v int) []byte { return []byte{29, byte(v >> 24), byte(v >> 16), byte(v >> 8), byte(v)} }
	b := []byte{1, 0, 4, 1}                       // header: 1.0, hdrSize 4, offSize 1
	b = append(b, 0, 1, 1, 1, 2, 'A')             // Name INDEX: one name "A"
	const topLen = 6 + 6 + 11                     // charset, CharStrings, Private
	charStringsAt := len(b) + (2 + 1 + 2 + topLen) + 2 + 2
	csIndexLen := 2 + 1 + 2*(nGlyphs+1) + nGlyphs // count, offSize 2, offsets, data
	privateAt := charStringsAt + csIndexLen
	top := append(int5(cs), 15)                                          // charset
	top = append(append(top, int5(charStringsAt)...), 17)                // CharStrings
	top = append(append(append(top, int5(2)...), int5(privateAt)...), 18) // Private: size, offset
	b = append(b, 0, 1, 1, 1, byte(1+len(top)))
	b = append(b, top...)
	b = append(b, 0, 0) // String INDEX: empty
	b = append(b, 0, 0) // Global Subr INDEX: empty
	b = append(b, byte(nGlyphs>>8), byte(nGlyphs), 2)
	for i := 0; i <= nGlyphs; i++ {
		b = append(b, byte((1+i)>>8), byte(1+i))
	}
	for i := 0; i < nGlyphs; i++ {
		b = append(b, 14) // endchar
	}
	b = append(b, 0x8b, 20) // Private DICT: defaultWidthX 0
	return b
}


// t2ColdPrograms: operand lists of length 0..4 over a few small values, each
// followed by one operator byte (or 12 + byte) and endchar.
func t2ColdPrograms() [][]byte {
	num := func(v int) []byte {
		if v >= -107 && v <= 107 {
			return []byte{byte(v + 139)}
		}
		return []byte{28, byte(v >> 8), byte(v)}
	}
	var ops [][]byte
	for b := 0; b < 32; b++ {
		if b == 12 || b == 28 {
			continue
		}
		ops = append(ops, []byte{byte(b)})
	}
	for b := 0; b < 40; b++ {
		ops = append(ops, []byte{12, byte(b)})
	}
	operandSets := [][]int{{}, {0}, {31}, {32}, {-1}, {0, 0}, {1, 0}, {5, 31}, {5, 32}, {1, 2, 3}, {3, 2, 1, 0}, {1, 2, 1, 3}, {7, 7, 2, -1}}
	var out [][]byte
	for _, op := range ops {
		for _, os := range operandSets {
			var p []byte
			for _, v := range os {
				p = append(p, num(v)...)
			}
			p = append(p, op...)
			if op[0] == 19 || op[0] == 20 {
				p = append(p, 0x80) // a mask byte for hintmask / cntrmask
			}
			p = append(p, 14)
			out = append(out, p)
		}
	}
	return out
}

// cffWithGlyph: minimal simple CFF font (see cffPredefinedCharset) with the
// glyphs .notdef = endchar and glyph 1 = prog, ISOAdobe charset.
func cffWithGlyph(prog []byte) []byte {
	int5 := func(v int) []byte { return []byte{29, byte(v >> 24), byte(v >> 16), byte(v >> 8), byte(v)} }
	b := []byte{1, 0, 4, 1}
	b = append(b, 0, 1, 1, 1, 2, 'A')
	const topLen = 6 + 11
	charStringsAt := len(b) + (2 + 1 + 2 + topLen) + 2 + 2
	csLen := 2 + 1 + 2*3 + 1 + len(prog)
	top := append(int5(charStringsAt), 17)
	top = append(append(append(top, int5(2)...), int5(charStringsAt+csLen)...), 18)
	b = append(b, 0, 1, 1, 1, byte(1+len(top)))
	b = append(b, top...)
	b = append(b, 0, 0, 0, 0)
	b = append(b, 0, 2, 2, 0, 1, 0, 2, byte((2+len(prog))>>8), byte(2+len(prog)))
	b = append(b, 14)
	b = append(b, prog...)
	b = append(b, 0x8b, 20)
	return b
}


// compositeTruncations: glyf/loca pairs (long loca format) holding one simple
// glyph and one composite glyph built from the TrueType description of the
// component record (flags, glyphIndex, arguments of 2 or 4 bytes, transform of
// 0, 2, 4 or 8 bytes, optional instructions), with the composite glyph's loca
// end moved back by 0..8 bytes.
func compositeTruncations() []advCase {
	var out []advCase
	simple := []byte{0, 1, 0, 0, 0, 0, 0, 10, 0, 10, 0, 0, 0, 0, 0x31} // one contour, one point at the origin (x and y "same")
	simple = append(simple, 0)                                         // pad to even
	variants := []struct {
		name  string
		flags int
		extra int // bytes behind flags+glyphIndex
	}{
		{"bytes", 0x0002, 2}, {"words", 0x0003, 4}, {"scale", 0x000B, 6}, {"xy", 0x0043, 8},
		{"2x2", 0x0083, 12}, {"bytes-2x2", 0x0082, 10}, {"instr", 0x0103, 4},
	}
	for _, v := range variants {
		for nComp := 1; nComp <= 2; nComp++ {
			comp := []byte{0xFF, 0xFF, 0, 0, 0, 0, 0, 10, 0, 10}
			for k := 0; k < nComp; k++ {
				fl := v.flags
				if k+1 < nComp {
					fl |= 0x0020 // MORE_COMPONENTS
				}
				comp = append(comp, byte(fl>>8), byte(fl), 0, 0)
				for i := 0; i < v.extra; i++ {
					comp = append(comp, byte(i+1))
				}
			}
			if v.flags&0x0100 != 0 {
				comp = append(comp, 0, 3, 1, 2, 3)
			}
			for cut := 0; cut <= 8 && cut < len(comp)-10; cut++ {
				gl := append(append([]byte(nil), simple...), comp...)
				end := len(gl) - cut
				be32 := func(v int) []byte { return []byte{byte(v >> 24), byte(v >> 16), byte(v >> 8), byte(v)} }
				lo := append(append(be32(0), be32(len(simple))...), be32(end)...)
				out = append(out, advCase{"glyf.Decode", "composite-" + v.name + "-" + itoa(nComp) + "-cut-" + itoa(cut),
					joinPair(gl, append([]byte{1}, lo...))})
			}
		}
	}
	return out
}
