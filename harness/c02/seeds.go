package c02

import (
	"bytes"

	"golang.org/x/image/font/gofont/gobold"
	"golang.org/x/image/font/gofont/goitalic"
	"golang.org/x/image/font/gofont/gomono"
	"golang.org/x/image/font/gofont/goregular"
	"golang.org/x/image/font/gofont/gosmallcaps"
	"golang.org/x/text/language"

	"seehuhn.de/go/postscript/cid"
	"seehuhn.de/go/postscript/type1"
	"seehuhn.de/go/sfnt"
	"seehuhn.de/go/sfnt/cff"
	"seehuhn.de/go/sfnt/cmap"
	"seehuhn.de/go/sfnt/glyph"
	"seehuhn.de/go/sfnt/header"
	"seehuhn.de/go/sfnt/internal/debug"
	"seehuhn.de/go/sfnt/opentype/classdef"
	"seehuhn.de/go/sfnt/opentype/coverage"
	"seehuhn.de/go/sfnt/opentype/gdef"
	"seehuhn.de/go/sfnt/opentype/gtab"
	"seehuhn.de/go/sfnt/opentype/gtab/builder"
	"seehuhn.de/go/sfnt/opentype/gtab/testcases"
)

var gposDescs = []string{
	"GPOS1: [A] -> y+500",
	"GPOS1: B -> x+10 y-20 dx+30",
	"GPOS1: [A D] -> y+100 || B -> y+200, E -> y+300",
	"GPOS1: -marks [M] -> y+500",
	"GPOS2: A V -> dx-300 & y+200",
	"GPOS2: A A -> & y+200",
	"GPOS2:\n/A/\nfirst A;\nsecond A;\n_, _;\n_, y+500",
	"GPOS3:\nA: 0,0 to 100,100;\nB: 10,10 to 100,-100",
	"GPOS4:\nmark M: 0@400,0\nbase A: @400,1000",
}

// seedSet maps decoder name -> valid inputs.
type seedSet map[string][][]byte

func tableBytes(font []byte, tag string) []byte {
	info, err := header.Read(bytes.NewReader(font))
	if err != nil {
		return nil
	}
	b, err := info.ReadTableBytes(bytes.NewReader(font), tag)
	if err != nil {
		return nil
	}
	return b
}

func makeSeeds() seedSet {
	s := seedSet{}
	add := func(name string, b []byte) {
		if b != nil {
			s[name] = append(s[name], b)
		}
	}
	var fonts [][]byte
	fonts = append(fonts, goregular.TTF, gobold.TTF, goitalic.TTF, gomono.TTF, gosmallcaps.TTF)

	simple := debug.MakeSimpleFont()
	cm, _ := simple.CMapTable.GetBest()
	gdefTable := &gdef.Table{
		GlyphClass: classdef.Table{
			cm.Lookup('B'): gdef.GlyphClassBase,
			cm.Lookup('K'): gdef.GlyphClassLigature,
			cm.Lookup('L'): gdef.GlyphClassLigature,
			cm.Lookup('M'): gdef.GlyphClassMark,
			cm.Lookup('N'): gdef.GlyphClassMark,
		},
	}
	add("gdef.Read", gdefTable.Encode())

	// GSUB / GPOS tables from the repository's own test descriptions
	var gsubAll, gposAll gtab.LookupList
	for i, tc := range testcases.Gsub {
		ll, err := builder.Parse(simple, tc.Desc)
		if err != nil {
			continue
		}
		gsubAll = append(gsubAll, ll...)
		if i%6 == 0 {
			info := &gtab.Info{
				ScriptList:  map[language.Tag]*gtab.Features{language.MustParse("und-Zzzz"): {Required: 0}},
				FeatureList: []*gtab.Feature{{Tag: "test", Lookups: []gtab.LookupIndex{0}}},
				LookupList:  ll,
			}
			add("gtab.Read/GSUB", info.Encode())
		}
	}
	for _, d := range gposDescs {
		ll, err := builder.Parse(simple, d)
		if err != nil {
			continue
		}
		gposAll = append(gposAll, ll...)
		info := &gtab.Info{
			ScriptList:  map[language.Tag]*gtab.Features{language.MustParse("und-Zzzz"): {Required: 0}},
			FeatureList: []*gtab.Feature{{Tag: "kern", Lookups: []gtab.LookupIndex{0}}},
			LookupList:  ll,
		}
		add("gtab.Read/GPOS", info.Encode())
	}
	mkInfo := func(ll gtab.LookupList, tag string) *gtab.Info {
		idx := make([]gtab.LookupIndex, len(ll))
		for i := range idx {
			idx[i] = gtab.LookupIndex(i)
		}
		return &gtab.Info{
			ScriptList: map[language.Tag]*gtab.Features{
				language.MustParse("und-Zzzz"): {Required: 0},
				language.MustParse("de-Latn"):  {Required: 0xFFFF, Optional: []gtab.FeatureIndex{0, 1}},
				language.MustParse("und-Latn"): {Required: 1, Optional: []gtab.FeatureIndex{0}},
			},
			FeatureList: []*gtab.Feature{{Tag: tag, Lookups: idx}, {Tag: "liga", Lookups: idx[:len(idx)/2]}},
			LookupList:  ll,
		}
	}
	if len(gsubAll) > 0 {
		add("gtab.Read/GSUB", mkInfo(gsubAll, "test").Encode())
		simple.Gsub = mkInfo(gsubAll[:len(gsubAll)/3], "test")
	}
	if len(gposAll) > 0 {
		add("gtab.Read/GPOS", mkInfo(gposAll, "kern").Encode())
		simple.Gpos = mkInfo(gposAll, "kern")
	}
	simple.Gdef = gdefTable
	var buf bytes.Buffer
	if _, err := simple.Write(&buf); err == nil {
		fonts = append(fonts, buf.Bytes())
	}
	plain := debug.MakeSimpleFont()
	buf2 := &bytes.Buffer{}
	if _, err := plain.Write(buf2); err == nil {
		fonts = append(fonts, buf2.Bytes())
	}
	// a TrueType subset written by the library itself
	if f, err := sfnt.Read(bytes.NewReader(goregular.TTF)); err == nil {
		func() {
			defer func() { recover() }()
			sub := f.Subset([]glyph.ID{0, 1, 2, 3, 36, 37, 38, 68, 69, 70, 100, 101, 200, 201})
			b3 := &bytes.Buffer{}
			if _, err := sub.Write(b3); err == nil {
				fonts = append(fonts, b3.Bytes())
			}
		}()
	}

	// CID-keyed CFF fonts written by the library: alternating Font DICTs force
	// FDSelect format 0; 40..1024 glyphs with a little outline each make the
	// CFF data larger than the parser's buffer, so that sections read early
	// (FDSelect) are followed by seeks that refill it
	for _, n := range []int{6, 40, 300, 1024, 1025} {
		if b := cidFontBytes(n, 3, true); b != nil {
			add("cff.Read", b)
		}
	}
	if b := cidFontBytes(500, 4, false); b != nil { // long runs: FDSelect format 3
		add("cff.Read", b)
	}

	for _, f := range fonts {
		add("sfnt.Read", f)
		add("header.Read", f)
		add("cff.Read", tableBytes(f, "CFF "))
		add("cmap.Decode", tableBytes(f, "cmap"))
		add("name.Decode", tableBytes(f, "name"))
		add("head.Read", tableBytes(f, "head"))
		add("maxp.Read", tableBytes(f, "maxp"))
		add("os2.Read", tableBytes(f, "OS/2"))
		add("post.Read", tableBytes(f, "post"))
		add("kern.Read", tableBytes(f, "kern"))
		add("gtab.Read/GSUB", tableBytes(f, "GSUB"))
		add("gtab.Read/GPOS", tableBytes(f, "GPOS"))
		add("gdef.Read", tableBytes(f, "GDEF"))
		if hh, hm := tableBytes(f, "hhea"), tableBytes(f, "hmtx"); hh != nil && hm != nil {
			add("hmtx.Decode", joinPair(hh, hm))
		}
		if gl, lo := tableBytes(f, "glyf"), tableBytes(f, "loca"); gl != nil && lo != nil {
			hd := tableBytes(f, "head")
			format := byte(0)
			if len(hd) >= 52 {
				format = hd[51]
			}
			if len(gl) < 200000 {
				add("glyf.Decode", joinPair(gl, append([]byte{format}, lo...)))
			}
		}
	}
	// a synthetic kern table (format 0, two subtables)
	add("kern.Read", []byte{0, 0, 0, 2,
		0, 0, 0, 26, 0, 1, 0, 2, 0, 12, 0, 1, 0, 4, 0, 1, 0, 2, 0xFF, 0x38, 0, 3, 0, 4, 0, 50,
		0, 0, 0, 20, 0, 3, 0, 1, 0, 6, 0, 0, 0, 0, 0, 1, 0, 2, 0, 10})

	// coverage / classdef / coverage sets
	c1 := coverage.Table{1: 0, 3: 1, 7: 2, 100: 3}
	c2 := coverage.Table{}
	for i := 0; i < 300; i++ {
		c2[glyph.ID(10+i)] = i
	}
	add("coverage.Read", c1.Encode())
	add("coverage.Read", c2.Encode())
	cd1 := classdef.Table{1: 1, 2: 1, 3: 2, 40: 3, 41: 3, 42: 3, 1000: 1}
	cd2 := classdef.Table{}
	for i := 0; i < 200; i++ {
		cd2[glyph.ID(500+i)] = uint16(1 + i%3)
	}
	add("classdef.Read", cd1.Append(nil))
	add("classdef.Read", cd2.Append(nil))
	add("coverage.ReadSet", coverage.Set{1: true, 2: true, 9: true}.ToTable().Encode())

	// cmap tables holding every subtable format the library decodes (0, 4, 6,
	// 12), under Unicode, Windows and Macintosh keys: the subtable decoders run
	// when useCmap asks for each key
	for _, t := range cmapSeedTables() {
		add("cmap.Decode", t)
	}
	// simple CFF fonts with a built-in encoding of each format (0, 1, with and
	// without supplement)
	for v := 0; v < 4; v++ {
		if b := cffEncodingFontBytes(v); b != nil {
			add("cff.Read", b)
		}
	}
	return s
}

func cmapSeedTables() [][]byte {
	var out [][]byte
	f0 := &cmap.Format0{}
	for c := 32; c < 256; c++ {
		f0.Data[c] = byte(c - 31)
	}
	f4 := cmap.Format4{}
	for c := 0x20; c < 0x7F; c++ {
		f4[uint16(c)] = glyph.ID(c - 0x1F)
	}
	f4[0x2026] = 300
	f4[0xFFFD] = 301
	f12 := cmap.Format12{}
	for c := 0x20; c < 0x7F; c++ {
		f12[uint32(c)] = glyph.ID(c - 0x1F)
	}
	for c := 0x1F600; c < 0x1F650; c++ {
		f12[uint32(c)] = glyph.ID(400 + c - 0x1F600)
	}
	f12[0x10FFFF] = 7
	// format 6 (the library has no encoder for it): firstCode 0x41, 5 entries
	f6 := []byte{0, 6, 0, 20, 0, 0, 0, 0x41, 0, 5, 0, 1, 0, 2, 0, 0, 0, 4, 0, 5}
	out = append(out,
		cmap.Table{{PlatformID: 3, EncodingID: 10}: f12.Encode(0), {PlatformID: 3, EncodingID: 1}: f4.Encode(0)}.Encode(),
		cmap.Table{{PlatformID: 0, EncodingID: 4}: f12.Encode(0)}.Encode(),
		cmap.Table{{PlatformID: 1, EncodingID: 0}: f0.Encode(0), {PlatformID: 3, EncodingID: 1}: f4.Encode(0)}.Encode(),
		cmap.Table{{PlatformID: 1, EncodingID: 0}: f6, {PlatformID: 0, EncodingID: 3}: f6, {PlatformID: 3, EncodingID: 0}: f4.Encode(0)}.Encode(),
		cmap.Table{{PlatformID: 1, EncodingID: 0, Language: 2}: f4.Encode(2), {PlatformID: 1, EncodingID: 0}: f0.Encode(0), {PlatformID: 0, EncodingID: 6}: f12.Encode(0)}.Encode(),
	)
	return out
}

// cffEncodingFontBytes writes a simple CFF font whose built-in encoding needs
// format 0 (scattered codes), format 1 (runs of codes), each also with a glyph
// that has two codes (a supplement).
func cffEncodingFontBytes(variant int) (out []byte) {
	defer func() {
		if recover() != nil {
			out = nil
		}
	}()
	const n = 40
	o := &cff.Outlines{}
	for i := 0; i < n; i++ {
		name := ".notdef"
		if i > 0 {
			name = "g" + string(rune('A'+i%26)) + string(rune('a'+i/26))
		}
		g := cff.NewGlyph(name, float64(500+i))
		g.MoveTo(0, 0)
		g.LineTo(float64(100+i), 0)
		g.LineTo(float64(100+i), 300)
		o.Glyphs = append(o.Glyphs, g)
	}
	o.Private = []*type1.PrivateDict{{BlueScale: 0.039625, BlueShift: 7, BlueFuzz: 1}}
	o.FDSelect = func(glyph.ID) int { return 0 }
	enc := make([]glyph.ID, 256)
	for g := 1; g < n; g++ {
		var code int
		if variant%2 == 0 {
			code = (g*37 + 11) % 251 // scattered: format 0
			for enc[code] != 0 {
				code = (code + 1) % 256
			}
		} else {
			code = 40 + g // long runs: format 1
			if g > 20 {
				code = 100 + g
			}
		}
		enc[code] = glyph.ID(g)
	}
	if variant >= 2 {
		for c := 255; c > 0; c-- {
			if enc[c] == 0 {
				enc[c] = 5 // glyph 5 gets a second code
				break
			}
		}
		if enc[1] == 0 {
			enc[1] = 9
		}
	}
	o.Encoding = enc
	f := &cff.Font{FontInfo: &type1.FontInfo{FontName: "VerifEnc", FontMatrix: [6]float64{0.001, 0, 0, 0.001, 0, 0}}, Outlines: o}
	buf := &bytes.Buffer{}
	if err := f.Write(buf); err != nil {
		return nil
	}
	return buf.Bytes()
}


// cidFontBytes writes, with the library's own writer, a CID-keyed CFF font with
// n glyphs spread over nFD Font DICTs (alternating per glyph, or in long runs).
func cidFontBytes(n, nFD int, alternate bool) (out []byte) {
	defer func() {
		if recover() != nil {
			out = nil
		}
	}()
	o := &cff.Outlines{}
	fds := make([]int, n)
	for i := 0; i < n; i++ {
		g := cff.NewGlyph("", float64(400+i%7*50))
		g.MoveTo(float64(10+i%13), 0)
		g.LineTo(float64(300+i%17), 0)
		g.LineTo(float64(300+i%17), float64(500+i%19))
		g.LineTo(float64(10+i%13), float64(500+i%19))
		o.Glyphs = append(o.Glyphs, g)
		if alternate {
			fds[i] = i % nFD
		} else {
			fds[i] = i * nFD / n
		}
	}
	for k := 0; k < nFD; k++ {
		o.Private = append(o.Private, &type1.PrivateDict{BlueScale: 0.039625, BlueShift: 7, BlueFuzz: 1, StdHW: float64(10 + k)})
		o.FontMatrices = append(o.FontMatrices, [6]float64{1, 0, 0, 1, 0, 0})
	}
	o.FDSelect = func(g glyph.ID) int { return fds[g] }
	o.ROS = &cid.SystemInfo{Registry: "Adobe", Ordering: "Identity", Supplement: 0}
	o.GIDToCID = make([]cid.CID, n)
	for i := range o.GIDToCID {
		o.GIDToCID[i] = cid.CID(i)
	}
	f := &cff.Font{FontInfo: &type1.FontInfo{FontName: "VerifCID", FontMatrix: [6]float64{0.001, 0, 0, 0.001, 0, 0}}, Outlines: o}
	buf := &bytes.Buffer{}
	if err := f.Write(buf); err != nil {
		return nil
	}
	return buf.Bytes()
}
