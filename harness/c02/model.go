package c02

import (
	"bytes"
	"encoding/hex"

	"seehuhn.de/go/sfnt/opentype/gtab"
	"seehuhn.de/go/sfnt/verifharness/vlib"
)

// observeGtab runs the real readGtab through the verif hook (extension records
// decoded by the real code, every other subtable recorded as a leaf) and
// prints what the model prints.
func observeGtab(which string, data []byte) (obs string) {
	defer func() {
		if e := recover(); e != nil {
			obs = "panic"
		}
	}()
	var tp gtab.Type = gtab.TypeGsub
	if which == "gpos" {
		tp = gtab.TypeGpos
	}
	info, calls, err := gtab.VerifC02ReadGtab(bytes.NewReader(data), tp)
	if err != nil {
		return "err"
	}
	fl := vlib.List{}
	for _, f := range info.FeatureList {
		t := []byte(f.Tag)
		tag := uint64(t[0])<<24 | uint64(t[1])<<16 | uint64(t[2])<<8 | uint64(t[3])
		e := vlib.List{vlib.U64(tag)}
		for _, l := range f.Lookups {
			e = append(e, vlib.Int(int(l)))
		}
		fl = append(fl, e)
	}
	ll := vlib.List{}
	for _, l := range info.LookupList {
		subs := vlib.List{}
		for _, st := range l.Subtables {
			if leaf, ok := st.(*gtab.VerifC02Leaf); ok {
				subs = append(subs, vlib.L(vlib.Atom("leaf"), vlib.I64(leaf.Pos), vlib.Int(int(leaf.Type)), vlib.Int(int(leaf.Format))))
			} else if t, off, ok := gtab.VerifC02ExtensionInfo(st); ok {
				subs = append(subs, vlib.L(vlib.Atom("ext"), vlib.Int(int(t)), vlib.I64(off)))
			} else {
				subs = append(subs, vlib.Atom("other"))
			}
		}
		ll = append(ll, vlib.L(vlib.Int(int(l.Meta.LookupType)), vlib.Int(int(l.Meta.LookupFlags)), vlib.Int(int(l.Meta.MarkFilteringSet)), subs))
	}
	// calls = how often the subtable reader really ran (the reader decodes every
	// subtable once; the model predicts the number of distinct calls)
	return vlib.Str(vlib.L(vlib.Atom("ok"), vlib.Int(calls), fl, ll))
}

func gtabCaseLine(which string, data []byte) string {
	return "gtab " + which + " x" + hex.EncodeToString(data)
}
