// Package c16b is the harness of part C16B of property C16: the tie between
// the Coq footprint model (coq/C16B) and the real receiver objects.
//
// The model states, per receiver kind, which reference-typed fields ALIAS
// memory of the font and which refer to FRESH memory (Programs.v:
// alias_table); its theorems (separate_layouters_independent, ...) are about
// programs that store only through the fresh fields of their own receiver.
// Here, hook-free:
//
//	alias cases   a reflection walk classifies every reference-typed field of
//	              the real objects (sfnt.Layouter, gtab.Context, the frames of
//	              its stack, its keepFunc, the results of Font.Clone and
//	              Font.Subset) by pointer-range overlap (including spare
//	              capacity) with the memory reachable from the font; the model
//	              prints its table; the two are compared as strings.  A field
//	              added to a struct, or a fresh field that starts to alias the
//	              font, is a mismatch: the model's privacy hypothesis no longer
//	              matches the code.
//	writes cases  the memory each field refers to (and the struct's own words)
//	              is compared before / after one Layout / Apply; the model says
//	              whether every written field is one it takes to be written.
//
// Oracles (the property on the real objects, independent of the model): memory
// behind an alias field is never changed by Layout / Apply; two receivers
// created from the same font have no memory in common except font memory.
package c16b

import (
	"bytes"
	"fmt"
	"reflect"
	"sort"
	"strings"
	"unsafe"

	"golang.org/x/text/language"

	"seehuhn.de/go/sfnt"
	"seehuhn.de/go/sfnt/glyph"
	"seehuhn.de/go/sfnt/opentype/gtab"
	"seehuhn.de/go/sfnt/verifharness/c16"
	"seehuhn.de/go/sfnt/verifharness/vlib"
)

// ---------------------------------------------------------------- environments

type envT struct {
	e  *c16.Env
	rs *c16.RegionSet
}

var envs = map[string]*envT{}

func getEnv(name string) (*envT, error) {
	if x, ok := envs[name]; ok {
		return x, nil
	}
	e, err := c16.BuildEnv(name)
	if err != nil {
		return nil, err
	}
	x := &envT{e: e, rs: c16.SharedRegions(e)}
	envs[name] = x
	return x, nil
}

var langs = []language.Tag{language.AmericanEnglish, language.German, language.Und}

func features(i int) (gs, gp map[string]bool) {
	switch i % 4 {
	case 1:
		return map[string]bool{"liga": true}, map[string]bool{}
	case 2:
		return map[string]bool{"ss01": true}, map[string]bool{"ss02": true}
	case 3:
		return map[string]bool{"ss02": true, "liga": false}, map[string]bool{"ss01": true, "kern": false}
	}
	return nil, nil
}

// ---------------------------------------------------------------- how an object is obtained

// how = (layouter lang feat n) | (lctx gsub|gpos lang feat n) | (dctx list variant)
//     | (frame <ctx-how> k) | (keep <ctx-how>) | (clone) | (subset arg)
// n = number of texts of the environment laid out before the object is looked at.

func newLayouter(x *envT, lang, feat, n int) (*sfnt.Layouter, error) {
	gs, gp := features(feat)
	l, err := x.e.Font.NewLayouter(langs[lang%len(langs)], gs, gp)
	if err != nil {
		return nil, err
	}
	for i := 0; i < n && i < len(x.e.Texts); i++ {
		l.Layout(x.e.Texts[i])
	}
	return l, nil
}

// direct context on a shared lookup list; the variants are the ways callers
// hand a sequence to Apply
func directSeq(x *envT, list, variant int) []glyph.Info {
	lc := x.e.Lists[list%len(x.e.Lists)]
	in := lc.In
	if variant == 3 {
		in = ""
	}
	seq := c16.TextSeq(x.e, in)
	if variant == 1 {
		// a sub-slice of a larger array of the caller, with spare capacity
		big := make([]glyph.Info, len(seq)+9)
		copy(big[2:], seq)
		seq = big[2 : 2+len(seq) : len(big)-1]
	}
	return seq
}

func newDirect(x *envT, list, variant int) (*gtab.Context, [][2]string) {
	lc := x.e.Lists[list%len(x.e.Lists)]
	lookups := lc.Lookups // shared between the goroutines of a C16 case
	gd := x.e.Font.Gdef
	switch variant {
	case 2:
		lookups = append(append([]gtab.LookupIndex{9999}, lookups...), 65535) // the caller's own
	case 4:
		gd = nil
	}
	given := [][2]string{{"lookups", x.rs.ClassifyValue(reflect.ValueOf(&lookups).Elem())}}
	return gtab.NewContext(lc.List, gd, lookups), given
}

type obj struct {
	kind string
	ptr  any // pointer to the struct
	// for the writes cases: run one more operation on it
	step func(text int)
	err  string
	// what the caller handed to gtab.NewContext / Apply, classified before the
	// call (fields the receiver only keeps)
	given [][2]string
}

func ctxObj(ctx *gtab.Context, x *envT, list, variant int) *obj {
	o := &obj{kind: "Context", ptr: ctx}
	o.step = func(text int) { ctx.Apply(directSeq(x, list+text, variant)) }
	return o
}

func obtain(x *envT, how vlib.Sx) *obj {
	l, err := vlib.AsList(how)
	if err != nil || len(l) == 0 {
		return &obj{err: "bad how"}
	}
	tag, _ := vlib.AsAtom(l[0])
	ints := func(from int) []int {
		var out []int
		for _, y := range l[from:] {
			v, err := vlib.AsInt(y)
			if err != nil {
				return nil
			}
			out = append(out, v)
		}
		return out
	}
	switch tag {
	case "layouter":
		a := ints(1)
		if len(a) != 3 {
			return &obj{err: "bad layouter"}
		}
		ly, err := newLayouter(x, a[0], a[1], a[2])
		if err != nil {
			return &obj{err: err.Error()}
		}
		return &obj{kind: "Layouter", ptr: ly, step: func(t int) { ly.Layout(x.e.Texts[t%len(x.e.Texts)]) }}
	case "lctx":
		which, _ := vlib.AsAtom(l[1])
		a := ints(2)
		if len(a) != 3 {
			return &obj{err: "bad lctx"}
		}
		ly, err := newLayouter(x, a[0], a[1], a[2])
		if err != nil {
			return &obj{err: err.Error()}
		}
		cv := c16.Field(ly, which)
		if cv.IsNil() {
			return &obj{err: "nil"}
		}
		ctx := cv.Interface().(*gtab.Context)
		return &obj{kind: "Context", ptr: ctx, step: func(t int) { ly.Layout(x.e.Texts[t%len(x.e.Texts)]) }}
	case "dctx":
		a := ints(1)
		if len(a) != 2 || len(x.e.Lists) == 0 {
			return &obj{err: "bad dctx"}
		}
		ctx, given := newDirect(x, a[0], a[1])
		seq := directSeq(x, a[0], a[1])
		given = append(given, [2]string{"seq", x.rs.ClassifyValue(reflect.ValueOf(&seq).Elem())})
		ctx.Apply(seq)
		o := ctxObj(ctx, x, a[0], a[1])
		o.given = given
		return o
	case "frame", "keep":
		if len(l) < 2 {
			return &obj{err: "bad frame"}
		}
		co := obtain(x, l[1])
		if co.err != "" || co.kind != "Context" {
			return &obj{err: "no context"}
		}
		if tag == "keep" {
			kp := c16.Field(co.ptr, "keep")
			if kp.IsNil() {
				return &obj{err: "nil"}
			}
			return &obj{kind: "keepFunc", ptr: reflect.NewAt(kp.Type().Elem(), kp.UnsafePointer()).Interface(), step: co.step}
		}
		k, err := vlib.AsInt(l[2])
		if err != nil {
			return &obj{err: "bad frame index"}
		}
		st := c16.Field(co.ptr, "stack")
		if st.IsNil() || k >= st.Cap() {
			return &obj{err: "nil"}
		}
		fr := c16.RW(st.Slice(0, st.Cap()).Index(k))
		if fr.IsNil() {
			return &obj{err: "nil"}
		}
		return &obj{kind: "nested", ptr: reflect.NewAt(fr.Type().Elem(), fr.UnsafePointer()).Interface(), step: co.step}
	case "clone":
		return &obj{kind: "Clone", ptr: x.e.Font.Clone()}
	case "subset":
		a := ints(1)
		if len(a) != 1 {
			return &obj{err: "bad subset"}
		}
		var res *sfnt.Font
		func() {
			defer func() {
				if recover() != nil {
					res = nil
				}
			}()
			res = x.e.Font.Subset(c16.SubsetGlyphs(x.e, a[0]))
		}()
		if res == nil {
			return &obj{err: "panic"}
		}
		return &obj{kind: "Subset", ptr: res}
	}
	return &obj{err: "unknown how " + tag}
}

// ---------------------------------------------------------------- observations

func classify(x *envT, o *obj) (impl string, nones []string, nAlias, nFresh int, detail string) {
	fa := x.rs.ClassifyFields(o.ptr)
	items := vlib.List{}
	for _, f := range fa {
		items = append(items, vlib.L(vlib.Atom(f.Name), vlib.Atom(f.Kind)))
		switch f.Kind {
		case "none":
			nones = append(nones, f.Name)
		case "alias":
			nAlias++
			detail += f.Name + "->" + f.Shared + " "
		case "fresh":
			nFresh++
		}
	}
	return vlib.Str(items), nones, nAlias, nFresh, detail
}

type fieldSnap struct {
	ref   unsafe.Pointer
	cap   int
	bytes []byte
}

type snap struct {
	self   []byte
	fields map[string]fieldSnap
	order  []string
}

func memCopy(p unsafe.Pointer, n uintptr) []byte {
	if p == nil || n == 0 {
		return nil
	}
	return append([]byte(nil), unsafe.Slice((*byte)(p), n)...)
}

// target returns the memory a reference-typed value directly refers to.
func target(v reflect.Value) (unsafe.Pointer, int, uintptr) {
	v = c16.RW(v)
	switch v.Kind() {
	case reflect.Ptr:
		if v.IsNil() {
			return nil, 0, 0
		}
		return v.UnsafePointer(), 1, v.Type().Elem().Size()
	case reflect.Slice:
		if v.IsNil() || v.Cap() == 0 {
			return nil, 0, 0
		}
		return v.UnsafePointer(), v.Cap(), uintptr(v.Cap()) * v.Type().Elem().Size()
	case reflect.Interface:
		if v.IsNil() {
			return nil, 0, 0
		}
		if el := v.Elem(); el.Kind() == reflect.Ptr || el.Kind() == reflect.Slice {
			return target(el)
		} else if el.Kind() == reflect.Map {
			return el.UnsafePointer(), el.Len(), 0
		}
		return nil, 0, 0
	case reflect.Map:
		if v.IsNil() {
			return nil, 0, 0
		}
		return v.UnsafePointer(), v.Len(), 0
	}
	return nil, -1, 0
}

func takeSnap(p any) snap {
	v := reflect.ValueOf(p).Elem()
	s := snap{fields: map[string]fieldSnap{}}
	s.self = memCopy(unsafe.Pointer(v.UnsafeAddr()), v.Type().Size())
	for i := 0; i < v.NumField(); i++ {
		ref, c, n := target(v.Field(i))
		if c < 0 {
			continue
		}
		name := v.Type().Field(i).Name
		s.fields[name] = fieldSnap{ref, c, memCopy(ref, n)}
		s.order = append(s.order, name)
	}
	return s
}

// written compares the object with an earlier snapshot.  A field counts as
// written when the memory it referred to changed, or when it now refers to
// other memory that is not font memory (newly allocated and filled); a field
// that was re-pointed at font memory is a change of the struct's own words.
// aliasWritten lists fields whose target lies in font memory and changed.
func written(x *envT, p any, before snap) (w []string, aliasWritten []string) {
	after := takeSnap(p)
	if !bytes.Equal(before.self, after.self) {
		w = append(w, "self")
	}
	for _, name := range after.order {
		b, a := before.fields[name], after.fields[name]
		if a.ref == b.ref && a.cap == b.cap {
			if !bytes.Equal(a.bytes, b.bytes) {
				w = append(w, name)
				if ok, _ := x.rs.Overlaps(a.ref, uintptr(len(a.bytes))); ok {
					aliasWritten = append(aliasWritten, name)
				}
			}
			// the memory the field referred to before is still what it was
			continue
		}
		// re-pointed: the old target must be unchanged if it is font memory
		if b.ref != nil {
			if ok, _ := x.rs.Overlaps(b.ref, uintptr(len(b.bytes))); ok && !bytes.Equal(memCopy(b.ref, uintptr(len(b.bytes))), b.bytes) {
				aliasWritten = append(aliasWritten, name)
			}
		}
		if a.ref != nil {
			if ok, _ := x.rs.Overlaps(a.ref, uintptr(max(len(a.bytes), 1))); !ok {
				w = append(w, name)
			}
		}
	}
	return
}

// ---------------------------------------------------------------- cases

func aliasLine(kind string, nones []string, given [][2]string, env string, how vlib.Sx) string {
	n := vlib.List{vlib.Atom("none")}
	for _, s := range nones {
		n = append(n, vlib.Atom(s))
	}
	g := vlib.List{vlib.Atom("given")}
	for _, s := range given {
		g = append(g, vlib.L(vlib.Atom(s[0]), vlib.Atom(s[1])))
	}
	return vlib.Line(vlib.Atom("alias"), vlib.Atom(kind), n, g, vlib.Atom(env), how)
}

func writesLine(kind string, w []string, env string, how vlib.Sx, text int) string {
	n := vlib.List{vlib.Atom("written")}
	for _, s := range w {
		n = append(n, vlib.Atom(s))
	}
	return vlib.Line(vlib.Atom("writes"), vlib.Atom(kind), n, vlib.Atom(env), how, vlib.Int(text))
}

type outcome struct {
	line, impl string
	labels     []string
	nontrivial bool
	fail, sig  string
	skip       bool
}

func runAlias(env string, how vlib.Sx) outcome {
	x, err := getEnv(env)
	if err != nil {
		return outcome{fail: err.Error(), sig: "harness-error", line: "!alias " + env, impl: "(harness-error)"}
	}
	o := obtain(x, how)
	if o.err != "" {
		return outcome{skip: true}
	}
	impl, nones, na, nf, _ := classify(x, o)
	tag, _ := vlib.AsAtom(how.(vlib.List)[0])
	labels := []string{"case:alias", "kind:" + o.kind, "env:" + env, "how:" + tag, fmt.Sprintf("alias-fields:%d", na), fmt.Sprintf("none-fields:%d", len(nones))}
	return outcome{line: aliasLine(o.kind, nones, o.given, env, how), impl: impl, labels: labels, nontrivial: na > 0 && nf > 0}
}

func runWrites(env string, how vlib.Sx, text int) outcome {
	x, err := getEnv(env)
	if err != nil {
		return outcome{fail: err.Error(), sig: "harness-error", line: "!writes " + env, impl: "(harness-error)"}
	}
	o := obtain(x, how)
	if o.err != "" || o.step == nil {
		return outcome{skip: true}
	}
	before := takeSnap(o.ptr)
	panicked := false
	func() {
		defer func() {
			if recover() != nil {
				panicked = true
			}
		}()
		o.step(text)
	}()
	w, aw := written(x, o.ptr, before)
	sort.Strings(w)
	tag, _ := vlib.AsAtom(how.(vlib.List)[0])
	labels := []string{"case:writes", "kind:" + o.kind, "env:" + env, "how:" + tag, fmt.Sprintf("written-fields:%d", len(w))}
	if panicked {
		labels = append(labels, "step:panic")
	}
	out := outcome{line: writesLine(o.kind, w, env, how, text), impl: "((covered 1))", labels: labels, nontrivial: len(w) >= 2}
	if len(aw) > 0 {
		out.sig = "alias-field-written:" + o.kind + "." + strings.Join(aw, ",")
		out.fail = fmt.Sprintf("memory of the shared font behind field(s) %s of a %s changed during one Layout/Apply (%s, %s)", strings.Join(aw, ","), o.kind, env, vlib.Str(how))
	}
	return out
}

// runDisjoint: two receivers created from the same font (oracle only).
func runDisjoint(env string, howA, howB vlib.Sx) outcome {
	x, err := getEnv(env)
	if err != nil {
		return outcome{skip: true}
	}
	a, b := obtain(x, howA), obtain(x, howB)
	if a.err != "" || b.err != "" {
		return outcome{skip: true}
	}
	if a.step != nil {
		a.step(0)
		b.step(1)
		a.step(2)
	}
	ra := c16.ReachableRegions(reflect.ValueOf(a.ptr))
	rb := c16.ReachableRegions(reflect.ValueOf(b.ptr))
	common := c16.CommonOutside(ra, rb, x.rs)
	out := outcome{line: "!" + vlib.Line(vlib.Atom("disjoint"), vlib.Atom(env), howA, howB), impl: "(disjoint)",
		labels: []string{"case:disjoint", "kind:" + a.kind, "env:" + env}, nontrivial: true}
	if len(common) > 0 {
		if len(common) > 6 {
			common = common[:6]
		}
		out.impl = "(shared)"
		out.sig = "receivers-share-memory:" + a.kind
		out.fail = fmt.Sprintf("two %ss created from the same font (%s) have memory in common that is not font memory: %s", a.kind, env, strings.Join(common, "; "))
	}
	return out
}

func RunCase(line string) (impl, fail, sig string, err error) {
	line = strings.TrimPrefix(line, "!")
	items, err := vlib.Parse(line)
	if err != nil || len(items) < 3 {
		return "", "", "", fmt.Errorf("C16B case: %v", err)
	}
	tag, _ := vlib.AsAtom(items[0])
	var o outcome
	switch tag {
	case "alias":
		if len(items) != 6 {
			return "", "", "", fmt.Errorf("alias case: 6 items expected")
		}
		env, _ := vlib.AsAtom(items[4])
		o = runAlias(env, items[5])
	case "writes":
		if len(items) != 6 {
			return "", "", "", fmt.Errorf("writes case: 6 items expected")
		}
		env, _ := vlib.AsAtom(items[3])
		t, _ := vlib.AsInt(items[5])
		o = runWrites(env, items[4], t)
	case "disjoint":
		if len(items) != 4 {
			return "", "", "", fmt.Errorf("disjoint case: 4 items expected")
		}
		env, _ := vlib.AsAtom(items[1])
		o = runDisjoint(env, items[2], items[3])
	default:
		return "", "", "", fmt.Errorf("unknown case kind %q", tag)
	}
	if o.skip {
		return "(skip)", "", "", nil
	}
	return o.impl, o.fail, o.sig, nil
}
