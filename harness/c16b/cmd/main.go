package main

import (
	"seehuhn.de/go/sfnt/verifharness/c16b"
	"seehuhn.de/go/sfnt/verifharness/vlib"
)

func main() { vlib.Main(c16b.Gen, c16b.RunCase) }
