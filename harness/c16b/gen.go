package c16b

import (
	"fmt"
	"time"

	"seehuhn.de/go/sfnt/verifharness/c16"
	"seehuhn.de/go/sfnt/verifharness/vlib"
)

func how(tag string, xs ...any) vlib.Sx {
	l := vlib.List{vlib.Atom(tag)}
	for _, x := range xs {
		switch v := x.(type) {
		case int:
			l = append(l, vlib.Int(v))
		case string:
			l = append(l, vlib.Atom(v))
		case vlib.Sx:
			l = append(l, v)
		}
	}
	return l
}

func Gen(run *vlib.Run, seed uint64, tier string) {
	run.Rule = "alias case: a receiver object obtained from a real environment (kind, environment, how it was obtained); non-trivial = it has at least one field that aliases the font and one that refers to fresh memory.  writes case: one more Layout/Apply on such a receiver; non-trivial = at least two of its fields (or its own words) were written.  disjoint case (oracle only): two receivers created from the same font; distinct by the case line"
	r := vlib.NewRand(seed)
	t0 := time.Now()
	names := c16.QuickEnvNames
	if tier == "thorough" {
		names = c16.AllEnvNames()
	}
	emit := func(o outcome) {
		if o.skip {
			run.Hist["skipped:receiver-absent"]++
			return
		}
		idx := run.Add(o.line, o.impl, o.nontrivial, o.labels...)
		if o.fail != "" {
			run.Fail(idx, o.line, o.fail, o.sig)
		}
	}
	nRand := vlib.Count(tier, 12, 120)
	for _, n := range names {
		x, err := getEnv(n)
		if err != nil {
			idx := run.Add("!env "+n, "(harness-error)", false, "harness-error")
			run.Fail(idx, "env "+n, "environment cannot be built: "+err.Error(), "harness-error")
			continue
		}
		nt := len(x.e.Texts)
		// ---- results of Clone and Subset
		emit(runAlias(n, how("clone")))
		for a := 0; a < 7; a++ {
			emit(runAlias(n, how("subset", a)))
		}
		// ---- layouters: new (boundary: nothing laid out yet), after one text,
		// after all texts; every language / feature variant
		var lhows []vlib.Sx
		for lang := 0; lang < 3; lang++ {
			for feat := 0; feat < 4; feat++ {
				for _, k := range []int{0, 1, nt} {
					if (lang+feat)%2 == 1 && k == 1 && tier != "thorough" {
						continue
					}
					lhows = append(lhows, how("layouter", lang, feat, k))
				}
			}
		}
		for _, h := range lhows {
			emit(runAlias(n, h))
			a := h.(vlib.List)
			for _, which := range []string{"gsub", "gpos"} {
				ch := how("lctx", which, a[1], a[2], a[3])
				emit(runAlias(n, ch))
				emit(runAlias(n, how("keep", ch)))
				for k := 0; k < 3; k++ {
					emit(runAlias(n, how("frame", ch, k)))
				}
			}
		}
		// ---- direct contexts on the shared lookup lists (all variants of the
		// caller's sequence; out-of-range lookup indices, no GDEF, empty text)
		nl := len(x.e.Lists)
		var dhows []vlib.Sx
		if nl > 0 {
			step := 1
			if nl > 40 && tier != "thorough" {
				step = nl / 40
			}
			for li := 0; li < nl; li += step {
				v := (li / step) % 5
				dhows = append(dhows, how("dctx", li, v))
			}
			for v := 0; v < 5; v++ {
				dhows = append(dhows, how("dctx", r.Intn(nl), v))
			}
		}
		for _, h := range dhows {
			emit(runAlias(n, h))
			emit(runAlias(n, how("keep", h)))
			for k := 0; k < 2; k++ {
				emit(runAlias(n, how("frame", h, k)))
			}
		}
		// ---- writes: one more Layout / Apply on a receiver
		for i := 0; i < nRand; i++ {
			h := vlib.Pick(r, lhows)
			a := h.(vlib.List)
			t := r.Intn(nt)
			emit(runWrites(n, h, t))
			which := vlib.Pick(r, []string{"gsub", "gpos"})
			ch := how("lctx", which, a[1], a[2], a[3])
			emit(runWrites(n, ch, t))
			emit(runWrites(n, how("frame", ch, r.Intn(2)), t))
			if len(dhows) > 0 {
				dh := vlib.Pick(r, dhows)
				emit(runWrites(n, dh, r.Intn(3)))
				emit(runWrites(n, how("frame", dh, 0), r.Intn(3)))
			}
		}
		// ---- two receivers from the same font share font memory only
		for i := 0; i < vlib.Count(tier, 6, 40); i++ {
			ha, hb := vlib.Pick(r, lhows), vlib.Pick(r, lhows)
			emit(runDisjoint(n, ha, hb))
			if len(dhows) > 0 {
				emit(runDisjoint(n, vlib.Pick(r, dhows), vlib.Pick(r, dhows)))
			}
		}
	}
	run.Extra["wall_s"] = fmt.Sprintf("%.1f", time.Since(t0).Seconds())
}
