// Package c08d is the harness of part C08D (property C08): whole GSUB/GPOS
// tables through the public API (*gtab.Info).Encode and gtab.Read, compared
// with the composed model of coq/C08D.
//
// This file: the description of a whole Info (the canonical, printable form
// shared with the model driver ocaml/c08d_driver.ml), its S-expression syntax,
// the conversion to and from the library's values.  It is also used by the
// harness of part C02B.
package c08d

import (
	"errors"
	"fmt"
	"sort"

	"golang.org/x/text/language"
	"seehuhn.de/go/postscript/funit"
	"seehuhn.de/go/sfnt/glyph"
	"seehuhn.de/go/sfnt/opentype/anchor"
	"seehuhn.de/go/sfnt/opentype/classdef"
	"seehuhn.de/go/sfnt/opentype/coverage"
	"seehuhn.de/go/sfnt/opentype/gtab"
	"seehuhn.de/go/sfnt/opentype/markarray"
	"seehuhn.de/go/sfnt/verifharness/vlib"
)

// VR is a value record (nil = nil *GposValueRecord).
type VR *[8]int

type Lig struct {
	Out int
	In  []int
}
type PairItem struct {
	Right int
	A, B  VR
}
type PairGroup struct {
	Left  int
	Items []PairItem
}
type Mark struct{ Class, X, Y int }
type Act struct{ Seq, Idx int }
type Rule struct {
	Back, In, Look []int // sequence context rules use In only
	Acts           []Act
}
type RuleSet struct {
	Nil   bool
	Rules []Rule
}
type ClsEntry struct{ G, C int }

// Sub describes one subtable.  Coverage tables are given by their glyph lists
// (strictly increasing: index = rank).
type Sub struct {
	Kind    string
	Set     []int        // coverage (mark coverage for gpos41/51/61)
	Set2    []int        // base / ligature / mark2 coverage
	Delta   int          // gsub11
	Nums    []int        // gsub12, gsub81: substitutes
	Seqs    [][]int      // gsub21, gsub31
	Ligs    [][]Lig      // gsub41
	Sets    [3][][]int   // seq3: [1]; ch3: back, input, lookahead; gsub81: [0] back, [2] lookahead
	Vr      VR           // gpos11
	Vrs     []VR         // gpos12
	Groups  []PairGroup  // gpos21
	Cls     [3][]ClsEntry // gpos22: [0],[1]; seq2: [1]; ch2: back, input, lookahead
	Matrix  [][][2]VR    // gpos22
	EE      [][4]int     // gpos31: entry x y, exit x y
	Marks   []Mark       // gpos41/51/61
	Rows    [][][2]int   // gpos41/61
	LigRows [][][][2]int // gpos51
	RSets   []RuleSet    // seq1, seq2, ch1, ch2
	Acts    []Act        // seq3, ch3
}

type LangSys struct {
	Req int
	Opt []int
}
type LangRec struct {
	Lang string
	LS   LangSys
}
type ScriptEntry struct {
	Script string
	Def    *LangSys
	Langs  []LangRec
}
type Feature struct {
	Tag     string
	Lookups []int
}
type Lookup struct {
	Type, Flags, MFS int
	Subs             []Sub
}

// Info describes a whole table; a nil list is a nil ScriptList / FeatureList /
// LookupList of gtab.Info.
type Info struct {
	Table    string // gsub | gpos
	Scripts  []ScriptEntry
	NoScript bool
	Features []Feature
	NoFeat   bool
	Lookups  []Lookup
	NoLookup bool
}

// ---- S-expressions ----------------------------------------------------

// Rle replaces every maximal run of at least 4 equal elements by (rep k X).
func Rle(xs []vlib.Sx) vlib.Sx {
	strs := make([]string, len(xs))
	for i, x := range xs {
		strs[i] = vlib.Str(x)
	}
	out := vlib.List{}
	for i := 0; i < len(xs); {
		j := i + 1
		for j < len(xs) && strs[j] == strs[i] {
			j++
		}
		if j-i >= 4 {
			out = append(out, vlib.L(vlib.Atom("rep"), vlib.Int(j-i), xs[i]))
		} else {
			out = append(out, xs[i:j]...)
		}
		i = j
	}
	return out
}

func numsSx(v []int) vlib.Sx {
	xs := make([]vlib.Sx, len(v))
	for i, x := range v {
		xs[i] = vlib.Int(x)
	}
	return Rle(xs)
}

func actsSx(v []Act) vlib.Sx {
	xs := make([]vlib.Sx, len(v))
	for i, a := range v {
		xs[i] = vlib.L(vlib.Int(a.Seq), vlib.Int(a.Idx))
	}
	return Rle(xs)
}

// setSx: runs of consecutive glyphs ((gid len) ...).
func setSx(gl []int) vlib.Sx {
	out := vlib.List{}
	for k := 0; k < len(gl); {
		j := k + 1
		for j < len(gl) && gl[j] == gl[k]+(j-k) {
			j++
		}
		out = append(out, vlib.L(vlib.Int(gl[k]), vlib.Int(j-k)))
		k = j
	}
	return out
}

func setsSx(ss [][]int) vlib.Sx {
	xs := make([]vlib.Sx, len(ss))
	for i, s := range ss {
		xs[i] = setSx(s)
	}
	return Rle(xs)
}

// clsSx: runs of consecutive glyphs with one class ((gid class len) ...).
func clsSx(ps []ClsEntry) vlib.Sx {
	out := vlib.List{}
	for k := 0; k < len(ps); {
		j := k + 1
		for j < len(ps) && ps[j].G == ps[k].G+(j-k) && ps[j].C == ps[k].C {
			j++
		}
		out = append(out, vlib.L(vlib.Int(ps[k].G), vlib.Int(ps[k].C), vlib.Int(j-k)))
		k = j
	}
	return out
}

func vrSx(v VR) vlib.Sx {
	if v == nil {
		return vlib.Atom("nil")
	}
	l := make(vlib.List, 8)
	for i, x := range v {
		l[i] = vlib.Int(x)
	}
	return l
}

func anSx(a [2]int) vlib.Sx { return vlib.L(vlib.Int(a[0]), vlib.Int(a[1])) }

func rowSx(row [][2]int) vlib.Sx {
	xs := make([]vlib.Sx, len(row))
	for i, a := range row {
		xs[i] = anSx(a)
	}
	return Rle(xs)
}

func rowsSx(rows [][][2]int) vlib.Sx {
	xs := make([]vlib.Sx, len(rows))
	for i, r := range rows {
		xs[i] = rowSx(r)
	}
	return Rle(xs)
}

func marksSx(ms []Mark) vlib.Sx {
	xs := make([]vlib.Sx, len(ms))
	for i, m := range ms {
		xs[i] = vlib.L(vlib.Int(m.Class), vlib.Int(m.X), vlib.Int(m.Y))
	}
	return Rle(xs)
}

func rsetsSx(sets []RuleSet, chained bool) vlib.Sx {
	xs := make([]vlib.Sx, len(sets))
	for i, s := range sets {
		if s.Nil {
			xs[i] = vlib.Atom("nil")
			continue
		}
		rs := make([]vlib.Sx, len(s.Rules))
		for j, r := range s.Rules {
			if chained {
				rs[j] = vlib.L(numsSx(r.Back), numsSx(r.In), numsSx(r.Look), actsSx(r.Acts))
			} else {
				rs[j] = vlib.L(numsSx(r.In), actsSx(r.Acts))
			}
		}
		xs[i] = Rle(rs)
	}
	return Rle(xs)
}

// Sx prints a subtable in the syntax of the model driver.
func (d Sub) Sx() vlib.Sx {
	k := vlib.Atom(d.Kind)
	switch d.Kind {
	case "gsub11":
		return vlib.L(k, setSx(d.Set), vlib.Int(d.Delta))
	case "gsub12":
		return vlib.L(k, setSx(d.Set), numsSx(d.Nums))
	case "gsub21", "gsub31":
		xs := make([]vlib.Sx, len(d.Seqs))
		for i, s := range d.Seqs {
			xs[i] = numsSx(s)
		}
		return vlib.L(k, setSx(d.Set), Rle(xs))
	case "gsub41":
		xs := make([]vlib.Sx, len(d.Ligs))
		for i, set := range d.Ligs {
			ls := make([]vlib.Sx, len(set))
			for j, lg := range set {
				ls[j] = vlib.L(vlib.Int(lg.Out), numsSx(lg.In))
			}
			xs[i] = Rle(ls)
		}
		return vlib.L(k, setSx(d.Set), Rle(xs))
	case "gsub81":
		return vlib.L(k, setSx(d.Set), setsSx(d.Sets[0]), setsSx(d.Sets[2]), numsSx(d.Nums))
	case "gpos11":
		return vlib.L(k, setSx(d.Set), vrSx(d.Vr))
	case "gpos12":
		xs := make([]vlib.Sx, len(d.Vrs))
		for i, v := range d.Vrs {
			xs[i] = vrSx(v)
		}
		return vlib.L(k, setSx(d.Set), Rle(xs))
	case "gpos21":
		xs := make([]vlib.Sx, len(d.Groups))
		for i, g := range d.Groups {
			is := make([]vlib.Sx, len(g.Items))
			for j, it := range g.Items {
				is[j] = vlib.L(vlib.Int(it.Right), vrSx(it.A), vrSx(it.B))
			}
			xs[i] = vlib.L(vlib.Int(g.Left), Rle(is))
		}
		return vlib.L(k, Rle(xs))
	case "gpos22":
		xs := make([]vlib.Sx, len(d.Matrix))
		for i, row := range d.Matrix {
			rs := make([]vlib.Sx, len(row))
			for j, p := range row {
				rs[j] = vlib.L(vrSx(p[0]), vrSx(p[1]))
			}
			xs[i] = Rle(rs)
		}
		return vlib.L(k, setSx(d.Set), clsSx(d.Cls[0]), clsSx(d.Cls[1]), Rle(xs))
	case "gpos31":
		xs := make([]vlib.Sx, len(d.EE))
		for i, e := range d.EE {
			xs[i] = vlib.L(anSx([2]int{e[0], e[1]}), anSx([2]int{e[2], e[3]}))
		}
		return vlib.L(k, setSx(d.Set), Rle(xs))
	case "gpos41", "gpos61":
		return vlib.L(k, setSx(d.Set), setSx(d.Set2), marksSx(d.Marks), rowsSx(d.Rows))
	case "gpos51":
		xs := make([]vlib.Sx, len(d.LigRows))
		for i, l := range d.LigRows {
			xs[i] = rowsSx(l)
		}
		return vlib.L(k, setSx(d.Set), setSx(d.Set2), marksSx(d.Marks), Rle(xs))
	case "seq1":
		return vlib.L(k, setSx(d.Set), rsetsSx(d.RSets, false))
	case "seq2":
		return vlib.L(k, setSx(d.Set), clsSx(d.Cls[1]), rsetsSx(d.RSets, false))
	case "seq3":
		return vlib.L(k, setsSx(d.Sets[1]), actsSx(d.Acts))
	case "ch1":
		return vlib.L(k, setSx(d.Set), rsetsSx(d.RSets, true))
	case "ch2":
		return vlib.L(k, setSx(d.Set), clsSx(d.Cls[0]), clsSx(d.Cls[1]), clsSx(d.Cls[2]), rsetsSx(d.RSets, true))
	case "ch3":
		return vlib.L(k, setsSx(d.Sets[0]), setsSx(d.Sets[1]), setsSx(d.Sets[2]), actsSx(d.Acts))
	}
	return vlib.Atom("?" + d.Kind)
}

func lsSx(l LangSys) vlib.Sx { return vlib.L(vlib.Int(l.Req), numsSx(l.Opt)) }

func tagSx(t string) vlib.Sx { return vlib.Hex([]byte(t)) }

func (d Info) scriptsSx() vlib.Sx {
	if d.NoScript {
		return vlib.Atom("nil")
	}
	out := vlib.List{}
	for _, e := range d.Scripts {
		var def vlib.Sx = vlib.Atom("nil")
		if e.Def != nil {
			def = lsSx(*e.Def)
		}
		ls := vlib.List{}
		for _, l := range e.Langs {
			ls = append(ls, vlib.L(tagSx(l.Lang), lsSx(l.LS)))
		}
		out = append(out, vlib.L(tagSx(e.Script), def, ls))
	}
	return out
}

// scriptsObsSx: the ScriptList map sorted by (script, language).
func (d Info) scriptsObsSx() vlib.Sx {
	type row struct {
		s, l string
		f    LangSys
	}
	var rows []row
	for _, e := range d.Scripts {
		if e.Def != nil {
			rows = append(rows, row{vlib.Str(tagSx(e.Script)), "x", *e.Def})
		}
		for _, l := range e.Langs {
			rows = append(rows, row{vlib.Str(tagSx(e.Script)), vlib.Str(tagSx(l.Lang)), l.LS})
		}
	}
	sort.SliceStable(rows, func(a, b int) bool {
		if rows[a].s != rows[b].s {
			return rows[a].s < rows[b].s
		}
		return rows[a].l < rows[b].l
	})
	out := vlib.List{}
	for _, r := range rows {
		out = append(out, vlib.L(vlib.Atom(r.s), vlib.Atom(r.l), lsSx(r.f)))
	}
	return out
}

func (d Info) featuresSx() vlib.Sx {
	if d.NoFeat {
		return vlib.Atom("nil")
	}
	xs := make([]vlib.Sx, len(d.Features))
	for i, f := range d.Features {
		xs[i] = vlib.L(tagSx(f.Tag), numsSx(f.Lookups))
	}
	return Rle(xs)
}

func (d Info) lookupsSx() vlib.Sx {
	if d.NoLookup {
		return vlib.Atom("nil")
	}
	xs := make([]vlib.Sx, len(d.Lookups))
	for i, l := range d.Lookups {
		ss := make([]vlib.Sx, len(l.Subs))
		for j, s := range l.Subs {
			ss[j] = s.Sx()
		}
		xs[i] = vlib.L(vlib.Int(l.Type), vlib.Int(l.Flags), vlib.Int(l.MFS), Rle(ss))
	}
	return Rle(xs)
}

// Line is the case line `info TBL SCRIPTS FEATURES LOOKUPS`.
func (d Info) Line() string {
	return vlib.Line(vlib.Atom("info"), vlib.Atom(d.Table), d.scriptsSx(), d.featuresSx(), d.lookupsSx())
}

// ObsSx is what the model prints for a decoded table: (SCRIPTSOBS FEATURES LOOKUPS).
func (d Info) ObsSx() vlib.Sx {
	return vlib.L(d.scriptsObsSx(), d.featuresSx(), d.lookupsSx())
}

// ---- parsing ------------------------------------------------------------

func expand(x vlib.Sx, f func(vlib.Sx) error) error {
	l, err := vlib.AsList(x)
	if err != nil {
		return err
	}
	for _, e := range l {
		if el, ok := e.(vlib.List); ok && len(el) == 3 {
			if a, ok := el[0].(vlib.Atom); ok && a == "rep" {
				k, err := vlib.AsInt(el[1])
				if err != nil {
					return err
				}
				for i := 0; i < k; i++ {
					if err := f(el[2]); err != nil {
						return err
					}
				}
				continue
			}
		}
		if err := f(e); err != nil {
			return err
		}
	}
	return nil
}

func numsOf(x vlib.Sx) ([]int, error) {
	out := []int{}
	err := expand(x, func(e vlib.Sx) error {
		v, err := vlib.AsInt(e)
		out = append(out, v)
		return err
	})
	return out, err
}

func actsOf(x vlib.Sx) ([]Act, error) {
	out := []Act{}
	err := expand(x, func(e vlib.Sx) error {
		v, err := vlib.AsInts(e)
		if err != nil || len(v) != 2 {
			return errors.New("bad action")
		}
		out = append(out, Act{v[0], v[1]})
		return nil
	})
	return out, err
}

func setOf(x vlib.Sx) ([]int, error) {
	l, err := vlib.AsList(x)
	if err != nil {
		return nil, err
	}
	out := []int{}
	for _, r := range l {
		v, err := vlib.AsInts(r)
		if err != nil || len(v) != 2 {
			return nil, errors.New("bad glyph run")
		}
		for k := 0; k < v[1]; k++ {
			out = append(out, v[0]+k)
		}
	}
	return out, nil
}

func setsOf(x vlib.Sx) ([][]int, error) {
	out := [][]int{}
	err := expand(x, func(e vlib.Sx) error {
		s, err := setOf(e)
		out = append(out, s)
		return err
	})
	return out, err
}

func clsOf(x vlib.Sx) ([]ClsEntry, error) {
	l, err := vlib.AsList(x)
	if err != nil {
		return nil, err
	}
	out := []ClsEntry{}
	for _, r := range l {
		v, err := vlib.AsInts(r)
		if err != nil || len(v) != 3 {
			return nil, errors.New("bad class run")
		}
		for k := 0; k < v[2]; k++ {
			out = append(out, ClsEntry{v[0] + k, v[1]})
		}
	}
	return out, nil
}

func vrOf(x vlib.Sx) (VR, error) {
	if a, ok := x.(vlib.Atom); ok && a == "nil" {
		return nil, nil
	}
	v, err := vlib.AsInts(x)
	if err != nil || len(v) != 8 {
		return nil, errors.New("bad value record")
	}
	var a [8]int
	copy(a[:], v)
	return &a, nil
}

func anOf(x vlib.Sx) ([2]int, error) {
	v, err := vlib.AsInts(x)
	if err != nil || len(v) != 2 {
		return [2]int{}, errors.New("bad anchor")
	}
	return [2]int{v[0], v[1]}, nil
}

func rowOf(x vlib.Sx) ([][2]int, error) {
	out := [][2]int{}
	err := expand(x, func(e vlib.Sx) error {
		a, err := anOf(e)
		out = append(out, a)
		return err
	})
	return out, err
}

func rowsOf(x vlib.Sx) ([][][2]int, error) {
	out := [][][2]int{}
	err := expand(x, func(e vlib.Sx) error {
		r, err := rowOf(e)
		out = append(out, r)
		return err
	})
	return out, err
}

func marksOf(x vlib.Sx) ([]Mark, error) {
	out := []Mark{}
	err := expand(x, func(e vlib.Sx) error {
		v, err := vlib.AsInts(e)
		if err != nil || len(v) != 3 {
			return errors.New("bad mark record")
		}
		out = append(out, Mark{v[0], v[1], v[2]})
		return nil
	})
	return out, err
}

func rsetsOf(x vlib.Sx, chained bool) ([]RuleSet, error) {
	out := []RuleSet{}
	err := expand(x, func(e vlib.Sx) error {
		if a, ok := e.(vlib.Atom); ok && a == "nil" {
			out = append(out, RuleSet{Nil: true})
			return nil
		}
		rs := RuleSet{Rules: []Rule{}}
		err := expand(e, func(r vlib.Sx) error {
			f, err := vlib.AsList(r)
			if err != nil {
				return err
			}
			var rl Rule
			if chained {
				if len(f) != 4 {
					return errors.New("bad chained rule")
				}
				var e1, e2, e3, e4 error
				rl.Back, e1 = numsOf(f[0])
				rl.In, e2 = numsOf(f[1])
				rl.Look, e3 = numsOf(f[2])
				rl.Acts, e4 = actsOf(f[3])
				if e1 != nil || e2 != nil || e3 != nil || e4 != nil {
					return errors.New("bad chained rule fields")
				}
			} else {
				if len(f) != 2 {
					return errors.New("bad rule")
				}
				var e1, e2 error
				rl.In, e1 = numsOf(f[0])
				rl.Acts, e2 = actsOf(f[1])
				if e1 != nil || e2 != nil {
					return errors.New("bad rule fields")
				}
			}
			rs.Rules = append(rs.Rules, rl)
			return nil
		})
		out = append(out, rs)
		return err
	})
	return out, err
}

// ParseSub reads a subtable description.
func ParseSub(x vlib.Sx) (Sub, error) {
	f, err := vlib.AsList(x)
	if err != nil || len(f) < 2 {
		return Sub{}, errors.New("bad subtable")
	}
	k, err := vlib.AsAtom(f[0])
	if err != nil {
		return Sub{}, err
	}
	d := Sub{Kind: k}
	need := func(n int) error {
		if len(f) != n+1 {
			return fmt.Errorf("%s: want %d fields", k, n)
		}
		return nil
	}
	var errs []error
	chk := func(e error) { errs = append(errs, e) }
	switch k {
	case "gsub11":
		chk(need(2))
		if len(f) == 3 {
			d.Set, err = setOf(f[1])
			chk(err)
			d.Delta, err = vlib.AsInt(f[2])
			chk(err)
		}
	case "gsub12":
		chk(need(2))
		if len(f) == 3 {
			d.Set, err = setOf(f[1])
			chk(err)
			d.Nums, err = numsOf(f[2])
			chk(err)
		}
	case "gsub21", "gsub31":
		chk(need(2))
		if len(f) == 3 {
			d.Set, err = setOf(f[1])
			chk(err)
			d.Seqs = [][]int{}
			chk(expand(f[2], func(e vlib.Sx) error {
				s, err := numsOf(e)
				d.Seqs = append(d.Seqs, s)
				return err
			}))
		}
	case "gsub41":
		chk(need(2))
		if len(f) == 3 {
			d.Set, err = setOf(f[1])
			chk(err)
			d.Ligs = [][]Lig{}
			chk(expand(f[2], func(e vlib.Sx) error {
				set := []Lig{}
				err := expand(e, func(l vlib.Sx) error {
					q, err := vlib.AsList(l)
					if err != nil || len(q) != 2 {
						return errors.New("bad ligature")
					}
					o, e1 := vlib.AsInt(q[0])
					in, e2 := numsOf(q[1])
					if e1 != nil || e2 != nil {
						return errors.New("bad ligature fields")
					}
					set = append(set, Lig{o, in})
					return nil
				})
				d.Ligs = append(d.Ligs, set)
				return err
			}))
		}
	case "gsub81":
		chk(need(4))
		if len(f) == 5 {
			d.Set, err = setOf(f[1])
			chk(err)
			d.Sets[0], err = setsOf(f[2])
			chk(err)
			d.Sets[2], err = setsOf(f[3])
			chk(err)
			d.Nums, err = numsOf(f[4])
			chk(err)
		}
	case "gpos11":
		chk(need(2))
		if len(f) == 3 {
			d.Set, err = setOf(f[1])
			chk(err)
			d.Vr, err = vrOf(f[2])
			chk(err)
		}
	case "gpos12":
		chk(need(2))
		if len(f) == 3 {
			d.Set, err = setOf(f[1])
			chk(err)
			d.Vrs = []VR{}
			chk(expand(f[2], func(e vlib.Sx) error {
				v, err := vrOf(e)
				d.Vrs = append(d.Vrs, v)
				return err
			}))
		}
	case "gpos21":
		chk(need(1))
		if len(f) == 2 {
			d.Groups = []PairGroup{}
			chk(expand(f[1], func(e vlib.Sx) error {
				q, err := vlib.AsList(e)
				if err != nil || len(q) != 2 {
					return errors.New("bad pair group")
				}
				g := PairGroup{Items: []PairItem{}}
				g.Left, err = vlib.AsInt(q[0])
				if err != nil {
					return err
				}
				err = expand(q[1], func(it vlib.Sx) error {
					w, err := vlib.AsList(it)
					if err != nil || len(w) != 3 {
						return errors.New("bad pair")
					}
					r, e1 := vlib.AsInt(w[0])
					a, e2 := vrOf(w[1])
					b, e3 := vrOf(w[2])
					if e1 != nil || e2 != nil || e3 != nil {
						return errors.New("bad pair fields")
					}
					g.Items = append(g.Items, PairItem{r, a, b})
					return nil
				})
				d.Groups = append(d.Groups, g)
				return err
			}))
		}
	case "gpos22":
		chk(need(4))
		if len(f) == 5 {
			d.Set, err = setOf(f[1])
			chk(err)
			d.Cls[0], err = clsOf(f[2])
			chk(err)
			d.Cls[1], err = clsOf(f[3])
			chk(err)
			d.Matrix = [][][2]VR{}
			chk(expand(f[4], func(e vlib.Sx) error {
				row := [][2]VR{}
				err := expand(e, func(p vlib.Sx) error {
					q, err := vlib.AsList(p)
					if err != nil || len(q) != 2 {
						return errors.New("bad pair adjust")
					}
					a, e1 := vrOf(q[0])
					b, e2 := vrOf(q[1])
					if e1 != nil || e2 != nil {
						return errors.New("bad pair adjust fields")
					}
					row = append(row, [2]VR{a, b})
					return nil
				})
				d.Matrix = append(d.Matrix, row)
				return err
			}))
		}
	case "gpos31":
		chk(need(2))
		if len(f) == 3 {
			d.Set, err = setOf(f[1])
			chk(err)
			d.EE = [][4]int{}
			chk(expand(f[2], func(e vlib.Sx) error {
				q, err := vlib.AsList(e)
				if err != nil || len(q) != 2 {
					return errors.New("bad entry/exit record")
				}
				a, e1 := anOf(q[0])
				b, e2 := anOf(q[1])
				if e1 != nil || e2 != nil {
					return errors.New("bad entry/exit anchors")
				}
				d.EE = append(d.EE, [4]int{a[0], a[1], b[0], b[1]})
				return nil
			}))
		}
	case "gpos41", "gpos61":
		chk(need(4))
		if len(f) == 5 {
			d.Set, err = setOf(f[1])
			chk(err)
			d.Set2, err = setOf(f[2])
			chk(err)
			d.Marks, err = marksOf(f[3])
			chk(err)
			d.Rows, err = rowsOf(f[4])
			chk(err)
		}
	case "gpos51":
		chk(need(4))
		if len(f) == 5 {
			d.Set, err = setOf(f[1])
			chk(err)
			d.Set2, err = setOf(f[2])
			chk(err)
			d.Marks, err = marksOf(f[3])
			chk(err)
			d.LigRows = [][][][2]int{}
			chk(expand(f[4], func(e vlib.Sx) error {
				r, err := rowsOf(e)
				d.LigRows = append(d.LigRows, r)
				return err
			}))
		}
	case "seq1":
		chk(need(2))
		if len(f) == 3 {
			d.Set, err = setOf(f[1])
			chk(err)
			d.RSets, err = rsetsOf(f[2], false)
			chk(err)
		}
	case "seq2":
		chk(need(3))
		if len(f) == 4 {
			d.Set, err = setOf(f[1])
			chk(err)
			d.Cls[1], err = clsOf(f[2])
			chk(err)
			d.RSets, err = rsetsOf(f[3], false)
			chk(err)
		}
	case "seq3":
		chk(need(2))
		if len(f) == 3 {
			d.Sets[1], err = setsOf(f[1])
			chk(err)
			d.Acts, err = actsOf(f[2])
			chk(err)
		}
	case "ch1":
		chk(need(2))
		if len(f) == 3 {
			d.Set, err = setOf(f[1])
			chk(err)
			d.RSets, err = rsetsOf(f[2], true)
			chk(err)
		}
	case "ch2":
		chk(need(5))
		if len(f) == 6 {
			d.Set, err = setOf(f[1])
			chk(err)
			for i := 0; i < 3; i++ {
				d.Cls[i], err = clsOf(f[2+i])
				chk(err)
			}
			d.RSets, err = rsetsOf(f[5], true)
			chk(err)
		}
	case "ch3":
		chk(need(4))
		if len(f) == 5 {
			for i := 0; i < 3; i++ {
				d.Sets[i], err = setsOf(f[1+i])
				chk(err)
			}
			d.Acts, err = actsOf(f[4])
			chk(err)
		}
	default:
		return d, fmt.Errorf("unknown subtable kind %q", k)
	}
	for _, e := range errs {
		if e != nil {
			return d, e
		}
	}
	return d, nil
}

func lsOf(x vlib.Sx) (LangSys, error) {
	f, err := vlib.AsList(x)
	if err != nil || len(f) != 2 {
		return LangSys{}, errors.New("bad LangSys")
	}
	r, e1 := vlib.AsInt(f[0])
	o, e2 := numsOf(f[1])
	if e1 != nil || e2 != nil {
		return LangSys{}, errors.New("bad LangSys fields")
	}
	return LangSys{r, o}, nil
}

func isNil(x vlib.Sx) bool {
	a, ok := x.(vlib.Atom)
	return ok && a == "nil"
}

// ParseInfo reads the items of an `info` case line.
func ParseInfo(items []vlib.Sx) (Info, error) {
	var d Info
	if len(items) != 5 {
		return d, errors.New("info: want 4 arguments")
	}
	var err error
	d.Table, err = vlib.AsAtom(items[1])
	if err != nil {
		return d, err
	}
	if isNil(items[2]) {
		d.NoScript = true
	} else {
		l, err := vlib.AsList(items[2])
		if err != nil {
			return d, err
		}
		for _, x := range l {
			f, err := vlib.AsList(x)
			if err != nil || len(f) != 3 {
				return d, errors.New("bad script")
			}
			t, err := vlib.AsBytes(f[0])
			if err != nil {
				return d, err
			}
			e := ScriptEntry{Script: string(t)}
			if !isNil(f[1]) {
				ls, err := lsOf(f[1])
				if err != nil {
					return d, err
				}
				e.Def = &ls
			}
			ll, err := vlib.AsList(f[2])
			if err != nil {
				return d, err
			}
			for _, y := range ll {
				q, err := vlib.AsList(y)
				if err != nil || len(q) != 2 {
					return d, errors.New("bad language record")
				}
				lt, e1 := vlib.AsBytes(q[0])
				ls, e2 := lsOf(q[1])
				if e1 != nil || e2 != nil {
					return d, errors.New("bad language record fields")
				}
				e.Langs = append(e.Langs, LangRec{string(lt), ls})
			}
			d.Scripts = append(d.Scripts, e)
		}
	}
	if isNil(items[3]) {
		d.NoFeat = true
	} else {
		err := expand(items[3], func(x vlib.Sx) error {
			f, err := vlib.AsList(x)
			if err != nil || len(f) != 2 {
				return errors.New("bad feature")
			}
			t, e1 := vlib.AsBytes(f[0])
			l, e2 := numsOf(f[1])
			if e1 != nil || e2 != nil {
				return errors.New("bad feature fields")
			}
			d.Features = append(d.Features, Feature{string(t), l})
			return nil
		})
		if err != nil {
			return d, err
		}
	}
	if isNil(items[4]) {
		d.NoLookup = true
	} else {
		err := expand(items[4], func(x vlib.Sx) error {
			f, err := vlib.AsList(x)
			if err != nil || len(f) != 4 {
				return errors.New("bad lookup")
			}
			tp, e1 := vlib.AsInt(f[0])
			fl, e2 := vlib.AsInt(f[1])
			mfs, e3 := vlib.AsInt(f[2])
			if e1 != nil || e2 != nil || e3 != nil {
				return errors.New("bad lookup fields")
			}
			l := Lookup{Type: tp, Flags: fl, MFS: mfs}
			err = expand(f[3], func(s vlib.Sx) error {
				sd, err := ParseSub(s)
				l.Subs = append(l.Subs, sd)
				return err
			})
			d.Lookups = append(d.Lookups, l)
			return err
		})
		if err != nil {
			return d, err
		}
	}
	return d, nil
}

// ---- to the library's values ---------------------------------------------

func tableOf(gl []int) coverage.Table {
	t := make(coverage.Table, len(gl))
	for i, g := range gl {
		t[glyph.ID(g)] = i
	}
	return t
}

func covSetOf(gl []int) coverage.Set {
	s := make(coverage.Set, len(gl))
	for _, g := range gl {
		s[glyph.ID(g)] = true
	}
	return s
}

func classOf(ps []ClsEntry) classdef.Table {
	t := make(classdef.Table, len(ps))
	for _, p := range ps {
		t[glyph.ID(p.G)] = uint16(p.C)
	}
	return t
}

func gids(v []int) []glyph.ID {
	out := make([]glyph.ID, len(v))
	for i, x := range v {
		out[i] = glyph.ID(x)
	}
	return out
}

func u16s(v []int) []uint16 {
	out := make([]uint16, len(v))
	for i, x := range v {
		out[i] = uint16(x)
	}
	return out
}

func seqLookups(v []Act) []gtab.SeqLookup {
	out := make([]gtab.SeqLookup, len(v))
	for i, a := range v {
		out[i] = gtab.SeqLookup{SequenceIndex: uint16(a.Seq), LookupListIndex: gtab.LookupIndex(a.Idx)}
	}
	return out
}

func covSets(ss [][]int) []coverage.Set {
	out := make([]coverage.Set, len(ss))
	for i, s := range ss {
		out[i] = covSetOf(s)
	}
	return out
}

func vrBuild(v VR) *gtab.GposValueRecord {
	if v == nil {
		return nil
	}
	return &gtab.GposValueRecord{XPlacement: funit.Int16(v[0]), YPlacement: funit.Int16(v[1]),
		XAdvance: funit.Int16(v[2]), YAdvance: funit.Int16(v[3]),
		XPlacementDevOffs: uint16(v[4]), YPlacementDevOffs: uint16(v[5]),
		XAdvanceDevOffs: uint16(v[6]), YAdvanceDevOffs: uint16(v[7])}
}

func anchorRow(row [][2]int) []anchor.Table {
	out := make([]anchor.Table, len(row))
	for j, a := range row {
		out[j] = anchor.Table{X: funit.Int16(a[0]), Y: funit.Int16(a[1])}
	}
	return out
}

func markRecs(ms []Mark) []markarray.Record {
	out := make([]markarray.Record, len(ms))
	for i, m := range ms {
		out[i] = markarray.Record{Class: uint16(m.Class), Table: anchor.Table{X: funit.Int16(m.X), Y: funit.Int16(m.Y)}}
	}
	return out
}

// Build makes the library's subtable.
func (d Sub) Build() gtab.Subtable {
	switch d.Kind {
	case "gsub11":
		return &gtab.Gsub1_1{Cov: covSetOf(d.Set), Delta: glyph.ID(d.Delta)}
	case "gsub12":
		return &gtab.Gsub1_2{Cov: tableOf(d.Set), SubstituteGlyphIDs: gids(d.Nums)}
	case "gsub21", "gsub31":
		r := make([][]glyph.ID, len(d.Seqs))
		for i, s := range d.Seqs {
			r[i] = gids(s)
		}
		if d.Kind == "gsub21" {
			return &gtab.Gsub2_1{Cov: tableOf(d.Set), Repl: r}
		}
		return &gtab.Gsub3_1{Cov: tableOf(d.Set), Alternates: r}
	case "gsub41":
		r := make([][]gtab.Ligature, len(d.Ligs))
		for i, set := range d.Ligs {
			r[i] = make([]gtab.Ligature, len(set))
			for j, lg := range set {
				r[i][j] = gtab.Ligature{In: gids(lg.In), Out: glyph.ID(lg.Out)}
			}
		}
		return &gtab.Gsub4_1{Cov: tableOf(d.Set), Repl: r}
	case "gsub81":
		bk := make([]coverage.Table, len(d.Sets[0]))
		for i, s := range d.Sets[0] {
			bk[i] = tableOf(s)
		}
		la := make([]coverage.Table, len(d.Sets[2]))
		for i, s := range d.Sets[2] {
			la[i] = tableOf(s)
		}
		return &gtab.Gsub8_1{Input: tableOf(d.Set), Backtrack: bk, Lookahead: la, SubstituteGlyphIDs: gids(d.Nums)}
	case "gpos11":
		return &gtab.Gpos1_1{Cov: tableOf(d.Set), Adjust: vrBuild(d.Vr)}
	case "gpos12":
		a := make([]*gtab.GposValueRecord, len(d.Vrs))
		for i, v := range d.Vrs {
			a[i] = vrBuild(v)
		}
		return &gtab.Gpos1_2{Cov: tableOf(d.Set), Adjust: a}
	case "gpos21":
		g := gtab.Gpos2_1{}
		for _, gr := range d.Groups {
			for _, it := range gr.Items {
				g[glyph.Pair{Left: glyph.ID(gr.Left), Right: glyph.ID(it.Right)}] = &gtab.PairAdjust{First: vrBuild(it.A), Second: vrBuild(it.B)}
			}
		}
		return g
	case "gpos22":
		s := &gtab.Gpos2_2{Cov: covSetOf(d.Set), Class1: classOf(d.Cls[0]), Class2: classOf(d.Cls[1])}
		s.Adjust = make([][]*gtab.PairAdjust, len(d.Matrix))
		for i, row := range d.Matrix {
			s.Adjust[i] = make([]*gtab.PairAdjust, len(row))
			for j, p := range row {
				s.Adjust[i][j] = &gtab.PairAdjust{First: vrBuild(p[0]), Second: vrBuild(p[1])}
			}
		}
		return s
	case "gpos31":
		s := &gtab.Gpos3_1{Cov: tableOf(d.Set)}
		s.Records = make([]gtab.EntryExitRecord, len(d.EE))
		for i, e := range d.EE {
			s.Records[i] = gtab.EntryExitRecord{
				Entry: anchor.Table{X: funit.Int16(e[0]), Y: funit.Int16(e[1])},
				Exit:  anchor.Table{X: funit.Int16(e[2]), Y: funit.Int16(e[3])}}
		}
		return s
	case "gpos41":
		s := &gtab.Gpos4_1{MarkCov: tableOf(d.Set), BaseCov: tableOf(d.Set2), MarkArray: markRecs(d.Marks)}
		s.BaseArray = make([][]anchor.Table, len(d.Rows))
		for i, row := range d.Rows {
			s.BaseArray[i] = anchorRow(row)
		}
		return s
	case "gpos61":
		s := &gtab.Gpos6_1{Mark1Cov: tableOf(d.Set), Mark2Cov: tableOf(d.Set2), Mark1Array: markRecs(d.Marks)}
		s.Mark2Array = make([][]anchor.Table, len(d.Rows))
		for i, row := range d.Rows {
			s.Mark2Array[i] = anchorRow(row)
		}
		return s
	case "gpos51":
		s := &gtab.Gpos5_1{MarkCov: tableOf(d.Set), LigCov: tableOf(d.Set2), MarkArray: markRecs(d.Marks)}
		s.LigArray = make([][][]anchor.Table, len(d.LigRows))
		for i, l := range d.LigRows {
			s.LigArray[i] = make([][]anchor.Table, len(l))
			for j, row := range l {
				s.LigArray[i][j] = anchorRow(row)
			}
		}
		return s
	case "seq1":
		rr := make([][]*gtab.SeqRule, len(d.RSets))
		for i, s := range d.RSets {
			if s.Nil {
				continue
			}
			rr[i] = make([]*gtab.SeqRule, len(s.Rules))
			for j, r := range s.Rules {
				rr[i][j] = &gtab.SeqRule{Input: gids(r.In), Actions: seqLookups(r.Acts)}
			}
		}
		return &gtab.SeqContext1{Cov: tableOf(d.Set), Rules: rr}
	case "seq2":
		rr := make([][]*gtab.ClassSeqRule, len(d.RSets))
		for i, s := range d.RSets {
			if s.Nil {
				continue
			}
			rr[i] = make([]*gtab.ClassSeqRule, len(s.Rules))
			for j, r := range s.Rules {
				rr[i][j] = &gtab.ClassSeqRule{Input: u16s(r.In), Actions: seqLookups(r.Acts)}
			}
		}
		return &gtab.SeqContext2{Cov: tableOf(d.Set), Input: classOf(d.Cls[1]), Rules: rr}
	case "seq3":
		return &gtab.SeqContext3{Input: covSets(d.Sets[1]), Actions: seqLookups(d.Acts)}
	case "ch1":
		rr := make([][]*gtab.ChainedSeqRule, len(d.RSets))
		for i, s := range d.RSets {
			if s.Nil {
				continue
			}
			rr[i] = make([]*gtab.ChainedSeqRule, len(s.Rules))
			for j, r := range s.Rules {
				rr[i][j] = &gtab.ChainedSeqRule{Backtrack: gids(r.Back), Input: gids(r.In), Lookahead: gids(r.Look), Actions: seqLookups(r.Acts)}
			}
		}
		return &gtab.ChainedSeqContext1{Cov: tableOf(d.Set), Rules: rr}
	case "ch2":
		rr := make([][]*gtab.ChainedClassSeqRule, len(d.RSets))
		for i, s := range d.RSets {
			if s.Nil {
				continue
			}
			rr[i] = make([]*gtab.ChainedClassSeqRule, len(s.Rules))
			for j, r := range s.Rules {
				rr[i][j] = &gtab.ChainedClassSeqRule{Backtrack: u16s(r.Back), Input: u16s(r.In), Lookahead: u16s(r.Look), Actions: seqLookups(r.Acts)}
			}
		}
		return &gtab.ChainedSeqContext2{Cov: tableOf(d.Set), Backtrack: classOf(d.Cls[0]), Input: classOf(d.Cls[1]), Lookahead: classOf(d.Cls[2]), Rules: rr}
	case "ch3":
		return &gtab.ChainedSeqContext3{Backtrack: covSets(d.Sets[0]), Input: covSets(d.Sets[1]), Lookahead: covSets(d.Sets[2]), Actions: seqLookups(d.Acts)}
	}
	return nil
}

// ---- from the library's values -------------------------------------------

// covList returns the glyphs of a coverage table in increasing order; ok =
// the indices are 0..n-1 in glyph order (the Table invariant).
func covList(t coverage.Table) (gl []int, ok bool) {
	gl = make([]int, 0, len(t))
	for g := range t {
		gl = append(gl, int(g))
	}
	sort.Ints(gl)
	ok = true
	for i, g := range gl {
		if t[glyph.ID(g)] != i {
			ok = false
		}
	}
	return
}

func setList(s coverage.Set) []int {
	gl := make([]int, 0, len(s))
	for g, ok := range s {
		if ok {
			gl = append(gl, int(g))
		}
	}
	sort.Ints(gl)
	return gl
}

func setLists(ss []coverage.Set) [][]int {
	out := make([][]int, len(ss))
	for i, s := range ss {
		out[i] = setList(s)
	}
	return out
}

func clsList(t classdef.Table) []ClsEntry {
	ps := make([]ClsEntry, 0, len(t))
	for g, c := range t {
		ps = append(ps, ClsEntry{int(g), int(c)})
	}
	sort.Slice(ps, func(a, b int) bool { return ps[a].G < ps[b].G })
	return ps
}

func intsOfG(v []glyph.ID) []int {
	out := make([]int, len(v))
	for i, x := range v {
		out[i] = int(x)
	}
	return out
}

func intsOfU(v []uint16) []int {
	out := make([]int, len(v))
	for i, x := range v {
		out[i] = int(x)
	}
	return out
}

func actionsOf(v []gtab.SeqLookup) []Act {
	out := make([]Act, len(v))
	for i, a := range v {
		out[i] = Act{int(a.SequenceIndex), int(a.LookupListIndex)}
	}
	return out
}

func vrDescribe(g *gtab.GposValueRecord) VR {
	if g == nil {
		return nil
	}
	return &[8]int{int(g.XPlacement), int(g.YPlacement), int(g.XAdvance), int(g.YAdvance),
		int(g.XPlacementDevOffs), int(g.YPlacementDevOffs), int(g.XAdvanceDevOffs), int(g.YAdvanceDevOffs)}
}

func describeRow(row []anchor.Table) [][2]int {
	r := make([][2]int, len(row))
	for i, a := range row {
		r[i] = [2]int{int(a.X), int(a.Y)}
	}
	return r
}

func describeMarks(ms []markarray.Record) []Mark {
	out := make([]Mark, len(ms))
	for i, m := range ms {
		out[i] = Mark{int(m.Class), int(m.X), int(m.Y)}
	}
	return out
}

// Describe canonicalises a subtable value.  ok is false for a value the
// description cannot hold (a coverage table that violates the invariant, a
// nil *PairAdjust, an unknown type).
func Describe(s gtab.Subtable) (d Sub, ok bool) {
	ok = true
	cov := func(t coverage.Table) []int {
		gl, good := covList(t)
		if !good {
			ok = false
		}
		return gl
	}
	switch t := s.(type) {
	case *gtab.Gsub1_1:
		d = Sub{Kind: "gsub11", Set: setList(t.Cov), Delta: int(t.Delta)}
	case *gtab.Gsub1_2:
		d = Sub{Kind: "gsub12", Set: cov(t.Cov), Nums: intsOfG(t.SubstituteGlyphIDs)}
	case *gtab.Gsub2_1:
		d = Sub{Kind: "gsub21", Set: cov(t.Cov), Seqs: make([][]int, len(t.Repl))}
		for i, r := range t.Repl {
			d.Seqs[i] = intsOfG(r)
		}
	case *gtab.Gsub3_1:
		d = Sub{Kind: "gsub31", Set: cov(t.Cov), Seqs: make([][]int, len(t.Alternates))}
		for i, r := range t.Alternates {
			d.Seqs[i] = intsOfG(r)
		}
	case *gtab.Gsub4_1:
		d = Sub{Kind: "gsub41", Set: cov(t.Cov), Ligs: make([][]Lig, len(t.Repl))}
		for i, set := range t.Repl {
			d.Ligs[i] = make([]Lig, len(set))
			for j, lg := range set {
				d.Ligs[i][j] = Lig{int(lg.Out), intsOfG(lg.In)}
			}
		}
	case *gtab.Gsub8_1:
		d = Sub{Kind: "gsub81", Set: cov(t.Input), Nums: intsOfG(t.SubstituteGlyphIDs)}
		d.Sets[0], d.Sets[2] = [][]int{}, [][]int{}
		for _, c := range t.Backtrack {
			d.Sets[0] = append(d.Sets[0], cov(c))
		}
		for _, c := range t.Lookahead {
			d.Sets[2] = append(d.Sets[2], cov(c))
		}
	case *gtab.Gpos1_1:
		d = Sub{Kind: "gpos11", Set: cov(t.Cov), Vr: vrDescribe(t.Adjust)}
	case *gtab.Gpos1_2:
		d = Sub{Kind: "gpos12", Set: cov(t.Cov), Vrs: make([]VR, len(t.Adjust))}
		for i, v := range t.Adjust {
			d.Vrs[i] = vrDescribe(v)
		}
	case gtab.Gpos2_1:
		d = Sub{Kind: "gpos21", Groups: []PairGroup{}}
		type pr struct {
			l, r int
			a, b VR
		}
		var ps []pr
		for k, v := range t {
			if v == nil {
				ok = false
				continue
			}
			ps = append(ps, pr{int(k.Left), int(k.Right), vrDescribe(v.First), vrDescribe(v.Second)})
		}
		sort.Slice(ps, func(a, b int) bool {
			if ps[a].l != ps[b].l {
				return ps[a].l < ps[b].l
			}
			return ps[a].r < ps[b].r
		})
		for _, p := range ps {
			n := len(d.Groups)
			if n == 0 || d.Groups[n-1].Left != p.l {
				d.Groups = append(d.Groups, PairGroup{Left: p.l})
				n++
			}
			d.Groups[n-1].Items = append(d.Groups[n-1].Items, PairItem{p.r, p.a, p.b})
		}
	case *gtab.Gpos2_2:
		d = Sub{Kind: "gpos22", Set: setList(t.Cov), Matrix: make([][][2]VR, len(t.Adjust))}
		d.Cls[0], d.Cls[1] = clsList(t.Class1), clsList(t.Class2)
		for i, row := range t.Adjust {
			d.Matrix[i] = make([][2]VR, len(row))
			for j, p := range row {
				if p == nil {
					ok = false
					continue
				}
				d.Matrix[i][j] = [2]VR{vrDescribe(p.First), vrDescribe(p.Second)}
			}
		}
	case *gtab.Gpos3_1:
		d = Sub{Kind: "gpos31", Set: cov(t.Cov), EE: make([][4]int, len(t.Records))}
		for i, e := range t.Records {
			d.EE[i] = [4]int{int(e.Entry.X), int(e.Entry.Y), int(e.Exit.X), int(e.Exit.Y)}
		}
	case *gtab.Gpos4_1:
		d = Sub{Kind: "gpos41", Set: cov(t.MarkCov), Set2: cov(t.BaseCov), Marks: describeMarks(t.MarkArray), Rows: make([][][2]int, len(t.BaseArray))}
		for i, row := range t.BaseArray {
			d.Rows[i] = describeRow(row)
		}
	case *gtab.Gpos6_1:
		d = Sub{Kind: "gpos61", Set: cov(t.Mark1Cov), Set2: cov(t.Mark2Cov), Marks: describeMarks(t.Mark1Array), Rows: make([][][2]int, len(t.Mark2Array))}
		for i, row := range t.Mark2Array {
			d.Rows[i] = describeRow(row)
		}
	case *gtab.Gpos5_1:
		d = Sub{Kind: "gpos51", Set: cov(t.MarkCov), Set2: cov(t.LigCov), Marks: describeMarks(t.MarkArray), LigRows: make([][][][2]int, len(t.LigArray))}
		for i, l := range t.LigArray {
			d.LigRows[i] = make([][][2]int, len(l))
			for j, row := range l {
				d.LigRows[i][j] = describeRow(row)
			}
		}
	case *gtab.SeqContext1:
		d = Sub{Kind: "seq1", Set: cov(t.Cov), RSets: make([]RuleSet, len(t.Rules))}
		for i, rr := range t.Rules {
			if rr == nil {
				d.RSets[i].Nil = true
				continue
			}
			d.RSets[i].Rules = make([]Rule, len(rr))
			for j, r := range rr {
				d.RSets[i].Rules[j] = Rule{In: intsOfG(r.Input), Acts: actionsOf(r.Actions)}
			}
		}
	case *gtab.SeqContext2:
		d = Sub{Kind: "seq2", Set: cov(t.Cov), RSets: make([]RuleSet, len(t.Rules))}
		d.Cls[1] = clsList(t.Input)
		for i, rr := range t.Rules {
			if rr == nil {
				d.RSets[i].Nil = true
				continue
			}
			d.RSets[i].Rules = make([]Rule, len(rr))
			for j, r := range rr {
				d.RSets[i].Rules[j] = Rule{In: intsOfU(r.Input), Acts: actionsOf(r.Actions)}
			}
		}
	case *gtab.SeqContext3:
		d = Sub{Kind: "seq3", Acts: actionsOf(t.Actions)}
		d.Sets[1] = setLists(t.Input)
	case *gtab.ChainedSeqContext1:
		d = Sub{Kind: "ch1", Set: cov(t.Cov), RSets: make([]RuleSet, len(t.Rules))}
		for i, rr := range t.Rules {
			if rr == nil {
				d.RSets[i].Nil = true
				continue
			}
			d.RSets[i].Rules = make([]Rule, len(rr))
			for j, r := range rr {
				d.RSets[i].Rules[j] = Rule{Back: intsOfG(r.Backtrack), In: intsOfG(r.Input), Look: intsOfG(r.Lookahead), Acts: actionsOf(r.Actions)}
			}
		}
	case *gtab.ChainedSeqContext2:
		d = Sub{Kind: "ch2", Set: cov(t.Cov), RSets: make([]RuleSet, len(t.Rules))}
		d.Cls[0], d.Cls[1], d.Cls[2] = clsList(t.Backtrack), clsList(t.Input), clsList(t.Lookahead)
		for i, rr := range t.Rules {
			if rr == nil {
				d.RSets[i].Nil = true
				continue
			}
			d.RSets[i].Rules = make([]Rule, len(rr))
			for j, r := range rr {
				d.RSets[i].Rules[j] = Rule{Back: intsOfU(r.Backtrack), In: intsOfU(r.Input), Look: intsOfU(r.Lookahead), Acts: actionsOf(r.Actions)}
			}
		}
	case *gtab.ChainedSeqContext3:
		d = Sub{Kind: "ch3", Acts: actionsOf(t.Actions)}
		d.Sets[0], d.Sets[1], d.Sets[2] = setLists(t.Backtrack), setLists(t.Input), setLists(t.Lookahead)
	default:
		return Sub{}, false
	}
	return d, ok
}

// ---- script tags -----------------------------------------------------------

// usable (script, lang) pairs: otfToBCP47 and bcp47ToOtf are inverse on them
// (the tag conversion itself is property C14's); the case lines carry
// OpenType tags.
var pairTag map[[2]string]language.Tag
var tagPair map[language.Tag][2]string

// Scripts / Langs that TagInit tries.
var poolScripts = []string{"latn", "arab", "grek", "cyrl", "hebr", "deva", "thai", "armn"}
var poolLangs = []string{"", "ENG ", "DEU ", "TRK ", "ARA ", "RUS ", "ELL ", "FRA ", "NLD ", "ROM ", "SRB "}

func TagInit() {
	if pairTag != nil {
		return
	}
	pairTag = map[[2]string]language.Tag{}
	tagPair = map[language.Tag][2]string{}
	for _, s := range poolScripts {
		for _, l := range poolLangs {
			var tag language.Tag
			var err error
			if pp, _ := Guard(func() { tag, err = gtab.VerifC14OtfToBCP47(s, l) }); pp || err != nil {
				continue
			}
			var s2, l2 string
			if pp, _ := Guard(func() { s2, l2, err = gtab.VerifC14BCP47ToOtf(tag) }); pp || err != nil || s2 != s || l2 != l {
				continue
			}
			if _, dup := tagPair[tag]; dup {
				continue
			}
			pairTag[[2]string{s, l}] = tag
			tagPair[tag] = [2]string{s, l}
		}
	}
}

// UsablePairs lists the pairs per script, sorted.
func UsablePairs() map[string][]string {
	TagInit()
	out := map[string][]string{}
	for p := range pairTag {
		out[p[0]] = append(out[p[0]], p[1])
	}
	for s := range out {
		sort.Strings(out[s])
	}
	return out
}

func Guard(f func()) (panicked bool, msg string) {
	defer func() {
		if e := recover(); e != nil {
			panicked = true
			msg = fmt.Sprint(e)
		}
	}()
	f()
	return false, ""
}

func features(l LangSys) *gtab.Features {
	opt := make([]gtab.FeatureIndex, len(l.Opt))
	for i, x := range l.Opt {
		opt[i] = gtab.FeatureIndex(x)
	}
	return &gtab.Features{Required: gtab.FeatureIndex(l.Req), Optional: opt}
}

// Build makes the library's Info; ok is false when a (script, language) pair
// is not one of the usable pairs or a feature tag is not 4 bytes long.
func (d Info) Build() (*gtab.Info, bool) {
	TagInit()
	info := &gtab.Info{}
	if !d.NoScript {
		info.ScriptList = gtab.ScriptListInfo{}
		for _, e := range d.Scripts {
			if e.Def != nil {
				t, ok := pairTag[[2]string{e.Script, ""}]
				if !ok {
					return nil, false
				}
				info.ScriptList[t] = features(*e.Def)
			}
			for _, l := range e.Langs {
				t, ok := pairTag[[2]string{e.Script, l.Lang}]
				if !ok {
					return nil, false
				}
				info.ScriptList[t] = features(l.LS)
			}
		}
	}
	if !d.NoFeat {
		info.FeatureList = gtab.FeatureListInfo{}
		for _, f := range d.Features {
			if len(f.Tag) != 4 {
				return nil, false
			}
			idx := make([]gtab.LookupIndex, len(f.Lookups))
			for i, x := range f.Lookups {
				idx[i] = gtab.LookupIndex(x)
			}
			if len(idx) == 0 {
				idx = nil
			}
			info.FeatureList = append(info.FeatureList, &gtab.Feature{Tag: f.Tag, Lookups: idx})
		}
	}
	if !d.NoLookup {
		info.LookupList = gtab.LookupList{}
		for _, l := range d.Lookups {
			lt := &gtab.LookupTable{Meta: &gtab.LookupMetaInfo{LookupType: uint16(l.Type), LookupFlags: gtab.LookupFlags(l.Flags), MarkFilteringSet: uint16(l.MFS)}}
			lt.Subtables = []gtab.Subtable{}
			for _, s := range l.Subs {
				lt.Subtables = append(lt.Subtables, s.Build())
			}
			info.LookupList = append(info.LookupList, lt)
		}
	}
	return info, true
}

// DescribeInfo canonicalises a decoded Info.  ok is false when it holds
// something the description cannot express (a script tag outside the usable
// pairs, a subtable Describe rejects).
func DescribeInfo(table string, info *gtab.Info) (d Info, ok bool) {
	TagInit()
	ok = true
	d.Table = table
	d.NoScript = info.ScriptList == nil
	d.NoFeat = info.FeatureList == nil
	d.NoLookup = info.LookupList == nil
	byScript := map[string]*ScriptEntry{}
	var scripts []string
	for t, f := range info.ScriptList {
		p, good := tagPair[t]
		if !good || f == nil {
			ok = false
			continue
		}
		e := byScript[p[0]]
		if e == nil {
			e = &ScriptEntry{Script: p[0]}
			byScript[p[0]] = e
			scripts = append(scripts, p[0])
		}
		ls := LangSys{Req: int(f.Required), Opt: make([]int, len(f.Optional))}
		for i, x := range f.Optional {
			ls.Opt[i] = int(x)
		}
		if p[1] == "" {
			e.Def = &ls
		} else {
			e.Langs = append(e.Langs, LangRec{p[1], ls})
		}
	}
	sort.Strings(scripts)
	for _, s := range scripts {
		e := byScript[s]
		sort.Slice(e.Langs, func(a, b int) bool { return e.Langs[a].Lang < e.Langs[b].Lang })
		d.Scripts = append(d.Scripts, *e)
	}
	for _, f := range info.FeatureList {
		if f == nil {
			ok = false
			continue
		}
		ft := Feature{Tag: f.Tag, Lookups: make([]int, len(f.Lookups))}
		for i, x := range f.Lookups {
			ft.Lookups[i] = int(x)
		}
		d.Features = append(d.Features, ft)
	}
	for _, l := range info.LookupList {
		if l == nil || l.Meta == nil {
			ok = false
			continue
		}
		ld := Lookup{Type: int(l.Meta.LookupType), Flags: int(l.Meta.LookupFlags), MFS: int(l.Meta.MarkFilteringSet)}
		for _, s := range l.Subtables {
			sd, good := Describe(s)
			if !good {
				ok = false
			}
			ld.Subs = append(ld.Subs, sd)
		}
		d.Lookups = append(d.Lookups, ld)
	}
	return d, ok
}
