package main

import (
	"seehuhn.de/go/sfnt/verifharness/c08d"
	"seehuhn.de/go/sfnt/verifharness/vlib"
)

func main() { vlib.Main(c08d.Gen, c08d.RunCase) }
