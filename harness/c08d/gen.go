package c08d

import (
	"fmt"
	"sort"

	"seehuhn.de/go/sfnt/verifharness/vlib"
)

// ---- generators of well-formed values ------------------------------------

// GlyphSet returns n distinct glyph ids in increasing order: runs, scattered
// values and the boundary glyphs 0 and 65535.
func GlyphSet(r *vlib.Rand, n int) []int {
	seen := map[int]bool{}
	var gl []int
	add := func(g int) {
		if g >= 0 && g <= 65535 && !seen[g] && len(gl) < n {
			seen[g] = true
			gl = append(gl, g)
		}
	}
	if n > 0 && r.Chance(1, 6) {
		add(0)
	}
	if n > 1 && r.Chance(1, 6) {
		add(65535)
	}
	for len(gl) < n {
		switch r.Intn(3) {
		case 0: // a run
			g := r.Intn(65000)
			for k := r.Range(2, 6); k > 0; k-- {
				add(g)
				g++
			}
		case 1:
			add(r.Intn(65536))
		default:
			add(r.Intn(400))
		}
	}
	sort.Ints(gl)
	return gl
}

// RunSet: n consecutive glyphs from g (one coverage range).
func RunSet(g, n int) []int {
	gl := make([]int, n)
	for i := range gl {
		gl[i] = g + i
	}
	return gl
}

func u16(r *vlib.Rand) int {
	return vlib.Pick(r, []int{0, 1, 255, 256, 65534, 65535, r.Intn(65536), r.Intn(65536), r.Intn(300)})
}

func i16(r *vlib.Rand) int {
	return vlib.Pick(r, []int{0, 1, -1, 32767, -32768, r.Intn(65536) - 32768, r.Intn(200) - 100})
}

func nums(r *vlib.Rand, n int) []int {
	out := make([]int, n)
	for i := range out {
		out[i] = u16(r)
	}
	return out
}

// genVR: mode 0 nil, 1 zero record, 2 advances only, 3 all fields.
func genVR(r *vlib.Rand) VR {
	switch r.Intn(5) {
	case 0:
		return nil
	case 1:
		return &[8]int{}
	case 2:
		return &[8]int{0, 0, i16(r), 0, 0, 0, 0, 0}
	case 3:
		return &[8]int{i16(r), i16(r), 0, 0, 0, 0, 0, 0}
	}
	return &[8]int{i16(r), i16(r), i16(r), i16(r), u16(r), u16(r), u16(r), u16(r)}
}

func genActs(r *vlib.Rand, max int) []Act {
	out := make([]Act, r.Intn(max+1))
	for i := range out {
		out[i] = Act{u16(r), u16(r)}
	}
	return out
}

func genAnchor(r *vlib.Rand) [2]int {
	if r.Chance(1, 4) {
		return [2]int{}
	}
	return [2]int{i16(r), i16(r)}
}

func genClasses(r *vlib.Rand, n, maxClass int, zeroes bool) []ClsEntry {
	gl := GlyphSet(r, n)
	out := make([]ClsEntry, 0, n)
	for _, g := range gl {
		c := 1 + r.Intn(maxClass)
		if zeroes && r.Chance(1, 5) {
			c = 0
		}
		out = append(out, ClsEntry{g, c})
	}
	return out
}

func numClasses(ps []ClsEntry) int {
	m := 0
	for _, p := range ps {
		if p.C > m {
			m = p.C
		}
	}
	return m + 1
}

func genRuleSets(r *vlib.Rand, n int, chained bool) []RuleSet {
	out := make([]RuleSet, n)
	for i := range out {
		switch r.Intn(5) {
		case 0:
			out[i].Nil = true
		case 1:
			out[i].Rules = []Rule{}
		default:
			out[i].Rules = make([]Rule, r.Range(1, 3))
			for j := range out[i].Rules {
				rl := Rule{In: nums(r, r.Intn(4)), Acts: genActs(r, 2)}
				if chained {
					rl.Back, rl.Look = nums(r, r.Intn(3)), nums(r, r.Intn(3))
				}
				out[i].Rules[j] = rl
			}
		}
	}
	return out
}

func genSets(r *vlib.Rand, n int) [][]int {
	out := make([][]int, n)
	for i := range out {
		out[i] = GlyphSet(r, r.Range(0, 5))
	}
	return out
}

// Kinds of each table with their lookup types (OpenType: GSUB 1-6, 8; GPOS 1-8).
var GsubKinds = []string{"gsub11", "gsub12", "gsub21", "gsub31", "gsub41", "seq1", "seq2", "seq3", "ch1", "ch2", "ch3", "gsub81"}
var GposKinds = []string{"gpos11", "gpos12", "gpos21", "gpos22", "gpos31", "gpos41", "gpos61", "seq1", "seq2", "seq3", "ch1", "ch2", "ch3"}

func LookupType(table, kind string) int {
	switch kind {
	case "gsub11", "gsub12", "gpos11", "gpos12":
		return 1
	case "gsub21", "gpos21", "gpos22":
		return 2
	case "gsub31", "gpos31":
		return 3
	case "gsub41", "gpos41":
		return 4
	case "gpos51":
		return 5
	case "gpos61":
		return 6
	case "gsub81":
		return 8
	case "seq1", "seq2", "seq3":
		if table == "gsub" {
			return 5
		}
		return 7
	case "ch1", "ch2", "ch3":
		if table == "gsub" {
			return 6
		}
		return 8
	}
	return 0
}

// SameTypeKinds: the kinds one lookup of the given kind's type may mix.
func SameTypeKinds(table, kind string) []string {
	all := GsubKinds
	if table == "gpos" {
		all = append(append([]string{}, GposKinds...), "gpos51")
	}
	var out []string
	for _, k := range all {
		if k != "gpos51" && LookupType(table, k) == LookupType(table, kind) {
			out = append(out, k)
		}
	}
	return out
}

// GenSub generates a well-formed subtable of the kind with about n covered glyphs.
func GenSub(r *vlib.Rand, kind string, n int) Sub {
	d := Sub{Kind: kind}
	switch kind {
	case "gsub11":
		d.Set, d.Delta = GlyphSet(r, n), u16(r)
	case "gsub12":
		d.Set, d.Nums = GlyphSet(r, n), nums(r, n)
	case "gsub21", "gsub31":
		d.Set, d.Seqs = GlyphSet(r, n), make([][]int, n)
		for i := range d.Seqs {
			d.Seqs[i] = nums(r, r.Intn(4))
		}
	case "gsub41":
		d.Set, d.Ligs = GlyphSet(r, n), make([][]Lig, n)
		for i := range d.Ligs {
			d.Ligs[i] = make([]Lig, r.Intn(4))
			for j := range d.Ligs[i] {
				d.Ligs[i][j] = Lig{u16(r), nums(r, r.Intn(4))}
			}
		}
	case "gsub81":
		d.Set, d.Nums = GlyphSet(r, n), nums(r, n)
		d.Sets[0], d.Sets[2] = genSets(r, r.Intn(3)), genSets(r, r.Intn(3))
	case "gpos11":
		d.Set, d.Vr = GlyphSet(r, n), genVR(r)
	case "gpos12":
		d.Set, d.Vrs = GlyphSet(r, n), make([]VR, n)
		allNil := r.Chance(1, 5)
		for i := range d.Vrs {
			if !allNil {
				d.Vrs[i] = genVR(r)
			}
		}
	case "gpos21":
		lefts := GlyphSet(r, n)
		mode := r.Intn(4) // 0: every first record nil, 1: every second nil
		for _, l := range lefts {
			g := PairGroup{Left: l}
			for _, rg := range GlyphSet(r, r.Range(1, 3)) {
				it := PairItem{Right: rg, A: genVR(r), B: genVR(r)}
				if mode == 0 {
					it.A = nil
				}
				if mode == 1 {
					it.B = nil
				}
				g.Items = append(g.Items, it)
			}
			d.Groups = append(d.Groups, g)
		}
		if d.Groups == nil {
			d.Groups = []PairGroup{}
		}
	case "gpos22":
		d.Set = GlyphSet(r, n)
		d.Cls[0] = genClasses(r, r.Intn(n+2), 3, true)
		d.Cls[1] = genClasses(r, r.Intn(6), 3, true)
		c1, c2 := numClasses(d.Cls[0]), numClasses(d.Cls[1])
		if r.Chance(1, 6) {
			c1, c2 = r.Intn(4), r.Intn(4)
		}
		mode := r.Intn(4)
		d.Matrix = make([][][2]VR, c1)
		for i := range d.Matrix {
			d.Matrix[i] = make([][2]VR, c2)
			for j := range d.Matrix[i] {
				p := [2]VR{genVR(r), genVR(r)}
				if mode == 0 {
					p[0] = nil
				}
				if mode == 1 {
					p[1] = nil
				}
				d.Matrix[i][j] = p
			}
		}
	case "gpos31":
		d.Set, d.EE = GlyphSet(r, n), make([][4]int, n)
		for i := range d.EE {
			a, b := genAnchor(r), genAnchor(r)
			d.EE[i] = [4]int{a[0], a[1], b[0], b[1]}
		}
	case "gpos41", "gpos61":
		m := r.Intn(n + 2)
		mcc := r.Range(1, 3)
		d.Set, d.Set2 = GlyphSet(r, n), GlyphSet(r, m)
		d.Marks = make([]Mark, n)
		for i := range d.Marks {
			a := genAnchor(r)
			d.Marks[i] = Mark{r.Intn(mcc), a[0], a[1]}
		}
		if m == 0 && n > 0 {
			// markClassCount = largest class + 1 when there is no base record
		}
		d.Rows = make([][][2]int, m)
		for i := range d.Rows {
			d.Rows[i] = make([][2]int, mcc)
			for j := range d.Rows[i] {
				d.Rows[i][j] = genAnchor(r)
			}
		}
	case "gpos51":
		m := r.Range(1, 3)
		mcc := r.Range(1, 2)
		d.Set, d.Set2 = GlyphSet(r, n), GlyphSet(r, m)
		d.Marks = make([]Mark, n)
		for i := range d.Marks {
			a := genAnchor(r)
			d.Marks[i] = Mark{r.Intn(mcc), a[0], a[1]}
		}
		d.LigRows = make([][][][2]int, m)
		for i := range d.LigRows {
			d.LigRows[i] = make([][][2]int, r.Range(1, 3))
			for j := range d.LigRows[i] {
				d.LigRows[i][j] = make([][2]int, mcc)
				for k := range d.LigRows[i][j] {
					d.LigRows[i][j][k] = genAnchor(r)
				}
			}
		}
	case "seq1":
		d.Set, d.RSets = GlyphSet(r, n), genRuleSets(r, n, false)
	case "seq2":
		d.Set = GlyphSet(r, n)
		d.Cls[1] = genClasses(r, r.Intn(6), 3, true)
		k := numClasses(d.Cls[1])
		d.RSets = genRuleSets(r, vlib.Pick(r, []int{k, k, k + 2, r.Intn(k + 1)}), false)
	case "seq3":
		d.Sets[1], d.Acts = genSets(r, r.Range(1, 3)), genActs(r, 3)
	case "ch1":
		d.Set, d.RSets = GlyphSet(r, n), genRuleSets(r, n, true)
	case "ch2":
		d.Set = GlyphSet(r, n)
		for i := 0; i < 3; i++ {
			d.Cls[i] = genClasses(r, r.Intn(5), 3, false)
		}
		k := numClasses(d.Cls[1])
		d.RSets = genRuleSets(r, vlib.Pick(r, []int{k, k, k + 2, r.Intn(k + 1)}), true)
	case "ch3":
		d.Sets[0], d.Sets[1], d.Sets[2] = genSets(r, r.Intn(3)), genSets(r, r.Range(1, 2)), genSets(r, r.Intn(3))
		d.Acts = genActs(r, 3)
	}
	return d
}

// SizedSub: a subtable of the kind whose encoding has exactly `size` bytes
// (size even, large enough); used to steer lookup lists across the 64 KiB
// boundary.  The coverage is one run, so it costs 10 bytes (format 2) once
// it has more than 3 glyphs.
func SizedSub(kind string, size, seed int) (Sub, bool) {
	switch kind {
	case "gsub12": // 6 + 2n + 10
		n := (size - 16) / 2
		if n < 4 || 2*n+16 != size || n > 30000 {
			return Sub{}, false
		}
		d := Sub{Kind: kind, Set: RunSet(100+seed%50, n), Nums: make([]int, n)}
		for i := range d.Nums {
			d.Nums[i] = (seed*31 + i*7) & 0xffff
		}
		return d, true
	case "gpos12": // 8 + 2n (XAdvance only) + 10
		n := (size - 18) / 2
		if n < 4 || 2*n+18 != size || n > 30000 {
			return Sub{}, false
		}
		d := Sub{Kind: kind, Set: RunSet(200+seed%50, n), Vrs: make([]VR, n)}
		for i := range d.Vrs {
			d.Vrs[i] = &[8]int{0, 0, (seed+i)%2000 - 1000, 0, 0, 0, 0, 0}
			if d.Vrs[i][2] == 0 {
				d.Vrs[i][2] = 7
			}
		}
		return d, true
	case "seq3": // 6 + 2*1 + 4a + 10
		a := (size - 18) / 4
		if a < 0 || 4*a+18 != size || a > 16000 {
			return Sub{}, false
		}
		d := Sub{Kind: kind, Acts: make([]Act, a)}
		d.Sets[1] = [][]int{RunSet(300+seed%50, 5)}
		for i := range d.Acts {
			d.Acts[i] = Act{i & 3, (seed + i) & 0xff}
		}
		return d, true
	case "gsub21": // 6 + 2n + n*(2+2) + 10 : one substitute per glyph
		n := (size - 16) / 6
		if n < 4 || 6*n+16 != size || n > 10000 {
			return Sub{}, false
		}
		d := Sub{Kind: kind, Set: RunSet(400+seed%50, n), Seqs: make([][]int, n)}
		for i := range d.Seqs {
			d.Seqs[i] = []int{(seed + 3*i) & 0xffff}
		}
		return d, true
	}
	return Sub{}, false
}

func genLangSys(r *vlib.Rand, nf int) LangSys {
	ls := LangSys{Req: vlib.Pick(r, []int{0xFFFF, 0xFFFF, 0, r.Intn(nf + 1)}), Opt: make([]int, r.Intn(5))}
	for i := range ls.Opt {
		ls.Opt[i] = vlib.Pick(r, []int{0, r.Intn(nf + 1), 65534, r.Intn(65535)})
	}
	return ls
}

// GenScripts: 0..3 scripts from the usable pairs.
func GenScripts(r *vlib.Rand, nf int) []ScriptEntry {
	pool := UsablePairs()
	var scripts []string
	for s := range pool {
		scripts = append(scripts, s)
	}
	sort.Strings(scripts)
	var out []ScriptEntry
	used := map[string]bool{}
	for k := r.Intn(4); k > 0 && len(scripts) > 0; k-- {
		s := vlib.Pick(r, scripts)
		if used[s] {
			continue
		}
		used[s] = true
		e := ScriptEntry{Script: s}
		for _, l := range pool[s] {
			if !r.Chance(1, 3) {
				continue
			}
			ls := genLangSys(r, nf)
			if l == "" {
				e.Def = &ls
			} else {
				e.Langs = append(e.Langs, LangRec{l, ls})
			}
		}
		if e.Def == nil && len(e.Langs) == 0 {
			ls := genLangSys(r, nf)
			e.Def = &ls
		}
		out = append(out, e)
	}
	sort.Slice(out, func(a, b int) bool { return out[a].Script < out[b].Script })
	return out
}

var featureTags = []string{"liga", "kern", "calt", "mark", "mkmk", "ss01", "    ", "\x00\x01\x02\x03", "\xff\xfe\xfd\xfc", "aalt"}

func GenFeatures(r *vlib.Rand, nl int) []Feature {
	out := make([]Feature, r.Intn(7))
	for i := range out {
		out[i] = Feature{Tag: vlib.Pick(r, featureTags), Lookups: make([]int, r.Intn(5))}
		for k := range out[i].Lookups {
			out[i].Lookups[k] = vlib.Pick(r, []int{0, 1, 65535, r.Intn(nl + 1), r.Intn(nl + 1)})
		}
	}
	return out
}

var lookupFlags = []int{0, 0, 1, 2, 4, 8, 0x10, 0x18, 0x1e, 0xff00, 0x0310, 0xffff}

// GenLookup: a lookup of the table whose subtables (0..maxSubs) all belong to
// one lookup type, mixing the formats of that type.
func GenLookup(r *vlib.Rand, table string, maxSubs, n int) Lookup {
	kinds := GsubKinds
	if table == "gpos" {
		kinds = GposKinds
	}
	kind := vlib.Pick(r, kinds)
	l := Lookup{Type: LookupType(table, kind), Flags: vlib.Pick(r, lookupFlags)}
	if l.Flags&0x10 != 0 || r.Chance(1, 5) {
		l.MFS = vlib.Pick(r, []int{0, 1, 7, 65535, r.Intn(65536)})
	}
	same := SameTypeKinds(table, kind)
	for k := r.Intn(maxSubs + 1); k > 0; k-- {
		l.Subs = append(l.Subs, GenSub(r, vlib.Pick(r, same), r.Intn(n+1)))
	}
	return l
}

// GenInfo: a whole table with nl lookups.
func GenInfo(r *vlib.Rand, table string, nl, maxSubs, n int) Info {
	d := Info{Table: table}
	for i := 0; i < nl; i++ {
		d.Lookups = append(d.Lookups, GenLookup(r, table, maxSubs, n))
	}
	d.Features = GenFeatures(r, nl)
	d.Scripts = GenScripts(r, len(d.Features))
	return d
}

// kindsOf lists the subtable kinds of an Info (labels).
func kindsOf(d Info) []string {
	seen := map[string]bool{}
	var out []string
	for _, l := range d.Lookups {
		for _, s := range l.Subs {
			if !seen[s.Kind] {
				seen[s.Kind] = true
				out = append(out, s.Kind)
			}
		}
	}
	sort.Strings(out)
	return out
}

func sizeClass(n int) string {
	switch {
	case n <= 0xFFFF:
		return fmt.Sprintf("<=64KiB")
	case n <= 0x20000:
		return "64-128KiB"
	}
	return ">128KiB"
}
