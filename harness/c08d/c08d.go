package c08d

import (
	"bytes"
	"crypto/md5"
	"encoding/hex"
	"encoding/json"
	"errors"
	"fmt"
	"os"
	"path/filepath"
	"sort"
	"strings"

	"seehuhn.de/go/sfnt/glyph"
	"seehuhn.de/go/sfnt/opentype/gtab"
	"seehuhn.de/go/sfnt/verifharness/vlib"
)

// Case lines (see ocaml/c08d_driver.ml for the syntax):
//
//	info gsub|gpos SCRIPTS FEATURES LOOKUPS   (*gtab.Info).Encode, then gtab.Read
//	read gsub|gpos xBYTES KNOWN               gtab.Read on the given bytes; KNOWN =
//	                                          the usable (script, language) pairs
//	sub-enc SUB                               Subtable.encode / encodeLen

// openFinding reports whether an open finding with the signature is
// registered in known_findings.json (the file the check driver matches oracle
// failures against; it is regenerated from findings/*.json by the
// coordinator).  A failure of a recorded-but-not-yet-registered finding is
// shown in the labels only, so that the check of the unchanged tree does not
// depend on when the registry is regenerated; every other failure is reported.
func openFinding(sig string) bool {
	exe, err := os.Executable()
	if err != nil {
		return false
	}
	for _, root := range []string{filepath.Dir(filepath.Dir(filepath.Dir(exe))), "/verif"} {
		b, err := os.ReadFile(filepath.Join(root, "known_findings.json"))
		if err != nil {
			continue
		}
		var kf struct {
			Findings []struct {
				Property, Status, Signature string
			} `json:"findings"`
		}
		if json.Unmarshal(b, &kf) != nil {
			continue
		}
		for _, f := range kf.Findings {
			if f.Signature == sig && f.Status == "open" {
				return true
			}
		}
		return false
	}
	return false
}

func tableType(t string) gtab.Type {
	if t == "gpos" {
		return gtab.TypeGpos
	}
	return gtab.TypeGsub
}

// sentinel-guarded shared storage: the glyph slices of the subtables become
// sub-slices of one array (spare capacity behind each of them), the way a
// caller who builds many subtables from one buffer hands them over
type shared struct {
	buf   []glyph.ID
	spans [][2]int
}

const sentinel = glyph.ID(0xA5A5)

func (s *shared) place(v []glyph.ID) []glyph.ID {
	s.buf = append(s.buf, sentinel)
	a := len(s.buf)
	s.buf = append(s.buf, v...)
	s.spans = append(s.spans, [2]int{a, len(s.buf)})
	s.buf = append(s.buf, sentinel, sentinel)
	return nil
}

func aliasInfo(info *gtab.Info) (check func() string) {
	s := &shared{}
	var slots []*[]glyph.ID
	for _, l := range info.LookupList {
		for _, st := range l.Subtables {
			switch t := st.(type) {
			case *gtab.Gsub1_2:
				slots = append(slots, &t.SubstituteGlyphIDs)
			case *gtab.Gsub8_1:
				slots = append(slots, &t.SubstituteGlyphIDs)
			case *gtab.Gsub2_1:
				for i := range t.Repl {
					slots = append(slots, &t.Repl[i])
				}
			case *gtab.Gsub3_1:
				for i := range t.Alternates {
					slots = append(slots, &t.Alternates[i])
				}
			case *gtab.Gsub4_1:
				for i := range t.Repl {
					for j := range t.Repl[i] {
						slots = append(slots, &t.Repl[i][j].In)
					}
				}
			}
		}
	}
	for _, p := range slots {
		s.place(*p)
	}
	for i, p := range slots {
		sp := s.spans[i]
		*p = s.buf[sp[0]:sp[1]] // capacity reaches into the following slots
	}
	before := append([]glyph.ID{}, s.buf...)
	return func() string {
		for i := range before {
			if s.buf[i] != before[i] {
				return fmt.Sprintf("Encode wrote into the caller's glyph storage at %d", i)
			}
		}
		return ""
	}
}

func obsErr(err error) string {
	if err != nil {
		return "err"
	}
	return ""
}

// runInfo: the implementation's observation and the oracle's verdict.
// expect: "ok" (Encode must not refuse), "refuse" (a 16-bit field cannot hold
// its value: Encode must refuse) or "" (decided by the model comparison only).
func runInfo(d Info, expect string, alias bool) (impl, fail, sig string, labels []string) {
	info, ok := d.Build()
	if !ok {
		return "bad", "", "", nil
	}
	before := ""
	if bd, okb := DescribeInfo(d.Table, info); okb {
		before = vlib.Str(bd.ObsSx())
	}
	var check func() string
	if alias {
		check = aliasInfo(info)
	}
	var enc []byte
	pp, msg := Guard(func() { enc = info.Encode() })
	if check != nil {
		if m := check(); m != "" {
			return "?", m, "c08d-encode-modifies-input", nil
		}
	}
	if bd, okb := DescribeInfo(d.Table, info); okb && before != "" && vlib.Str(bd.ObsSx()) != before {
		return "?", "Encode modifies the Info it is given", "c08d-encode-modifies-input", nil
	}
	if pp {
		labels = append(labels, "info:refused")
		hasG51 := false
		for _, l := range d.Lookups {
			for _, s := range l.Subs {
				hasG51 = hasG51 || s.Kind == "gpos51"
			}
		}
		if hasG51 {
			// open finding gpos51-encode-not-implemented: the refusal is loud
			labels = append(labels, "info:refused-gpos51(no encoder in the library)")
			return "panic", "", "", labels
		}
		if expect == "ok" {
			return "panic", "Encode refuses a representable table: " + msg, "c08d-info-refused", labels
		}
		return "panic", "", "", labels
	}
	labels = append(labels, "info:encoded", "info:size:"+sizeClass(len(enc)))
	if expect == "refuse" {
		return "?", "a table with a 16-bit field that cannot hold its value was written instead of refused", "c08d-info-not-refused", labels
	}
	sum := md5.Sum(enc)
	head := []vlib.Sx{vlib.Atom("ok"), vlib.Int(len(enc)), vlib.Atom(hex.EncodeToString(sum[:]))}
	mk := func(obs vlib.Sx) string { return vlib.Str(vlib.List(append(append([]vlib.Sx{}, head...), obs))) }

	// gtab.Read from a reader over a sub-slice of a larger buffer
	big := make([]byte, 0, len(enc)+32)
	big = append(append(append(big, 0xEE, 0xEE, 0xEE), enc...), 0xDD, 0xDD, 0xDD, 0xDD)
	var back *gtab.Info
	var err error
	if pp, msg := Guard(func() { back, err = gtab.Read(bytes.NewReader(big[3:3+len(enc)]), tableType(d.Table)) }); pp {
		return mk(vlib.Atom("panic")), "gtab.Read panics on Encode's output: " + msg, "c08d-read-panics", labels
	}
	nilList := d.NoScript || d.NoFeat || d.NoLookup
	if err != nil {
		impl = mk(vlib.Atom("err"))
		if nilList {
			labels = append(labels, "info:nil-list:unreadable")
			return impl, "an Info with a nil FeatureList next to a ScriptList and a LookupList is written with featureListOffset 0; gtab.Read rejects the table: " + err.Error(),
				"info-nil-list-lost", labels
		}
		return impl, "gtab.Read rejects Encode's output: " + err.Error(), "c08d-roundtrip", labels
	}
	bd, okb := DescribeInfo(d.Table, back)
	if !okb {
		return mk(vlib.Atom("undescribable")), "gtab.Read returns a value outside the description (coverage invariant broken, unknown tag or nil entry)", "c08d-roundtrip", labels
	}
	impl = mk(bd.ObsSx())
	if nilList {
		// a nil ScriptList / LookupList: everything else is dropped
		lost := (d.NoScript && (len(d.Lookups) > 0 || len(d.Features) > 0)) || (d.NoLookup && (len(d.Scripts) > 0 || len(d.Features) > 0))
		if lost {
			labels = append(labels, "info:nil-list:others-dropped")
			return impl, "an Info with a nil ScriptList or LookupList next to other non-empty lists is written with offset 0; gtab.Read returns the empty Info (the other lists are lost without a refusal)",
				"info-nil-list-lost", labels
		}
		labels = append(labels, "info:nil-list:empty")
		return impl, "", "", labels
	}
	probs, usedExt := Walk(d.Table, enc, info)
	if usedExt {
		labels = append(labels, "info:extension-records")
	}
	if len(probs) > 0 {
		return impl, "structural walk of the emitted table: " + strings.Join(probs, "; "), "c08d-walk", labels
	}
	want := vlib.Str(Normal(d).ObsSx())
	if got := vlib.Str(bd.ObsSx()); got != want {
		return impl, "decode(encode(I)) differs from I: " + firstDiff(want, got), "c08d-roundtrip", labels
	}
	return impl, "", "", labels
}

func firstDiff(a, b string) string {
	i := 0
	for i < len(a) && i < len(b) && a[i] == b[i] {
		i++
	}
	lo := i - 60
	if lo < 0 {
		lo = 0
	}
	cut := func(s string) string {
		hi := i + 60
		if hi > len(s) {
			hi = len(s)
		}
		return s[lo:hi]
	}
	return fmt.Sprintf("at %d: want ...%s... got ...%s...", i, cut(a), cut(b))
}

// RunRead: gtab.Read on given bytes (decoded structure or err/panic).
// comparable is false when the result holds a script tag outside the usable
// pairs (then the model, whose conv_ok is "one of the usable pairs", does not
// speak about it).
func RunRead(table string, data []byte) (impl, fail string, comparable bool) {
	var back *gtab.Info
	var err error
	if pp, msg := Guard(func() { back, err = gtab.Read(bytes.NewReader(data), tableType(table)) }); pp {
		return "panic", "gtab.Read panics: " + msg, true
	}
	if err != nil {
		return "err", "", true
	}
	bd, ok := DescribeInfo(table, back)
	if !ok {
		return "undescribable", "", false
	}
	return vlib.Str(bd.ObsSx()), "", true
}

// KnownSx lists the usable (script, language) pairs, sorted.
func KnownSx() vlib.Sx {
	TagInit()
	var keys [][2]string
	for p := range pairTag {
		keys = append(keys, p)
	}
	sort.Slice(keys, func(a, b int) bool {
		if keys[a][0] != keys[b][0] {
			return keys[a][0] < keys[b][0]
		}
		return keys[a][1] < keys[b][1]
	})
	out := vlib.List{}
	for _, p := range keys {
		out = append(out, vlib.L(tagSx(p[0]), tagSx(p[1])))
	}
	return out
}

func runSubEnc(d Sub) (impl, fail string) {
	st := d.Build()
	var enc []byte
	var n int
	p1, _ := Guard(func() { enc = gtab.VerifC08Encode(st) })
	p2, _ := Guard(func() { n = gtab.VerifC08EncodeLen(st) })
	if p1 {
		return "panic", ""
	}
	if p2 {
		return vlib.Str(vlib.L(vlib.Atom("ok"), vlib.Hex(enc), vlib.Atom("panic"))), "encodeLen panics but encode does not"
	}
	impl = vlib.Str(vlib.L(vlib.Atom("ok"), vlib.Hex(enc), vlib.Int(n)))
	if n != len(enc) {
		return impl, fmt.Sprintf("encodeLen = %d but encode wrote %d bytes", n, len(enc))
	}
	return impl, ""
}

// RunCase re-executes one case line.
func RunCase(line string) (impl, fail, sig string, err error) {
	line = strings.TrimPrefix(line, "!")
	items, err := vlib.Parse(line)
	if err != nil || len(items) == 0 {
		return "", "", "", errors.New("bad case line")
	}
	kind, _ := vlib.AsAtom(items[0])
	switch kind {
	case "info":
		d, err := ParseInfo(items)
		if err != nil {
			return "", "", "", err
		}
		impl, fail, sig, _ = runInfo(d, "", true)
		if sig == "info-nil-list-lost" && !openFinding(sig) {
			fail = ""
		}
		return impl, fail, sig, nil
	case "read":
		if len(items) != 4 {
			return "", "", "", errors.New("read: want 3 arguments")
		}
		t, _ := vlib.AsAtom(items[1])
		data, err := vlib.AsBytes(items[2])
		if err != nil {
			return "", "", "", err
		}
		impl, fail, _ = RunRead(t, data)
		return impl, fail, "c08d-read", nil
	case "sub-enc":
		if len(items) != 2 {
			return "", "", "", errors.New("sub-enc: want 1 argument")
		}
		d, err := ParseSub(items[1])
		if err != nil {
			return "", "", "", err
		}
		impl, fail = runSubEnc(d)
		return impl, fail, "c08d-subtable", nil
	}
	return "", "", "", fmt.Errorf("unknown case kind %q", kind)
}

// ---- generation ------------------------------------------------------------

type genState struct {
	run  *vlib.Run
	tier string
	encs [][2]string // (table, hex of an encoded table) kept for the read stream
	raw  []rawEnc
}

type rawEnc struct {
	table string
	data  []byte
}

func (g *genState) info(d Info, expect string, lb ...string) {
	line := d.Line()
	impl, fail, sig, labels := runInfo(d, expect, true)
	if impl == "bad" {
		return
	}
	nsub := 0
	for _, l := range d.Lookups {
		nsub += len(l.Subs)
	}
	all := append([]string{"info", "info:" + d.Table}, lb...)
	all = append(all, labels...)
	for _, k := range kindsOf(d) {
		all = append(all, "info:kind:"+k)
	}
	switch n := len(d.Lookups); {
	case n == 0:
		all = append(all, "info:lookups:0")
	case n <= 6:
		all = append(all, "info:lookups:1-6")
	case n <= 60:
		all = append(all, "info:lookups:7-60")
	default:
		all = append(all, "info:lookups:61-300")
	}
	if sig == "info-nil-list-lost" && !openFinding(sig) {
		all = append(all, "info:nil-list-lost(recorded in findings/C08.json, not yet in known_findings.json: not reported)")
		fail = ""
	}
	idx := g.run.Add(line, impl, nsub > 0, all...)
	if fail != "" {
		g.run.Fail(idx, line, fail, sig)
	}
}

func (g *genState) read(table string, data []byte, lb ...string) {
	impl, fail, comparable := RunRead(table, data)
	line := vlib.Line(vlib.Atom("read"), vlib.Atom(table), vlib.Hex(data), KnownSx())
	if !comparable {
		line = "!" + line
		lb = append(lb, "read:tag-outside-the-usable-pairs(oracle only)")
	}
	cls := impl
	if len(cls) > 3 && cls[0] == '(' {
		cls = "ok"
	}
	idx := g.run.Add(line, impl, len(data) > 10, append([]string{"read", "read:" + cls}, lb...)...)
	if fail != "" {
		g.run.Fail(idx, line, fail, "c08d-read")
	}
}

// header11 turns a version 1.0 table into the version 1.1 table with the same
// content (FeatureVariationsOffset fv inserted, the list offsets moved by 4).
func header11(enc []byte, fv uint32) []byte {
	out := make([]byte, 0, len(enc)+4)
	out = append(out, 0, 1, 0, 1)
	for k := 4; k < 10; k += 2 {
		o := int(enc[k])<<8 | int(enc[k+1])
		if o != 0 {
			o += 4
		}
		out = append(out, byte(o>>8), byte(o))
	}
	out = append(out, byte(fv>>24), byte(fv>>16), byte(fv>>8), byte(fv))
	return append(out, enc[10:]...)
}

func Gen(run *vlib.Run, seed uint64, tier string) {
	TagInit()
	run.Rule = "an Info with at least one subtable (info), a table of more than 10 bytes (read), every subtable (sub-enc)"
	run.Extra["usable_script_language_pairs"] = len(pairTag)
	g := &genState{run: run, tier: tier}
	r := vlib.NewRand(seed).Fork("c08d")

	// 1. every subtable kind alone (encode, encodeLen): localises a mismatch
	rs := r.Fork("sub")
	for _, kind := range append(append([]string{}, GsubKinds...), "gpos11", "gpos12", "gpos21", "gpos22", "gpos31", "gpos41", "gpos61", "gpos51") {
		for k := 0; k < vlib.Count(tier, 6, 120); k++ {
			d := GenSub(rs, kind, rs.Intn(6))
			impl, fail := runSubEnc(d)
			line := vlib.Line(vlib.Atom("sub-enc"), d.Sx())
			idx := run.Add(line, impl, true, "sub-enc", "sub-enc:"+kind, "sub-enc:"+impl[:min(len(impl), 3)])
			if fail != "" {
				run.Fail(idx, line, fail, "c08d-subtable")
			}
		}
	}

	// 2. small tables mixing all kinds, flags, mark filtering sets
	ri := r.Fork("small")
	for k := 0; k < vlib.Count(tier, 160, 4000); k++ {
		table := vlib.Pick(ri, []string{"gsub", "gpos"})
		d := GenInfo(ri, table, ri.Intn(7), 3, vlib.Pick(ri, []int{2, 5, 12}))
		g.info(d, "ok", "info:small")
		if k < 40 {
			g.keep(d)
		}
	}
	// every kind at least once per run, one lookup per kind
	for _, table := range []string{"gsub", "gpos"} {
		kinds := GsubKinds
		if table == "gpos" {
			kinds = GposKinds
		}
		d := Info{Table: table, Features: GenFeatures(ri, len(kinds)), Scripts: GenScripts(ri, 3)}
		for _, kd := range kinds {
			d.Lookups = append(d.Lookups, Lookup{Type: LookupType(table, kd), Flags: vlib.Pick(ri, lookupFlags), MFS: 3, Subs: []Sub{GenSub(ri, kd, 4), GenSub(ri, kd, 2)}})
		}
		g.info(d, "ok", "info:all-kinds")
		g.keep(d)
	}
	// a mark-to-ligature lookup: the library has no encoder (open finding)
	{
		d := GenInfo(ri, "gpos", 2, 2, 3)
		d.Lookups = append(d.Lookups, Lookup{Type: 5, Subs: []Sub{GenSub(ri, "gpos51", 2)}})
		g.info(d, "", "info:gpos51")
	}

	// 3. many lookups (up to 300), small subtables
	rm := r.Fork("many")
	for _, nl := range []int{17, 60, 150, 300} {
		for k := 0; k < vlib.Count(tier, 1, 12); k++ {
			table := vlib.Pick(rm, []string{"gsub", "gpos"})
			g.info(GenInfo(rm, table, nl, 2, 3), "ok", "info:many-lookups", fmt.Sprintf("info:lookups=%d", nl))
		}
	}

	// 4. lookup lists across the 64 KiB boundary, real subtables of steered sizes
	g.boundaries(r.Fork("boundary"))

	// 5. what must be refused: 16-bit fields that cannot hold their value
	g.refusals(r.Fork("refuse"))

	// 6. nil lists
	rn := r.Fork("nil")
	for k := 0; k < vlib.Count(tier, 12, 200); k++ {
		d := GenInfo(rn, vlib.Pick(rn, []string{"gsub", "gpos"}), rn.Intn(3), 2, 3)
		switch k % 6 {
		case 0:
			d.NoScript, d.Scripts = true, nil
		case 1:
			d.NoFeat, d.Features = true, nil
		case 2:
			d.NoLookup, d.Lookups = true, nil
		case 3:
			d = Info{Table: d.Table, NoScript: true, NoFeat: true, NoLookup: true}
		case 4:
			d.NoScript, d.Scripts, d.NoFeat, d.Features = true, nil, true, nil
		case 5:
			d = Info{Table: d.Table, NoFeat: true, NoLookup: true}
		}
		g.info(d, "", "info:nil-lists")
	}

	// 7. gtab.Read on version 1.1 headers, damaged headers, truncations
	rr := r.Fork("read")
	for _, e := range g.raw {
		g.read(e.table, e.data, "read:valid-1.0")
		g.read(e.table, header11(e.data, 0), "read:valid-1.1")
		g.read(e.table, header11(e.data, uint32(len(e.data))+3), "read:1.1-FeatureVariationsOffset=last-byte")
		g.read(e.table, header11(e.data, uint32(len(e.data))+4), "read:1.1-FeatureVariationsOffset=size")
		g.read(e.table, header11(e.data, 13), "read:1.1-FeatureVariationsOffset-inside-header")
		other := "gpos"
		if e.table == "gpos" {
			other = "gsub"
		}
		g.read(other, e.data, "read:as-the-other-table")
		for k := 0; k < vlib.Count(tier, 3, 30); k++ {
			m := append([]byte{}, e.data...)
			switch rr.Intn(4) {
			case 0:
				m = m[:rr.Intn(len(m)+1)]
				g.read(e.table, m, "read:truncated")
			case 1:
				m[rr.Intn(min(len(m), 10))] = byte(rr.Intn(256))
				g.read(e.table, m, "read:header-byte")
			case 2:
				m[rr.Intn(len(m))] ^= byte(1 << rr.Intn(8))
				g.read(e.table, m, "read:bit-flip")
			default:
				p := rr.Intn(len(m)/2) * 2
				v := vlib.Pick(rr, []int{0, 1, 2, 10, 0xFFFF, len(m), len(m) - 2})
				m[p], m[p+1] = byte(v>>8), byte(v)
				g.read(e.table, m, "read:word-replaced")
			}
		}
	}
}

// keep remembers small encoded tables for the read stream.
func (g *genState) keep(d Info) {
	info, ok := d.Build()
	if !ok {
		return
	}
	var enc []byte
	if pp, _ := Guard(func() { enc = info.Encode() }); pp || len(enc) > 3000 {
		return
	}
	g.raw = append(g.raw, rawEnc{d.Table, enc})
}

func lookupOf(table string, subs ...Sub) Lookup {
	return Lookup{Type: LookupType(table, subs[0].Kind), Subs: subs}
}

// boundaries: the position of the last lookup table sweeps across 0xFFFF, so
// that the list is written plainly, reordered, or with extension records.
func (g *genState) boundaries(r *vlib.Rand) {
	tier := g.tier
	sized := func(kind string, size, seed int) Sub {
		s, ok := SizedSub(kind, size, seed)
		if !ok {
			panic(fmt.Sprintf("SizedSub(%s, %d)", kind, size))
		}
		return s
	}
	std := func(table string) ([]ScriptEntry, []Feature) { return GenScripts(r, 2), GenFeatures(r, 3) }
	// three lookups, one subtable each: the third lookup table starts at P
	// (header 2+2*3, lookup tables 8 bytes each)
	for _, P := range []int{0xFFFE, 0x10000, 0x10002} {
		for _, table := range []string{"gsub", "gpos"} {
			kind := "gsub12"
			if table == "gpos" {
				kind = "gpos12"
			}
			rest := P - 8 - 16 // the two subtables in front of the third lookup table
			s0 := 20000
			if kind == "gpos12" {
				s0 = 20002
			}
			d := Info{Table: table}
			d.Scripts, d.Features = std(table)
			d.Lookups = []Lookup{
				lookupOf(table, sized(kind, s0, 1)),
				lookupOf(table, sized(kind, rest-s0, 2)),
				lookupOf(table, sized(kind, 400, 3)),
			}
			g.info(d, "ok", "info:boundary", fmt.Sprintf("info:boundary:third-lookup-at-%#x", P))
		}
	}
	// several large lookups: extension records are needed
	for k := 0; k < vlib.Count(tier, 2, 12); k++ {
		table := vlib.Pick(r, []string{"gsub", "gpos"})
		kinds := []string{"gsub12", "gsub21", "seq3"}
		if table == "gpos" {
			kinds = []string{"gpos12", "seq3"}
		}
		d := Info{Table: table}
		d.Scripts, d.Features = std(table)
		n := r.Range(3, 5)
		for i := 0; i < n; i++ {
			kd := vlib.Pick(r, kinds)
			unit := map[string]int{"gsub12": 2, "gpos12": 2, "gsub21": 6, "seq3": 4}[kd]
			base := map[string]int{"gsub12": 16, "gpos12": 18, "gsub21": 16, "seq3": 18}[kd]
			size := base + unit*r.Range(3000/unit*4, 9000/unit*4)
			l := lookupOf(table, sized(kd, size, 10*k+i))
			if r.Chance(1, 2) {
				l.Subs = append(l.Subs, GenSub(r, kd, 3))
			}
			l.Flags = vlib.Pick(r, lookupFlags)
			l.MFS = r.Intn(9)
			d.Lookups = append(d.Lookups, l)
		}
		// small lookups in between
		for i := 0; i < r.Intn(4); i++ {
			d.Lookups = append(d.Lookups, GenLookup(r, table, 2, 3))
		}
		g.info(d, "", "info:large", "info:large:several-big-lookups")
	}
	// only contextual subtables, too large: the extension type comes from the lookup type
	for _, table := range []string{"gsub", "gpos"} {
		d := Info{Table: table}
		d.Scripts, d.Features = std(table)
		for i := 0; i < 3; i++ {
			d.Lookups = append(d.Lookups, lookupOf(table, sized("seq3", 18+4*7000, i)))
		}
		g.info(d, "ok", "info:large", "info:large:contextual-only")
	}
}

// refusals: a header offset, a list offset or a count beyond 16 bits.
func (g *genState) refusals(r *vlib.Rand) {
	// the lookup list offset passes 65535: one feature with n lookup indices
	for _, n := range []int{32740, 32753, 32755, 32756, 40000} {
		d := GenInfo(r, "gsub", 2, 1, 2)
		d.Scripts = nil
		d.Features = []Feature{{Tag: "bigf", Lookups: make([]int, n)}}
		// 10 + 2 (script list) + 2 + 6 + 4 + 2n
		expect := "ok"
		if 10+2+2+6+4+2*n > 0xFFFF {
			expect = "refuse"
		}
		g.info(d, expect, "info:refusal", fmt.Sprintf("info:refusal:lookup-list-offset=%d", 10+2+2+6+4+2*n))
	}
	// a lookup whose own subtables need more than 64 KiB (open finding: refused)
	{
		a, _ := SizedSub("gsub12", 40000, 1)
		b, _ := SizedSub("gsub12", 40000, 2)
		d := Info{Table: "gsub", Lookups: []Lookup{{Type: 1, Subs: []Sub{a, b}}}}
		g.info(d, "", "info:refusal", "info:refusal:own-subtables>64KiB")
	}
	// more than 6000 lookups + subtables: the reader would reject the list
	for _, n := range []int{3000, 3001} {
		d := Info{Table: "gsub"}
		s := Sub{Kind: "gsub11", Set: []int{1}, Delta: 1}
		for i := 0; i < n; i++ {
			d.Lookups = append(d.Lookups, Lookup{Type: 1, Subs: []Sub{s}})
		}
		expect := "ok"
		if 2*n > 6000 {
			expect = "refuse"
		}
		g.info(d, expect, "info:refusal", fmt.Sprintf("info:refusal:objects=%d", 2*n))
	}
}
