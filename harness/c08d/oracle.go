package c08d

import (
	"fmt"
	"sort"

	"seehuhn.de/go/sfnt/opentype/gtab"
)

// The property oracle of part C08D, stated on the real code's observables and
// written from the property text and the OpenType specification (chapter 2,
// GSUB, GPOS), not from the model:
//
//   - Normal: what "an equal structure" means after a round trip (nil and the
//     all-zero value record are the same adjustment when some record of that
//     side is not nil; class 0 = not listed; rule sets for classes that do not
//     occur cannot apply; an unused mark filtering set is not stored);
//   - Walk: an independent structural walk of the emitted table: header,
//     script list, feature list, lookup list, lookup tables, extension records,
//     format words and coverage tables of the subtables; every offset must
//     point inside the table at a piece of the right kind, the pieces must
//     tile the table exactly (declared sizes = emitted sizes), counts must
//     agree with the coverage tables they index.

func normVRs(vs []VR) {
	any := false
	for _, v := range vs {
		if v != nil {
			any = true
		}
	}
	if !any {
		return
	}
	for i, v := range vs {
		if v == nil {
			vs[i] = &[8]int{}
		}
	}
}

func dropClass0(ps []ClsEntry) []ClsEntry {
	out := []ClsEntry{}
	for _, p := range ps {
		if p.C != 0 {
			out = append(out, p)
		}
	}
	return out
}

// NormalSub returns the normal form of a subtable description (a copy).
func NormalSub(d Sub) Sub {
	n := d
	switch d.Kind {
	case "gpos12":
		n.Vrs = append([]VR{}, d.Vrs...)
		normVRs(n.Vrs)
	case "gpos21":
		var a, b []VR
		for _, g := range d.Groups {
			for _, it := range g.Items {
				a, b = append(a, it.A), append(b, it.B)
			}
		}
		normVRs(a)
		normVRs(b)
		n.Groups = make([]PairGroup, len(d.Groups))
		k := 0
		for i, g := range d.Groups {
			n.Groups[i] = PairGroup{Left: g.Left, Items: make([]PairItem, len(g.Items))}
			for j, it := range g.Items {
				n.Groups[i].Items[j] = PairItem{it.Right, a[k], b[k]}
				k++
			}
		}
	case "gpos22":
		var a, b []VR
		for _, row := range d.Matrix {
			for _, p := range row {
				a, b = append(a, p[0]), append(b, p[1])
			}
		}
		normVRs(a)
		normVRs(b)
		n.Matrix = make([][][2]VR, len(d.Matrix))
		k := 0
		for i, row := range d.Matrix {
			n.Matrix[i] = make([][2]VR, len(row))
			for j := range row {
				n.Matrix[i][j] = [2]VR{a[k], b[k]}
				k++
			}
		}
		n.Cls[0], n.Cls[1] = dropClass0(d.Cls[0]), dropClass0(d.Cls[1])
	case "seq2", "ch2":
		if d.Kind == "seq2" {
			n.Cls[1] = dropClass0(d.Cls[1])
		}
		k := numClasses(d.Cls[1])
		if len(d.RSets) > k {
			n.RSets = d.RSets[:k]
		}
	}
	return n
}

// Normal returns the normal form of an Info description.
func Normal(d Info) Info {
	n := d
	n.Lookups = make([]Lookup, len(d.Lookups))
	for i, l := range d.Lookups {
		nl := Lookup{Type: l.Type, Flags: l.Flags, MFS: l.MFS}
		if l.Flags&0x10 == 0 {
			nl.MFS = 0
		}
		for _, s := range l.Subs {
			nl.Subs = append(nl.Subs, NormalSub(s))
		}
		n.Lookups[i] = nl
	}
	return n
}

// ---- the structural walk -----------------------------------------------------

type piece struct {
	pos, n int
	what   string
}

type walker struct {
	data   []byte
	pieces []piece
	probs  []string
}

func (w *walker) bad(format string, a ...any) {
	if len(w.probs) < 8 {
		w.probs = append(w.probs, fmt.Sprintf(format, a...))
	}
}

func (w *walker) u16(pos int) int {
	if pos < 0 || pos+2 > len(w.data) {
		w.bad("read of 2 bytes at %d passes the end (%d)", pos, len(w.data))
		return 0
	}
	return int(w.data[pos])<<8 | int(w.data[pos+1])
}

func (w *walker) u32(pos int) int {
	return w.u16(pos)<<16 | w.u16(pos+2)
}

func (w *walker) add(pos, n int, what string) {
	if pos < 0 || n < 0 || pos+n > len(w.data) {
		w.bad("%s at %d (+%d) lies outside the table (%d bytes)", what, pos, n, len(w.data))
		return
	}
	w.pieces = append(w.pieces, piece{pos, n, what})
}

// coverage parses a coverage table and returns its glyphs; -1 = broken.
func (w *walker) coverage(pos int, what string) int {
	format := w.u16(pos)
	cnt := w.u16(pos + 2)
	switch format {
	case 1:
		prev := -1
		for i := 0; i < cnt; i++ {
			g := w.u16(pos + 4 + 2*i)
			if g <= prev {
				w.bad("%s: coverage format 1 at %d is not strictly increasing", what, pos)
				return -1
			}
			prev = g
		}
		return cnt
	case 2:
		total, prevEnd := 0, -1
		for i := 0; i < cnt; i++ {
			s, e, sci := w.u16(pos+4+6*i), w.u16(pos+6+6*i), w.u16(pos+8+6*i)
			if s <= prevEnd || e < s || sci != total {
				w.bad("%s: coverage format 2 at %d: bad range record %d (%d..%d, startCoverageIndex %d, expected %d)", what, pos, i, s, e, sci, total)
				return -1
			}
			total += e - s + 1
			prevEnd = e
		}
		return total
	}
	w.bad("%s: coverage format %d at %d", what, format, pos)
	return -1
}

// the formats of each lookup type (OpenType GSUB / GPOS lookup type tables)
var gsubFormats = map[int][]int{1: {1, 2}, 2: {1}, 3: {1}, 4: {1}, 5: {1, 2, 3}, 6: {1, 2, 3}, 7: {1}, 8: {1}}
var gposFormats = map[int][]int{1: {1, 2}, 2: {1, 2}, 3: {1}, 4: {1}, 5: {1}, 6: {1}, 7: {1, 2, 3}, 8: {1, 2, 3}, 9: {1}}

func has(l []int, x int) bool {
	for _, y := range l {
		if x == y {
			return true
		}
	}
	return false
}

// subtable checks the format word and the coverage tables of a subtable of
// declared size n at pos.
func (w *walker) subtable(table string, tp, pos, n int) {
	what := fmt.Sprintf("%s lookup type %d subtable at %d", table, tp, pos)
	format := w.u16(pos)
	formats := gsubFormats
	ctxSeq, ctxChain := 5, 6
	if table == "gpos" {
		formats = gposFormats
		ctxSeq, ctxChain = 7, 8
	}
	if !has(formats[tp], format) {
		w.bad("%s: format %d is not defined for the lookup type", what, format)
		return
	}
	inside := func(off int, name string) int {
		if off < 0 || off >= n {
			w.bad("%s: %s offset %d lies outside the subtable (%d bytes)", what, name, off, n)
			return -1
		}
		return pos + off
	}
	cov := func(fieldPos int, name string) int {
		p := inside(w.u16(fieldPos), name)
		if p < 0 {
			return -1
		}
		return w.coverage(p, what+" "+name)
	}
	covCount := func(fieldPos int, countPos int, name string) {
		c := cov(fieldPos, "coverage")
		if c >= 0 && countPos >= 0 && w.u16(countPos) != c {
			w.bad("%s: %s = %d but the coverage table has %d glyphs", what, name, w.u16(countPos), c)
		}
	}
	switch {
	case (tp == ctxSeq || tp == ctxChain) && format == 3:
		p := pos + 2
		groups := 1
		if tp == ctxChain {
			groups = 3
		}
		for g := 0; g < groups; g++ {
			if tp == ctxSeq {
				k := w.u16(p)
				for i := 0; i < k; i++ {
					cov(p+4+2*i, fmt.Sprintf("input coverage %d", i))
				}
				break
			}
			k := w.u16(p)
			for i := 0; i < k; i++ {
				cov(p+2+2*i, fmt.Sprintf("coverage %d.%d", g, i))
			}
			p += 2 + 2*k
		}
	case tp == ctxSeq || tp == ctxChain:
		countPos := pos + 4
		if format == 2 {
			countPos = -1 // rule sets are indexed by class
		}
		covCount(pos+2, countPos, "ruleSetCount")
	case table == "gsub" && tp == 1 && format == 1:
		cov(pos+2, "coverage")
	case table == "gsub" && tp == 8:
		c := cov(pos+2, "coverage")
		p := pos + 4
		for g := 0; g < 2; g++ {
			k := w.u16(p)
			for i := 0; i < k; i++ {
				cov(p+2+2*i, fmt.Sprintf("coverage %d.%d", g, i))
			}
			p += 2 + 2*k
		}
		if c >= 0 && w.u16(p) != c {
			w.bad("%s: glyphCount = %d but the coverage table has %d glyphs", what, w.u16(p), c)
		}
	case table == "gsub":
		covCount(pos+2, pos+4, "count")
	case tp == 1 && format == 1:
		cov(pos+2, "coverage")
	case tp == 1 && format == 2:
		covCount(pos+2, pos+6, "valueCount")
	case tp == 2 && format == 1:
		covCount(pos+2, pos+8, "pairSetCount")
	case tp == 2 && format == 2:
		cov(pos+2, "coverage")
	case tp == 3:
		covCount(pos+2, pos+4, "entryExitCount")
	case tp == 4 || tp == 5 || tp == 6:
		mc := cov(pos+2, "mark coverage")
		bc := cov(pos+4, "base coverage")
		if ma := inside(w.u16(pos+8), "mark array"); ma >= 0 && mc >= 0 && w.u16(ma) != mc {
			w.bad("%s: markCount = %d but the mark coverage has %d glyphs", what, w.u16(ma), mc)
		}
		if ba := inside(w.u16(pos+10), "base array"); ba >= 0 && bc >= 0 && w.u16(ba) != bc {
			w.bad("%s: base/ligature count = %d but its coverage has %d glyphs", what, w.u16(ba), bc)
		}
	}
}

// Walk checks an emitted table.  info is the value it was encoded from (only
// used for what the bytes do not say: the declared size encodeLen() of each
// subtable and the original lookup types).
func Walk(table string, data []byte, info *gtab.Info) (probs []string, usedExt bool) {
	w := &walker{data: data}
	if len(data) < 10 {
		return []string{"table shorter than its header"}, false
	}
	if w.u16(0) != 1 || w.u16(2) != 0 {
		w.bad("version %d.%d", w.u16(0), w.u16(2))
	}
	so, fo, lo := w.u16(4), w.u16(6), w.u16(8)
	w.add(0, 10, "header")
	if !(so == 10 && so < fo && fo < lo && lo < len(data)) {
		w.bad("header offsets %d, %d, %d do not describe three consecutive lists in %d bytes", so, fo, lo, len(data))
		return w.probs, false
	}
	// script list: records sorted by tag, LangSys records sorted by tag
	{
		n := w.u16(so)
		w.add(so, 2+6*n, "script list header")
		prevTag := ""
		for i := 0; i < n && len(w.probs) == 0; i++ {
			rec := so + 2 + 6*i
			tag := string(data[rec : rec+4])
			if tag <= prevTag {
				w.bad("script records are not sorted by tag")
			}
			prevTag = tag
			st := so + w.u16(rec+4)
			if st >= fo {
				w.bad("script table %d at %d lies outside the script list", i, st)
				break
			}
			def, m := w.u16(st), w.u16(st+2)
			w.add(st, 4+6*m, "script table")
			langSys := func(p int) {
				if p >= fo {
					w.bad("LangSys table at %d lies outside the script list", p)
					return
				}
				if w.u16(p) != 0 {
					w.bad("LangSys at %d: lookupOrderOffset is not NULL", p)
				}
				w.add(p, 6+2*w.u16(p+4), "LangSys table")
			}
			if def != 0 {
				langSys(st + def)
			}
			prevLang := ""
			for j := 0; j < m && len(w.probs) == 0; j++ {
				lr := st + 4 + 6*j
				lt := string(data[lr : lr+4])
				if lt <= prevLang {
					w.bad("LangSys records are not sorted by tag")
				}
				prevLang = lt
				langSys(st + w.u16(lr+4))
			}
		}
	}
	// feature list
	{
		n := w.u16(fo)
		w.add(fo, 2+6*n, "feature list header")
		for i := 0; i < n && len(w.probs) == 0; i++ {
			ft := fo + w.u16(fo+2+6*i+4)
			if ft >= lo {
				w.bad("feature table %d at %d lies outside the feature list", i, ft)
				break
			}
			if w.u16(ft) != 0 {
				w.bad("feature table %d: featureParamsOffset is not NULL", i)
			}
			w.add(ft, 4+2*w.u16(ft+2), "feature table")
		}
	}
	// lookup list
	ext := 7
	maxType := 8
	if table == "gpos" {
		ext, maxType = 9, 9
	}
	n := w.u16(lo)
	w.add(lo, 2+2*n, "lookup list header")
	if n != len(info.LookupList) {
		w.bad("lookupCount = %d, the Info has %d lookups", n, len(info.LookupList))
		return w.probs, false
	}
	for i := 0; i < n && len(w.probs) == 0; i++ {
		lt := lo + w.u16(lo+2+2*i)
		tp, flags, k := w.u16(lt), w.u16(lt+2), w.u16(lt+4)
		hdr := 6 + 2*k
		if flags&0x10 != 0 {
			hdr += 2
		}
		w.add(lt, hdr, fmt.Sprintf("lookup table %d", i))
		orig := info.LookupList[i]
		if flags != int(orig.Meta.LookupFlags) || k != len(orig.Subtables) {
			w.bad("lookup %d: flags %#x / %d subtables, the Info has %#x / %d", i, flags, k, orig.Meta.LookupFlags, len(orig.Subtables))
			continue
		}
		if flags&0x10 != 0 && w.u16(lt+6+2*k) != int(orig.Meta.MarkFilteringSet) {
			w.bad("lookup %d: markFilteringSet %d, the Info has %d", i, w.u16(lt+6+2*k), orig.Meta.MarkFilteringSet)
		}
		if tp < 1 || tp > maxType {
			w.bad("lookup %d: lookup type %d", i, tp)
			continue
		}
		if tp != ext && tp != int(orig.Meta.LookupType) {
			w.bad("lookup %d: lookup type %d, the Info has %d", i, tp, orig.Meta.LookupType)
		}
		for j := 0; j < k && len(w.probs) == 0; j++ {
			sp := lt + w.u16(lt+6+2*j)
			stp := tp
			if tp == ext {
				usedExt = true
				if w.u16(sp) != 1 {
					w.bad("lookup %d subtable %d: extension format %d", i, j, w.u16(sp))
					continue
				}
				stp = w.u16(sp + 2)
				if stp != int(orig.Meta.LookupType) || stp == ext {
					w.bad("lookup %d subtable %d: extensionLookupType %d, the Info has %d", i, j, stp, orig.Meta.LookupType)
				}
				w.add(sp, 8, "extension record")
				sp += w.u32(sp + 4)
			}
			declared := 0
			if pp, _ := Guard(func() { declared = gtab.VerifC08EncodeLen(orig.Subtables[j]) }); pp {
				w.bad("lookup %d subtable %d: encodeLen panics", i, j)
				continue
			}
			w.add(sp, declared, fmt.Sprintf("lookup %d subtable %d", i, j))
			if len(w.probs) == 0 {
				w.subtable(table, stp, sp, declared)
			}
		}
	}
	if len(w.probs) > 0 {
		return w.probs, usedExt
	}
	// the pieces tile the table: no gap, no overlap, nothing after the end
	sort.Slice(w.pieces, func(a, b int) bool {
		if w.pieces[a].pos != w.pieces[b].pos {
			return w.pieces[a].pos < w.pieces[b].pos
		}
		return w.pieces[a].n < w.pieces[b].n
	})
	at := 0
	for _, p := range w.pieces {
		if p.n == 0 {
			continue
		}
		if p.pos != at {
			w.bad("%s at %d (+%d): the previous piece ends at %d (declared sizes and emitted bytes disagree)", p.what, p.pos, p.n, at)
			break
		}
		at += p.n
	}
	if len(w.probs) == 0 && at != len(data) {
		w.bad("the pieces end at %d, the table has %d bytes", at, len(data))
	}
	return w.probs, usedExt
}
