// Package c01b ties the file-level composition of property C01 (coq/C01B:
// C01's glue composed with C03's container and the table codecs of C12) to
// the real code: whole fonts through the public (*sfnt.Font).Write and
// sfnt.Read.
//
// file.go: an independent reading of a font file (directory, table bytes,
// checksums) written from the OpenType specification, and the file-level
// clauses of the property stated on it.
package c01b

import (
	"bytes"
	"crypto/md5"
	"encoding/hex"
	"fmt"
	"sort"

	"seehuhn.de/go/sfnt"
	"seehuhn.de/go/sfnt/cff"
	"seehuhn.de/go/sfnt/glyf"
	"seehuhn.de/go/sfnt/head"
	c01 "seehuhn.de/go/sfnt/verifharness/c01"
	v "seehuhn.de/go/sfnt/verifharness/vlib"
)

type dirEntry struct {
	Tag           string
	Sum, Off, Len uint32
}

func be32(b []byte) uint32 {
	return uint32(b[0])<<24 | uint32(b[1])<<16 | uint32(b[2])<<8 | uint32(b[3])
}
func be16(b []byte) uint16 { return uint16(b[0])<<8 | uint16(b[1]) }

// parseDir reads the table directory in the order of the file.
func parseDir(w []byte) (scaler uint32, dir []dirEntry, err error) {
	if len(w) < 12 {
		return 0, nil, fmt.Errorf("file shorter than an offset table")
	}
	scaler = be32(w)
	n := int(be16(w[4:]))
	if 12+16*n > len(w) {
		return 0, nil, fmt.Errorf("directory of %d entries does not fit", n)
	}
	for i := 0; i < n; i++ {
		p := 12 + 16*i
		dir = append(dir, dirEntry{string(w[p : p+4]), be32(w[p+4:]), be32(w[p+8:]), be32(w[p+12:])})
	}
	return scaler, dir, nil
}

func (e dirEntry) body(w []byte) []byte {
	if uint64(e.Off)+uint64(e.Len) > uint64(len(w)) {
		return nil
	}
	return w[e.Off : e.Off+e.Len]
}

func findEntry(dir []dirEntry, tag string) (dirEntry, bool) {
	for _, e := range dir {
		if e.Tag == tag {
			return e, true
		}
	}
	return dirEntry{}, false
}

// tableSum: sum of the big-endian uint32 words of the zero-padded data.
func tableSum(b []byte) uint32 {
	var s uint32
	for i := 0; i < len(b); i += 4 {
		var wd [4]byte
		copy(wd[:], b[i:])
		s += be32(wd[:])
	}
	return s
}

func tagNum(tag string) uint64 {
	return uint64(tag[0])<<24 | uint64(tag[1])<<16 | uint64(tag[2])<<8 | uint64(tag[3])
}

// fileObs prints what the model prints of a written file.
func fileObs(w []byte) (v.List, error) {
	_, dir, err := parseDir(w)
	if err != nil {
		return nil, err
	}
	d := v.List{v.Atom("dir")}
	for _, e := range dir {
		d = append(d, v.L(v.U64(tagNum(e.Tag)), v.U64(uint64(e.Sum)), v.U64(uint64(e.Off)), v.U64(uint64(e.Len))))
	}
	sum := md5.Sum(w)
	real := v.List{v.Atom("real")}
	for _, t := range [][2]string{{"head", "head"}, {"hhea", "hhea"}, {"hmtx", "hmtx"}, {"maxp", "maxp"}, {"OS2", "OS/2"}, {"post", "post"}} {
		x := v.Sx(v.Atom("-"))
		if e, ok := findEntry(dir, t[1]); ok {
			if b := e.body(w); b != nil {
				x = v.Hex(b)
			}
		}
		real = append(real, v.L(v.Atom(t[0]), x))
	}
	return v.List{d, v.L(v.Atom("len"), v.Int(len(w))), v.L(v.Atom("md5"), v.Atom(hex.EncodeToString(sum[:]))),
		v.L(v.Atom("container-ok"), v.Bool(true)), real}, nil
}

// containerClauses: the file is a well-formed container (the clauses of
// property C03, checked here on whole fonts), holds exactly the tables the
// font value calls for, and its head table composes: head.Read gives a value
// whose encoding is the table up to checkSumAdjustment, and that field makes
// the word sum of the file 0xB1B0AFBA.
func containerClauses(f *sfnt.Font, w []byte) []*c01.Failure {
	var fails []*c01.Failure
	bad := func(sig, format string, args ...any) {
		fails = append(fails, c01.NewFailure("file:"+sig, fmt.Sprintf(format, args...)))
	}
	scaler, dir, err := parseDir(w)
	if err != nil {
		bad("directory", "%v", err)
		return fails
	}
	n := len(dir)
	if n == 0 {
		bad("directory", "no tables")
		return fails
	}
	// search fields
	es := 0
	for 1<<(es+1) <= n {
		es++
	}
	if int(be16(w[6:])) != 16<<es || int(be16(w[8:])) != es || int(be16(w[10:])) != 16*n-(16<<es) {
		bad("search-fields", "searchRange/entrySelector/rangeShift %d %d %d for %d tables", be16(w[6:]), be16(w[8:]), be16(w[10:]), n)
	}
	// sorted by tag, tables consecutive from the end of the directory, 4-aligned,
	// zero padding, checksums
	for i := 1; i < n; i++ {
		if dir[i-1].Tag >= dir[i].Tag {
			bad("directory-order", "%q before %q", dir[i-1].Tag, dir[i].Tag)
		}
	}
	phys := append([]dirEntry(nil), dir...)
	sort.Slice(phys, func(i, j int) bool {
		if phys[i].Off != phys[j].Off {
			return phys[i].Off < phys[j].Off
		}
		return phys[i].Len < phys[j].Len // an empty table shares its offset with the next one
	})
	pos := uint64(12 + 16*n)
	for _, e := range phys {
		if uint64(e.Off) != pos || e.Off%4 != 0 {
			bad("layout", "table %q at %d, expected %d", e.Tag, e.Off, pos)
			return fails
		}
		end := uint64(e.Off) + uint64(e.Len)
		padded := (end + 3) &^ 3
		if padded > uint64(len(w)) {
			bad("layout", "table %q ends at %d beyond the file (%d)", e.Tag, padded, len(w))
			return fails
		}
		for _, b := range w[end:padded] {
			if b != 0 {
				bad("padding", "non-zero padding behind %q", e.Tag)
				break
			}
		}
		body := append([]byte(nil), w[e.Off:end]...)
		if e.Tag == "head" && len(body) >= 12 {
			copy(body[8:12], []byte{0, 0, 0, 0})
		}
		if s := tableSum(body); s != e.Sum {
			bad("checksum", "table %q: directory says %08x, table sums to %08x", e.Tag, e.Sum, s)
		}
		pos = padded
	}
	if pos != uint64(len(w)) {
		bad("layout", "file has %d bytes, tables end at %d", len(w), pos)
	}
	if s := tableSum(w); s != 0xB1B0AFBA {
		bad("whole-file-checksum", "word sum of the file is %08x", s)
	}
	// the table set
	want := map[string]bool{"hhea": true, "OS/2": true, "name": true, "post": true, "maxp": true, "head": true}
	switch o := f.Outlines.(type) {
	case *cff.Outlines:
		want["CFF "] = true
		want["hmtx"] = true
		if scaler != 0x4F54544F {
			bad("scaler", "CFF font with scaler type %08x", scaler)
		}
	case *glyf.Outlines:
		want["glyf"], want["loca"] = true, true
		if o.Widths != nil {
			want["hmtx"] = true
		}
		for k, b := range o.Tables {
			if b != nil && len(k) == 4 {
				want[k] = true
			}
		}
		if scaler != 0x00010000 {
			bad("scaler", "TrueType font with scaler type %08x", scaler)
		}
	}
	if f.CMapTable != nil {
		want["cmap"] = true
	}
	if f.Gdef != nil {
		want["GDEF"] = true
	}
	if f.Gsub != nil {
		want["GSUB"] = true
	}
	if f.Gpos != nil {
		want["GPOS"] = true
	}
	have := map[string]bool{}
	for _, e := range dir {
		have[e.Tag] = true
	}
	for k := range want {
		if !have[k] {
			bad("table-set", "table %q is missing", k)
		}
	}
	for k := range have {
		if !want[k] {
			bad("table-set", "table %q is not called for by the font value", k)
		}
	}
	// head
	if e, ok := findEntry(dir, "head"); ok {
		hb := e.body(w)
		info, err := head.Read(bytes.NewReader(hb))
		if err != nil {
			bad("head", "head.Read rejects the written head table: %v", err)
		} else {
			enc := info.Encode()
			cmp := append([]byte(nil), hb...)
			if len(cmp) >= 12 {
				copy(cmp[8:12], []byte{0, 0, 0, 0})
			}
			if !bytes.Equal(enc, cmp) {
				bad("head", "the head table differs from its re-encoding outside checkSumAdjustment")
			}
		}
	} else {
		bad("head", "no head table")
	}
	return fails
}
