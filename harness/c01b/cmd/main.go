package main

import (
	"seehuhn.de/go/sfnt/verifharness/c01b"
	"seehuhn.de/go/sfnt/verifharness/vlib"
)

func main() { vlib.Main(c01b.Gen, c01b.RunCase) }
