package c01b

// gen.go: cases, the opaque-codec context handed to the model, streams.
//
//	file <tpl> <fields> <wctx> <FONT> <OPQ>     a generated font value: the model writes it
//	                                             (real encoders of C12 for head, hhea, hmtx,
//	                                             maxp, OS/2, post header; container of C03),
//	                                             reads its own bytes back and merges
//	read <src> <edits> <xFILE> <OPQ>             a byte string: the model reads it
//	!file ... / !read ...                        oracle only (value off the model's grid, a
//	                                             decoder rejects a table, file too large)
//
// OPQ = (opq (boxes ..) (caret rise run) (maxp13 ..) (range ..) (cmap x..) (name x..)
//            (post ver xtail) (cff x..) (glyf xglyf xloca fmt ((xname xdata)..))
//            (gdef x..) (gsub x..) (gpos x..) (kern x..) (dec TABLES))

import (
	"bytes"
	"errors"
	"fmt"
	"sort"
	"strings"
	"time"

	"seehuhn.de/go/sfnt"
	"seehuhn.de/go/sfnt/glyf"
	"seehuhn.de/go/sfnt/header"
	c01 "seehuhn.de/go/sfnt/verifharness/c01"
	v "seehuhn.de/go/sfnt/verifharness/vlib"
)

var none = v.Atom("-")

// size limits of modelled cases: the extracted model works on lists of
// binary numbers
const (
	maxModelFile   = 400 << 10
	maxModelGlyphs = 3000
)

func optHex(b []byte, present bool) v.Sx {
	if !present {
		return none
	}
	return v.Hex(b)
}

// tablesOf reads all tables of a file through header.Read / ReadTableBytes.
func tablesOf(w []byte) (map[string][]byte, error) {
	rr := bytes.NewReader(w)
	dir, err := header.Read(rr)
	if err != nil {
		return nil, err
	}
	out := map[string][]byte{}
	for tag := range dir.Toc {
		b, err := dir.ReadTableBytes(rr, tag)
		if err != nil {
			return nil, err
		}
		if b == nil {
			b = []byte{}
		}
		out[tag] = b
	}
	return out, nil
}

var errOracleOnly = errors.New("outside the model")

// opqOf assembles the opaque context.  f != nil: a font value and the file w
// Write produced for it (the bytes of the opaque tables are what the Go
// encoders produced: they are taken from w).  f == nil: a byte string.
func opqOf(f *sfnt.Font, w []byte) (v.Sx, error) {
	tabs, err := tablesOf(w)
	if err != nil {
		return nil, fmt.Errorf("%w: %v", errOracleOnly, err)
	}
	ft, err := c01.DecodeTables(w)
	if err != nil {
		return nil, fmt.Errorf("%w: a table decoder rejects: %v", errOracleOnly, err)
	}
	dec, err := ft.TablesSx(false, nil, nil)
	if err != nil {
		return nil, fmt.Errorf("%w: %v", errOracleOnly, err)
	}
	// an opaque table that is present but empty is decoded by sfnt.Read and
	// skipped by DecodeTables
	for _, t := range []string{"cmap", "name", "CFF ", "loca", "GDEF", "GSUB", "GPOS", "kern"} {
		if b, ok := tabs[t]; ok && len(b) == 0 {
			return nil, fmt.Errorf("%w: empty %q table", errOracleOnly, t)
		}
	}
	boxes := v.List{}
	rng := v.Sx(none)
	if f != nil {
		if f.NumGlyphs() > maxModelGlyphs {
			return nil, fmt.Errorf("%w: %d glyphs", errOracleOnly, f.NumGlyphs())
		}
		for _, r := range f.GlyphBBoxes() {
			boxes = append(boxes, v.L(v.Int(int(r.LLx)), v.Int(int(r.LLy)), v.Int(int(r.URx)), v.Int(int(r.URy))))
		}
		if best, _ := f.CMapTable.GetBest(); best != nil {
			lo, hi := best.CodeRange()
			rng = v.L(v.Atom("range"), v.I64(int64(lo)), v.I64(int64(hi)))
		}
	}
	// hhea caret slope as written (float code: not modelled)
	rise, run := 0, 0
	if hh, ok := tabs["hhea"]; ok && len(hh) >= 22 {
		rise, run = int(int16(be16(hh[18:]))), int(int16(be16(hh[20:])))
	}
	maxp13 := v.Sx(none)
	if f != nil {
		if o, ok := f.Outlines.(*glyf.Outlines); ok && o.Maxp != nil {
			m := o.Maxp
			maxp13 = v.Ints([]uint16{m.MaxPoints, m.MaxContours, m.MaxCompositePoints, m.MaxCompositeContours, m.MaxZones,
				m.MaxTwilightPoints, m.MaxStorage, m.MaxFunctionDefs, m.MaxInstructionDefs, m.MaxStackElements,
				m.MaxSizeOfInstructions, m.MaxComponentElements, m.MaxComponentDepth})
		}
	} else if t := ft.MaxpTTF(); t != nil {
		maxp13 = v.Ints(t)
	}
	post := v.Sx(v.L(v.Atom("post"), none))
	if pb, ok := tabs["post"]; ok && len(pb) >= 32 {
		post = v.L(v.Atom("post"), v.U64(uint64(be32(pb))), v.Hex(pb[32:]))
	}
	glyfSx := v.Sx(v.L(v.Atom("glyf"), none))
	if gl, ok := tabs["glyf"]; ok {
		if lo, ok := tabs["loca"]; ok {
			var extras v.List
			var fmtv int
			if f != nil {
				o := f.Outlines.(*glyf.Outlines)
				keys := make([]string, 0, len(o.Tables))
				for k := range o.Tables {
					keys = append(keys, k)
				}
				sort.Strings(keys)
				for _, k := range keys {
					extras = append(extras, v.L(v.Hex([]byte(k)), v.Hex(o.Tables[k])))
				}
				fmtv = int(o.Glyphs.Encode().LocaFormat)
			} else {
				for _, k := range []string{"cvt ", "fpgm", "prep", "gasp"} {
					if b, ok := tabs[k]; ok && len(b) > 0 {
						extras = append(extras, v.L(v.Hex([]byte(k)), v.Hex(b)))
					}
				}
				lf, _ := ft.LocaFormat()
				fmtv = int(lf)
			}
			if extras == nil {
				extras = v.List{}
			}
			glyfSx = v.L(v.Atom("glyf"), v.Hex(gl), v.Hex(lo), v.Int(fmtv), extras)
		}
	}
	get := func(tag string) v.Sx { b, ok := tabs[tag]; return optHex(b, ok) }
	return v.L(v.Atom("opq"),
		v.L(v.Atom("boxes"), boxes), v.L(v.Atom("caret"), v.Int(rise), v.Int(run)),
		v.L(v.Atom("maxp13"), maxp13), v.L(v.Atom("range"), rng),
		v.L(v.Atom("cmap"), get("cmap")), v.L(v.Atom("name"), get("name")), post,
		v.L(v.Atom("cff"), get("CFF ")), glyfSx,
		v.L(v.Atom("gdef"), get("GDEF")), v.L(v.Atom("gsub"), get("GSUB")), v.L(v.Atom("gpos"), get("GPOS")),
		v.L(v.Atom("kern"), get("kern")), v.L(v.Atom("dec"), dec)), nil
}

// readObs: what sfnt.Read makes of a file, in the model's syntax: the decoded
// tables (observation form) and the font.
func readObs(w []byte) (string, error) {
	f1, rerr := c01.ReadFont(w)
	switch {
	case c01.IsPanic(rerr):
		return "panic", nil
	case rerr != nil:
		return "err", nil
	}
	ft, err := c01.DecodeTables(w)
	if err != nil {
		return "", fmt.Errorf("%w: %v", errOracleOnly, err)
	}
	tsx, err := ft.TablesSx(true, nil, nil)
	if err != nil {
		return "", fmt.Errorf("%w: %v", errOracleOnly, err)
	}
	fsx, err := c01.FontSx(f1)
	if err != nil {
		return "", fmt.Errorf("%w: %v", errOracleOnly, err)
	}
	return v.Str(v.L(tsx, fsx)), nil
}

// ---------------------------------------------------------------- file cases

func runFile(c *c01.CycleCase) (line, impl string, fails []*c01.Failure, labels []string, err error) {
	head := v.Line(v.Atom("file"), c.T.Sx(), c.S.Sx())
	defer func() {
		if e := recover(); e != nil {
			line, impl, err = "!"+head, "-", nil
			fails = append(fails, c01.NewFailure("harness-panic", fmt.Sprint(e)))
		}
	}()
	f, err := c.Build()
	if err != nil {
		return "", "", nil, nil, err
	}
	// the memory layout of C01's cases (alias.go): the file-level clauses are
	// evaluated on the same kind of caller memory
	var callerMemory [][]byte
	if !strings.HasPrefix(c.T.Name, "go:") {
		f = c01.DeepCopyFont(f)
	}
	if c.T.Seed%4 != 0 {
		ar := c01.Rehome(f, c.T.Seed)
		callerMemory = append(callerMemory, ar.Memory())
		labels = append(labels, "f:memory=shared-array")
	} else {
		labels = append(labels, "f:memory=own-slices")
	}
	labels = append(labels, "f:tpl="+strings.SplitN(c.T.Name, ":", 2)[0], "f:cmap="+c.T.CMap)
	if f.IsCFF() {
		labels = append(labels, "f:outlines=CFF")
	} else {
		labels = append(labels, "f:outlines=glyf")
		o := f.Outlines.(*glyf.Outlines)
		if o.Widths == nil {
			labels = append(labels, "f:no-hmtx")
		}
		if len(o.Tables) > 0 {
			labels = append(labels, fmt.Sprintf("f:pass-through-tables=%d", len(o.Tables)))
		}
	}
	fsx, perr := c01.FontSx(f)
	wctx := c01.WriteContext(f)
	w0, _, vfails := c01.OracleValue(f, callerMemory...)
	fails = append(fails, vfails...)
	if w0 == nil {
		labels = append(labels, "f:write-fails")
		return "!" + head, "-", fails, labels, nil
	}
	fails = append(fails, containerClauses(f, w0)...)
	if perr != nil {
		labels = append(labels, "f:oracle-only(off-grid)")
		return "!" + head, "-", fails, labels, nil
	}
	if len(w0) > maxModelFile {
		labels = append(labels, "f:oracle-only(large-file)")
		return "!" + head, "-", fails, labels, nil
	}
	opq, oerr := opqOf(f, w0)
	if oerr != nil {
		labels = append(labels, "f:oracle-only(opaque)")
		return "!" + head, "-", fails, labels, nil
	}
	obs, err := fileObs(w0)
	if err != nil {
		labels = append(labels, "f:oracle-only(unreadable)")
		return "!" + head, "-", fails, labels, nil
	}
	rd, rerr := readObs(w0)
	if rerr != nil {
		labels = append(labels, "f:oracle-only(read-obs)")
		return "!" + head, "-", fails, labels, nil
	}
	line = head + " " + v.Str(wctx) + " " + v.Str(fsx) + " " + v.Str(opq)
	switch rd {
	case "err", "panic":
		impl = v.Str(append(append(v.List{v.Atom("ok")}, obs...), v.Atom(rd)))
	default:
		// rd = "(TABLES FONT)": splice the two items
		items, perr := v.Parse(rd)
		if perr != nil || len(items) != 1 {
			return "", "", nil, nil, fmt.Errorf("bad read observation")
		}
		l, _ := v.AsList(items[0])
		impl = v.Str(append(append(v.List{v.Atom("ok")}, obs...), l...))
	}
	labels = append(labels, "f:modelled")
	return line, impl, fails, labels, nil
}

// ---------------------------------------------------------------- read cases

type readCase struct {
	Src   c01.Source
	Edits []c01.Edit
}

func (c *readCase) head() string {
	es := make(v.List, len(c.Edits))
	for i, e := range c.Edits {
		es[i] = e.Sx()
	}
	return v.Line(v.Atom("read"), c.Src.Sx(), es)
}

func runRead(c *readCase) (line, impl string, fails []*c01.Failure, labels []string, err error) {
	head := c.head()
	defer func() {
		if e := recover(); e != nil {
			line, impl, err = "!"+head, "-", nil
			fails = append(fails, c01.NewFailure("harness-panic", fmt.Sprint(e)))
		}
	}()
	base, err := c.Src.Bytes()
	if err != nil {
		return "", "", nil, nil, err
	}
	data, err := c01.ApplyEdits(base, c.Edits)
	if err != nil {
		return "", "", nil, nil, err
	}
	labels = append(labels, "r:src="+c.Src.Kind)
	for _, e := range c.Edits {
		labels = append(labels, "r:edit="+e.Kind)
	}
	f0, w0, vfails := c01.OracleBytes(data)
	fails = append(fails, vfails...)
	if f0 != nil {
		labels = append(labels, "r:accepted")
		if w0 != nil {
			fails = append(fails, containerClauses(f0, w0)...)
		}
	} else {
		labels = append(labels, "r:rejected")
	}
	if len(data) > maxModelFile {
		labels = append(labels, "r:oracle-only(large-file)")
		return "!" + head, "-", fails, labels, nil
	}
	opq, oerr := opqOf(nil, data)
	if oerr != nil {
		labels = append(labels, "r:oracle-only(decoder-rejects)")
		return "!" + head, "-", fails, labels, nil
	}
	rd, rerr := readObs(data)
	if rerr != nil {
		labels = append(labels, "r:oracle-only(off-grid)")
		return "!" + head, "-", fails, labels, nil
	}
	switch rd {
	case "err", "panic":
		impl = rd
	default:
		items, _ := v.Parse(rd)
		l, _ := v.AsList(items[0])
		impl = v.Str(append(v.List{v.Atom("ok")}, l...))
	}
	labels = append(labels, "r:modelled")
	return head + " " + v.Str(v.Hex(data)) + " " + v.Str(opq), impl, fails, labels, nil
}

// ---------------------------------------------------------------- RunCase

func RunCase(line string) (impl, fail, sig string, err error) {
	line = strings.TrimPrefix(line, "!")
	items, err := v.Parse(line)
	if err != nil {
		return "", "", "", err
	}
	if len(items) < 3 {
		return "", "", "", errors.New("short case")
	}
	kind, err := v.AsAtom(items[0])
	if err != nil {
		return "", "", "", err
	}
	var fails []*c01.Failure
	var newLine string
	switch kind {
	case "file":
		t, err := c01.ParseTpl(items[1])
		if err != nil {
			return "", "", "", err
		}
		fs, err := c01.ParseFields(items[2])
		if err != nil {
			return "", "", "", err
		}
		newLine, impl, fails, _, err = runFile(&c01.CycleCase{T: t, S: fs})
		if err != nil {
			return "", "", "", err
		}
	case "read":
		src, err := c01.ParseSource(items[1])
		if err != nil {
			return "", "", "", err
		}
		el, err := v.AsList(items[2])
		if err != nil {
			return "", "", "", err
		}
		var edits []c01.Edit
		for _, x := range el {
			e, err := c01.ParseEdit(x)
			if err != nil {
				return "", "", "", err
			}
			edits = append(edits, e)
		}
		newLine, impl, fails, _, err = runRead(&readCase{src, edits})
		if err != nil {
			return "", "", "", err
		}
	default:
		return "", "", "", fmt.Errorf("unknown case kind %q", kind)
	}
	if len(items) > 3 && !strings.HasPrefix(newLine, "!") {
		if strings.TrimSpace(newLine) != strings.TrimSpace(line) {
			impl = "(stale-case-line)"
		}
	}
	if len(fails) > 0 {
		fail, sig = c01.JoinFails(fails)
	}
	return impl, fail, sig, nil
}

// ---------------------------------------------------------------- Gen

var knownStored = map[string]int{}

func record(run *v.Run, line, impl string, fails []*c01.Failure, nontrivial bool, labels []string) {
	if strings.HasPrefix(line, "!") {
		labels = append(labels, "oracle-only")
	} else {
		labels = append(labels, "modelled")
	}
	idx := run.Add(line, impl, nontrivial, labels...)
	if len(fails) > 0 {
		d, s := c01.JoinFails(fails)
		run.Hist["oracle-failure:"+s]++
		if c01.KnownSignature(s) {
			knownStored[s]++
			if knownStored[s] > 5 {
				return
			}
		}
		run.Fail(idx, line, d, s)
	}
}

func Gen(run *v.Run, seed uint64, tier string) {
	run.Rule = "one case = one font value written by Font.Write (file) or one byte string read by sfnt.Read (read); non-trivial = a font with at least 2 glyphs whose case line differs from all others, or a byte string sfnt.Read accepts; distinct by case line"
	r := v.NewRand(seed)
	t0 := time.Now()
	genFiles(run, r.Fork("file"), tier)
	run.Extra["file_wall_s"] = time.Since(t0).Seconds()
	t1 := time.Now()
	genReads(run, r.Fork("read"), tier)
	run.Extra["read_wall_s"] = time.Since(t1).Seconds()
}

func genFiles(run *v.Run, r *v.Rand, tier string) {
	emit := func(t c01.Tpl, mode string, cffFont bool) {
		c := &c01.CycleCase{T: t, S: c01.GenFields(r, mode, cffFont)}
		line, impl, fails, labels, err := runFile(c)
		if err != nil {
			run.Hist["f:template-error"]++
			return
		}
		labels = append(labels, "f:mode="+mode)
		record(run, line, impl, fails, true, labels)
	}
	// boundary: glyf table sizes around the short-loca limits, a font without
	// hmtx data is reached through the templates (nil widths)
	for _, size := range []int{65534, 65536, 131070, 131072, 4096} {
		emit(c01.Tpl{Name: "glyfsize", Seed: uint64(size), CMap: v.Pick(r, []string{"f4", "f12", "nil"}), Layout: "-"}, v.Pick(r, []string{"plain", "canonical"}), false)
	}
	// real fonts as values
	goNames := c01.GoFontNames()
	for i := 0; i < v.Count(tier, 3, 16); i++ {
		emit(c01.Tpl{Name: "go:" + goNames[(i*3)%len(goNames)], Seed: uint64(i + 1), CMap: "own", Layout: "-"}, v.Pick(r, []string{"plain", "canonical", "extreme"}), false)
	}
	n := v.Count(tier, 260, 4000)
	names := []string{"cffmini", "cffmini", "cffcid", "glyfmini", "glyfmini", "glyfmini", "debug"}
	cmaps := []string{"own", "nil", "empty", "f4", "f4", "f4lig", "f12", "multi"}
	layouts := []string{"-", "-", "s", "d", "p", "sdp", "dp"}
	for i := 0; i < n; i++ {
		t := c01.Tpl{Name: v.Pick(r, names), Seed: r.Uint64() % 100000, CMap: v.Pick(r, cmaps), Layout: v.Pick(r, layouts)}
		if t.Name == "debug" || t.Name == "glyfmini" {
			if r.Chance(1, 2) {
				t.CMap = "own"
			}
		} else if t.CMap == "own" {
			t.CMap = "f4"
		}
		if i%3 == 1 {
			// layout tables that are present and (partly) empty: the table set
			// written is a function of presence, not of content
			t.Layout = v.Pick(r, c01.DegenerateLayouts)
			if r.Chance(1, 2) {
				t.CMap = "f4lig"
			}
		}
		if tier == "thorough" && i%500 == 11 {
			t.Name, t.CMap = v.Pick(r, []string{"glyfbig", "cffbig"}), "f12"
		}
		mode := v.Pick(r, []string{"plain", "ascii", "extreme", "extreme", "canonical", "canonical"})
		cffFont := t.Name == "debug" || t.Name == "cffmini" || t.Name == "cffcid" || t.Name == "cffbig"
		emit(t, mode, cffFont)
	}
}

func genReads(run *v.Run, r *v.Rand, tier string) {
	emit := func(c *readCase) {
		line, impl, fails, labels, err := runRead(c)
		if err != nil {
			run.Hist["r:edit-not-applicable"]++
			return
		}
		nontrivial := false
		for _, l := range labels {
			if l == "r:accepted" {
				nontrivial = true
			}
		}
		record(run, line, impl, fails, nontrivial, labels)
	}
	srcs := c01.FileSources()
	// the repository's fuzz corpus and the small test fonts as they are
	for _, s := range srcs {
		if s.Kind != "go" || tier == "thorough" {
			emit(&readCase{Src: s})
		}
	}
	written := func(mode string) c01.Source {
		t := c01.Tpl{Name: v.Pick(r, []string{"cffmini", "cffcid", "glyfmini", "glyfmini"}), Seed: r.Uint64() % 100000,
			CMap: v.Pick(r, []string{"f4", "f4lig", "f12", "nil"}), Layout: v.Pick(r, []string{"-", "-", "s", "dp"})}
		if t.Name == "glyfmini" && r.Chance(1, 2) {
			t.CMap = "own"
		}
		return c01.Source{Kind: "w", C: &c01.CycleCase{T: t, S: c01.GenFields(r, mode, t.Name != "glyfmini")}}
	}
	// tables removed / replaced: the presence logic of sfnt.Read and the real
	// decoders on tables Font.Write would not produce
	optional := []string{"OS/2", "name", "post", "hhea", "hmtx", "maxp", "cmap", "head", "GSUB", "GPOS", "GDEF", "cvt ", "prep"}
	for i := 0; i < v.Count(tier, 120, 2000); i++ {
		src := written(v.Pick(r, []string{"plain", "extreme"}))
		var edits []c01.Edit
		for k := r.Range(1, 3); k > 0; k-- {
			switch r.Intn(8) {
			case 6:
				// header-only GSUB / GPOS
				edits = append(edits, c01.Edit{Kind: "set", Tag: v.Pick(r, []string{"GSUB", "GSUB", "GPOS"}), Data: v.Pick(r, c01.HeaderOnlyLayout)})
			case 7:
				// GDEF without GSUB and GPOS
				edits = append(edits, c01.Edit{Kind: "set", Tag: "GDEF", Data: []byte{0, 1, 0, 0, 0, 0, 0, 0, 0, 0, 0, 0}},
					c01.Edit{Kind: "drop", Tag: "GSUB"}, c01.Edit{Kind: "drop", Tag: "GPOS"})
			case 0, 1:
				edits = append(edits, c01.Edit{Kind: "drop", Tag: v.Pick(r, optional)})
			case 2:
				edits = append(edits, c01.Edit{Kind: "set", Tag: "name", Data: c01.AltNameTable(r)})
			case 3:
				edits = append(edits, c01.Edit{Kind: "set", Tag: "OS/2", Data: c01.AltOS2(r)})
			case 4:
				edits = append(edits, c01.Edit{Kind: "set", Tag: "post", Data: c01.AltPost(r)})
			case 5:
				// a table cut short or emptied: the real decoders on short input
				tag := v.Pick(r, []string{"head", "hhea", "hmtx", "maxp", "OS/2", "post"})
				edits = append(edits, c01.Edit{Kind: "set", Tag: tag, Data: r.Bytes(v.Pick(r, []int{0, 1, 5, 6, 31, 32, 36, 53, 54, 68, 78, 86, 96}))})
			}
		}
		emit(&readCase{Src: src, Edits: edits})
	}
	// byte mutations inside the tables the real decoders read
	for i := 0; i < v.Count(tier, 160, 2500); i++ {
		src := written("plain")
		if r.Chance(1, 6) && len(srcs) > 0 {
			src = srcs[len(srcs)-1-r.Intn(3)%len(srcs)]
		}
		base, err := src.Bytes()
		if err != nil || len(base) == 0 {
			continue
		}
		dir, err := header.Read(bytes.NewReader(base))
		if err != nil {
			continue
		}
		var edits []c01.Edit
		for k := r.Range(1, 3); k > 0; k-- {
			tag := v.Pick(r, []string{"head", "hhea", "OS/2", "post", "maxp", "hmtx", "head", "OS/2"})
			rec, ok := dir.Toc[tag]
			if !ok || rec.Length == 0 {
				continue
			}
			off := int(rec.Offset) + r.Intn(int(rec.Length))
			val := byte(r.Uint64())
			if r.Chance(1, 3) {
				val = v.Pick(r, []byte{0, 1, 0x7F, 0x80, 0xFF})
			}
			edits = append(edits, c01.Edit{Kind: "patch", Off: off, Val: val})
		}
		if r.Chance(1, 5) {
			// the directory itself
			edits = append(edits, c01.Edit{Kind: "patch", Off: r.Intn(12 + 16*len(dir.Toc)), Val: byte(r.Uint64())})
		}
		if r.Chance(1, 15) {
			edits = append(edits, c01.Edit{Kind: "trunc", Off: r.Intn(len(base))})
		}
		if len(edits) == 0 {
			continue
		}
		emit(&readCase{Src: src, Edits: edits})
	}
}
