// Package c14b drives part C14B of property C14: the struct level of
// name.Table (get / set / keys through hooks, fields through reflection),
// the enumeration of name.Info.Encode and its inverse name.Decode through the
// public API, the OpenType tag <-> BCP 47 conversion of opentype/gtab as
// string functions, and the script list over the built-in tags.  It records
// the implementation's observations in the syntax the extracted Coq model
// prints and evaluates the property's oracle: an independent name-table
// reader and an independent script-list reader/writer written from the
// OpenType text, a shadow map for Table, exact round trips.
package c14b

import (
	"errors"
	"fmt"
	"strings"

	"seehuhn.de/go/sfnt/verifharness/vlib"
)

// result of one case
type res struct {
	impl   string   // observation of the implementation (model syntax)
	fail   string   // oracle failure, "" if none
	sig    string   // stable signature of the failure
	nt     bool     // non-trivial by the rule in Gen
	labels []string // histogram labels
}

func (r *res) failf(sig, format string, a ...any) {
	if r.fail == "" {
		r.fail = fmt.Sprintf(format, a...)
		r.sig = sig
	}
}

func (r *res) label(l ...string) { r.labels = append(r.labels, l...) }

// guard runs f and turns a panic into an observation.
func guard(f func()) (panicked bool, msg string) {
	defer func() {
		if e := recover(); e != nil {
			panicked = true
			msg = fmt.Sprint(e)
		}
	}()
	f()
	return
}

// exec runs one case line (without the leading "!" of oracle-only cases).
func exec(line string) (*res, error) {
	items, err := vlib.Parse(strings.TrimPrefix(line, "!"))
	if err != nil {
		return nil, err
	}
	if len(items) == 0 {
		return nil, errors.New("empty case")
	}
	kind, err := vlib.AsAtom(items[0])
	if err != nil {
		return nil, err
	}
	args := items[1:]
	switch kind {
	case "tbl":
		return caseTbl(args)
	case "nenc":
		return caseNenc(args)
	case "ndec":
		return caseNdec(args)
	case "otf":
		return caseOtf(args)
	case "fromext":
		return caseFromExt(args)
	case "plain":
		return casePlain(args)
	case "slplain":
		return caseSlPlain(args)
	case "slenc":
		return caseSlEnc(args)
	case "slread":
		return caseSlRead(args)
	}
	return nil, fmt.Errorf("unknown case kind %q", kind)
}

// RunCase re-executes one case line (corpus entries and replays).
func RunCase(line string) (impl, fail, sig string, err error) {
	r, err := exec(line)
	if err != nil {
		return "", "", "", err
	}
	return r.impl, r.fail, r.sig, nil
}

type gen struct {
	run  *vlib.Run
	tier string
}

func (g *gen) add(line string) {
	r, err := exec(line)
	if err != nil {
		panic("generator produced a bad case line: " + err.Error() + ": " + line[:min(len(line), 300)])
	}
	idx := g.run.Add(line, r.impl, r.nt, r.labels...)
	if r.fail != "" {
		g.run.Fail(idx, line, r.fail, r.sig)
	}
}

// Gen writes the run for the given tier.
func Gen(run *vlib.Run, seed uint64, tier string) {
	run.Rule = "tbl: at least one set followed by get or keys; nenc: at least one record expected; " +
		"ndec: every case; otf/fromext/plain: every case; slplain: at least two keys; slenc: at least two language systems; slread: every case; " +
		"distinct by case line"
	g := &gen{run: run, tier: tier}
	r := vlib.NewRand(seed)
	genTable(g, r.Fork("table"))
	genInfo(g, r.Fork("info"))
	genTags(g, r.Fork("tags"))
	genScriptList(g, r.Fork("scriptlist"))
}

// ---- small helpers ----

func runesSx(rr []rune) vlib.Sx {
	l := make(vlib.List, 0, len(rr))
	for _, c := range rr {
		l = append(l, vlib.Int(int(c)))
	}
	return l
}

func asRunes(x vlib.Sx) ([]rune, error) {
	l, err := vlib.AsList(x)
	if err != nil {
		return nil, err
	}
	var rr []rune
	for _, e := range l {
		if sub, ok := e.(vlib.List); ok {
			if len(sub) != 3 {
				return nil, fmt.Errorf("bad rune run")
			}
			if a, _ := vlib.AsAtom(sub[0]); a != "rep" {
				return nil, fmt.Errorf("bad rune run")
			}
			n, err := vlib.AsInt(sub[1])
			if err != nil || n < 0 || n > 1<<16 {
				return nil, fmt.Errorf("bad rune run length")
			}
			v, err := vlib.AsInt(sub[2])
			if err != nil {
				return nil, err
			}
			for i := 0; i < n; i++ {
				rr = append(rr, rune(v))
			}
			continue
		}
		v, err := vlib.AsInt(e)
		if err != nil {
			return nil, err
		}
		if v < 0 || v > 0x10FFFF || (v >= 0xD800 && v < 0xE000) {
			return nil, fmt.Errorf("U+%X is not a scalar value", v)
		}
		rr = append(rr, rune(v))
	}
	return rr, nil
}

func sizeClass(n int) string {
	for _, b := range []int{0, 1, 2, 4, 8, 16, 64, 256, 1024, 8192} {
		if n <= b {
			return fmt.Sprint(b)
		}
	}
	return "more"
}

// idClass names the class of a name id (the classes of the property's
// quantifier: named field, the field-less id 15, reserved range, font
// specific, the last id).
func idClass(id int) string {
	switch {
	case id == 15:
		return "15"
	case id <= 25:
		return "0..25"
	case id <= 255:
		return "26..255"
	case id == 65535:
		return "65535"
	}
	return "256.."
}
