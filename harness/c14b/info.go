package c14b

import (
	"fmt"
	"sort"
	"strings"

	"golang.org/x/text/encoding/charmap"
	"golang.org/x/text/language"
	"seehuhn.de/go/sfnt/name"
	"seehuhn.de/go/sfnt/verifharness/vlib"
)

// ---- language tables (through the read-only hooks), ascending by language id ----

type langEntry struct {
	id  int
	tag string
}

var macLangs, winLangs []langEntry

func sortedLangs(m map[uint16]string) []langEntry {
	var out []langEntry
	for k, v := range m {
		out = append(out, langEntry{int(k), v})
	}
	sort.Slice(out, func(i, j int) bool { return out[i].id < out[j].id })
	return out
}

// ---- Mac OS Roman as implemented by golang.org/x/text (independent of /repo/mac) ----

var refMacDec [256]rune
var refMacEnc = map[rune]byte{}
var macRunes []rune
var macPool []string

func init() {
	macLangs = sortedLangs(name.VerifC14BAppleBCP())
	winLangs = sortedLangs(name.VerifC14BMsBCP())
	d := charmap.Macintosh.NewDecoder()
	for i := 0; i < 256; i++ {
		out, err := d.Bytes([]byte{byte(i)})
		if err != nil {
			panic(err)
		}
		rr := []rune(string(out))
		if len(rr) != 1 {
			panic("charmap.Macintosh: unexpected decoding")
		}
		refMacDec[i] = rr[0]
		refMacEnc[rr[0]] = byte(i)
		if i >= 0x20 && i != 0x7F {
			macRunes = append(macRunes, rr[0])
		}
	}
	macPool = []string{"Äpfel", "é©™", "ƒ∂", "naïve"}
}

func inMacRepertoire(s string) bool {
	for _, c := range s {
		if _, ok := refMacEnc[c]; !ok {
			return false
		}
	}
	return true
}

func refUTF16Decode(b []byte) (rr []rune, ok bool) {
	if len(b)%2 != 0 {
		return nil, false
	}
	for i := 0; i < len(b); i += 2 {
		u := rune(b[i])<<8 | rune(b[i+1])
		switch {
		case u >= 0xD800 && u < 0xDC00:
			if i+3 >= len(b) {
				return nil, false
			}
			v := rune(b[i+2])<<8 | rune(b[i+3])
			if v < 0xDC00 || v >= 0xE000 {
				return nil, false
			}
			rr = append(rr, 0x10000+(u-0xD800)<<10+(v-0xDC00))
			i += 2
		case u >= 0xDC00 && u < 0xE000:
			return nil, false
		default:
			rr = append(rr, u)
		}
	}
	return rr, true
}

// ---- name.Tables as an ordered list (the case line keeps the order) ----

type tabEntry struct {
	tag string
	t   *name.Table
}

func asTabs(x vlib.Sx) ([]tabEntry, error) {
	l, err := vlib.AsList(x)
	if err != nil {
		return nil, err
	}
	var out []tabEntry
	seen := map[string]bool{}
	for _, e := range l {
		p, err := vlib.AsList(e)
		if err != nil || len(p) != 2 {
			return nil, fmt.Errorf("bad tables entry")
		}
		tag, err := vlib.AsBytes(p[0])
		if err != nil {
			return nil, err
		}
		if seen[string(tag)] {
			return nil, fmt.Errorf("duplicate key")
		}
		seen[string(tag)] = true
		t, err := asTable(p[1])
		if err != nil {
			return nil, err
		}
		out = append(out, tabEntry{string(tag), t})
	}
	return out, nil
}

func tabsSx(tt []tabEntry) vlib.Sx {
	l := vlib.List{}
	for _, e := range tt {
		l = append(l, vlib.L(vlib.Hex([]byte(e.tag)), tableSx(e.t)))
	}
	return l
}

func mkTables(tt []tabEntry) name.Tables {
	m := name.Tables{}
	for _, e := range tt {
		m[e.tag] = copyTable(e.t)
	}
	return m
}

// canonTabs lists decoded tables in the order of first occurrence of their
// key in the language table (keys outside the table, which Decode never
// produces, last and sorted).
func canonTabs(m name.Tables, langs []langEntry) []tabEntry {
	var out []tabEntry
	done := map[string]bool{}
	for _, e := range langs {
		if t, ok := m[e.tag]; ok && !done[e.tag] {
			done[e.tag] = true
			out = append(out, tabEntry{e.tag, t})
		}
	}
	var rest []string
	for k := range m {
		if !done[k] {
			rest = append(rest, k)
		}
	}
	sort.Strings(rest)
	for _, k := range rest {
		out = append(out, tabEntry{k, m[k]})
	}
	return out
}

// ---- independent reader of an encoded name table (OpenType spec, "name" table
// version 0: uint16 version, count, storageOffset; count records of six uint16
// platformID, encodingID, languageID, nameID, length, stringOffset) ----

type rawRec struct {
	plat, enc, lang, id int
	length, off         int
	str                 []byte // clamped to the data
}

type rawView struct {
	version, numRec, storageOffset, total int
	recs                                  []rawRec
}

func be16at(data []byte, p int) int {
	if p+1 < len(data) {
		return int(data[p])<<8 | int(data[p+1])
	}
	return 0
}

func clampSub(data []byte, off, n int) []byte {
	if off > len(data) {
		off = len(data)
	}
	end := off + n
	if end > len(data) {
		end = len(data)
	}
	return data[off:end]
}

func nameView(data []byte) rawView {
	v := rawView{version: be16at(data, 0), numRec: be16at(data, 2), storageOffset: be16at(data, 4), total: len(data)}
	for i := 0; i < v.numRec; i++ {
		p := 6 + 12*i
		if p+12 > len(data) {
			break
		}
		rc := rawRec{plat: be16at(data, p), enc: be16at(data, p+2), lang: be16at(data, p+4), id: be16at(data, p+6),
			length: be16at(data, p+8), off: be16at(data, p+10)}
		rc.str = clampSub(data, v.storageOffset+rc.off, rc.length)
		v.recs = append(v.recs, rc)
	}
	return v
}

func (v rawView) sx() vlib.Sx {
	l := vlib.List{}
	for _, rc := range v.recs {
		l = append(l, vlib.L(vlib.Int(rc.plat), vlib.Int(rc.enc), vlib.Int(rc.lang), vlib.Int(rc.id), vlib.Hex(rc.str)))
	}
	return vlib.L(vlib.Int(v.version), vlib.Int(v.numRec), vlib.Int(v.storageOffset), vlib.Int(v.total), l)
}

type recKey struct{ plat, lang, id int }

// expectedRecords: the triples the property says Encode must write, with
// their strings: for every language id of the platform's table whose string
// is - byte for byte - a key of the caller's map with a non-nil table, every
// name id with a non-empty string.
func expectedRecords(mac, win []tabEntry) map[recKey]string {
	want := map[recKey]string{}
	add := func(plat int, langs []langEntry, tt []tabEntry) {
		byTag := map[string]*name.Table{}
		for _, e := range tt {
			byTag[e.tag] = e.t
		}
		for _, le := range langs {
			t := byTag[le.tag]
			if t == nil {
				continue
			}
			for id, s := range shadowOf(t) {
				want[recKey{plat, le.id, id}] = s
			}
		}
	}
	add(1, macLangs, mac)
	add(3, winLangs, win)
	return want
}

// checkRecords compares the records an independent reader finds in data with
// the expected ones.
func checkRecords(r *res, data []byte, want map[recKey]string, weid int) {
	v := nameView(data)
	if v.version != 0 {
		r.failf("c14b-name-bytes", "version %d", v.version)
		return
	}
	if 6+12*v.numRec > len(data) || len(v.recs) != v.numRec {
		r.failf("c14b-name-bytes", "record array exceeds the table")
		return
	}
	if v.storageOffset != 6+12*v.numRec {
		r.failf("c14b-name-bytes", "storageOffset %d, records end at %d", v.storageOffset, 6+12*v.numRec)
		return
	}
	seen := map[recKey]bool{}
	var prev *rawRec
	for i := range v.recs {
		rc := &v.recs[i]
		if prev != nil {
			a := [4]int{prev.plat, prev.enc, prev.lang, prev.id}
			b := [4]int{rc.plat, rc.enc, rc.lang, rc.id}
			less := false
			for j := 0; j < 4; j++ {
				if a[j] != b[j] {
					less = a[j] < b[j]
					break
				}
			}
			if !less {
				r.failf("c14b-name-bytes", "records %d and %d are not in strictly ascending order", i-1, i)
			}
		}
		prev = rc
		k := recKey{rc.plat, rc.lang, rc.id}
		w, ok := want[k]
		if !ok {
			r.failf("c14b-name-record-unexpected", "unexpected record: platform %d language %d name id %d", rc.plat, rc.lang, rc.id)
			continue
		}
		if seen[k] {
			r.failf("c14b-name-record-unexpected", "record written twice: platform %d language %d name id %d", rc.plat, rc.lang, rc.id)
		}
		seen[k] = true
		if v.storageOffset+rc.off+rc.length > len(data) {
			r.failf("c14b-name-bytes", "record platform %d language %d name id %d points outside the table", rc.plat, rc.lang, rc.id)
			continue
		}
		switch {
		case rc.plat == 1 && rc.enc == 0:
			if !inMacRepertoire(w) {
				continue // outside the property's quantifier
			}
			out, err := charmap.Macintosh.NewDecoder().Bytes(rc.str)
			if err != nil || string(out) != w {
				r.failf("c14b-name-record-string", "platform 1 language %d name id %d: wrote %q, independent reader sees %q", rc.lang, rc.id, w, string(out))
			}
		case rc.plat == 3 && rc.enc == weid:
			rr, ok := refUTF16Decode(rc.str)
			if !ok || string(rr) != w {
				r.failf("c14b-name-record-string", "platform 3 language %d name id %d: wrote %q, independent reader sees %q", rc.lang, rc.id, w, string(rr))
			}
		default:
			r.failf("c14b-name-bytes", "record with platform %d encoding %d", rc.plat, rc.enc)
		}
	}
	var missing []string
	for k := range want {
		if !seen[k] {
			missing = append(missing, fmt.Sprintf("(platform %d, language %d, name id %d)", k.plat, k.lang, k.id))
		}
	}
	if len(missing) > 0 {
		sort.Strings(missing)
		if len(missing) > 4 {
			missing = append(missing[:4], fmt.Sprintf("... %d in all", len(missing)))
		}
		r.failf("c14b-name-record-missing", "no record for %s", strings.Join(missing, ", "))
	}
}

// expectedAfterRoundTrip: what Decode(Encode(info)) must hold per the
// property: for every key that is one of the platform's language strings with
// a table that has at least one name, exactly the names of that table.
func expectedAfterRoundTrip(tt []tabEntry, langs []langEntry) map[string]map[int]string {
	ok := map[string]bool{}
	for _, e := range langs {
		ok[e.tag] = true
	}
	out := map[string]map[int]string{}
	for _, e := range tt {
		if !ok[e.tag] || e.t == nil {
			continue
		}
		if sh := shadowOf(e.t); len(sh) > 0 {
			out[e.tag] = sh
		}
	}
	return out
}

// checkDecoded compares decoded tables with the expected names; the decoded
// tables must be in normal form (Extra: no id with a field, no empty string,
// nil when empty).
func checkDecoded(r *res, plat string, got name.Tables, want map[string]map[int]string, mac bool) {
	for tag, sh := range want {
		t := got[tag]
		if t == nil {
			r.failf("c14b-name-roundtrip", "%s table stored under %q is not found under this string after Encode/Decode (found: %v)", plat, tag, tagList(got))
			continue
		}
		gs := shadowOf(t)
		for id, s := range sh {
			if mac && !inMacRepertoire(s) {
				continue
			}
			if gs[id] != s {
				r.failf("c14b-name-roundtrip", "%s %q name id %d: wrote %q, read %q", plat, tag, id, s, gs[id])
			}
		}
		for id := range gs {
			if _, ok := sh[id]; !ok {
				r.failf("c14b-name-roundtrip", "%s %q: unexpected name id %d after Encode/Decode", plat, tag, id)
			}
		}
	}
	for tag, t := range got {
		if _, ok := want[tag]; !ok {
			r.failf("c14b-name-roundtrip", "unexpected %s table %q after Encode/Decode", plat, tag)
		}
		if t == nil {
			r.failf("c14b-name-decode-normal-form", "%s %q: nil table pointer in a decoded Info", plat, tag)
			continue
		}
		if t.Extra != nil && len(t.Extra) == 0 {
			r.failf("c14b-name-decode-normal-form", "%s %q: decoded Extra is empty but not nil", plat, tag)
		}
		for id, s := range t.Extra {
			if _, named := specField(int(id)); named || s == "" {
				r.failf("c14b-name-decode-normal-form", "%s %q: decoded Extra[%d] = %q", plat, tag, id, s)
			}
		}
	}
}

func tagList(m name.Tables) []string {
	var out []string
	for k := range m {
		out = append(out, k)
	}
	sort.Strings(out)
	return out
}

// ---- case nenc ----

func caseNenc(args []vlib.Sx) (*res, error) {
	if len(args) != 3 {
		return nil, fmt.Errorf("nenc: want 3 arguments")
	}
	weid, err := vlib.AsInt(args[0])
	if err != nil || weid < 0 || weid > 65535 {
		return nil, fmt.Errorf("bad encoding id")
	}
	mac, err := asTabs(args[1])
	if err != nil {
		return nil, err
	}
	win, err := asTabs(args[2])
	if err != nil {
		return nil, err
	}
	r := &res{labels: []string{"kind:nenc"}}
	info := &name.Info{Mac: mkTables(mac), Windows: mkTables(win)}
	var data []byte
	if p, msg := guard(func() { data = info.Encode(uint16(weid)) }); p {
		r.impl = "panic"
		r.failf("c14b-name-encode-panic", "name.Info.Encode panics: %s", msg)
		return r, nil
	}
	want := expectedRecords(mac, win)
	r.nt = len(want) > 0
	// labels: platforms, id classes, table styles
	macSupported := map[string]bool{}
	for _, e := range macLangs {
		macSupported[e.tag] = true
	}
	winSupported := map[string]bool{}
	for _, e := range winLangs {
		winSupported[e.tag] = true
	}
	representable := true
	for _, pl := range []struct {
		name string
		tt   []tabEntry
		sup  map[string]bool
	}{{"mac", mac, macSupported}, {"win", win, winSupported}} {
		r.label(fmt.Sprintf("nenc:%s-tables=%s", pl.name, sizeClass(len(pl.tt))))
		for _, e := range pl.tt {
			if !pl.sup[e.tag] {
				r.label("nenc:unsupported-key")
			}
			switch {
			case e.t == nil:
				r.label("nenc:nil-table")
			case len(shadowOf(e.t)) == 0:
				r.label("nenc:table-without-names")
			}
			if extraCollides(e.t) {
				r.label("nenc:extra-collides")
			}
			for id, s := range shadowOf(e.t) {
				r.label("nenc:id=" + idClass(id))
				if pl.name == "mac" && !inMacRepertoire(s) {
					representable = false
				}
			}
		}
	}
	if !representable {
		r.label("nenc:mac-string-outside-macroman")
	}
	if weid != 1 {
		r.label("nenc:weid!=1")
	}
	r.label("nenc:records<=" + sizeClass(len(want)))
	// oracle 1: the records an independent reader finds are exactly the expected ones
	checkRecords(r, data, want, weid)
	// oracle 2: Decode(Encode(info))
	var back *name.Info
	var derr error
	if p, msg := guard(func() { back, derr = name.Decode(data) }); p {
		r.impl = "panic"
		r.failf("c14b-name-decode-panic", "name.Decode panics on Encode's output: %s", msg)
		return r, nil
	}
	view := nameView(data).sx()
	if derr != nil {
		r.impl = vlib.Str(vlib.L(view, vlib.Atom("err")))
		r.failf("c14b-name-roundtrip", "name.Decode rejects Encode's output: %v", derr)
		return r, nil
	}
	r.impl = vlib.Str(vlib.L(view, tabsSx(canonTabs(back.Mac, macLangs)), tabsSx(canonTabs(back.Windows, winLangs))))
	checkDecoded(r, "Macintosh", back.Mac, expectedAfterRoundTrip(mac, macLangs), true)
	wantWin := expectedAfterRoundTrip(win, winLangs)
	if weid != 1 {
		wantWin = map[string]map[int]string{} // Decode understands Windows encoding id 1 only
	}
	checkDecoded(r, "Windows", back.Windows, wantWin, false)
	// the caller's Info is not modified by Encode
	for _, pl := range []struct {
		tt []tabEntry
		m  name.Tables
	}{{mac, info.Mac}, {win, info.Windows}} {
		if len(pl.m) != len(pl.tt) {
			r.failf("c14b-name-encode-modifies-input", "Encode changed the number of tables of the caller's Info")
		}
		for _, e := range pl.tt {
			if vlib.Str(tableSx(pl.m[e.tag])) != vlib.Str(tableSx(e.t)) {
				r.failf("c14b-name-encode-modifies-input", "Encode changed the caller's table %q", e.tag)
			}
		}
	}
	return r, nil
}

// ---- case ndec ----

func caseNdec(args []vlib.Sx) (*res, error) {
	if len(args) != 1 {
		return nil, fmt.Errorf("ndec: want 1 argument")
	}
	data, err := vlib.AsBytes(args[0])
	if err != nil {
		return nil, err
	}
	r := &res{labels: []string{"kind:ndec"}, nt: true}
	var info *name.Info
	var derr error
	if p, msg := guard(func() { info, derr = name.Decode(data) }); p {
		r.impl = "panic"
		r.failf("c14b-name-decode-panic", "name.Decode panics: %s", msg)
		return r, nil
	}
	if derr != nil {
		r.impl = "err"
		r.label("ndec:err")
		return r, nil
	}
	r.impl = vlib.Str(vlib.L(vlib.Atom("ok"), tabsSx(canonTabs(info.Mac, macLangs)), tabsSx(canonTabs(info.Windows, winLangs))))
	r.label("ndec:ok", "ndec:tables<="+sizeClass(len(info.Mac)+len(info.Windows)))
	// decoded tables are in normal form and survive Encode/Decode unchanged
	asEntries := func(m name.Tables, langs []langEntry) []tabEntry { return canonTabs(m, langs) }
	mac, win := asEntries(info.Mac, macLangs), asEntries(info.Windows, winLangs)
	checkDecoded(r, "Macintosh", info.Mac, expectedAfterRoundTrip(mac, macLangs), true)
	checkDecoded(r, "Windows", info.Windows, expectedAfterRoundTrip(win, winLangs), false)
	if len(expectedRecords(mac, win)) <= 5000 {
		var back *name.Info
		if p, msg := guard(func() { back, derr = name.Decode(info.Encode(1)) }); p {
			r.failf("c14b-name-decode-panic", "re-encoding/decoding panics: %s", msg)
		} else if derr != nil {
			r.failf("c14b-name-roundtrip", "re-encoded table rejected: %v", derr)
		} else {
			checkDecoded(r, "Macintosh", back.Mac, expectedAfterRoundTrip(mac, macLangs), true)
			checkDecoded(r, "Windows", back.Windows, expectedAfterRoundTrip(win, winLangs), false)
		}
	}
	return r, nil
}

// ---- generators ----

func nencLine(weid int, mac, win []tabEntry) string {
	return vlib.Line(vlib.Atom("nenc"), vlib.Int(weid), tabsSx(mac), tabsSx(win))
}

// sampleTable: a field, the field-less id 15 or an id of the reserved range,
// and an id above 255, varying with k.
func sampleTable(k int, mac bool) *name.Table {
	t := &name.Table{Family: fmt.Sprintf("Fam%d", k)}
	if k%3 == 0 {
		t.PostScriptName = "PS"
	}
	s := "é"
	if !mac {
		s = "日"
	}
	t.Extra = map[name.ID]string{
		name.ID([]int{15, 26, 100, 255}[k%4]):        s,
		name.ID([]int{256, 300, 32768, 65535}[k/4%4]): "x",
	}
	return t
}

// keyVariants: other spellings of a language string that name the same
// language for x/text (canonical form, lower case, upper case, underscore):
// Encode compares keys byte by byte, so these are unsupported keys.
func keyVariants(tag string) []string {
	var out []string
	add := func(s string) {
		if s == tag {
			return
		}
		for _, o := range out {
			if o == s {
				return
			}
		}
		out = append(out, s)
	}
	if t, err := language.Parse(tag); err == nil {
		add(t.String())
	}
	add(strings.ToLower(tag))
	add(strings.ToUpper(tag))
	add(strings.ReplaceAll(tag, "-", "_"))
	return out
}

func genInfo(g *gen, r *vlib.Rand) {
	supported := map[string]map[string]bool{"mac": {}, "win": {}}
	for _, e := range macLangs {
		supported["mac"][e.tag] = true
	}
	for _, e := range winLangs {
		supported["win"][e.tag] = true
	}
	var encoded [][]byte
	keep := func(mac, win []tabEntry) {
		info := &name.Info{Mac: mkTables(mac), Windows: mkTables(win)}
		encoded = append(encoded, info.Encode(1))
	}
	g.add(nencLine(1, nil, nil))
	// every supported language of both platforms on its own; next to it the
	// other spellings of its key (which must not be written)
	aliased := 0
	for k, e := range macLangs {
		mac := []tabEntry{{e.tag, sampleTable(k, true)}}
		g.add(nencLine(1, mac, nil))
		var vs []tabEntry
		for _, v := range keyVariants(e.tag) {
			if !supported["mac"][v] {
				vs = append(vs, tabEntry{v, sampleTable(k+1, true)})
			}
		}
		if len(vs) > 0 {
			if t, err := language.Parse(e.tag); err == nil && t.String() != e.tag {
				aliased++
			}
			g.add(nencLine(1, append(vs, mac...), nil))
		}
	}
	for k, e := range winLangs {
		win := []tabEntry{{e.tag, sampleTable(k, false)}}
		g.add(nencLine(1, nil, win))
		var vs []tabEntry
		for _, v := range keyVariants(e.tag) {
			if !supported["win"][v] {
				vs = append(vs, tabEntry{v, sampleTable(k+1, false)})
			}
		}
		if len(vs) > 0 && (k%4 == 0 || g.tier == "thorough") {
			g.add(nencLine(1, nil, append(vs, win...)))
		}
	}
	g.run.Extra["name_languages_mac"] = len(macLangs)
	g.run.Extra["name_languages_win"] = len(winLangs)
	g.run.Extra["mac_keys_rewritten_by_xtext"] = aliased
	// all languages at once
	{
		var mac, win []tabEntry
		for k, e := range macLangs {
			mac = append(mac, tabEntry{e.tag, sampleTable(k, true)})
		}
		for k, e := range winLangs {
			win = append(win, tabEntry{e.tag, sampleTable(k, false)})
		}
		g.add(nencLine(1, mac, win))
		keep(mac, win)
	}
	// a Macintosh key in the Windows map and the other way round
	g.add(nencLine(1, []tabEntry{{"en-US", sampleTable(1, true)}, {"en", sampleTable(2, true)}},
		[]tabEntry{{"en", sampleTable(3, false)}, {"mo", sampleTable(4, false)}, {"en-US", sampleTable(5, false)}}))
	// every boundary id on its own, on both platforms; all together
	for _, id := range boundaryIDs {
		t := &name.Table{}
		name.VerifC14BSet(t, name.ID(id), "v")
		g.add(nencLine(1, []tabEntry{{"en", t}}, []tabEntry{{"en-US", t}}))
	}
	{
		t := &name.Table{}
		for _, id := range boundaryIDs {
			name.VerifC14BSet(t, name.ID(id), fmt.Sprintf("id%d", id))
		}
		g.add(nencLine(1, []tabEntry{{"mo", t}}, []tabEntry{{"sr-Cyrl-CS", t}}))
		keep([]tabEntry{{"mo", t}}, []tabEntry{{"sr-Cyrl-CS", t}})
	}
	// every name id 0..300 in one table
	{
		t := &name.Table{}
		for id := 0; id <= 300; id++ {
			name.VerifC14BSet(t, name.ID(id), "s")
		}
		g.add(nencLine(1, nil, []tabEntry{{"de-DE", t}}))
	}
	// nil pointers, tables without names, Extra non-nil and empty, only empty strings
	g.add(nencLine(1, []tabEntry{{"en", nil}, {"de", &name.Table{}}, {"fr", sampleTable(0, true)}},
		[]tabEntry{{"en-US", &name.Table{Extra: map[name.ID]string{}}}, {"de-DE", &name.Table{Extra: map[name.ID]string{26: "", 300: ""}}}, {"fr-FR", nil}}))
	// Extra entries under ids that have a field of their own
	for _, id := range []int{0, 1, 14, 16, 25} {
		a := &name.Table{Extra: map[name.ID]string{name.ID(id): "shadowed"}}
		b := &name.Table{Subfamily: "B", Extra: map[name.ID]string{name.ID(id): "shadowed", 300: "x"}}
		name.VerifC14BSet(b, name.ID(id), "field")
		g.add(nencLine(1, []tabEntry{{"en", a}, {"de", b}}, []tabEntry{{"en-US", b}, {"de-DE", a}}))
	}
	// Macintosh strings outside Mac Roman (outside the quantifier: observed, compared with the model)
	g.add(nencLine(1, []tabEntry{{"ja", &name.Table{Family: "日本A", Extra: map[name.ID]string{300: "ok"}}}}, nil))
	// other Windows encoding ids
	for _, weid := range []int{0, 3, 10, 65535} {
		g.add(nencLine(weid, []tabEntry{{"de", sampleTable(1, true)}}, []tabEntry{{"de-DE", sampleTable(2, false)}}))
	}
	// random infos
	macTags, winTags := []string{}, []string{}
	for _, e := range macLangs {
		macTags = append(macTags, e.tag)
	}
	for _, e := range winLangs {
		winTags = append(winTags, e.tag)
	}
	junk := []string{"", "x", "en-us", "EN", "ro-MD", "zh", "und", "en_US", "de-DE-1996", "tlh"}
	n := vlib.Count(g.tier, 500, 12000)
	for i := 0; i < n; i++ {
		build := func(tags []string, mac bool) []tabEntry {
			var out []tabEntry
			seen := map[string]bool{}
			k := r.Intn(4)
			if r.Chance(1, 4) {
				k = r.Intn(2)
			}
			for ; k > 0; k-- {
				tag := vlib.Pick(r, tags)
				if r.Chance(1, 8) {
					tag = vlib.Pick(r, junk)
				}
				if seen[tag] {
					continue
				}
				seen[tag] = true
				var t *name.Table
				if !r.Chance(1, 12) {
					t = randTable(r, mac, r.Intn(5))
				}
				out = append(out, tabEntry{tag, t})
			}
			return out
		}
		mac, win := build(macTags, true), build(winTags, false)
		g.add(nencLine(1, mac, win))
		if len(encoded) < 200 || r.Chance(1, 10) {
			keep(mac, win)
		}
	}
	// decoder: encoded tables and their mutations; hand-assembled records with
	// duplicate (platform, language, name id), unknown platforms and language
	// ids, every id class
	for _, b := range encoded {
		if len(b) <= 6000 {
			g.add(vlib.Line(vlib.Atom("ndec"), vlib.Hex(b)))
		}
	}
	type rawNameRec struct {
		plat, enc, lang, id int
		str                 []byte
	}
	buildRaw := func(recs []rawNameRec) []byte {
		var storage, out []byte
		so := 6 + 12*len(recs)
		out = append(out, 0, 0, byte(len(recs)>>8), byte(len(recs)), byte(so>>8), byte(so))
		for _, rc := range recs {
			off := len(storage)
			storage = append(storage, rc.str...)
			out = append(out, byte(rc.plat>>8), byte(rc.plat), byte(rc.enc>>8), byte(rc.enc), byte(rc.lang>>8), byte(rc.lang),
				byte(rc.id>>8), byte(rc.id), byte(len(rc.str)>>8), byte(len(rc.str)), byte(off>>8), byte(off))
		}
		return append(out, storage...)
	}
	m := vlib.Count(g.tier, 300, 6000)
	for i := 0; i < m; i++ {
		var recs []rawNameRec
		for k := r.Range(1, 8); k > 0; k-- {
			rc := rawNameRec{plat: vlib.Pick(r, []int{0, 1, 1, 1, 2, 3, 3, 3, 4}), id: randID(r)}
			switch rc.plat {
			case 1:
				rc.enc = vlib.Pick(r, []int{0, 0, 0, 1})
				rc.lang = vlib.Pick(r, []int{0, 53, 150, 151, 65535, vlib.Pick(r, macLangs).id, vlib.Pick(r, macLangs).id})
				rc.str = []byte(vlib.Pick(r, []string{"Name", "\x8a", "", "A"}))
			default:
				rc.enc = vlib.Pick(r, []int{1, 1, 1, 0, 10})
				rc.lang = vlib.Pick(r, []int{0x409, 0x40A, 0xC0A, 0x7FFF, vlib.Pick(r, winLangs).id, vlib.Pick(r, winLangs).id})
				rc.str = vlib.Pick(r, [][]byte{{0, 'N'}, {0x65, 0xE5}, {}, {0xD8, 0x3D, 0xDE, 0x00}, {0, 'A', 0, 'B'}})
			}
			recs = append(recs, rc)
			if r.Chance(1, 4) { // the same (platform, language, id) again with another string: the later record wins
				dup := rc
				dup.str = append([]byte(nil), rc.str...)
				if dup.plat == 1 {
					dup.str = []byte("Dup")
				} else {
					dup.str = []byte{0, 'D'}
				}
				recs = append(recs, dup)
			}
		}
		g.add(vlib.Line(vlib.Atom("ndec"), vlib.Hex(buildRaw(recs))))
	}
	k := vlib.Count(g.tier, 300, 8000)
	for i := 0; i < k && len(encoded) > 0; i++ {
		b := append([]byte(nil), vlib.Pick(r, encoded)...)
		if len(b) > 3000 || len(b) == 0 {
			continue
		}
		switch r.Intn(4) {
		case 0:
			b = b[:r.Intn(len(b)+1)]
		case 1:
			b[r.Intn(len(b))] ^= byte(1 << r.Intn(8))
		case 2: // name id of a record
			if len(b) >= 18 {
				nrec := (len(b) - 6) / 12
				if nrec > be16at(b, 2) {
					nrec = be16at(b, 2)
				}
				if nrec > 0 {
					p := 6 + 12*r.Intn(nrec) + 6
					v := randID(r)
					b[p], b[p+1] = byte(v>>8), byte(v)
				}
			}
		default: // language id of a record
			if len(b) >= 18 {
				nrec := (len(b) - 6) / 12
				if nrec > be16at(b, 2) {
					nrec = be16at(b, 2)
				}
				if nrec > 0 {
					p := 6 + 12*r.Intn(nrec) + 4
					v := vlib.Pick(r, []int{0, 53, 0x409, 0x40A, 65535, r.Intn(200)})
					b[p], b[p+1] = byte(v>>8), byte(v)
				}
			}
		}
		g.add(vlib.Line(vlib.Atom("ndec"), vlib.Hex(b)))
	}
}
