package main

import (
	"seehuhn.de/go/sfnt/verifharness/c14b"
	"seehuhn.de/go/sfnt/verifharness/vlib"
)

func main() { vlib.Main(c14b.Gen, c14b.RunCase) }
