package c14b

import (
	"fmt"
	"sort"

	"golang.org/x/text/language"
	"seehuhn.de/go/sfnt/opentype/gtab"
	"seehuhn.de/go/sfnt/verifharness/vlib"
)

// one language system of a script list: OpenType script and language tag
// (language "" = default language system), required feature, optional features
type slItem struct {
	script, lang string
	req          int
	opts         []int
}

func (a slItem) key() string { return a.script + "/" + a.lang }

func (a slItem) sameFeatures(b slItem) bool {
	return a.req == b.req && fmt.Sprint(a.opts) == fmt.Sprint(b.opts)
}

func itemsSx(items []slItem) vlib.Sx {
	l := vlib.List{}
	for _, it := range items {
		l = append(l, vlib.L(vlib.Hex([]byte(it.script)), vlib.Hex([]byte(it.lang)), vlib.Int(it.req), vlib.Ints(it.opts)))
	}
	return l
}

func asItems(x vlib.Sx) ([]slItem, error) {
	l, err := vlib.AsList(x)
	if err != nil {
		return nil, err
	}
	var out []slItem
	for _, e := range l {
		p, err := vlib.AsList(e)
		if err != nil || len(p) != 4 {
			return nil, fmt.Errorf("bad item")
		}
		s, err := vlib.AsBytes(p[0])
		if err != nil {
			return nil, err
		}
		la, err := vlib.AsBytes(p[1])
		if err != nil {
			return nil, err
		}
		req, err := vlib.AsInt(p[2])
		if err != nil || req < 0 || req > 65535 {
			return nil, fmt.Errorf("bad required feature")
		}
		opts, err := vlib.AsInts(p[3])
		if err != nil {
			return nil, err
		}
		for _, o := range opts {
			if o < 0 || o > 65534 {
				return nil, fmt.Errorf("bad feature index")
			}
		}
		out = append(out, slItem{string(s), string(la), req, opts})
	}
	return out, nil
}

func sortItems(items []slItem) {
	sort.Slice(items, func(i, j int) bool {
		if items[i].script != items[j].script {
			return items[i].script < items[j].script
		}
		return items[i].lang < items[j].lang
	})
}

// canonInfo lists a ScriptListInfo by (script, language) as bcp47ToOtf names
// its keys.
func canonInfo(info gtab.ScriptListInfo) ([]slItem, error) {
	var out []slItem
	for tag, ff := range info {
		s, l, err := gtab.VerifC14BBCP47ToOtf(tag)
		if err != nil {
			return nil, fmt.Errorf("bcp47ToOtf(%v): %v", tag, err)
		}
		it := slItem{script: s, lang: l}
		if ff != nil {
			it.req = int(ff.Required)
			for _, o := range ff.Optional {
				it.opts = append(it.opts, int(o))
			}
		}
		out = append(out, it)
	}
	sortItems(out)
	return out, nil
}

// ---- independent script list writer / reader (OpenType spec, chapter 2:
// ScriptList = scriptCount, ScriptRecord[tag, offset]; Script = defaultLangSys
// offset, langSysCount, LangSysRecord[tag, offset]; LangSys = lookupOrder(0),
// requiredFeatureIndex, featureIndexCount, featureIndices) ----

type rawLangSys struct {
	tag  string // "" for the default language system
	req  int
	opts []int
}
type rawScript struct {
	tag   string
	langs []rawLangSys // in the order written; at most one with tag ""
}

func u16(b []byte, v int) []byte { return append(b, byte(v>>8), byte(v)) }

func pad4(s string) string {
	for len(s) < 4 {
		s += " "
	}
	return s[:4]
}

// buildScriptList lays the tables out one after the other; share makes the
// default language system and the first language record of each script use
// the same LangSys table when their content is equal.
func buildScriptList(scripts []rawScript, share bool) []byte {
	var tabs [][]byte
	for _, sc := range scripts {
		var def *rawLangSys
		var recs []rawLangSys
		for i := range sc.langs {
			if sc.langs[i].tag == "" {
				def = &sc.langs[i]
			} else {
				recs = append(recs, sc.langs[i])
			}
		}
		lsBytes := func(ls rawLangSys) []byte {
			b := u16(nil, 0)
			b = u16(b, ls.req)
			b = u16(b, len(ls.opts))
			for _, o := range ls.opts {
				b = u16(b, o)
			}
			return b
		}
		hdr := 4 + 6*len(recs)
		var body []byte
		defOff := 0
		if def != nil {
			defOff = hdr
			body = append(body, lsBytes(*def)...)
		}
		var t []byte
		var offs []int
		for i, rc := range recs {
			if share && i == 0 && def != nil && def.req == rc.req && fmt.Sprint(def.opts) == fmt.Sprint(rc.opts) {
				offs = append(offs, defOff)
				continue
			}
			offs = append(offs, hdr+len(body))
			body = append(body, lsBytes(rc)...)
		}
		t = u16(t, defOff)
		t = u16(t, len(recs))
		for i, rc := range recs {
			t = append(t, []byte(pad4(rc.tag))...)
			t = u16(t, offs[i])
		}
		tabs = append(tabs, append(t, body...))
	}
	out := u16(nil, len(scripts))
	off := 2 + 6*len(scripts)
	for i, sc := range scripts {
		out = append(out, []byte(pad4(sc.tag))...)
		out = u16(out, off)
		off += len(tabs[i])
	}
	for _, t := range tabs {
		out = append(out, t...)
	}
	return out
}

// parseScriptList reads a well-formed script list; ok is false when anything
// points outside the data.
func parseScriptList(data []byte) (items []slItem, ok bool) {
	rd := func(p int) (int, bool) {
		if p < 0 || p+2 > len(data) {
			return 0, false
		}
		return int(data[p])<<8 | int(data[p+1]), true
	}
	tagAt := func(p int) (string, bool) {
		if p < 0 || p+4 > len(data) {
			return "", false
		}
		return string(data[p : p+4]), true
	}
	langSys := func(p int) (int, []int, bool) {
		lo, ok1 := rd(p)
		req, ok2 := rd(p + 2)
		cnt, ok3 := rd(p + 4)
		if !ok1 || !ok2 || !ok3 || lo != 0 {
			return 0, nil, false
		}
		var opts []int
		for i := 0; i < cnt; i++ {
			v, ok := rd(p + 6 + 2*i)
			if !ok {
				return 0, nil, false
			}
			opts = append(opts, v)
		}
		return req, opts, true
	}
	n, ok0 := rd(0)
	if !ok0 {
		return nil, false
	}
	for i := 0; i < n; i++ {
		st, ok1 := tagAt(2 + 6*i)
		so, ok2 := rd(2 + 6*i + 4)
		if !ok1 || !ok2 {
			return nil, false
		}
		defOff, ok3 := rd(so)
		cnt, ok4 := rd(so + 2)
		if !ok3 || !ok4 {
			return nil, false
		}
		if defOff != 0 {
			req, opts, ok := langSys(so + defOff)
			if !ok {
				return nil, false
			}
			items = append(items, slItem{st, "", req, opts})
		}
		for j := 0; j < cnt; j++ {
			lt, ok1 := tagAt(so + 4 + 6*j)
			lo, ok2 := rd(so + 4 + 6*j + 4)
			if !ok1 || !ok2 {
				return nil, false
			}
			req, opts, ok := langSys(so + lo)
			if !ok {
				return nil, false
			}
			items = append(items, slItem{st, lt, req, opts})
		}
	}
	return items, true
}

// ---- case slenc ----

func caseSlEnc(args []vlib.Sx) (*res, error) {
	if len(args) != 1 {
		return nil, fmt.Errorf("slenc: want 1 argument")
	}
	items, err := asItems(args[0])
	if err != nil {
		return nil, err
	}
	r := &res{labels: []string{"kind:slenc"}, nt: len(items) >= 2}
	seen := map[string]bool{}
	for _, it := range items {
		if !convertible(it.script, it.lang) {
			return nil, fmt.Errorf("slenc: (%q, %q) is not a pair of the built-in tables", it.script, it.lang)
		}
		if seen[it.key()] {
			return nil, fmt.Errorf("slenc: pair twice")
		}
		seen[it.key()] = true
	}
	// the ScriptListInfo as a caller builds it: keys from otfToBCP47; language
	// systems with equal content share one *Features value every other time
	info := gtab.ScriptListInfo{}
	sharedFF := map[string]*gtab.Features{}
	defaults := map[string]slItem{}
	for _, it := range items {
		if it.lang == "" {
			defaults[it.script] = it
		}
	}
	equalsDefault := 0
	for i, it := range items {
		tag, terr := gtab.VerifC14BOtfToBCP47(it.script, it.lang)
		if terr != nil {
			r.impl = "err"
			r.failf("c14b-otf-tag-roundtrip", "otfToBCP47(%q, %q) fails: %v", it.script, it.lang, terr)
			return r, nil
		}
		if _, dup := info[tag]; dup {
			r.impl = "err"
			r.failf("c14b-otf-tag-roundtrip", "(%q, %q): the BCP 47 tag %v also stands for another pair", it.script, it.lang, tag)
			return r, nil
		}
		ff := &gtab.Features{Required: gtab.FeatureIndex(it.req)}
		for _, o := range it.opts {
			ff.Optional = append(ff.Optional, gtab.FeatureIndex(o))
		}
		k := fmt.Sprint(it.req, it.opts)
		if i%2 == 0 {
			if old, ok := sharedFF[k]; ok {
				ff = old
			} else {
				sharedFF[k] = ff
			}
		}
		info[tag] = ff
		if d, ok := defaults[it.script]; ok && it.lang != "" && d.sameFeatures(it) {
			equalsDefault++
		}
		r.label("slenc:script-"+padClass(it.script))
		if it.lang != "" {
			r.label("slenc:lang-" + padClass(it.lang))
		}
	}
	r.label("slenc:items<="+sizeClass(len(items)), fmt.Sprintf("slenc:equal-to-default=%s", sizeClass(equalsDefault)))
	var data []byte
	if p, msg := guard(func() { data = gtab.VerifC14BEncodeScriptList(info) }); p {
		r.impl = "panic"
		r.label("slenc:panic")
		if len(items) < 1000 {
			r.failf("c14b-scriptlist-panic", "ScriptListInfo.encode panics: %s", msg)
		}
		return r, nil
	}
	want := append([]slItem(nil), items...)
	sortItems(want)
	// oracle 1: an independent reader finds exactly the language systems in the bytes
	if got, ok := parseScriptList(data); !ok {
		r.failf("c14b-scriptlist-bytes", "independent reader: the encoded script list is malformed")
	} else {
		sortItems(got)
		if d := diffItems(want, got); d != "" {
			r.failf("c14b-scriptlist-bytes", "independent reader of the encoded script list: %s", d)
		}
	}
	// oracle 2: readScriptList returns every language system under its tag
	var back gtab.ScriptListInfo
	var rerr error
	if p, msg := guard(func() { back, rerr = gtab.VerifC14BReadScriptList(data) }); p {
		r.impl = "panic"
		r.failf("c14b-scriptlist-panic", "readScriptList panics on encode's output: %s", msg)
		return r, nil
	}
	if rerr != nil {
		r.impl = vlib.Str(vlib.L(vlib.Atom("ok"), vlib.Hex(data), vlib.Atom("err")))
		r.failf("c14b-scriptlist-tag-lost", "readScriptList rejects encode's output: %v", rerr)
		return r, nil
	}
	got, cerr := canonInfo(back)
	if cerr != nil {
		r.impl = vlib.Str(vlib.L(vlib.Atom("ok"), vlib.Hex(data), vlib.Atom("err")))
		r.failf("c14b-scriptlist-tag-lost", "%v", cerr)
		return r, nil
	}
	r.impl = vlib.Str(vlib.L(vlib.Atom("ok"), vlib.Hex(data), itemsSx(got)))
	if d := diffItems(want, got); d != "" {
		r.failf("c14b-scriptlist-tag-lost", "encode / readScriptList: %s", d)
	}
	for tag := range info {
		if _, ok := back[tag]; !ok {
			r.failf("c14b-scriptlist-tag-lost", "the key %v is not a key of the script list read back", tag)
			break
		}
	}
	return r, nil
}

func diffItems(want, got []slItem) string {
	wm := map[string]slItem{}
	for _, it := range want {
		wm[it.key()] = it
	}
	gm := map[string]slItem{}
	for _, it := range got {
		gm[it.key()] = it
	}
	for _, it := range want {
		g, ok := gm[it.key()]
		if !ok {
			return fmt.Sprintf("language system (%q, %q) is lost (%d written, %d found)", it.script, it.lang, len(want), len(got))
		}
		if !g.sameFeatures(it) {
			return fmt.Sprintf("language system (%q, %q): wrote required %d optional %v, found required %d optional %v", it.script, it.lang, it.req, it.opts, g.req, g.opts)
		}
	}
	for _, it := range got {
		if _, ok := wm[it.key()]; !ok {
			return fmt.Sprintf("unexpected language system (%q, %q)", it.script, it.lang)
		}
	}
	return ""
}

// ---- case slread ----

func caseSlRead(args []vlib.Sx) (*res, error) {
	if len(args) != 1 {
		return nil, fmt.Errorf("slread: want 1 argument")
	}
	data, err := vlib.AsBytes(args[0])
	if err != nil {
		return nil, err
	}
	r := &res{labels: []string{"kind:slread"}, nt: true}
	var info gtab.ScriptListInfo
	var rerr error
	if p, msg := guard(func() { info, rerr = gtab.VerifC14BReadScriptList(data) }); p {
		r.impl = "panic"
		r.failf("c14b-scriptlist-panic", "readScriptList panics: %s", msg)
		return r, nil
	}
	if rerr != nil {
		r.impl = "err"
		r.label("slread:err")
		return r, nil
	}
	got, cerr := canonInfo(info)
	if cerr != nil {
		r.impl = "(ok err)"
		r.failf("c14b-scriptlist-tag-lost", "%v", cerr)
		return r, nil
	}
	r.impl = vlib.Str(vlib.L(vlib.Atom("ok"), itemsSx(got)))
	r.label("slread:ok", "slread:items<="+sizeClass(len(got)))
	// oracle: of the language systems an independent reader finds, those whose
	// tags are built-in are exactly the keys of the result; no other key
	if raw, ok := parseScriptList(data); ok {
		wantKeys := map[string]bool{}
		dup := false
		skipped := 0
		for _, it := range raw {
			if !convertible(it.script, it.lang) {
				skipped++
				continue
			}
			if wantKeys[it.key()] {
				dup = true
			}
			wantKeys[it.key()] = true
		}
		if skipped > 0 {
			r.label("slread:tags-not-built-in")
		}
		gotKeys := map[string]slItem{}
		for _, it := range got {
			gotKeys[it.key()] = it
		}
		for k := range wantKeys {
			if _, ok := gotKeys[k]; !ok {
				r.failf("c14b-scriptlist-tag-lost", "language system %q of the bytes (built-in tags) is not in the script list read", k)
			}
		}
		for k := range gotKeys {
			if !wantKeys[k] {
				r.failf("c14b-scriptlist-read-tags", "the script list read has the key %q which the bytes do not hold", k)
			}
		}
		if !dup {
			for _, it := range raw {
				if g, ok := gotKeys[it.key()]; ok && convertible(it.script, it.lang) {
					// the reader leaves 0 where a feature index is 0xFFFF
					w := it
					w.opts = append([]int(nil), it.opts...)
					for i, o := range w.opts {
						if o == 0xFFFF {
							w.opts[i] = 0
						}
					}
					if !g.sameFeatures(w) {
						r.failf("c14b-scriptlist-read-tags", "language system %q: bytes hold required %d optional %v, read required %d optional %v", it.key(), w.req, w.opts, g.req, g.opts)
					}
				}
			}
		}
	} else {
		r.label("slread:independent-reader-rejects")
	}
	return r, nil
}

// ---- generators ----

func randFeatures(r *vlib.Rand) (int, []int) {
	req := 0xFFFF
	if r.Chance(1, 3) {
		req = r.Intn(20)
	}
	if r.Chance(1, 20) {
		req = vlib.Pick(r, []int{0, 65534, 65535})
	}
	var opts []int
	for k := r.Intn(5); k > 0; k-- {
		opts = append(opts, r.Intn(30))
	}
	if r.Chance(1, 25) {
		opts = append(opts, vlib.Pick(r, []int{0, 65534}))
	}
	return req, opts
}

func genScriptList(g *gen, r *vlib.Rand) {
	add := func(items []slItem) { g.add(vlib.Line(vlib.Atom("slenc"), itemsSx(items))) }
	var encoded [][]byte
	keep := func(items []slItem) {
		info := gtab.ScriptListInfo{}
		for _, it := range items {
			tag, err := gtab.VerifC14BOtfToBCP47(it.script, it.lang)
			if err != nil {
				return
			}
			ff := &gtab.Features{Required: gtab.FeatureIndex(it.req)}
			for _, o := range it.opts {
				ff.Optional = append(ff.Optional, gtab.FeatureIndex(o))
			}
			info[tag] = ff
		}
		if p, _ := guard(func() { encoded = append(encoded, gtab.VerifC14BEncodeScriptList(info)) }); p {
			return
		}
	}
	add(nil)
	// every built-in language tag (and the default) in one script, (a) each
	// with features of its own, (b) ALL equal to the default language system;
	// the script rotates over tags padded with 0, 1 and 2 spaces
	scriptsFor := []string{"latn", "lao ", "yi  ", "DFLT", "deva"}
	chunk := 40
	if g.tier == "thorough" {
		chunk = 700
	}
	for start, ci := 0, 0; start < len(otfLangs); start, ci = start+chunk, ci+1 {
		end := min(start+chunk, len(otfLangs))
		sc := scriptsFor[ci%len(scriptsFor)]
		if !scriptKnown[sc] {
			sc = otfScripts[ci%len(otfScripts)]
		}
		var own, same []slItem
		if start > 0 {
			own = append(own, slItem{sc, "", 3, []int{1, 7}})
			same = append(same, slItem{sc, "", 3, []int{1, 7}})
		}
		for i, la := range otfLangs[start:end] {
			own = append(own, slItem{sc, la, (start + i) % 50, []int{(start + i) % 60, 7}})
			same = append(same, slItem{sc, la, 3, []int{1, 7}})
		}
		add(own)
		add(same)
		if ci == 0 {
			keep(own)
		}
	}
	// every built-in script tag: default language system, a language system
	// equal to it and a two-letter language (8 scripts per list)
	for start := 0; start < len(otfScripts); start += 8 {
		var items []slItem
		for i, sc := range otfScripts[start:min(start+8, len(otfScripts))] {
			items = append(items, slItem{sc, "", 65535, []int{i, 2}})
			items = append(items, slItem{sc, vlib.Pick(r, otfLangs[1:]), 65535, []int{i, 2}})
			for _, la := range []string{"HO  ", "WA  "} {
				if langKnown[la] && r.Bool() {
					items = append(items, slItem{sc, la, i, nil})
				}
			}
		}
		// no pair twice
		seen := map[string]bool{}
		var uniq []slItem
		for _, it := range items {
			if !seen[it.key()] {
				seen[it.key()] = true
				uniq = append(uniq, it)
			}
		}
		add(uniq)
		if start == 0 {
			keep(uniq)
		}
	}
	// scripts without a default language system; one language system only;
	// required feature 0xFFFF / present; empty optional lists
	add([]slItem{{"arab", "ARA ", 0, nil}})
	add([]slItem{{"arab", "ARA ", 65535, []int{}}, {"arab", "URD ", 65535, []int{}}, {"latn", "", 65535, nil}})
	add([]slItem{{"DFLT", "", 65535, []int{0}}, {"latn", "", 65535, []int{0}}, {"latn", "TRK ", 65535, []int{0, 1}}, {"latn", "DEU ", 65535, []int{0}}})
	// random script lists
	n := vlib.Count(g.tier, 250, 6000)
	for i := 0; i < n; i++ {
		var items []slItem
		seen := map[string]bool{}
		ns := r.Range(1, 4)
		for s := 0; s < ns; s++ {
			sc := vlib.Pick(r, otfScripts)
			if r.Chance(1, 3) {
				sc = vlib.Pick(r, []string{"latn", "yi  ", "lao ", "nko ", "vai ", "DFLT"})
				if !scriptKnown[sc] {
					continue
				}
			}
			dreq, dopts := randFeatures(r)
			if r.Chance(3, 4) && !seen[sc+"/"] {
				seen[sc+"/"] = true
				items = append(items, slItem{sc, "", dreq, dopts})
			}
			for k := r.Intn(5); k > 0; k-- {
				la := vlib.Pick(r, otfLangs[1:])
				if r.Chance(1, 6) {
					la = vlib.Pick(r, []string{"HO  ", "WA  "})
					if !langKnown[la] {
						continue
					}
				}
				if seen[sc+"/"+la] {
					continue
				}
				seen[sc+"/"+la] = true
				req, opts := randFeatures(r)
				if r.Chance(1, 3) { // equal to the default language system
					req, opts = dreq, dopts
				}
				items = append(items, slItem{sc, la, req, opts})
			}
		}
		// the map has no order: shuffle
		for j := len(items) - 1; j > 0; j-- {
			k := r.Intn(j + 1)
			items[j], items[k] = items[k], items[j]
		}
		add(items)
		if len(encoded) < 60 {
			keep(items)
		}
	}
	// reading: script lists laid out by the independent writer, with tags that
	// are not built-in next to built-in ones, shared LangSys tables, the same
	// script twice
	rd := func(b []byte) { g.add(vlib.Line(vlib.Atom("slread"), vlib.Hex(b))) }
	for _, b := range encoded {
		if len(b) < 4000 {
			rd(b)
		}
	}
	unknownScripts := []string{"zzzz", "LATN", "lat\x00", "    ", "dflt", "yi\x00\x00", "yi ", "q   "}
	unknownLangs := []string{"QQQ ", "deu ", "HO\x00\x00", "    ", "ENG\x00", "H   ", "dflt"}
	m := vlib.Count(g.tier, 250, 6000)
	for i := 0; i < m; i++ {
		var scripts []rawScript
		for s := r.Range(1, 4); s > 0; s-- {
			sc := rawScript{tag: vlib.Pick(r, otfScripts)}
			if r.Chance(1, 4) {
				sc.tag = vlib.Pick(r, unknownScripts)
			} else if r.Chance(1, 4) {
				sc.tag = vlib.Pick(r, []string{"latn", "yi  ", "lao ", "DFLT"})
			}
			dreq, dopts := randFeatures(r)
			if r.Chance(3, 4) {
				sc.langs = append(sc.langs, rawLangSys{"", dreq, dopts})
			}
			used := map[string]bool{}
			for k := r.Intn(5); k > 0; k-- {
				la := vlib.Pick(r, otfLangs[1:])
				switch r.Intn(6) {
				case 0:
					la = vlib.Pick(r, unknownLangs)
				case 1:
					la = vlib.Pick(r, []string{"HO  ", "WA  "})
				}
				if used[la] {
					continue
				}
				used[la] = true
				req, opts := randFeatures(r)
				if r.Chance(1, 3) {
					req, opts = dreq, dopts
				}
				if r.Chance(1, 30) {
					opts = append(opts, 0xFFFF)
				}
				sc.langs = append(sc.langs, rawLangSys{la, req, opts})
			}
			scripts = append(scripts, sc)
		}
		if r.Chance(1, 10) && len(scripts) > 0 { // the same script tag twice
			scripts = append(scripts, rawScript{tag: scripts[0].tag, langs: []rawLangSys{{"", 1, []int{2}}, {"TRK ", 3, nil}}})
		}
		b := buildScriptList(scripts, r.Bool())
		rd(b)
		if r.Chance(1, 3) { // mutated
			c := append([]byte(nil), b...)
			switch r.Intn(3) {
			case 0:
				c = c[:r.Intn(len(c)+1)]
			case 1:
				c[r.Intn(len(c))] ^= byte(1 << r.Intn(8))
			default:
				p := r.Intn(len(c))
				c[p] = byte(r.Intn(256))
			}
			rd(c)
		}
	}
}

var _ = language.Und
