package c14b

import (
	"fmt"
	"sort"
	"strings"

	"golang.org/x/text/language"
	"seehuhn.de/go/sfnt/opentype/gtab"
	"seehuhn.de/go/sfnt/verifharness/vlib"
)

var otfScripts, otfLangs []string // the built-in tags, sorted; otfLangs[0] = "" (default language system)
var scriptKnown, langKnown map[string]bool

func init() {
	scriptKnown, langKnown = map[string]bool{}, map[string]bool{}
	for s := range gtab.VerifC14BScriptTable() {
		otfScripts = append(otfScripts, s)
		scriptKnown[s] = true
	}
	for l := range gtab.VerifC14BLangTable() {
		otfLangs = append(otfLangs, l)
		langKnown[l] = true
	}
	sort.Strings(otfScripts)
	sort.Strings(otfLangs)
	otfLangs = append([]string{""}, otfLangs...)
}

// convertible: both tags belong to the built-in tables ("" = default
// language system): the pairs the property quantifies over.
func convertible(script, lang string) bool {
	return scriptKnown[script] && (lang == "" || langKnown[lang])
}

func padClass(s string) string {
	return fmt.Sprintf("pad=%d", len(s)-len(strings.TrimRight(s, " ")))
}

// ---- case otf: one (script, language) pair through otfToBCP47 and bcp47ToOtf ----

func caseOtf(args []vlib.Sx) (*res, error) {
	if len(args) != 2 {
		return nil, fmt.Errorf("otf: want 2 arguments")
	}
	sb, err := vlib.AsBytes(args[0])
	if err != nil {
		return nil, err
	}
	lb, err := vlib.AsBytes(args[1])
	if err != nil {
		return nil, err
	}
	script, lang := string(sb), string(lb)
	r := &res{labels: []string{"kind:otf"}, nt: true}
	inTables := convertible(script, lang)
	if inTables {
		r.label("otf:built-in", "otf:script-"+padClass(script))
		if lang != "" {
			r.label("otf:lang-" + padClass(lang))
		} else {
			r.label("otf:lang-default")
		}
	} else {
		r.label("otf:not-built-in")
	}
	var tag language.Tag
	var terr error
	if p, msg := guard(func() { tag, terr = gtab.VerifC14BOtfToBCP47(script, lang) }); p {
		r.impl = "panic"
		r.failf("c14b-otf-tag-panic", "otfToBCP47(%q, %q) panics: %s", script, lang, msg)
		return r, nil
	}
	if terr != nil {
		r.impl = "err"
		r.label("otf:err")
		if inTables {
			r.failf("c14b-otf-tag-roundtrip", "otfToBCP47(%q, %q) fails: %v", script, lang, terr)
		}
		return r, nil
	}
	ext, _ := tag.Extension('x')
	var s2, l2 string
	if p, msg := guard(func() { s2, l2, terr = gtab.VerifC14BBCP47ToOtf(tag) }); p {
		r.impl = "panic"
		r.failf("c14b-otf-tag-panic", "bcp47ToOtf(%v) panics: %s", tag, msg)
		return r, nil
	}
	if terr != nil {
		r.impl = vlib.Str(vlib.L(vlib.Atom("ok"), vlib.Hex([]byte(ext.String())), vlib.Atom("err")))
		if inTables {
			r.failf("c14b-otf-tag-roundtrip", "bcp47ToOtf(%v) fails: %v", tag, terr)
		}
		return r, nil
	}
	r.impl = vlib.Str(vlib.L(vlib.Atom("ok"), vlib.Hex([]byte(ext.String())), vlib.Hex([]byte(s2)), vlib.Hex([]byte(l2))))
	r.label("otf:ok")
	if inTables && (s2 != script || l2 != lang) {
		r.failf("c14b-otf-tag-roundtrip", "(%q, %q) -> %v -> (%q, %q)", script, lang, tag, s2, l2)
	}
	return r, nil
}

// ---- case fromext: bcp47ToOtf on a tag carrying the given x extension ----

func caseFromExt(args []vlib.Sx) (*res, error) {
	if len(args) != 1 {
		return nil, fmt.Errorf("fromext: want 1 argument")
	}
	eb, err := vlib.AsBytes(args[0])
	if err != nil {
		return nil, err
	}
	ext := string(eb)
	r := &res{labels: []string{"kind:fromext"}, nt: true}
	tag, perr := language.Parse("und-" + ext)
	if perr != nil {
		return nil, fmt.Errorf("fromext: x/text does not parse und-%s: %v", ext, perr)
	}
	if e, ok := tag.Extension('x'); !ok || e.String() != ext {
		return nil, fmt.Errorf("fromext: x/text returns the extension %q for und-%s", e.String(), ext)
	}
	r.label(fmt.Sprintf("fromext:parts=%d", len(strings.Split(ext, "-"))))
	var s2, l2 string
	var terr error
	if p, msg := guard(func() { s2, l2, terr = gtab.VerifC14BBCP47ToOtf(tag) }); p {
		r.impl = "panic"
		r.failf("c14b-otf-tag-panic", "bcp47ToOtf(%v) panics: %s", tag, msg)
		return r, nil
	}
	if terr != nil {
		r.impl = "err"
		return r, nil
	}
	r.impl = vlib.Str(vlib.L(vlib.Atom("ok"), vlib.Hex([]byte(s2)), vlib.Hex([]byte(l2))))
	return r, nil
}

// ---- case plain (oracle only): bcp47ToOtf on a tag WITHOUT an x extension.
// This branch searches the tables for the tag's language and script with
// `for key, val := range table { if val == x { ...; break } }`; the model does
// not cover it (x/text's Raw and Script are needed).  The oracle checks that
// the answer is a preimage: the OpenType tags returned stand for the tag's
// language and script in the library's own tables.  Where several OpenType
// tags share one BCP 47 value ("beng"/"bng2", "MAL "/"MLR ") the answer
// depends on Go's map iteration order; this is counted (label plain:ambiguous),
// not reported: such tags are outside the property's quantifier (the pairs of
// the tables, which otfToBCP47 always marks with an x extension).
func casePlain(args []vlib.Sx) (*res, error) {
	if len(args) != 1 {
		return nil, fmt.Errorf("plain: want 1 argument")
	}
	tb, err := vlib.AsBytes(args[0])
	if err != nil {
		return nil, err
	}
	tag, perr := language.Parse(string(tb))
	if perr != nil {
		return nil, fmt.Errorf("plain: %q does not parse: %v", tb, perr)
	}
	if _, ok := tag.Extension('x'); ok {
		return nil, fmt.Errorf("plain: tag has an x extension")
	}
	r := &res{labels: []string{"kind:plain"}, nt: true}
	scriptTable, langTable := gtab.VerifC14BScriptTable(), gtab.VerifC14BLangTable()
	langTag, _, _ := tag.Raw()
	scriptTag, _ := tag.Script()
	answers := map[string]bool{}
	for i := 0; i < 24; i++ {
		var s, l string
		var terr error
		if p, msg := guard(func() { s, l, terr = gtab.VerifC14BBCP47ToOtf(tag) }); p {
			r.impl = "panic"
			r.failf("c14b-otf-tag-panic", "bcp47ToOtf(%v) panics: %s", tag, msg)
			return r, nil
		}
		if terr != nil {
			r.impl = "err"
			r.failf("c14b-otf-plain-tag", "bcp47ToOtf(%v) fails: %v", tag, terr)
			return r, nil
		}
		answers[s+"/"+l] = true
		special := tag == language.Chinese || tag == language.SimplifiedChinese || tag == language.TraditionalChinese
		if !special {
			if s != "" && scriptTable[s] != scriptTag.String() {
				r.failf("c14b-otf-plain-tag", "bcp47ToOtf(%v) = script %q, which stands for %q, not %q", tag, s, scriptTable[s], scriptTag)
			}
			if l != "" && langTable[l] != langTag.String() {
				r.failf("c14b-otf-plain-tag", "bcp47ToOtf(%v) = language %q, which stands for %q, not %q", tag, l, langTable[l], langTag)
			}
		}
	}
	if len(answers) > 1 {
		r.label("plain:ambiguous")
	} else {
		r.label("plain:unique")
	}
	r.impl = vlib.Str(vlib.L(vlib.Atom("plain"), vlib.Int(len(answers))))
	return r, nil
}

func genPlain(g *gen) {
	seen := map[string]bool{}
	add := func(s string) {
		t, err := language.Parse(s)
		if err != nil || seen[t.String()] {
			return
		}
		if _, ok := t.Extension('x'); ok {
			return
		}
		seen[t.String()] = true
		g.add("!" + vlib.Line(vlib.Atom("plain"), vlib.Hex([]byte(s))))
	}
	var lv, sv []string
	for _, v := range gtab.VerifC14BLangTable() {
		lv = append(lv, v)
	}
	for _, v := range gtab.VerifC14BScriptTable() {
		sv = append(sv, v)
	}
	sort.Strings(lv)
	sort.Strings(sv)
	for _, v := range lv {
		add(v)
	}
	for _, v := range sv {
		add("und-" + v)
	}
	for _, s := range []string{"zh", "zh-Hans", "zh-Hant", "de-Latn", "bn-Beng", "ml-Mlym", "hi-Deva", "und", "en-US", "sr-Cyrl"} {
		add(s)
	}
}

func genTags(g *gen, r *vlib.Rand) {
	genPlain(g)
	pair := func(sc, la string) {
		g.add(vlib.Line(vlib.Atom("otf"), vlib.Hex([]byte(sc)), vlib.Hex([]byte(la))))
	}
	// every script tag with the default language system and with the
	// two-letter languages; every language tag with one script padded with
	// 0, 1, 2 spaces; all pairs in the thorough tier
	var padded [3][]string
	for _, s := range otfScripts {
		k := len(s) - len(strings.TrimRight(s, " "))
		if k < 3 {
			padded[k] = append(padded[k], s)
		}
	}
	var twoLetter []string
	for _, l := range otfLangs {
		if len(l) == 4 && strings.HasSuffix(l, "  ") {
			twoLetter = append(twoLetter, l)
		}
	}
	g.run.Extra["otf_scripts"] = len(otfScripts)
	g.run.Extra["otf_languages_incl_default"] = len(otfLangs)
	g.run.Extra["otf_two_letter_languages"] = strings.Join(twoLetter, ",")
	if g.tier == "thorough" {
		for _, sc := range otfScripts {
			for _, la := range otfLangs {
				pair(sc, la)
			}
		}
	} else {
		for _, sc := range otfScripts {
			pair(sc, "")
			for _, la := range twoLetter {
				pair(sc, la)
			}
			for k := 0; k < 4; k++ {
				pair(sc, vlib.Pick(r, otfLangs))
			}
		}
		for _, la := range otfLangs {
			for k := 0; k < 3; k++ {
				if len(padded[k]) > 0 {
					pair(vlib.Pick(r, padded[k]), la)
				}
			}
		}
	}
	// tags outside the tables and outside the shapes
	for _, p := range [][2]string{{"zzzz", ""}, {"latn", "QQQ "}, {"", ""}, {"latn", "deu "}, {"LATN", "DEU "},
		{"lao", ""}, {"lao ", "DEU"}, {"dflt", ""}, {"DFLT", "dflt"}, {"latn", "ENG"}, {"latn", "HO"}, {"latn", "HO "},
		{"latn", "HO   "}, {"yi", ""}, {"yi ", ""}, {"yi   ", ""}, {"q   ", "Q   "}, {"latn", "    "}, {"    ", ""},
		{"la-n", ""}, {"latn", "D-U "}, {"latn", " DEU"}, {"DFLT", "DEU "}, {"DFLT", "HO  "}} {
		pair(p[0], p[1])
	}
	// bcp47ToOtf on x extensions of every shape: 1 to 5 parts, "dflt", short
	// and long subtags, digits
	exts := []string{"x-latn", "x-latn-deu", "x-dflt", "x-dflt-deu", "x-lao", "x-yi", "x-yi-ho", "x-q-q", "x-latn-deu-x1",
		"x-a-b-c-d", "x-abcdefgh", "x-latn-abcdefgh", "x-12", "x-bng2-ben", "x-latn-4a0", "x-zzzz-zzz", "x-dflt-dflt", "x-x", "x-x-x"}
	for _, e := range exts {
		g.add(vlib.Line(vlib.Atom("fromext"), vlib.Hex([]byte(e))))
	}
	alnum := "abcdefghijklmnopqrstuvwxyz0123456789"
	n := vlib.Count(g.tier, 150, 3000)
	for i := 0; i < n; i++ {
		parts := []string{"x"}
		for k := r.Range(1, 4); k > 0; k-- {
			l := r.Range(1, 5)
			if r.Chance(1, 10) {
				l = r.Range(5, 8)
			}
			b := make([]byte, l)
			for j := range b {
				b[j] = alnum[r.Intn(len(alnum))]
			}
			parts = append(parts, string(b))
		}
		g.add(vlib.Line(vlib.Atom("fromext"), vlib.Hex([]byte(strings.Join(parts, "-")))))
	}
}
