package c14b

import (
	"fmt"
	"sort"
	"strings"

	"golang.org/x/text/language"
	"seehuhn.de/go/sfnt/opentype/gtab"
	"seehuhn.de/go/sfnt/verifharness/vlib"
)

var otfScripts, otfLangs []string // the built-in tags, sorted; otfLangs[0] = "" (default language system)
var scriptKnown, langKnown map[string]bool

func init() {
	scriptKnown, langKnown = map[string]bool{}, map[string]bool{}
	for s := range gtab.VerifC14BScriptTable() {
		otfScripts = append(otfScripts, s)
		scriptKnown[s] = true
	}
	for l := range gtab.VerifC14BLangTable() {
		otfLangs = append(otfLangs, l)
		langKnown[l] = true
	}
	sort.Strings(otfScripts)
	sort.Strings(otfLangs)
	otfLangs = append([]string{""}, otfLangs...)
}

// convertible: both tags belong to the built-in tables ("" = default
// language system): the pairs the property quantifies over.
func convertible(script, lang string) bool {
	return scriptKnown[script] && (lang == "" || langKnown[lang])
}

func padClass(s string) string {
	return fmt.Sprintf("pad=%d", len(s)-len(strings.TrimRight(s, " ")))
}

// ---- case otf: one (script, language) pair through otfToBCP47 and bcp47ToOtf ----

func caseOtf(args []vlib.Sx) (*res, error) {
	if len(args) != 2 {
		return nil, fmt.Errorf("otf: want 2 arguments")
	}
	sb, err := vlib.AsBytes(args[0])
	if err != nil {
		return nil, err
	}
	lb, err := vlib.AsBytes(args[1])
	if err != nil {
		return nil, err
	}
	script, lang := string(sb), string(lb)
	r := &res{labels: []string{"kind:otf"}, nt: true}
	inTables := convertible(script, lang)
	if inTables {
		r.label("otf:built-in", "otf:script-"+padClass(script))
		if lang != "" {
			r.label("otf:lang-" + padClass(lang))
		} else {
			r.label("otf:lang-default")
		}
	} else {
		r.label("otf:not-built-in")
	}
	var tag language.Tag
	var terr error
	if p, msg := guard(func() { tag, terr = gtab.VerifC14BOtfToBCP47(script, lang) }); p {
		r.impl = "panic"
		r.failf("c14b-otf-tag-panic", "otfToBCP47(%q, %q) panics: %s", script, lang, msg)
		return r, nil
	}
	if terr != nil {
		r.impl = "err"
		r.label("otf:err")
		if inTables {
			r.failf("c14b-otf-tag-roundtrip", "otfToBCP47(%q, %q) fails: %v", script, lang, terr)
		}
		return r, nil
	}
	ext, _ := tag.Extension('x')
	var s2, l2 string
	if p, msg := guard(func() { s2, l2, terr = gtab.VerifC14BBCP47ToOtf(tag) }); p {
		r.impl = "panic"
		r.failf("c14b-otf-tag-panic", "bcp47ToOtf(%v) panics: %s", tag, msg)
		return r, nil
	}
	if terr != nil {
		r.impl = vlib.Str(vlib.L(vlib.Atom("ok"), vlib.Hex([]byte(ext.String())), vlib.Atom("err")))
		if inTables {
			r.failf("c14b-otf-tag-roundtrip", "bcp47ToOtf(%v) fails: %v", tag, terr)
		}
		return r, nil
	}
	r.impl = vlib.Str(vlib.L(vlib.Atom("ok"), vlib.Hex([]byte(ext.String())), vlib.Hex([]byte(s2)), vlib.Hex([]byte(l2))))
	r.label("otf:ok")
	if inTables && (s2 != script || l2 != lang) {
		r.failf("c14b-otf-tag-roundtrip", "(%q, %q) -> %v -> (%q, %q)", script, lang, tag, s2, l2)
	}
	return r, nil
}

// ---- case fromext: bcp47ToOtf on a tag carrying the given x extension ----

func caseFromExt(args []vlib.Sx) (*res, error) {
	if len(args) != 1 {
		return nil, fmt.Errorf("fromext: want 1 argument")
	}
	eb, err := vlib.AsBytes(args[0])
	if err != nil {
		return nil, err
	}
	ext := string(eb)
	r := &res{labels: []string{"kind:fromext"}, nt: true}
	tag, perr := language.Parse("und-" + ext)
	if perr != nil {
		return nil, fmt.Errorf("fromext: x/text does not parse und-%s: %v", ext, perr)
	}
	if e, ok := tag.Extension('x'); !ok || e.String() != ext {
		return nil, fmt.Errorf("fromext: x/text returns the extension %q for und-%s", e.String(), ext)
	}
	r.label(fmt.Sprintf("fromext:parts=%d", len(strings.Split(ext, "-"))))
	var s2, l2 string
	var terr error
	if p, msg := guard(func() { s2, l2, terr = gtab.VerifC14BBCP47ToOtf(tag) }); p {
		r.impl = "panic"
		r.failf("c14b-otf-tag-panic", "bcp47ToOtf(%v) panics: %s", tag, msg)
		return r, nil
	}
	if terr != nil {
		r.impl = "err"
		return r, nil
	}
	r.impl = vlib.Str(vlib.L(vlib.Atom("ok"), vlib.Hex([]byte(s2)), vlib.Hex([]byte(l2))))
	return r, nil
}

// ---- case plain: bcp47ToOtf on a tag WITHOUT an x extension.  The case line
// carries what x/text says of the tag (which the model takes as input):
// whether it is language.Chinese / SimplifiedChinese / TraditionalChinese, the
// string of its Raw language and of its Script.  Oracle: the answer is a
// preimage (the OpenType tags returned stand for the tag's language and script
// in the library's own tables) and it is a FUNCTION of the tag: repeated calls
// agree (signature c14b-plain-tag-nondeterministic; before
// fixes/C08-bcp47-plain-tag-deterministic.diff the answer depended on Go's map
// iteration order wherever several OpenType tags share one BCP 47 value).

type plainTag struct {
	text         string
	tag          language.Tag
	special      int
	lang, script string
}

func observePlain(text string) (plainTag, error) {
	tag, err := language.Parse(text)
	if err != nil {
		return plainTag{}, fmt.Errorf("%q does not parse: %v", text, err)
	}
	if _, ok := tag.Extension('x'); ok {
		return plainTag{}, fmt.Errorf("%q has an x extension", text)
	}
	pt := plainTag{text: text, tag: tag}
	switch tag {
	case language.Chinese:
		pt.special = 1
	case language.SimplifiedChinese:
		pt.special = 2
	case language.TraditionalChinese:
		pt.special = 3
	}
	langTag, _, _ := tag.Raw()
	scriptTag, _ := tag.Script()
	pt.lang, pt.script = langTag.String(), scriptTag.String()
	return pt, nil
}

func (pt plainTag) sx() []vlib.Sx {
	return []vlib.Sx{vlib.Hex([]byte(pt.text)), vlib.Int(pt.special), vlib.Hex([]byte(pt.lang)), vlib.Hex([]byte(pt.script))}
}

// asPlain reads the four items of a plain tag and checks them against x/text.
func asPlain(args []vlib.Sx) (plainTag, error) {
	if len(args) != 4 {
		return plainTag{}, fmt.Errorf("plain tag: want 4 items")
	}
	tb, err := vlib.AsBytes(args[0])
	if err != nil {
		return plainTag{}, err
	}
	pt, err := observePlain(string(tb))
	if err != nil {
		return plainTag{}, err
	}
	sp, err := vlib.AsInt(args[1])
	if err != nil {
		return plainTag{}, err
	}
	lb, err := vlib.AsBytes(args[2])
	if err != nil {
		return plainTag{}, err
	}
	sb, err := vlib.AsBytes(args[3])
	if err != nil {
		return plainTag{}, err
	}
	if sp != pt.special || string(lb) != pt.lang || string(sb) != pt.script {
		return plainTag{}, fmt.Errorf("plain tag %q: x/text says (%d, %q, %q), the case line (%d, %q, %q)", pt.text, pt.special, pt.lang, pt.script, sp, lb, sb)
	}
	return pt, nil
}

const plainRepeats = 16

func casePlain(args []vlib.Sx) (*res, error) {
	pt, err := asPlain(args)
	if err != nil {
		return nil, err
	}
	r := &res{labels: []string{"kind:plain"}, nt: true}
	scriptTable, langTable := gtab.VerifC14BScriptTable(), gtab.VerifC14BLangTable()
	// how many OpenType tags stand for the tag's language / script
	nl, ns := 0, 0
	for _, v := range langTable {
		if v == pt.lang {
			nl++
		}
	}
	for _, v := range scriptTable {
		if v == pt.script {
			ns++
		}
	}
	switch {
	case pt.special != 0:
		r.label("plain:chinese-special-case")
	case nl > 1 || ns > 1:
		r.label("plain:several-opentype-tags")
	case nl == 0 || ns == 0:
		r.label("plain:language-or-script-unknown")
	default:
		r.label("plain:one-opentype-tag")
	}
	answers := map[string]int{}
	var first [2]string
	for i := 0; i < plainRepeats; i++ {
		var s, l string
		var terr error
		if p, msg := guard(func() { s, l, terr = gtab.VerifC14BBCP47ToOtf(pt.tag) }); p {
			r.impl = "panic"
			r.failf("c14b-otf-tag-panic", "bcp47ToOtf(%v) panics: %s", pt.tag, msg)
			return r, nil
		}
		if terr != nil {
			r.impl = "err"
			r.failf("c14b-otf-plain-tag", "bcp47ToOtf(%v) fails: %v", pt.tag, terr)
			return r, nil
		}
		if i == 0 {
			first = [2]string{s, l}
		}
		answers[fmt.Sprintf("(%q, %q)", s, l)]++
		if pt.special == 0 {
			if s != "" && scriptTable[s] != pt.script {
				r.failf("c14b-otf-plain-tag", "bcp47ToOtf(%v) = script %q, which stands for %q, not %q", pt.tag, s, scriptTable[s], pt.script)
			}
			if l != "" && langTable[l] != pt.lang {
				r.failf("c14b-otf-plain-tag", "bcp47ToOtf(%v) = language %q, which stands for %q, not %q", pt.tag, l, langTable[l], pt.lang)
			}
			if (s == "") != (ns == 0) || (l == "") != (nl == 0) {
				r.failf("c14b-otf-plain-tag", "bcp47ToOtf(%v) = (%q, %q) with %d script and %d language tags standing for it", pt.tag, s, l, ns, nl)
			}
		}
	}
	r.impl = vlib.Str(vlib.L(vlib.Hex([]byte(first[0])), vlib.Hex([]byte(first[1]))))
	if len(answers) > 1 {
		var as []string
		for a, n := range answers {
			as = append(as, fmt.Sprintf("%s x%d", a, n))
		}
		sort.Strings(as)
		r.failf("c14b-plain-tag-nondeterministic", "bcp47ToOtf(%v) called %d times gives %d different answers: %s", pt.tag, plainRepeats, len(answers), strings.Join(as, ", "))
	}
	return r, nil
}

// ---- case slplain: ScriptListInfo.encode with plain tags as keys ----

func caseSlPlain(args []vlib.Sx) (*res, error) {
	if len(args) != 1 {
		return nil, fmt.Errorf("slplain: want 1 argument")
	}
	l, err := vlib.AsList(args[0])
	if err != nil {
		return nil, err
	}
	r := &res{labels: []string{"kind:slplain"}, nt: len(l) >= 2}
	type entry struct {
		pt   plainTag
		req  int
		opts []int
	}
	var entries []entry
	seen := map[language.Tag]bool{}
	for _, e := range l {
		p, err := vlib.AsList(e)
		if err != nil || len(p) != 6 {
			return nil, fmt.Errorf("bad slplain item")
		}
		pt, err := asPlain(p[:4])
		if err != nil {
			return nil, err
		}
		if seen[pt.tag] {
			return nil, fmt.Errorf("slplain: key twice")
		}
		seen[pt.tag] = true
		req, err := vlib.AsInt(p[4])
		if err != nil || req < 0 || req > 65535 {
			return nil, fmt.Errorf("bad required feature")
		}
		opts, err := vlib.AsInts(p[5])
		if err != nil {
			return nil, err
		}
		entries = append(entries, entry{pt, req, opts})
	}
	r.label("slplain:items<=" + sizeClass(len(entries)))
	build := func() gtab.ScriptListInfo {
		info := gtab.ScriptListInfo{}
		for _, e := range entries {
			ff := &gtab.Features{Required: gtab.FeatureIndex(e.req)}
			for _, o := range e.opts {
				ff.Optional = append(ff.Optional, gtab.FeatureIndex(o))
			}
			info[e.pt.tag] = ff
		}
		return info
	}
	var firstBytes []byte
	for i := 0; i < 8; i++ {
		var data []byte
		if p, msg := guard(func() { data = gtab.VerifC14BEncodeScriptList(build()) }); p {
			r.impl = "panic"
			r.failf("c14b-scriptlist-panic", "ScriptListInfo.encode panics on plain-tag keys: %s", msg)
			return r, nil
		}
		if i == 0 {
			firstBytes = data
			continue
		}
		if string(data) != string(firstBytes) {
			r.failf("c14b-plain-tag-nondeterministic", "ScriptListInfo.encode of the same value gives different bytes (call 1: %x, call %d: %x)", firstBytes, i+1, data)
			break
		}
	}
	r.impl = vlib.Str(vlib.L(vlib.Atom("ok"), vlib.Hex(firstBytes)))
	// the bytes hold one language system per key, under the tags bcp47ToOtf names
	if got, ok := parseScriptList(firstBytes); !ok {
		r.failf("c14b-scriptlist-bytes", "independent reader: the encoded script list is malformed")
	} else if len(got) != len(entries) {
		r.failf("c14b-scriptlist-bytes", "independent reader: %d language systems in the bytes, %d keys", len(got), len(entries))
	}
	return r, nil
}

func plainLine(pt plainTag) string {
	return vlib.Line(append([]vlib.Sx{vlib.Atom("plain")}, pt.sx()...)...)
}

func genPlain(g *gen, r *vlib.Rand) {
	seen := map[language.Tag]bool{}
	var all []plainTag
	add := func(s string) {
		pt, err := observePlain(s)
		if err != nil || seen[pt.tag] {
			return
		}
		seen[pt.tag] = true
		all = append(all, pt)
		g.add(plainLine(pt))
	}
	var lv, sv []string
	for _, v := range gtab.VerifC14BLangTable() {
		lv = append(lv, v)
	}
	for _, v := range gtab.VerifC14BScriptTable() {
		sv = append(sv, v)
	}
	sort.Strings(lv)
	sort.Strings(sv)
	for _, v := range lv {
		add(v)
	}
	for _, v := range sv {
		add("und-" + v)
	}
	for _, s := range []string{"zh", "zh-Hans", "zh-Hant", "zh-Hani", "zh-TW", "de-Latn", "bn-Beng", "ml-Mlym", "hi-Deva", "und", "en-US",
		"sr-Cyrl", "ja", "tlh", "und-Zsym", "qaa-Qaaa", "mo", "el-polyton"} {
		add(s)
	}
	// script lists keyed by plain tags: pairwise distinct (script, language)
	// answers with a script the tables know (what a font file can hold)
	type usable struct {
		pt   plainTag
		s, l string
	}
	var us []usable
	for _, pt := range all {
		s, l, err := gtab.VerifC14BBCP47ToOtf(pt.tag)
		if err == nil && len(s) == 4 && (len(l) == 4 || (l == "" && pt.lang == "und")) {
			us = append(us, usable{pt, s, l})
		}
	}
	n := vlib.Count(g.tier, 120, 3000)
	for i := 0; i < n && len(us) > 0; i++ {
		var items vlib.List
		pairs := map[string]bool{}
		for k := r.Range(1, 6); k > 0; k-- {
			u := vlib.Pick(r, us)
			if i%3 == 0 { // favour the tags with several OpenType spellings
				for _, t := range []string{"bn-Beng", "ml-Mlym", "hi-Deva", "und-Beng", "und-Mlym", "ml", "bn"} {
					if r.Chance(1, 4) {
						if pt, err := observePlain(t); err == nil {
							if s, l, err := gtab.VerifC14BBCP47ToOtf(pt.tag); err == nil && len(s) == 4 && (len(l) == 4 || pt.lang == "und") {
								u = usable{pt, s, l}
							}
						}
						break
					}
				}
			}
			// the pair may differ from call to call on the unrepaired code: key the
			// exclusion on the BCP 47 values instead
			key := u.pt.lang + "/" + u.pt.script
			if pairs[key] {
				continue
			}
			pairs[key] = true
			req, opts := randFeatures(r)
			items = append(items, vlib.List(append(u.pt.sx(), vlib.Int(req), vlib.Ints(opts))))
		}
		g.add(vlib.Line(vlib.Atom("slplain"), items))
	}
}

func genTags(g *gen, r *vlib.Rand) {
	genPlain(g, r.Fork("plain"))
	pair := func(sc, la string) {
		g.add(vlib.Line(vlib.Atom("otf"), vlib.Hex([]byte(sc)), vlib.Hex([]byte(la))))
	}
	// every script tag with the default language system and with the
	// two-letter languages; every language tag with one script padded with
	// 0, 1, 2 spaces; all pairs in the thorough tier
	var padded [3][]string
	for _, s := range otfScripts {
		k := len(s) - len(strings.TrimRight(s, " "))
		if k < 3 {
			padded[k] = append(padded[k], s)
		}
	}
	var twoLetter []string
	for _, l := range otfLangs {
		if len(l) == 4 && strings.HasSuffix(l, "  ") {
			twoLetter = append(twoLetter, l)
		}
	}
	g.run.Extra["otf_scripts"] = len(otfScripts)
	g.run.Extra["otf_languages_incl_default"] = len(otfLangs)
	g.run.Extra["otf_two_letter_languages"] = strings.Join(twoLetter, ",")
	if g.tier == "thorough" {
		for _, sc := range otfScripts {
			for _, la := range otfLangs {
				pair(sc, la)
			}
		}
	} else {
		for _, sc := range otfScripts {
			pair(sc, "")
			for _, la := range twoLetter {
				pair(sc, la)
			}
			for k := 0; k < 4; k++ {
				pair(sc, vlib.Pick(r, otfLangs))
			}
		}
		for _, la := range otfLangs {
			for k := 0; k < 3; k++ {
				if len(padded[k]) > 0 {
					pair(vlib.Pick(r, padded[k]), la)
				}
			}
		}
	}
	// tags outside the tables and outside the shapes
	for _, p := range [][2]string{{"zzzz", ""}, {"latn", "QQQ "}, {"", ""}, {"latn", "deu "}, {"LATN", "DEU "},
		{"lao", ""}, {"lao ", "DEU"}, {"dflt", ""}, {"DFLT", "dflt"}, {"latn", "ENG"}, {"latn", "HO"}, {"latn", "HO "},
		{"latn", "HO   "}, {"yi", ""}, {"yi ", ""}, {"yi   ", ""}, {"q   ", "Q   "}, {"latn", "    "}, {"    ", ""},
		{"la-n", ""}, {"latn", "D-U "}, {"latn", " DEU"}, {"DFLT", "DEU "}, {"DFLT", "HO  "}} {
		pair(p[0], p[1])
	}
	// bcp47ToOtf on x extensions of every shape: 1 to 5 parts, "dflt", short
	// and long subtags, digits
	exts := []string{"x-latn", "x-latn-deu", "x-dflt", "x-dflt-deu", "x-lao", "x-yi", "x-yi-ho", "x-q-q", "x-latn-deu-x1",
		"x-a-b-c-d", "x-abcdefgh", "x-latn-abcdefgh", "x-12", "x-bng2-ben", "x-latn-4a0", "x-zzzz-zzz", "x-dflt-dflt", "x-x", "x-x-x"}
	for _, e := range exts {
		g.add(vlib.Line(vlib.Atom("fromext"), vlib.Hex([]byte(e))))
	}
	alnum := "abcdefghijklmnopqrstuvwxyz0123456789"
	n := vlib.Count(g.tier, 150, 3000)
	for i := 0; i < n; i++ {
		parts := []string{"x"}
		for k := r.Range(1, 4); k > 0; k-- {
			l := r.Range(1, 5)
			if r.Chance(1, 10) {
				l = r.Range(5, 8)
			}
			b := make([]byte, l)
			for j := range b {
				b[j] = alnum[r.Intn(len(alnum))]
			}
			parts = append(parts, string(b))
		}
		g.add(vlib.Line(vlib.Atom("fromext"), vlib.Hex([]byte(strings.Join(parts, "-")))))
	}
}
