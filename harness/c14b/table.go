package c14b

import (
	"fmt"
	"reflect"
	"sort"

	"seehuhn.de/go/sfnt/name"
	"seehuhn.de/go/sfnt/verifharness/vlib"
)

// The string fields of name.Table are reached by index through reflection
// (declaration order = the order the translator regenerates), never through
// get/set; Extra is the last field.

var numStringFields int

func init() {
	tp := reflect.TypeOf(name.Table{})
	for i := 0; i < tp.NumField(); i++ {
		if tp.Field(i).Type.Kind() == reflect.String {
			if i != numStringFields {
				panic("c14b: string fields of name.Table are not contiguous")
			}
			numStringFields++
		}
	}
	if tp.NumField() != numStringFields+1 || tp.Field(numStringFields).Name != "Extra" {
		panic("c14b: name.Table has an unexpected shape")
	}
}

func fieldGet(t *name.Table, fi int) string { return reflect.ValueOf(t).Elem().Field(fi).String() }
func fieldSet(t *name.Table, fi int, s string) {
	reflect.ValueOf(t).Elem().Field(fi).SetString(s)
}

// specField maps a name id to the index of the struct field that holds it,
// written from the OpenType name-id list (ids 0-14 and 16-25 have a field
// each, in this order; id 15 is reserved and has none) - independent of the
// switch statements of get and set.
func specField(id int) (int, bool) {
	switch {
	case id >= 0 && id <= 14:
		return id, true
	case id >= 16 && id <= 25:
		return id - 1, true
	}
	return 0, false
}

// ---- TABLE s-expressions ----

func asTable(x vlib.Sx) (*name.Table, error) {
	if a, ok := x.(vlib.Atom); ok {
		if a == "nil" {
			return nil, nil
		}
		return nil, fmt.Errorf("bad table")
	}
	l, err := vlib.AsList(x)
	if err != nil || len(l) != 2 {
		return nil, fmt.Errorf("bad table")
	}
	t := &name.Table{}
	fl, err := vlib.AsList(l[0])
	if err != nil {
		return nil, err
	}
	for _, e := range fl {
		p, err := vlib.AsList(e)
		if err != nil || len(p) != 2 {
			return nil, fmt.Errorf("bad field entry")
		}
		fi, err := vlib.AsInt(p[0])
		if err != nil || fi < 0 || fi >= numStringFields {
			return nil, fmt.Errorf("bad field index")
		}
		rr, err := asRunes(p[1])
		if err != nil {
			return nil, err
		}
		fieldSet(t, fi, string(rr))
	}
	if a, ok := l[1].(vlib.Atom); ok {
		if a != "nil" {
			return nil, fmt.Errorf("bad extra")
		}
		return t, nil
	}
	el, err := vlib.AsList(l[1])
	if err != nil {
		return nil, err
	}
	t.Extra = map[name.ID]string{}
	prev := -1
	for _, e := range el {
		p, err := vlib.AsList(e)
		if err != nil || len(p) != 2 {
			return nil, fmt.Errorf("bad extra entry")
		}
		id, err := vlib.AsInt(p[0])
		if err != nil || id <= prev || id > 65535 {
			return nil, fmt.Errorf("extra ids must be ascending and 16-bit")
		}
		prev = id
		rr, err := asRunes(p[1])
		if err != nil {
			return nil, err
		}
		t.Extra[name.ID(id)] = string(rr)
	}
	return t, nil
}

func tableSx(t *name.Table) vlib.Sx {
	if t == nil {
		return vlib.Atom("nil")
	}
	fl := vlib.List{}
	for fi := 0; fi < numStringFields; fi++ {
		if s := fieldGet(t, fi); s != "" {
			fl = append(fl, vlib.L(vlib.Int(fi), runesSx([]rune(s))))
		}
	}
	if t.Extra == nil {
		return vlib.L(fl, vlib.Atom("nil"))
	}
	ids := make([]int, 0, len(t.Extra))
	for id := range t.Extra {
		ids = append(ids, int(id))
	}
	sort.Ints(ids)
	el := vlib.List{}
	for _, id := range ids {
		el = append(el, vlib.L(vlib.Int(id), runesSx([]rune(t.Extra[name.ID(id)]))))
	}
	return vlib.L(fl, el)
}

func copyTable(t *name.Table) *name.Table {
	if t == nil {
		return nil
	}
	c := *t
	if t.Extra != nil {
		c.Extra = make(map[name.ID]string, len(t.Extra))
		for k, v := range t.Extra {
			c.Extra[k] = v
		}
	}
	return &c
}

// shadowOf is the meaning of a table as the property speaks of it: name id ->
// string, non-empty strings only.  A name id with a field of its own has the
// string of the field (an Extra entry under such an id is not a name of the
// table: get never returns it); other ids live in Extra.
func shadowOf(t *name.Table) map[int]string {
	sh := map[int]string{}
	if t == nil {
		return sh
	}
	for id := 0; id <= 25; id++ {
		if fi, ok := specField(id); ok {
			if s := fieldGet(t, fi); s != "" {
				sh[id] = s
			}
		}
	}
	for id, s := range t.Extra {
		if _, named := specField(int(id)); !named && s != "" {
			sh[int(id)] = s
		}
	}
	return sh
}

func sortedIDs(sh map[int]string) []int {
	ids := make([]int, 0, len(sh))
	for id := range sh {
		ids = append(ids, id)
	}
	sort.Ints(ids)
	return ids
}

// extraCollides reports whether Extra holds an entry under an id that has a
// field of its own.
func extraCollides(t *name.Table) bool {
	if t == nil {
		return false
	}
	for id := range t.Extra {
		if _, named := specField(int(id)); named {
			return true
		}
	}
	return false
}

// ---- case tbl ----

func caseTbl(args []vlib.Sx) (*res, error) {
	if len(args) != 2 {
		return nil, fmt.Errorf("tbl: want 2 arguments")
	}
	t, err := asTable(args[0])
	if err != nil {
		return nil, err
	}
	if t == nil {
		return nil, fmt.Errorf("tbl: nil table")
	}
	ops, err := vlib.AsList(args[1])
	if err != nil {
		return nil, err
	}
	r := &res{labels: []string{"kind:tbl"}}
	if t.Extra == nil {
		r.label("tbl:extra=nil")
	} else if len(t.Extra) == 0 {
		r.label("tbl:extra=empty")
	}
	if extraCollides(t) {
		r.label("tbl:extra-collides")
	}
	sh := shadowOf(t)
	out := vlib.List{}
	sawSet := false
	for _, o := range ops {
		ol, err := vlib.AsList(o)
		if err != nil || len(ol) == 0 {
			return nil, fmt.Errorf("bad op")
		}
		kind, _ := vlib.AsAtom(ol[0])
		switch kind {
		case "set":
			if len(ol) != 3 {
				return nil, fmt.Errorf("bad set")
			}
			id, err := vlib.AsInt(ol[1])
			if err != nil || id < 0 || id > 65535 {
				return nil, fmt.Errorf("bad id")
			}
			rr, err := asRunes(ol[2])
			if err != nil {
				return nil, err
			}
			if p, msg := guard(func() { name.VerifC14BSet(t, name.ID(id), string(rr)) }); p {
				r.impl = "panic"
				r.failf("c14b-table-panic", "Table.set(%d) panics: %s", id, msg)
				return r, nil
			}
			if len(rr) == 0 {
				delete(sh, id)
				r.label("tbl:set-empty")
			} else {
				sh[id] = string(rr)
			}
			r.label("tbl:set-id=" + idClass(id))
			sawSet = true
		case "get":
			if len(ol) != 2 {
				return nil, fmt.Errorf("bad get")
			}
			id, err := vlib.AsInt(ol[1])
			if err != nil || id < 0 || id > 65535 {
				return nil, fmt.Errorf("bad id")
			}
			var s string
			if p, msg := guard(func() { s = name.VerifC14BGet(t, name.ID(id)) }); p {
				r.impl = "panic"
				r.failf("c14b-table-panic", "Table.get(%d) panics: %s", id, msg)
				return r, nil
			}
			out = append(out, runesSx([]rune(s)))
			if s != sh[id] {
				r.failf("c14b-table-get-set", "get(%d) = %q, the string stored under this id is %q", id, s, sh[id])
			}
			r.label("tbl:get-id=" + idClass(id))
			r.nt = r.nt || sawSet
		case "keys", "keysiter":
			var ks []name.ID
			if p, msg := guard(func() { ks = name.VerifC14BKeys(t) }); p {
				r.impl = "panic"
				r.failf("c14b-table-panic", "Table.keys() panics: %s", msg)
				return r, nil
			}
			got := make([]int, len(ks))
			for i, k := range ks {
				got[i] = int(k)
			}
			out = append(out, vlib.Ints(got))
			want := sortedIDs(sh)
			if fmt.Sprint(got) != fmt.Sprint(want) {
				r.failf("c14b-table-keys", "keys() = %v, the ids with a non-empty string are %v", got, want)
			}
			r.label("tbl:" + kind)
			r.nt = r.nt || sawSet
			if kind == "keysiter" {
				// the order is a parameter of the model only: it must name
				// exactly the keys of Extra
				if len(ol) != 2 {
					return nil, fmt.Errorf("bad keysiter")
				}
				order, err := vlib.AsInts(ol[1])
				if err != nil {
					return nil, err
				}
				seen := map[int]bool{}
				for _, id := range order {
					if _, ok := t.Extra[name.ID(id)]; !ok || seen[id] {
						return nil, fmt.Errorf("keysiter: %d is not a key of Extra (or twice)", id)
					}
					seen[id] = true
				}
				if len(seen) != len(t.Extra) {
					return nil, fmt.Errorf("keysiter: not a permutation of the keys of Extra")
				}
			}
		default:
			return nil, fmt.Errorf("bad op %q", kind)
		}
	}
	out = append(out, vlib.L(vlib.Atom("final"), tableSx(t)))
	r.impl = vlib.Str(out)
	// the debug printer is outside the property; it must not panic or modify the table
	before := vlib.Str(tableSx(t))
	if p, msg := guard(func() { _ = t.String() }); p {
		r.failf("c14b-table-panic", "Table.String() panics: %s", msg)
	} else if vlib.Str(tableSx(t)) != before {
		r.failf("c14b-table-get-set", "Table.String() modifies the table")
	}
	// the fields and the map hold what the shadow says
	for id, s := range sh {
		if fi, ok := specField(id); ok {
			if fieldGet(t, fi) != s {
				r.failf("c14b-table-get-set", "after the operations field %d holds %q, name id %d should be %q", fi, fieldGet(t, fi), id, s)
			}
		} else if t.Extra[name.ID(id)] != s {
			r.failf("c14b-table-get-set", "after the operations Extra[%d] = %q, should be %q", id, t.Extra[name.ID(id)], s)
		}
	}
	return r, nil
}

// ---- generators ----

var boundaryIDs = []int{0, 1, 2, 4, 6, 14, 15, 16, 24, 25, 26, 27, 100, 254, 255, 256, 257, 1000, 32767, 32768, 65534, 65535}

func randID(r *vlib.Rand) int {
	switch r.Intn(6) {
	case 0:
		return vlib.Pick(r, boundaryIDs)
	case 1:
		return r.Range(26, 255)
	case 2:
		return r.Range(256, 65535)
	case 3:
		return 15
	}
	return r.Intn(26)
}

var asciiPool = []string{"Foo", "Bar", "Regular", "X", "v1.0", "a b", "?"}
var winPool = []string{"Ünïcode", "日本語", "\U0001F600!", "Жук", "ä", "�"}

func randString(r *vlib.Rand, mac bool) string {
	switch r.Intn(4) {
	case 0:
		return vlib.Pick(r, asciiPool)
	case 1:
		if mac {
			return vlib.Pick(r, macPool)
		}
		return vlib.Pick(r, winPool)
	}
	n := r.Range(1, 6)
	rr := make([]rune, n)
	for i := range rr {
		if mac {
			rr[i] = vlib.Pick(r, macRunes)
		} else {
			switch r.Intn(4) {
			case 0:
				rr[i] = rune(r.Range(0x20, 0x7E))
			case 1:
				rr[i] = rune(r.Range(0xA0, 0x2FF))
			case 2:
				rr[i] = rune(r.Range(0x4E00, 0x4E40))
			default:
				rr[i] = rune(r.Range(0x1F600, 0x1F640))
			}
		}
	}
	return string(rr)
}

// randTable builds a table with some fields and an Extra map of the given
// style: 0 nil, 1 empty non-nil, 2 clean entries, 3 with empty strings,
// 4 with entries under ids that have a field of their own.
func randTable(r *vlib.Rand, mac bool, style int) *name.Table {
	t := &name.Table{}
	for k := r.Intn(5); k > 0; k-- {
		fieldSet(t, r.Intn(numStringFields), randString(r, mac))
	}
	switch style {
	case 1:
		t.Extra = map[name.ID]string{}
	case 2, 3, 4:
		t.Extra = map[name.ID]string{}
		for k := r.Range(1, 4); k > 0; k-- {
			id := randID(r)
			for {
				if _, named := specField(id); !named {
					break
				}
				id = randID(r)
			}
			t.Extra[name.ID(id)] = randString(r, mac)
		}
		if style == 3 {
			t.Extra[name.ID(r.Range(26, 400))] = ""
		}
		if style == 4 {
			id := vlib.Pick(r, []int{0, 1, 2, 4, 6, 14, 16, 25})
			t.Extra[name.ID(id)] = randString(r, mac)
		}
	}
	return t
}

func tblLine(t *name.Table, ops vlib.List) string {
	return vlib.Line(vlib.Atom("tbl"), tableSx(t), ops)
}

func opSet(id int, s string) vlib.Sx {
	return vlib.L(vlib.Atom("set"), vlib.Int(id), runesSx([]rune(s)))
}
func opGet(id int) vlib.Sx { return vlib.L(vlib.Atom("get"), vlib.Int(id)) }
func opKeys() vlib.Sx      { return vlib.L(vlib.Atom("keys")) }

func genTable(g *gen, r *vlib.Rand) {
	// every boundary id on its own: set, get, keys, erase, keys
	for _, id := range boundaryIDs {
		g.add(tblLine(&name.Table{}, vlib.List{opGet(id), opSet(id, "v"), opGet(id), opKeys(), opSet(id, ""), opGet(id), opKeys()}))
	}
	// all boundary ids in one table, set in descending order
	{
		ops := vlib.List{}
		for i := len(boundaryIDs) - 1; i >= 0; i-- {
			ops = append(ops, opSet(boundaryIDs[i], fmt.Sprintf("id%d", boundaryIDs[i])))
		}
		ops = append(ops, opKeys())
		for _, id := range boundaryIDs {
			ops = append(ops, opGet(id))
		}
		g.add(tblLine(&name.Table{}, ops))
	}
	// every name id 0..300 (all fields, the reserved range, the first font-specific ids)
	{
		ops := vlib.List{}
		for id := 0; id <= 300; id++ {
			ops = append(ops, opSet(id, "s"))
		}
		ops = append(ops, opKeys())
		g.add(tblLine(&name.Table{}, ops))
	}
	// Extra entries under ids that have a field: what the code does with them
	for _, id := range []int{0, 1, 14, 16, 25} {
		t := &name.Table{Extra: map[name.ID]string{name.ID(id): "shadowed", 300: "x"}}
		g.add(tblLine(t, vlib.List{opGet(id), opKeys(), opSet(id, "field"), opGet(id), opKeys()}))
	}
	// Extra non-nil but empty, Extra with only empty strings
	g.add(tblLine(&name.Table{Extra: map[name.ID]string{}}, vlib.List{opKeys(), opGet(15), opGet(300)}))
	g.add(tblLine(&name.Table{Family: "F", Extra: map[name.ID]string{15: "", 26: "", 300: ""}}, vlib.List{opKeys(), opGet(26)}))
	// random tables and operation sequences
	n := vlib.Count(g.tier, 500, 12000)
	for i := 0; i < n; i++ {
		t := randTable(r, false, r.Intn(5))
		ops := vlib.List{}
		work := copyTable(t)
		for k := r.Range(3, 14); k > 0; k-- {
			switch r.Intn(6) {
			case 0, 1, 2:
				id := randID(r)
				s := randString(r, false)
				if r.Chance(1, 5) {
					s = ""
				}
				ops = append(ops, opSet(id, s))
				name.VerifC14BSet(work, name.ID(id), s)
			case 3:
				id := randID(r)
				if len(work.Extra) > 0 && r.Bool() {
					ids := make([]int, 0, len(work.Extra))
					for k := range work.Extra {
						ids = append(ids, int(k))
					}
					sort.Ints(ids)
					id = vlib.Pick(r, ids)
				}
				ops = append(ops, opGet(id))
			case 4:
				ops = append(ops, opKeys())
			default:
				// keys with an explicit iteration order of Extra for the model
				ids := make([]int, 0, len(work.Extra))
				for k := range work.Extra {
					ids = append(ids, int(k))
				}
				sort.Ints(ids)
				for j := len(ids) - 1; j > 0; j-- {
					k := r.Intn(j + 1)
					ids[j], ids[k] = ids[k], ids[j]
				}
				ops = append(ops, vlib.L(vlib.Atom("keysiter"), vlib.Ints(ids)))
			}
		}
		g.add(tblLine(t, ops))
	}
}
