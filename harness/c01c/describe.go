// Package c01c ties part C01C of property C01 (the file-level round trip with
// the real codecs of C14B/C14, C08D, C08, C09, C11, C12 over C03's container)
// to the real code: the model's COMPLETE file against (*sfnt.Font).Write, and
// the model's reading of byte strings against sfnt.Read.
//
// describe.go: Go values in the syntax of the models (ocaml/c01c_driver.ml).
package c01c

import (
	"bytes"
	"fmt"
	"sort"

	"golang.org/x/text/language"

	"seehuhn.de/go/sfnt"
	"seehuhn.de/go/sfnt/cmap"
	"seehuhn.de/go/sfnt/glyf"
	"seehuhn.de/go/sfnt/glyph"
	"seehuhn.de/go/sfnt/maxp"
	"seehuhn.de/go/sfnt/name"
	"seehuhn.de/go/sfnt/opentype/classdef"
	"seehuhn.de/go/sfnt/opentype/gdef"
	"seehuhn.de/go/sfnt/opentype/gtab"
	c01 "seehuhn.de/go/sfnt/verifharness/c01"
	"seehuhn.de/go/sfnt/verifharness/c08d"
	v "seehuhn.de/go/sfnt/verifharness/vlib"
)

var none = v.Atom("-")

// ---- cmap: keys in the order of Table.Encode, raw subtables ----

func cmapTableSx(t cmap.Table) v.Sx {
	if t == nil {
		return none
	}
	keys := make([]cmap.Key, 0, len(t))
	for k := range t {
		keys = append(keys, k)
	}
	sort.Slice(keys, func(i, j int) bool {
		a, b := keys[i], keys[j]
		if a.PlatformID != b.PlatformID {
			return a.PlatformID < b.PlatformID
		}
		if a.EncodingID != b.EncodingID {
			return a.EncodingID < b.EncodingID
		}
		return a.Language < b.Language
	})
	out := v.List{}
	for _, k := range keys {
		out = append(out, v.L(v.Int(int(k.PlatformID)), v.Int(int(k.EncodingID)), v.Int(int(k.Language)), v.Hex(t[k])))
	}
	return out
}

// ---- glyphs (C11) ----

func glyphSx(g *glyf.Glyph) v.Sx {
	if g == nil {
		return v.Atom("nil")
	}
	b := g.Rect16
	box := []v.Sx{v.Int(int(b.LLx)), v.Int(int(b.LLy)), v.Int(int(b.URx)), v.Int(int(b.URy))}
	switch d := g.Data.(type) {
	case glyf.SimpleGlyph:
		return v.L(append(append([]v.Sx{v.Atom("simple")}, box...), v.Int(int(d.NumContours)), v.Hex(d.Encoded))...)
	case glyf.CompositeGlyph:
		comps := v.List{}
		for _, c := range d.Components {
			comps = append(comps, v.L(v.Int(int(c.Flags)), v.Int(int(c.GlyphIndex)), v.Hex(c.Data)))
		}
		ins := v.Sx(none)
		if d.Instructions != nil {
			ins = v.Hex(d.Instructions)
		}
		return v.L(append(append([]v.Sx{v.Atom("comp")}, box...), comps, ins)...)
	}
	return v.Atom("?")
}

func glyphsSx(gg glyf.Glyphs) v.Sx {
	out := make(v.List, len(gg))
	for i, g := range gg {
		out[i] = glyphSx(g)
	}
	return out
}

func tagNum(tag string) uint64 {
	return uint64(tag[0])<<24 | uint64(tag[1])<<16 | uint64(tag[2])<<8 | uint64(tag[3])
}

var passNames = []string{"cvt ", "fpgm", "prep", "gasp"}

// extrasReadSx: the pass-through tables as sfnt.Read delivers them (the
// non-empty ones of the four names, in the order of read.go), keyed by tag.
func extrasReadSx(tables map[string][]byte) v.Sx {
	out := v.List{}
	for _, n := range passNames {
		if b, ok := tables[n]; ok && len(b) > 0 {
			out = append(out, v.L(v.U64(tagNum(n)), v.Hex(b)))
		}
	}
	return out
}

// extrasSx: glyf.Outlines.Tables as given (name, data), sorted by name.
func extrasSx(tables map[string][]byte) v.Sx {
	keys := make([]string, 0, len(tables))
	for k := range tables {
		keys = append(keys, k)
	}
	sort.Strings(keys)
	out := v.List{}
	for _, k := range keys {
		out = append(out, v.L(v.Hex([]byte(k)), v.Hex(tables[k])))
	}
	return out
}

func glyfKey(gg glyf.Glyphs, tables map[string][]byte) v.Sx {
	return v.L(glyphsSx(gg), extrasReadSx(tables))
}

// ---- GDEF (C08) ----

func classSx(t classdef.Table) v.Sx {
	if t == nil {
		return none
	}
	gids := make([]int, 0, len(t))
	for g := range t {
		gids = append(gids, int(g))
	}
	sort.Ints(gids)
	out := v.List{}
	for _, g := range gids {
		out = append(out, v.L(v.Int(g), v.Int(int(t[glyph.ID(g)]))))
	}
	return out
}

func gdefSx(t *gdef.Table) v.Sx {
	if t == nil {
		return none
	}
	sets := v.Sx(none)
	if t.MarkGlyphSets != nil {
		l := v.List{}
		for _, s := range t.MarkGlyphSets {
			gids := make([]int, 0, len(s))
			for g := range s {
				gids = append(gids, int(g))
			}
			sort.Ints(gids)
			l = append(l, v.Ints(gids))
		}
		sets = l
	}
	return v.L(classSx(t.GlyphClass), classSx(t.MarkAttachClass), sets)
}

// ---- GSUB / GPOS (C08D) ----

// describeInfo: harness/c08d's description of a table.  c08d describes script
// lists over its own pool of tags only; here every tag on which the library's
// two conversions are inverse to each other is admitted (DFLT among them), the
// pairs used are collected for the model's conv_ok.
var extraPairs = map[[2]string]bool{}

func describeInfo(table string, info *gtab.Info) (d c08d.Info, ok bool) {
	stripped := &gtab.Info{FeatureList: info.FeatureList, LookupList: info.LookupList}
	if info.ScriptList != nil {
		stripped.ScriptList = gtab.ScriptListInfo{}
	}
	d, ok = c08d.DescribeInfo(table, stripped)
	if !ok {
		return d, false
	}
	byScript := map[string]*c08d.ScriptEntry{}
	var scripts []string
	for t, f := range info.ScriptList {
		if f == nil {
			return d, false
		}
		var sc, lg string
		var err error
		if pp, _ := c08d.Guard(func() { sc, lg, err = gtab.VerifC14BCP47ToOtf(t) }); pp || err != nil {
			return d, false
		}
		var back language.Tag
		if pp, _ := c08d.Guard(func() { back, err = gtab.VerifC14OtfToBCP47(sc, lg) }); pp || err != nil || back != t {
			return d, false
		}
		extraPairs[[2]string{sc, lg}] = true
		e := byScript[sc]
		if e == nil {
			e = &c08d.ScriptEntry{Script: sc}
			byScript[sc] = e
			scripts = append(scripts, sc)
		}
		ls := c08d.LangSys{Req: int(f.Required), Opt: make([]int, len(f.Optional))}
		for i, x := range f.Optional {
			ls.Opt[i] = int(x)
		}
		if lg == "" {
			e.Def = &ls
		} else {
			e.Langs = append(e.Langs, c08d.LangRec{Lang: lg, LS: ls})
		}
	}
	sort.Strings(scripts)
	d.Scripts = nil
	for _, sc := range scripts {
		e := byScript[sc]
		sort.Slice(e.Langs, func(a, b int) bool { return e.Langs[a].Lang < e.Langs[b].Lang })
		d.Scripts = append(d.Scripts, *e)
	}
	return d, true
}

// knownPairsSx: the (script, language) pairs the model's conv_ok accepts.
func knownPairsSx() v.Sx {
	l, _ := v.AsList(c08d.KnownSx())
	out := append(v.List{}, l...)
	var keys [][2]string
	for p := range extraPairs {
		keys = append(keys, p)
	}
	sort.Slice(keys, func(i, j int) bool {
		if keys[i][0] != keys[j][0] {
			return keys[i][0] < keys[j][0]
		}
		return keys[i][1] < keys[j][1]
	})
	for _, p := range keys {
		out = append(out, v.L(v.Hex([]byte(p[0])), v.Hex([]byte(p[1]))))
	}
	return out
}

// infoSx: (SCRIPTS FEATURES LOOKUPS), or false when the table cannot be
// described.
func infoSx(table string, info *gtab.Info) (v.Sx, bool) {
	if info == nil {
		return none, true
	}
	d, ok := describeInfo(table, info)
	if !ok {
		return nil, false
	}
	items, err := v.Parse(d.Line())
	if err != nil || len(items) != 5 {
		return nil, false
	}
	return v.L(items[2], items[3], items[4]), true
}

// gtabView: the observation of gtab.Read on the bytes (the key under which the
// model looks the identity up) and the identity.
func gtabView(table string, data []byte) (v.Sx, bool) {
	var tp gtab.Type = gtab.TypeGsub
	if table == "gpos" {
		tp = gtab.TypeGpos
	}
	var back *gtab.Info
	var err error
	if pp, _ := c08d.Guard(func() { back, err = gtab.Read(bytes.NewReader(data), tp) }); pp || err != nil {
		return nil, false
	}
	d, ok := describeInfo(table, back)
	if !ok {
		return nil, false
	}
	id, err := c01.GtabID(back)
	if err != nil {
		return nil, false
	}
	return v.L(v.Atom(table), d.ObsSx(), id), true
}

// ---- post names, maxp ----

func namesSx(names []string) v.Sx {
	if names == nil {
		return none
	}
	out := make(v.List, len(names))
	for i, n := range names {
		out[i] = v.Hex([]byte(n))
	}
	return out
}

func maxp13(m *maxp.TTFInfo) []uint16 {
	return []uint16{m.MaxPoints, m.MaxContours, m.MaxCompositePoints, m.MaxCompositeContours, m.MaxZones,
		m.MaxTwilightPoints, m.MaxStorage, m.MaxFunctionDefs, m.MaxInstructionDefs, m.MaxStackElements,
		m.MaxSizeOfInstructions, m.MaxComponentElements, m.MaxComponentDepth}
}

// ---- name: what Choose picks ----

// chooseSx: the key of the table Tables.Choose(AmericanEnglish) returns and
// the confidence.
func chooseSx(tt name.Tables) (key v.Sx, conf v.Sx) {
	if tt == nil {
		return none, v.Int(0)
	}
	t, c := tt.Choose(language.AmericanEnglish)
	key = none
	if t != nil {
		var ks []string
		for k, x := range tt {
			if x == t {
				ks = append(ks, k)
			}
		}
		sort.Strings(ks)
		if len(ks) > 0 {
			key = v.Hex([]byte(ks[0]))
		}
	}
	return key, v.Int(int(c))
}

var _ = fmt.Sprint
var _ sfnt.Font
