package c01c

// gen.go: cases, streams.
//
//	cfile <tpl> <fields> (lay SEED) <FONT> <DESC> <VIEWS>   a font value all of whose tables are
//	                                                          described by model values
//	cread <src> <edits> <xFILE> <VIEWS>                       a byte string
//	!cfile ... / !cread ...                                   oracle only

import (
	"bytes"
	"crypto/md5"
	"encoding/hex"
	"errors"
	"fmt"
	"strings"
	"time"

	"seehuhn.de/go/sfnt"
	"seehuhn.de/go/sfnt/cmap"
	"seehuhn.de/go/sfnt/glyf"
	"seehuhn.de/go/sfnt/header"
	"seehuhn.de/go/sfnt/name"
	"seehuhn.de/go/sfnt/opentype/gtab"
	c01 "seehuhn.de/go/sfnt/verifharness/c01"
	"seehuhn.de/go/sfnt/verifharness/c08d"
	v "seehuhn.de/go/sfnt/verifharness/vlib"
)

const (
	maxModelFile   = 300 << 10
	maxModelGlyphs = 1200
)

var errOracleOnly = errors.New("outside the model")

func oo(format string, args ...any) error {
	return fmt.Errorf("%w: %s", errOracleOnly, fmt.Sprintf(format, args...))
}

// reason: the first words of an error, for the labels
func reason(err error) string {
	s := strings.TrimPrefix(err.Error(), "outside the model: ")
	if i := strings.IndexAny(s, ":("); i > 0 {
		s = s[:i]
	}
	if len(s) > 50 {
		s = s[:50]
	}
	return s
}

func be16(b []byte) uint16 { return uint16(b[0])<<8 | uint16(b[1]) }
func be32(b []byte) uint32 {
	return uint32(b[0])<<24 | uint32(b[1])<<16 | uint32(b[2])<<8 | uint32(b[3])
}

func tablesOf(w []byte) (map[string][]byte, []string, error) {
	rr := bytes.NewReader(w)
	dir, err := header.Read(rr)
	if err != nil {
		return nil, nil, err
	}
	out := map[string][]byte{}
	var tags []string
	for tag := range dir.Toc {
		b, err := dir.ReadTableBytes(rr, tag)
		if err != nil {
			return nil, nil, err
		}
		if b == nil {
			b = []byte{}
		}
		out[tag] = b
		tags = append(tags, tag)
	}
	return out, tags, nil
}

// ---------------------------------------------------------------- views

type viewBuilder struct {
	glyf, gtab, gdef, names, maxp, cmap v.List
	seen                                map[string]bool
}

func (vb *viewBuilder) add(l *v.List, key string, entry v.Sx) {
	if vb.seen == nil {
		vb.seen = map[string]bool{}
	}
	if vb.seen[key] {
		return
	}
	vb.seen[key] = true
	*l = append(*l, entry)
}

func (vb *viewBuilder) addOutlines(o *glyf.Outlines) error {
	olsx, err := c01.OutlSx(o, true)
	if err != nil {
		return oo("%v", err)
	}
	l, _ := v.AsList(olsx)
	key := glyfKey(o.Glyphs, o.Tables)
	vb.add(&vb.glyf, "glyf "+v.Str(key), v.L(key, l[2]))
	return nil
}

func (vb *viewBuilder) addCmap(t cmap_Table) error {
	if t == nil {
		return nil
	}
	cm, err := c01.CmapSx(t)
	if err != nil {
		return oo("%v", err)
	}
	rng := v.Sx(none)
	func() {
		defer func() { recover() }()
		if best, _ := t.GetBest(); best != nil {
			lo, hi := best.CodeRange()
			rng = v.L(v.Atom("range"), v.I64(int64(lo)), v.I64(int64(hi)))
		}
	}()
	key := cmapTableSx(t)
	vb.add(&vb.cmap, "cmap "+v.Str(key), v.L(key, cm, rng))
	return nil
}

func (vb *viewBuilder) addGtab(table string, data []byte) error {
	e, ok := gtabView(table, data)
	if !ok {
		return oo("%s table cannot be described", table)
	}
	vb.add(&vb.gtab, table+" "+v.Str(e), e)
	return nil
}

// viewsOf: f != nil for a font value (w is the file Write produced), nil for
// a byte string.
func viewsOf(f *sfnt.Font, w []byte) (v.Sx, error) {
	tabs, _, err := tablesOf(w)
	if err != nil {
		return nil, oo("%v", err)
	}
	ft, err := c01.DecodeTables(w)
	if err != nil {
		return nil, oo("a table decoder rejects: %v", err)
	}
	for _, t := range []string{"cmap", "name", "CFF ", "loca", "GDEF", "GSUB", "GPOS", "kern"} {
		if b, ok := tabs[t]; ok && len(b) == 0 {
			return nil, oo("empty %q table", t)
		}
	}
	vb := &viewBuilder{}
	// the values of the font and of what the decoders deliver for the file
	var outs []*glyf.Outlines
	var cmaps []cmap_Table
	if f != nil {
		if o, ok := f.Outlines.(*glyf.Outlines); ok {
			outs = append(outs, o)
		}
		cmaps = append(cmaps, f.CMapTable)
	}
	if o, ok := ft.Outlines().(*glyf.Outlines); ok {
		outs = append(outs, o)
	}
	if cm, ok := ft.Cmap(); ok {
		cmaps = append(cmaps, cm)
	}
	for _, o := range outs {
		if len(o.Glyphs) > maxModelGlyphs {
			return nil, oo("%d glyphs", len(o.Glyphs))
		}
		if err := vb.addOutlines(o); err != nil {
			return nil, err
		}
		if o.Names != nil {
			vb.add(&vb.names, "names "+v.Str(namesSx(o.Names)), v.L(namesSx(o.Names), c01.NamesID(o.Names)))
		}
		if o.Maxp != nil {
			vb.add(&vb.maxp, "maxp "+v.Str(v.Ints(maxp13(o.Maxp))), v.L(v.Ints(maxp13(o.Maxp)), c01.MaxpID(o.Maxp)))
		}
	}
	if p := ft.Post(); p != nil && p.Names != nil {
		vb.add(&vb.names, "names "+v.Str(namesSx(p.Names)), v.L(namesSx(p.Names), c01.NamesID(p.Names)))
	}
	if m := ft.Maxp(); m != nil && m.TTF != nil {
		vb.add(&vb.maxp, "maxp "+v.Str(v.Ints(maxp13(m.TTF))), v.L(v.Ints(maxp13(m.TTF)), c01.MaxpID(m.TTF)))
	}
	for _, cm := range cmaps {
		if err := vb.addCmap(cm); err != nil {
			return nil, err
		}
	}
	for _, t := range [][2]string{{"GSUB", "gsub"}, {"GPOS", "gpos"}} {
		if b, ok := tabs[t[0]]; ok {
			if err := vb.addGtab(t[1], b); err != nil {
				return nil, err
			}
		}
	}
	if g := ft.Gdef(); g != nil {
		id, err := c01.GdefID(g)
		if err != nil {
			return nil, oo("%v", err)
		}
		vb.add(&vb.gdef, "gdef "+v.Str(gdefSx(g)), v.L(gdefSx(g), id))
	}
	// name: what Choose picks
	wkey, wconf, mkey, mconf := v.Sx(none), v.Sx(v.Int(0)), v.Sx(none), v.Sx(v.Int(0))
	if ni := ft.Names(); ni != nil {
		func() {
			defer func() {
				if e := recover(); e != nil {
					err = oo("Choose panics: %v", e)
				}
			}()
			wkey, wconf = chooseSx(ni.Windows)
			mkey, mconf = chooseSx(ni.Mac)
		}()
		if err != nil {
			return nil, err
		}
	}
	day := ""
	if f != nil {
		d := f.ModificationTime
		if d.IsZero() {
			d = f.CreationTime
		}
		if d.IsZero() {
			return nil, oo("no timestamp: the identifier holds today's date")
		}
		day = d.Format("2006-01-02")
	}
	// hhea caret slope as written; the angle hmtx.Decode gives
	rise, run := 0, 0
	if hh, ok := tabs["hhea"]; ok && len(hh) >= 22 {
		rise, run = int(int16(be16(hh[18:]))), int(int16(be16(hh[20:])))
	}
	angle := v.Sx(v.Int(0))
	kernSx := v.Sx(v.L(v.Atom("kern"), none))
	dec, derr := ft.TablesSx(false, nil, nil)
	if derr != nil {
		return nil, oo("%v", derr)
	}
	dl, _ := v.AsList(dec)
	if hm, ok := dl[3].(v.List); ok && len(hm) == 6 {
		angle = hm[4]
	}
	if kb, ok := tabs["kern"]; ok {
		kernSx = v.L(v.Atom("kern"), v.Hex(kb), dl[14])
	}
	cff := v.Sx(v.L(v.Atom("cff"), none))
	if cb, ok := tabs["CFF "]; ok && ft.IsCFF() {
		boxes := v.List{}
		if f != nil {
			if f.NumGlyphs() > maxModelGlyphs {
				return nil, oo("%d glyphs", f.NumGlyphs())
			}
			for _, r := range f.GlyphBBoxes() {
				boxes = append(boxes, v.L(v.Int(int(r.LLx)), v.Int(int(r.LLy)), v.Int(int(r.URx)), v.Int(int(r.URy))))
			}
		}
		cff = v.L(v.Atom("cff"), v.Hex(cb), dl[9], dl[10], boxes)
	}
	tag := func(name string, l v.List) v.Sx { return append(v.List{v.Atom(name)}, l...) }
	return v.L(v.Atom("views"), tag("glyf", vb.glyf), tag("gtab", vb.gtab), tag("gdef", vb.gdef),
		tag("names", vb.names), tag("maxp", vb.maxp), tag("cmap", vb.cmap),
		v.L(v.Atom("choose-win"), wkey, wconf), v.L(v.Atom("choose-mac"), mkey, mconf),
		v.L(v.Atom("day"), v.Hex([]byte(day))), v.L(v.Atom("conv"), knownPairsSx()),
		v.L(v.Atom("caret"), v.Int(rise), v.Int(run)), v.L(v.Atom("angle"), angle), kernSx, cff), nil
}

// emptyViews: views that know nothing.
func emptyViews() v.Sx {
	e := func(name string) v.Sx { return v.L(v.Atom(name)) }
	return v.L(v.Atom("views"), e("glyf"), e("gtab"), e("gdef"), e("names"), e("maxp"), e("cmap"),
		v.L(v.Atom("choose-win"), none, v.Int(0)), v.L(v.Atom("choose-mac"), none, v.Int(0)),
		v.L(v.Atom("day"), v.Hex(nil)), v.L(v.Atom("conv"), knownPairsSx()),
		v.L(v.Atom("caret"), v.Int(0), v.Int(0)), v.L(v.Atom("angle"), v.Int(0)),
		v.L(v.Atom("kern"), none), v.L(v.Atom("cff"), none))
}

type cmap_Table = cmap.Table

// ---------------------------------------------------------------- description

func descOf(f *sfnt.Font) (v.Sx, error) {
	gsub, ok1 := infoSx("gsub", f.Gsub)
	gpos, ok2 := infoSx("gpos", f.Gpos)
	if !ok1 || !ok2 {
		return nil, oo("a layout table cannot be described")
	}
	fld := func(name string, x v.Sx) v.Sx { return v.L(v.Atom(name), x) }
	glyphs, extra, widths, post, mx, cff := v.Sx(v.List{}), v.Sx(v.List{}), v.Sx(none), v.Sx(none), v.Sx(none), v.Sx(none)
	switch o := f.Outlines.(type) {
	case *glyf.Outlines:
		if len(o.Glyphs) > maxModelGlyphs {
			return nil, oo("%d glyphs", len(o.Glyphs))
		}
		glyphs, extra = glyphsSx(o.Glyphs), extrasSx(o.Tables)
		if o.Widths != nil {
			ws := make([]int, len(o.Widths))
			for i, w := range o.Widths {
				ws[i] = int(w)
			}
			widths = v.Ints(ws)
		}
		post = namesSx(o.Names)
		if o.Maxp != nil {
			mx = v.Ints(maxp13(o.Maxp))
		}
	default:
		ol, err := c01.OutlSx(f.Outlines, false)
		if err != nil {
			return nil, oo("%v", err)
		}
		cff = ol
	}
	// the table standardLigatures would give: not needed for one cycle
	return v.L(v.Atom("desc"), fld("cmap", cmapTableSx(f.CMapTable)), fld("glyphs", glyphs), fld("extra", extra),
		fld("widths", widths), fld("postnames", post), fld("maxp", mx), fld("gdef", gdefSx(f.Gdef)),
		fld("gsub", gsub), fld("gpos", gpos), fld("lig", none), fld("cff", cff)), nil
}

// ---------------------------------------------------------------- observations

func tagNumOf(tag string) uint64 { return tagNum(tag) }

func fileObs(w []byte) (v.List, error) {
	if len(w) < 12 {
		return nil, errors.New("short file")
	}
	n := int(be16(w[4:]))
	if 12+16*n > len(w) {
		return nil, errors.New("directory does not fit")
	}
	d := v.List{v.Atom("dir")}
	tm := v.List{v.Atom("tables")}
	for i := 0; i < n; i++ {
		p := 12 + 16*i
		tag, sum, off, ln := be32(w[p:]), be32(w[p+4:]), be32(w[p+8:]), be32(w[p+12:])
		d = append(d, v.L(v.U64(uint64(tag)), v.U64(uint64(sum)), v.U64(uint64(off)), v.U64(uint64(ln))))
		x := v.Sx(none)
		if uint64(off)+uint64(ln) <= uint64(len(w)) {
			s := md5.Sum(w[off : off+ln])
			x = v.Atom(hex.EncodeToString(s[:]))
		}
		tm = append(tm, v.L(v.U64(uint64(tag)), x))
	}
	sum := md5.Sum(w)
	return v.List{d, v.L(v.Atom("len"), v.Int(len(w))), v.L(v.Atom("md5"), v.Atom(hex.EncodeToString(sum[:]))),
		v.L(v.Atom("container-ok"), v.Bool(true)), tm}, nil
}

func readObs(w []byte) (string, error) {
	f1, rerr := c01.ReadFont(w)
	switch {
	case c01.IsPanic(rerr):
		return "panic", nil
	case rerr != nil:
		return "err", nil
	}
	ft, err := c01.DecodeTables(w)
	if err != nil {
		return "", oo("%v", err)
	}
	tsx, err := ft.TablesSx(true, nil, nil)
	if err != nil {
		return "", oo("%v", err)
	}
	fsx, err := c01.FontSx(f1)
	if err != nil {
		return "", oo("%v", err)
	}
	return v.Str(v.L(tsx, fsx)), nil
}

// ---------------------------------------------------------------- file cases

type fileCase struct {
	C   *c01.CycleCase
	Lay uint64 // != 0: GSUB and GPOS are tables of harness/c08d's generator (seed)
}

func (c *fileCase) head() string {
	return v.Line(v.Atom("cfile"), c.C.T.Sx(), c.C.S.Sx(), v.L(v.Atom("lay"), v.U64(c.Lay)))
}

// generatedLayout: tables of C08D's generator, put through one Encode/Read
// cycle so that the value is one the reader returns (identities then do not
// depend on the representation the generator chose).
func generatedLayout(f *sfnt.Font, seed uint64) error {
	r := v.NewRand(seed).Fork("c08d")
	n := f.NumGlyphs()
	if n < 4 {
		return nil
	}
	for _, table := range []string{"gsub", "gpos"} {
		if r.Chance(1, 4) {
			continue
		}
		d := c08d.GenInfo(r, table, r.Range(1, 4), 2, n)
		info, ok := d.Build()
		if !ok || info == nil {
			continue
		}
		var enc []byte
		if pp, _ := c08d.Guard(func() { enc = info.Encode() }); pp {
			continue
		}
		var tp gtab.Type = gtab.TypeGsub
		if table == "gpos" {
			tp = gtab.TypeGpos
		}
		back, err := gtab.Read(bytes.NewReader(enc), tp)
		if err != nil {
			continue
		}
		if table == "gsub" {
			f.Gsub = back
		} else {
			f.Gpos = back
		}
	}
	return nil
}

func (c *fileCase) build() (*sfnt.Font, error) {
	f, err := c.C.Build()
	if err != nil {
		return nil, err
	}
	if c.Lay != 0 {
		c08d.TagInit()
		if err := generatedLayout(f, c.Lay); err != nil {
			return nil, err
		}
	}
	return f, nil
}

func runFile(c *fileCase) (line, impl string, fails []*c01.Failure, labels []string, err error) {
	head := c.head()
	defer func() {
		if e := recover(); e != nil {
			line, impl, err = "!"+head, "-", nil
			fails = append(fails, c01.NewFailure("harness-panic", fmt.Sprint(e)))
		}
	}()
	f, err := c.build()
	if err != nil {
		return "", "", nil, nil, err
	}
	var callerMemory [][]byte
	if !strings.HasPrefix(c.C.T.Name, "go:") {
		f = c01.DeepCopyFont(f)
	}
	if c.C.T.Seed%4 != 0 {
		ar := c01.Rehome(f, c.C.T.Seed)
		callerMemory = append(callerMemory, ar.Memory())
	}
	labels = append(labels, "cf:tpl="+strings.SplitN(c.C.T.Name, ":", 2)[0], "cf:cmap="+c.C.T.CMap)
	if f.IsCFF() {
		labels = append(labels, "cf:outlines=CFF(table bytes opaque)")
	} else {
		labels = append(labels, "cf:outlines=glyf(all tables modelled)")
	}
	if c.Lay != 0 {
		labels = append(labels, "cf:layout=c08d-generator")
	} else if c.C.T.Layout != "-" {
		labels = append(labels, "cf:layout="+c.C.T.Layout)
	}
	for _, x := range []struct {
		n string
		p bool
	}{{"GSUB", f.Gsub != nil}, {"GPOS", f.Gpos != nil}, {"GDEF", f.Gdef != nil}} {
		if x.p {
			labels = append(labels, "cf:has-"+x.n)
		}
	}
	if o, ok := f.Outlines.(*glyf.Outlines); ok && o.Names != nil {
		labels = append(labels, "cf:post-names")
	}
	fsx, perr := c01.FontSx(f)
	w0, _, vfails := c01.OracleValue(f, callerMemory...)
	fails = append(fails, vfails...)
	if w0 == nil {
		labels = append(labels, "cf:write-fails")
		return "!" + head, "-", fails, labels, nil
	}
	only := func(why string) (string, string, []*c01.Failure, []string, error) {
		labels = append(labels, "cf:oracle-only("+why+")")
		return "!" + head, "-", fails, labels, nil
	}
	if perr != nil {
		return only("off-grid")
	}
	if len(w0) > maxModelFile {
		return only("large-file")
	}
	desc, derr := descOf(f)
	if derr != nil {
		return only("description: " + reason(derr))
	}
	views, verr := viewsOf(f, w0)
	if verr != nil {
		return only("views: " + reason(verr))
	}
	obs, err := fileObs(w0)
	if err != nil {
		return only("unreadable")
	}
	rd, rerr := readObs(w0)
	if rerr != nil {
		return only("read-obs")
	}
	line = head + " " + v.Str(fsx) + " " + v.Str(desc) + " " + v.Str(views)
	switch rd {
	case "err", "panic":
		impl = v.Str(append(append(v.List{v.Atom("ok")}, obs...), v.Atom(rd)))
	default:
		items, _ := v.Parse(rd)
		l, _ := v.AsList(items[0])
		impl = v.Str(append(append(v.List{v.Atom("ok")}, obs...), l...))
	}
	labels = append(labels, "cf:modelled")
	return line, impl, fails, labels, nil
}

// ---------------------------------------------------------------- read cases

type readCase struct {
	Src   c01.Source
	Edits []c01.Edit
}

func (c *readCase) head() string {
	es := make(v.List, len(c.Edits))
	for i, e := range c.Edits {
		es[i] = e.Sx()
	}
	return v.Line(v.Atom("cread"), c.Src.Sx(), es)
}

func runRead(c *readCase) (line, impl string, fails []*c01.Failure, labels []string, err error) {
	head := c.head()
	defer func() {
		if e := recover(); e != nil {
			line, impl, err = "!"+head, "-", nil
			fails = append(fails, c01.NewFailure("harness-panic", fmt.Sprint(e)))
		}
	}()
	base, err := c.Src.Bytes()
	if err != nil {
		return "", "", nil, nil, err
	}
	data, err := c01.ApplyEdits(base, c.Edits)
	if err != nil {
		return "", "", nil, nil, err
	}
	labels = append(labels, "cr:src="+c.Src.Kind)
	for _, e := range c.Edits {
		l := "cr:edit=" + e.Kind
		if e.Kind == "set" || e.Kind == "drop" {
			l += "(" + strings.TrimSpace(e.Tag) + ")"
		}
		labels = append(labels, l)
	}
	f0, _, vfails := c01.OracleBytes(data)
	fails = append(fails, vfails...)
	if f0 != nil {
		labels = append(labels, "cr:accepted")
	} else {
		labels = append(labels, "cr:rejected")
	}
	only := func(why string) (string, string, []*c01.Failure, []string, error) {
		labels = append(labels, "cr:oracle-only("+why+")")
		return "!" + head, "-", fails, labels, nil
	}
	if len(data) > maxModelFile {
		return only("large-file")
	}
	views, verr := viewsOf(nil, data)
	if verr != nil {
		// a table decoder rejects: sfnt.Read rejects the file as well, and so
		// must the model with its real decoders, whatever the views say
		// (TrueType outlines: no table is decoded through a view)
		if _, rerr := c01.ReadFont(data); f0 == nil && rerr != nil && !c01.IsPanic(rerr) && strings.Contains(verr.Error(), "decoder rejects") {
			if tabs, _, terr := tablesOf(data); terr == nil {
				_, hasCFF := tabs["CFF "]
				_, hasKern := tabs["kern"]
				if !hasCFF && !hasKern && be32(data) != 0x4F54544F {
					labels = append(labels, "cr:modelled", "cr:rejected-by-a-table-decoder")
					return head + " " + v.Str(v.Hex(data)) + " " + v.Str(emptyViews()), "err", fails, labels, nil
				}
			}
		}
		return only("views: " + reason(verr))
	}
	rd, rerr := readObs(data)
	if rerr != nil {
		return only("off-grid")
	}
	switch rd {
	case "err", "panic":
		impl = rd
	default:
		items, _ := v.Parse(rd)
		l, _ := v.AsList(items[0])
		impl = v.Str(append(v.List{v.Atom("ok")}, l...))
	}
	labels = append(labels, "cr:modelled")
	return head + " " + v.Str(v.Hex(data)) + " " + v.Str(views), impl, fails, labels, nil
}

// ---------------------------------------------------------------- RunCase

func RunCase(line string) (impl, fail, sig string, err error) {
	line = strings.TrimPrefix(line, "!")
	items, err := v.Parse(line)
	if err != nil {
		return "", "", "", err
	}
	if len(items) < 3 {
		return "", "", "", errors.New("short case")
	}
	kind, err := v.AsAtom(items[0])
	if err != nil {
		return "", "", "", err
	}
	var fails []*c01.Failure
	var newLine string
	switch kind {
	case "cfile":
		t, err := c01.ParseTpl(items[1])
		if err != nil {
			return "", "", "", err
		}
		fs, err := c01.ParseFields(items[2])
		if err != nil {
			return "", "", "", err
		}
		var lay uint64
		if len(items) > 3 {
			if l, err := v.AsList(items[3]); err == nil && len(l) == 2 {
				a, _ := v.AsAtom(l[1])
				fmt.Sscan(a, &lay)
			}
		}
		newLine, impl, fails, _, err = runFile(&fileCase{&c01.CycleCase{T: t, S: fs}, lay})
		if err != nil {
			return "", "", "", err
		}
		if len(items) > 4 && !strings.HasPrefix(newLine, "!") && strings.TrimSpace(newLine) != strings.TrimSpace(line) {
			impl = "(stale-case-line)"
		}
	case "cread":
		src, err := c01.ParseSource(items[1])
		if err != nil {
			return "", "", "", err
		}
		el, err := v.AsList(items[2])
		if err != nil {
			return "", "", "", err
		}
		var edits []c01.Edit
		for _, x := range el {
			e, err := c01.ParseEdit(x)
			if err != nil {
				return "", "", "", err
			}
			edits = append(edits, e)
		}
		newLine, impl, fails, _, err = runRead(&readCase{src, edits})
		if err != nil {
			return "", "", "", err
		}
		if len(items) > 3 && !strings.HasPrefix(newLine, "!") && strings.TrimSpace(newLine) != strings.TrimSpace(line) {
			impl = "(stale-case-line)"
		}
	default:
		return "", "", "", fmt.Errorf("unknown case kind %q", kind)
	}
	if len(fails) > 0 {
		fail, sig = c01.JoinFails(fails)
	}
	return impl, fail, sig, nil
}

// ---------------------------------------------------------------- Gen

var knownStored = map[string]int{}

func record(run *v.Run, line, impl string, fails []*c01.Failure, nontrivial bool, labels []string) {
	if strings.HasPrefix(line, "!") {
		labels = append(labels, "oracle-only")
	} else {
		labels = append(labels, "modelled")
	}
	idx := run.Add(line, impl, nontrivial, labels...)
	if len(fails) > 0 {
		d, s := c01.JoinFails(fails)
		run.Hist["oracle-failure:"+s]++
		if c01.KnownSignature(s) {
			knownStored[s]++
			if knownStored[s] > 5 {
				return
			}
		}
		run.Fail(idx, line, d, s)
	}
}

func Gen(run *v.Run, seed uint64, tier string) {
	run.Rule = "one case = one font value all of whose tables are described by model values, written by Font.Write (cfile), or one byte string read by sfnt.Read (cread); non-trivial = a font with at least 2 glyphs whose case line differs from all others, or a byte string sfnt.Read accepts; distinct by case line"
	r := v.NewRand(seed)
	t0 := time.Now()
	genFiles(run, r.Fork("cfile"), tier)
	run.Extra["cfile_wall_s"] = time.Since(t0).Seconds()
	t1 := time.Now()
	genReads(run, r.Fork("cread"), tier)
	run.Extra["cread_wall_s"] = time.Since(t1).Seconds()
}

func genFiles(run *v.Run, r *v.Rand, tier string) {
	emit := func(t c01.Tpl, mode string, lay uint64) {
		cffFont := t.Name == "debug" || t.Name == "cffmini" || t.Name == "cffcid"
		c := &fileCase{&c01.CycleCase{T: t, S: c01.GenFields(r, mode, cffFont)}, lay}
		line, impl, fails, labels, err := runFile(c)
		if err != nil {
			run.Hist["cf:template-error"]++
			return
		}
		labels = append(labels, "cf:mode="+mode)
		record(run, line, impl, fails, true, labels)
	}
	emit(c01.Tpl{Name: "glyfsize", Seed: 4096, CMap: "f4", Layout: "-"}, "plain", 0)
	emit(c01.Tpl{Name: "go:Go-Regular", Seed: 5, CMap: "own", Layout: "-"}, "plain", 0)
	if tier == "thorough" {
		for i, n := range c01.GoFontNames() {
			emit(c01.Tpl{Name: "go:" + n, Seed: uint64(i + 2), CMap: "own", Layout: "-"}, "canonical", 0)
		}
	}
	n := v.Count(tier, 150, 3000)
	names := []string{"glyfmini", "glyfmini", "glyfmini", "glyfmini", "cffmini", "cffcid"}
	cmaps := []string{"own", "nil", "f4", "f4lig", "f12", "multi"}
	layouts := []string{"-", "s", "d", "p", "sdp", "dp"}
	for i := 0; i < n; i++ {
		t := c01.Tpl{Name: v.Pick(r, names), Seed: r.Uint64() % 100000, CMap: v.Pick(r, cmaps), Layout: v.Pick(r, layouts)}
		if t.Name != "glyfmini" && t.CMap == "own" {
			t.CMap = "f4"
		}
		var lay uint64
		switch i % 3 {
		case 1:
			t.Layout = v.Pick(r, c01.DegenerateLayouts)
		case 2:
			lay = 1 + r.Uint64()%1000000
			if r.Chance(1, 2) {
				t.Layout = v.Pick(r, []string{"-", "d"})
			}
		}
		mode := v.Pick(r, []string{"plain", "ascii", "extreme", "canonical", "canonical"})
		emit(t, mode, lay)
	}
}

func genReads(run *v.Run, r *v.Rand, tier string) {
	emit := func(c *readCase) {
		line, impl, fails, labels, err := runRead(c)
		if err != nil {
			run.Hist["cr:edit-not-applicable"]++
			return
		}
		nontrivial := false
		for _, l := range labels {
			if l == "cr:accepted" {
				nontrivial = true
			}
		}
		record(run, line, impl, fails, nontrivial, labels)
	}
	written := func(mode string, layout string) c01.Source {
		t := c01.Tpl{Name: v.Pick(r, []string{"glyfmini", "glyfmini", "glyfmini", "cffmini"}), Seed: r.Uint64() % 100000,
			CMap: v.Pick(r, []string{"f4", "f4lig", "f12", "multi"}), Layout: layout}
		if t.Name == "glyfmini" && r.Chance(1, 2) {
			t.CMap = "own"
		}
		return c01.Source{Kind: "w", C: &c01.CycleCase{T: t, S: c01.GenFields(r, mode, t.Name != "glyfmini")}}
	}
	// tables replaced by independently built ones: the real decoders on values
	// Font.Write would not produce (name tables in several languages, other
	// OS/2 versions, header-only layout tables)
	for i := 0; i < v.Count(tier, 70, 1500); i++ {
		src := written(v.Pick(r, []string{"plain", "extreme"}), v.Pick(r, []string{"-", "sdp", "dp", "s"}))
		var edits []c01.Edit
		for k := r.Range(1, 2); k > 0; k-- {
			switch r.Intn(6) {
			case 0:
				edits = append(edits, c01.Edit{Kind: "drop", Tag: v.Pick(r, []string{"name", "post", "GSUB", "GPOS", "GDEF", "cmap", "cvt ", "OS/2"})})
			case 1, 2:
				edits = append(edits, c01.Edit{Kind: "set", Tag: "name", Data: c01.AltNameTable(r)})
			case 3:
				edits = append(edits, c01.Edit{Kind: "set", Tag: "post", Data: c01.AltPost(r)})
			case 4:
				edits = append(edits, c01.Edit{Kind: "set", Tag: v.Pick(r, []string{"GSUB", "GPOS"}), Data: v.Pick(r, c01.HeaderOnlyLayout)})
			case 5:
				edits = append(edits, c01.Edit{Kind: "set", Tag: "OS/2", Data: c01.AltOS2(r)})
			}
		}
		emit(&readCase{Src: src, Edits: edits})
	}
	// byte mutations inside the tables whose decoders are real here
	for i := 0; i < v.Count(tier, 110, 2500); i++ {
		src := written("plain", v.Pick(r, []string{"sdp", "dp", "s", "-"}))
		base, err := src.Bytes()
		if err != nil || len(base) == 0 {
			continue
		}
		dir, err := header.Read(bytes.NewReader(base))
		if err != nil {
			continue
		}
		var edits []c01.Edit
		for k := r.Range(1, 2); k > 0; k-- {
			tag := v.Pick(r, []string{"name", "name", "post", "GSUB", "GPOS", "GDEF", "cmap", "loca", "glyf", "maxp", "head"})
			rec, ok := dir.Toc[tag]
			if !ok || rec.Length == 0 {
				continue
			}
			span := int(rec.Length)
			if span > 64 && r.Chance(2, 3) {
				span = 64 // headers and offset arrays
			}
			off := int(rec.Offset) + r.Intn(span)
			val := byte(r.Uint64())
			if r.Chance(1, 3) {
				val = v.Pick(r, []byte{0, 1, 0x7F, 0x80, 0xFF})
			}
			edits = append(edits, c01.Edit{Kind: "patch", Off: off, Val: val})
		}
		if len(edits) == 0 {
			continue
		}
		emit(&readCase{Src: src, Edits: edits})
	}
}

var _ name.Info
