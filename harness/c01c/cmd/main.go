package main

import (
	"seehuhn.de/go/sfnt/verifharness/c01c"
	"seehuhn.de/go/sfnt/verifharness/vlib"
)

func main() { vlib.Main(c01c.Gen, c01c.RunCase) }
