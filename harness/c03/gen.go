package c03

import (
	"encoding/binary"
	"fmt"

	"seehuhn.de/go/sfnt/header"
	"seehuhn.de/go/sfnt/verifharness/vlib"
)

var prioTags = map[string]bool{
	"head": true, "hhea": true, "maxp": true, "OS/2": true, "hmtx": true, "LTSH": true, "VDMX": true,
	"hdmx": true, "cmap": true, "fpgm": true, "prep": true, "cvt ": true, "loca": true, "glyf": true,
	"kern": true, "name": true, "post": true, "gasp": true, "DSIG": true,
}

var prioList = []string{"head", "hhea", "maxp", "OS/2", "hmtx", "LTSH", "VDMX", "hdmx", "cmap", "fpgm",
	"prep", "cvt ", "loca", "glyf", "kern", "name", "post", "gasp", "DSIG"}

var otherTags = []string{"CFF ", "GDEF", "GSUB", "GPOS", "BASE", "JSTF", "MATH", "COLR", "CPAL", "SVG ",
	"sbix", "vhea", "vmtx", "VORG", "avar", "fvar", "gvar", "HVAR", "MVAR", "STAT", "meta", "    ", "~~~~",
	"heae", "heac", "gead", "iead", "headX"[:4]}

func randTag(r *vlib.Rand) string {
	switch r.Intn(10) {
	case 0, 1, 2, 3:
		return vlib.Pick(r, prioList)
	case 4, 5:
		return vlib.Pick(r, otherTags)
	case 6:
		// neighbour of a prioritised tag (one character changed)
		t := []byte(vlib.Pick(r, prioList))
		t[r.Intn(4)] = byte(r.Range(0x20, 0x7e))
		return string(t)
	}
	t := make([]byte, 4)
	for i := range t {
		t[i] = byte(r.Range(0x20, 0x7e))
	}
	return string(t)
}

func randLen(r *vlib.Rand, max int) int {
	switch r.Intn(12) {
	case 0:
		return 0
	case 1:
		return r.Range(1, 3)
	case 2:
		return vlib.Pick(r, []int{4, 8, 11, 12, 13, 15, 16, 17, 54})
	case 3:
		return max
	case 4:
		if max > 4 {
			return max - r.Intn(4)
		}
	}
	return r.Intn(max + 1)
}

func randData(r *vlib.Rand, n int) []byte {
	b := make([]byte, n)
	switch r.Intn(4) {
	case 0: // all 0xff: word sums overflow 32 bits quickly
		for i := range b {
			b[i] = 0xff
		}
	case 1:
		for i := range b {
			b[i] = byte(i)
		}
	default:
		for i := range b {
			b[i] = byte(r.Uint64())
		}
	}
	return b
}

var scalers = []uint32{header.ScalerTypeTrueType, header.ScalerTypeCFF, header.ScalerTypeApple}

func randScaler(r *vlib.Rand) uint32 {
	if r.Chance(1, 8) {
		return vlib.Pick(r, []uint32{0, 1, 0xffffffff, 0x74797031, uint32(r.Uint64())})
	}
	return vlib.Pick(r, scalers)
}

// randTabs: a map with nTab entries; headMode: 0 none, 1 ok (>= 12 bytes),
// 2 random length (may be short), 3 nil.  malformed adds nil-valued and
// wrongly named entries.
func randTabs(r *vlib.Rand, nTab, maxLen, headMode int, malformed bool) []tab {
	seen := map[string]bool{}
	var ts []tab
	add := func(t tab) {
		if !seen[t.name] {
			seen[t.name] = true
			ts = append(ts, t)
		}
	}
	switch headMode {
	case 1:
		n := randLen(r, maxLen)
		if n < 12 {
			n = vlib.Pick(r, []int{12, 13, 54, 55})
		}
		add(tab{name: "head", data: randData(r, n)})
	case 2:
		add(tab{name: "head", data: randData(r, r.Intn(14))})
	case 3:
		add(tab{name: "head", isNil: true})
	default:
		seen["head"] = true
	}
	for tries := 0; len(ts) < nTab && tries < 10*nTab+10; tries++ {
		add(tab{name: randTag(r), data: randData(r, randLen(r, maxLen))})
	}
	if malformed {
		k := r.Range(1, 3)
		for i := 0; i < k; i++ {
			switch r.Intn(4) {
			case 0:
				add(tab{name: randTag(r), isNil: true})
			case 1:
				add(tab{name: vlib.Pick(r, []string{"", "a", "abc", "heads", "glyf ", "OS/2x"}), data: randData(r, r.Intn(9))})
			case 2:
				add(tab{name: vlib.Pick(r, []string{"abc", "toolong"}), isNil: true})
			default:
				nm := []byte(randTag(r))
				nm[r.Intn(4)] = vlib.Pick(r, []byte{0, 0x1f, 0x7f, 0x80, 0xff})
				add(tab{name: string(nm), data: randData(r, r.Intn(9))})
			}
		}
	}
	return ts
}

// ---------------------------------------------------------------- directory mutations

func put16(b []byte, off int, v int) { binary.BigEndian.PutUint16(b[off:], uint16(v)) }
func put32(b []byte, off int, v uint32) { binary.BigEndian.PutUint32(b[off:], v) }

// mutations returns variants of a valid container, each with a label.
func mutations(r *vlib.Rand, b []byte) (out [][]byte, labels []string) {
	n := int(binary.BigEndian.Uint16(b[4:]))
	add := func(label string, f func(c []byte) []byte) {
		c := append([]byte(nil), b...)
		c = f(c)
		out = append(out, c)
		labels = append(labels, "mut:"+label)
	}
	add("none", func(c []byte) []byte { return c })
	add("numTables+1", func(c []byte) []byte { put16(c, 4, n+1); return c })
	add("numTables-1", func(c []byte) []byte { put16(c, 4, n-1); return c })
	add("numTables=0", func(c []byte) []byte { put16(c, 4, 0); return c })
	add("numTables=281", func(c []byte) []byte { put16(c, 4, 281); return c })
	add("numTables=280", func(c []byte) []byte { put16(c, 4, 280); return c })
	add("scaler", func(c []byte) []byte {
		put32(c, 0, vlib.Pick(r, []uint32{0, 0x00020000, 0x4f54544e, 0x74727565, 0x4F54544F, 0x00010000, 0x74797031}))
		return c
	})
	add("searchfields", func(c []byte) []byte { put16(c, 6+2*r.Intn(3), r.Intn(70000)); return c })
	add("truncate", func(c []byte) []byte { return c[:r.Intn(len(c))] })
	add("truncate-last-byte", func(c []byte) []byte {
		// cut at the end of the last table's data, and one byte before
		var end uint32
		for i := 0; i < n; i++ {
			e := binary.BigEndian.Uint32(c[12+16*i+8:]) + binary.BigEndian.Uint32(c[12+16*i+12:])
			if e > end {
				end = e
			}
		}
		if r.Bool() && end > 0 {
			return c[:end-1]
		}
		return c[:end]
	})
	add("extend", func(c []byte) []byte { return append(c, make([]byte, r.Range(1, 5))...) })
	if n > 0 {
		i := r.Intn(n)
		e := 12 + 16*i
		add("tag-unprintable", func(c []byte) []byte {
			c[e+r.Intn(4)] = vlib.Pick(r, []byte{0, 0x1f, 0x7f, 0xff})
			return c
		})
		add("tag-duplicate", func(c []byte) []byte { j := r.Intn(n); copy(c[e:e+4], c[12+16*j:12+16*j+4]); return c })
		add("offset<12", func(c []byte) []byte { put32(c, e+8, uint32(r.Intn(12))); return c })
		add("offset-small", func(c []byte) []byte { put32(c, e+8, uint32(r.Range(12, 12+16*n))); return c })
		add("offset-shift", func(c []byte) []byte {
			o := binary.BigEndian.Uint32(c[e+8:])
			put32(c, e+8, o+uint32(r.Range(1, 8))-4)
			return c
		})
		add("offset-huge", func(c []byte) []byte { put32(c, e+8, vlib.Pick(r, []uint32{0x7fffffff, 0xfffffffc, 0xffffffff})); return c })
		add("length+", func(c []byte) []byte {
			l := binary.BigEndian.Uint32(c[e+12:])
			put32(c, e+12, l+uint32(r.Range(1, 9)))
			return c
		})
		add("length-wrap", func(c []byte) []byte {
			// offset + length passes 2^32
			o := binary.BigEndian.Uint32(c[e+8:])
			put32(c, e+12, -o+uint32(r.Intn(40)))
			return c
		})
		add("length-huge", func(c []byte) []byte { put32(c, e+12, vlib.Pick(r, []uint32{0x7fffffff, 0xfffffff0, 0xffffffff})); return c })
		add("end-wraps-to-0", func(c []byte) []byte {
			// the table with the largest offset ends at 2^32 exactly
			put32(c, e+8, 0xfffffffc)
			put32(c, e+12, 4)
			return c
		})
		add("checksum", func(c []byte) []byte { c[e+4+r.Intn(4)] ^= byte(1 << r.Intn(8)); return c })
		add("body-bit", func(c []byte) []byte {
			if len(c) > 12+16*n {
				c[r.Range(12+16*n, len(c)-1)] ^= byte(1 << r.Intn(8))
			}
			return c
		})
		add("dir-byte", func(c []byte) []byte { c[r.Range(4, 12+16*n-1)] = byte(r.Uint64()); return c })
		if n >= 2 {
			add("swap-entries", func(c []byte) []byte {
				j := (i + 1) % n
				var tmp [16]byte
				copy(tmp[:], c[e:e+16])
				copy(c[e:e+16], c[12+16*j:12+16*j+16])
				copy(c[12+16*j:], tmp[:])
				return c
			})
			add("alias-offsets", func(c []byte) []byte {
				j := (i + 1) % n
				copy(c[e+8:e+12], c[12+16*j+8:12+16*j+12])
				return c
			})
		}
	}
	return out, labels
}

// ---------------------------------------------------------------- Gen

// Gen writes the run for the given tier.
func Gen(run *vlib.Run, seed uint64, tier string) {
	run.Rule = "write: non-trivial = at least 2 tables written and at least one length not a multiple of 4; check: a container the walk accepts with >= 2 tables; readdir/readtabs: directory accepted by header.Read; cksum: >= 2 chunks and >= 5 bytes; distinct by the full case line"
	root := vlib.NewRand(seed)

	// (1) checksum, streaming against block, all chunkings of short data and random chunkings of long data
	r := root.Fork("cksum")
	for n := 0; n <= 9; n++ {
		data := randData(r, n)
		if n > 0 {
			data[0] = 0xff
		}
		// every split into at most 3 pieces
		for i := 0; i <= n; i++ {
			for j := i; j <= n; j++ {
				addCksum(run, [][]byte{data[:i], data[i:j], data[j:]}, "ck:exhaustive-3-split")
			}
		}
	}
	nck := vlib.Count(tier, 150, 3000)
	for i := 0; i < nck; i++ {
		n := randLen(r, vlib.Pick(r, []int{16, 64, 600, 5000}))
		data := randData(r, n)
		var chunks [][]byte
		for p := 0; p < n; {
			k := vlib.Pick(r, []int{0, 1, 1, 2, 3, 4, 5, 7, 8, r.Intn(64), r.Intn(n + 1)})
			if p+k > n {
				k = n - p
			}
			chunks = append(chunks, data[p:p+k])
			p += k
		}
		if r.Chance(1, 4) {
			chunks = append(chunks, nil)
		}
		addCksum(run, chunks, "ck:random")
	}

	// (2) table maps: boundary cases first
	r = root.Fork("write")
	addWrite(run, header.ScalerTypeTrueType, nil, "w:empty-map")
	addWrite(run, header.ScalerTypeTrueType, []tab{{name: "glyf", isNil: true}}, "w:only-nil")
	addWrite(run, header.ScalerTypeCFF, []tab{{name: "CFF ", data: []byte{}}}, "w:single-empty")
	addWrite(run, header.ScalerTypeTrueType, []tab{{name: "head", data: make([]byte, 12)}}, "w:head12")
	addWrite(run, header.ScalerTypeTrueType, []tab{{name: "head", data: make([]byte, 11)}, {name: "glyf", data: []byte{1}}}, "w:head11")
	addWrite(run, header.ScalerTypeTrueType, []tab{{name: "head", isNil: true}, {name: "glyf", data: []byte{1}}}, "w:head-nil")
	addWrite(run, header.ScalerTypeTrueType, []tab{{name: "glyf", data: []byte{1, 2, 3, 4, 5}}, {name: "loca", isNil: true}}, "w:nil-entry")
	addWrite(run, header.ScalerTypeTrueType, []tab{{name: "glyf", data: []byte{1, 2, 3, 4, 5}}, {name: "abc", data: []byte{1}}}, "w:misnamed-entry")
	{
		// all 19 prioritised tags plus others, every length class
		var ts []tab
		for i, nm := range prioList {
			ts = append(ts, tab{name: nm, data: randData(r, 12+i)})
		}
		for i, nm := range otherTags[:8] {
			ts = append(ts, tab{name: nm, data: randData(r, i)})
		}
		addWrite(run, header.ScalerTypeTrueType, ts, "w:all-prioritised")
	}
	for _, n := range []int{1, 2, 3, 4, 7, 8, 15, 16, 17, 31, 32, 33, 40} {
		// powers of two and neighbours: the search fields change here
		ts := randTabs(r, n, 8, r.Intn(2), false)
		addWrite(run, vlib.Pick(r, scalers), ts, "w:count-boundary")
	}

	nw := vlib.Count(tier, 140, 4000)
	for i := 0; i < nw; i++ {
		var nTab, maxLen int
		switch c := r.Intn(10); {
		case c < 5:
			nTab, maxLen = r.Range(0, 8), 64
		case c < 8:
			nTab, maxLen = r.Range(0, 20), 600
		case c < 9:
			nTab, maxLen = r.Range(0, 40), 200
		default:
			nTab, maxLen = r.Range(1, 40), 5000
		}
		headMode := vlib.Pick(r, []int{0, 0, 1, 1, 1, 1, 2, 3})
		malformed := r.Chance(1, 5)
		ts := randTabs(r, nTab, maxLen, headMode, malformed)
		stream := "w:valid-stream"
		if malformed {
			stream = "w:malformed-stream"
		}
		sc := randScaler(r)
		res := addWrite(run, sc, ts, stream)
		if res.panicked || res.err != nil {
			continue
		}
		// (3) the verified checker on the bytes the implementation produced
		if len(res.out) <= 40000 || r.Chance(1, 4) {
			addCheck(run, res.out, true, "check:writer-output")
		}
		// (4) header.Read on the output and on mutated directories
		if len(res.out) <= 6000 {
			addReadDir(run, res.out, true, "rd:writer-output")
			muts, labels := mutations(r, res.out)
			for j, m := range muts {
				if j == 0 {
					continue
				}
				if r.Chance(1, 3) || tier == "thorough" {
					addReadDir(run, m, r.Chance(1, 4), labels[j])
				}
				if r.Chance(1, 6) {
					addCheck(run, m, false, "check:mutated", labels[j])
				}
			}
		} else if len(res.out) <= 60000 {
			addReadDir(run, res.out, false, "rd:writer-output")
		}
	}

	// many tables: beyond the reader's limit of 280 and at the uint16 search-field limits
	r = root.Fork("many")
	manyCounts := []int{279, 280, 281}
	if tier == "thorough" {
		manyCounts = append(manyCounts, 255, 256, 257, 1023, 1024, 2047, 2048, 4095)
	}
	for _, n := range manyCounts {
		var ts []tab
		for i := 0; i < n; i++ {
			ts = append(ts, tab{name: fmt.Sprintf("%04d", i), data: randData(r, i%7)})
		}
		res := addWrite(run, header.ScalerTypeTrueType, ts, "w:many-tables")
		if !res.panicked && n <= 300 {
			addCheck(run, res.out, true, "check:writer-output")
			addReadDir(run, res.out, false, "rd:writer-output")
		}
	}

	// (5) complete fonts through the full writer, read by a second implementation
	genFonts(run, root.Fork("fonts"), tier)
	genConcurrent(run, root.Fork("concurrent"), tier)
}
