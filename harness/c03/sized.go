package c03

// Complete fonts built for the whole-font stream: TrueType fonts whose glyf
// table has an exact size (the loca format changes at 2*0xFFFF bytes; the
// short format stores offset/2 in 16 bits), fonts with one glyph and with many
// glyphs, CFF-outline fonts; and an independent minimal reading of the
// loca/glyf/maxp/head/hhea/hmtx (and CFF CharStrings) tables written from the
// OpenType text, which states the third clause of the property without the
// second implementation.

import (
	"bytes"
	"encoding/binary"
	"errors"
	"fmt"
	"strconv"
	"strings"

	xsfnt "golang.org/x/image/font/sfnt"
	"golang.org/x/image/math/fixed"

	"seehuhn.de/go/postscript/funit"
	"seehuhn.de/go/postscript/type1"

	"seehuhn.de/go/sfnt"
	"seehuhn.de/go/sfnt/cff"
	"seehuhn.de/go/sfnt/cmap"
	"seehuhn.de/go/sfnt/glyf"
	"seehuhn.de/go/sfnt/glyph"
	"seehuhn.de/go/sfnt/maxp"
)

const sigLoca = "c03-glyph-tables-inconsistent"

// fontSpec: "<base>[:key=value]..." e.g. "goregular:glyf=131072",
// "synth-ttf:glyphs=1", "synth-ttf:glyphs=40:glyf=65536", "synth-cff:glyphs=2000".
type fontSpec struct {
	base   string
	glyphs int // 0 = default
	glyf   int // 0 = natural size
	cmap   int // 0 = as is; 3 = (0,3)=A (3,1)=A (3,10)=B: a shared subtable followed by a distinct one; 4 = (0,3)=A (0,4)=B (3,1)=A (3,10)=B
}

func parseSpec(name string) (fontSpec, error) {
	parts := strings.Split(name, ":")
	s := fontSpec{base: parts[0]}
	for _, p := range parts[1:] {
		kv := strings.SplitN(p, "=", 2)
		if len(kv) != 2 {
			return s, errors.New("bad font parameter " + p)
		}
		n, err := strconv.Atoi(kv[1])
		if err != nil || n < 0 {
			return s, errors.New("bad font parameter " + p)
		}
		switch kv[0] {
		case "glyphs":
			s.glyphs = n
		case "glyf":
			s.glyf = n
		case "cmap":
			s.cmap = n
		default:
			return s, errors.New("unknown font parameter " + kv[0])
		}
	}
	return s, nil
}

// triangle number i: three on-curve points, 16-bit coordinates
func triPoints(i int) [3][2]int {
	x0, y0 := 10+i%97, -20+i%61
	w, h := 100+i%300, 150+(i*7)%500
	return [3][2]int{{x0, y0}, {x0 + w, y0}, {x0, y0 + h}}
}

// triGlyph encodes the triangle as a simple glyph with instr instruction bytes.
func triGlyph(i, instr int) *glyf.Glyph {
	p := triPoints(i)
	enc := []byte{0, 2, byte(instr >> 8), byte(instr)}
	for k := 0; k < instr; k++ {
		enc = append(enc, 0x01) // SVTCA[x]
	}
	enc = append(enc, 1, 1, 1) // on curve, x and y as 16-bit deltas
	put := func(v int) { enc = append(enc, byte(uint16(int16(v))>>8), byte(v)) }
	put(p[0][0])
	put(p[1][0] - p[0][0])
	put(p[2][0] - p[1][0])
	put(p[0][1])
	put(p[1][1] - p[0][1])
	put(p[2][1] - p[1][1])
	return &glyf.Glyph{
		Rect16: funit.Rect16{LLx: funit.Int16(p[0][0]), LLy: funit.Int16(p[0][1]), URx: funit.Int16(p[1][0]), URy: funit.Int16(p[2][1])},
		Data:   glyf.SimpleGlyph{NumContours: 1, Encoded: enc},
	}
}

func triSegs(i int) []seg {
	p := triPoints(i)
	pt := func(q [2]int) fixed.Point26_6 { return fixed.Point26_6{X: fixed.Int26_6(q[0] * 64), Y: fixed.Int26_6(-q[1] * 64)} }
	return []seg{
		{op: xsfnt.SegmentOpMoveTo, args: [3]fixed.Point26_6{pt(p[0])}},
		{op: xsfnt.SegmentOpLineTo, args: [3]fixed.Point26_6{pt(p[1])}},
		{op: xsfnt.SegmentOpLineTo, args: [3]fixed.Point26_6{pt(p[2])}},
	}
}

func synthName(i int) string {
	if i == 0 {
		return ".notdef"
	}
	return "tri" + strconv.Itoa(i)
}

func fillInfo(f *sfnt.Font, n int) {
	f.FamilyName = "Verif"
	f.UnitsPerEm = 1000
	f.Ascent, f.Descent, f.LineGap = 800, -200, 100
	f.CapHeight, f.XHeight = 700, 500
	m := cmap.Format4{}
	for i := 1; i < n && i < 600; i++ {
		m[uint16(0x40+i)] = glyph.ID(i)
	}
	if n == 1 {
		// a single glyph: map nothing (every rune goes to .notdef)
		m[0x41] = 0
	}
	f.InstallCMap(m)
}

// synthTTF: n glyphs; glyph 0 is blank unless it is the only one; every third
// glyph beyond is blank too (blank glyphs are a case of their own for loca);
// the last non-blank glyph gets the instruction block that brings the glyf
// table to exactly glyfSize bytes (0: no block).
func synthTTF(n, glyfSize int) (*sfnt.Font, map[int][]seg, error) {
	if n < 1 || n > 65535 {
		return nil, nil, errors.New("glyph count out of range")
	}
	o := &glyf.Outlines{Tables: map[string][]byte{},
		Maxp: &maxp.TTFInfo{MaxPoints: 3, MaxContours: 1, MaxZones: 2, MaxStackElements: 8}}
	want := map[int][]seg{}
	for i := 0; i < n; i++ {
		blank := (i == 0 && n > 1) || (i%3 == 2 && i != n-1)
		if blank {
			o.Glyphs = append(o.Glyphs, nil)
			want[i] = nil
		} else if glyfSize == 0 && n >= 12 && i >= 3 && i%11 == 5 {
			// a composite glyph: glyph 1 at offset (0,0); every second one
			// carries the WE_HAVE_INSTRUCTIONS flag with an EMPTY instruction
			// block (numInstr = 0: legal, written by some tools, and what the
			// library's decoder hands back for such a glyph)
			c := glyf.CompositeGlyph{Components: []glyf.GlyphComponent{{
				Flags: glyf.FlagArg1And2AreWords | glyf.FlagArgsAreXYValues, GlyphIndex: 1, Data: []byte{0, 0, 0, 0}}}}
			if i%22 == 5 {
				c.Components[0].Flags |= glyf.FlagWeHaveInstructions
				c.Instructions = []byte{}
			}
			o.Glyphs = append(o.Glyphs, &glyf.Glyph{Rect16: triGlyph(1, 0).Rect16, Data: c})
			want[i] = triSegs(1)
			o.Maxp.MaxComponentElements, o.Maxp.MaxComponentDepth = 1, 1
			o.Maxp.MaxCompositePoints, o.Maxp.MaxCompositeContours = 3, 1
		} else {
			o.Glyphs = append(o.Glyphs, triGlyph(i, 0))
			want[i] = triSegs(i)
		}
		o.Widths = append(o.Widths, funit.Int16(300+i%7))
		o.Names = append(o.Names, synthName(i))
	}
	if glyfSize > 0 {
		// instruction blocks of at most 65000 bytes on the last non-blank glyphs
		var hosts []int
		for i := n - 1; i >= 0 && len(hosts) < 8; i-- {
			if o.Glyphs[i] != nil {
				hosts = append(hosts, i)
			}
		}
		cur := len(o.Glyphs.Encode().GlyfData)
		need := glyfSize - cur
		if need < 0 {
			return nil, nil, fmt.Errorf("glyf table already has %d bytes", cur)
		}
		pads := make([]int, len(hosts))
		for j := range hosts {
			if j == len(hosts)-1 || need <= 65000 {
				pads[j] = need
				need = 0
				break
			}
			pads[j] = 65000
			need -= 65000
		}
		ok := false
		for adj := 0; adj <= 1 && !ok; adj++ {
			maxInstr := 0
			for j, g := range hosts {
				k := pads[j]
				if j == 0 {
					k -= adj
				}
				if k < 0 || k > 65535 {
					return nil, nil, fmt.Errorf("cannot reach a glyf table of %d bytes with %d glyphs", glyfSize, n)
				}
				o.Glyphs[g] = triGlyph(g, k)
				if k > maxInstr {
					maxInstr = k
				}
			}
			o.Maxp.MaxSizeOfInstructions = uint16(maxInstr)
			ok = len(o.Glyphs.Encode().GlyfData) == glyfSize
		}
		if !ok {
			return nil, nil, fmt.Errorf("cannot reach a glyf table of %d bytes from %d", glyfSize, cur)
		}
	}
	f := &sfnt.Font{Outlines: o}
	fillInfo(f, n)
	return f, want, nil
}

func synthCFF(n int) (*sfnt.Font, error) {
	if n < 1 || n > 65535 {
		return nil, errors.New("glyph count out of range")
	}
	gg := make([]*cff.Glyph, n)
	for i := range gg {
		g := cff.NewGlyph(synthName(i), float64(300+i%7))
		if !((i == 0 && n > 1) || (i%3 == 2 && i != n-1)) {
			p := triPoints(i)
			g.MoveTo(float64(p[0][0]), float64(p[0][1]))
			g.LineTo(float64(p[1][0]), float64(p[1][1]))
			g.LineTo(float64(p[2][0]), float64(p[2][1]))
		}
		gg[i] = g
	}
	o := &cff.Outlines{
		Glyphs:   gg,
		Private:  []*type1.PrivateDict{{BlueValues: []funit.Int16{-10, 0, 700, 710}, BlueScale: 0.039625, BlueShift: 7, BlueFuzz: 1, StdHW: 50, StdVW: 60}},
		FDSelect: func(glyph.ID) int { return 0 },
		Encoding: cff.StandardEncoding(gg),
	}
	f := &sfnt.Font{Outlines: o}
	fillInfo(f, n)
	return f, nil
}

// cutGlyf keeps the first n glyphs of a TrueType font read from a file (the Go
// fonts have no composite glyphs) and the part of the character map that
// refers to them; layout tables are dropped.
func cutGlyf(f *sfnt.Font, n int) error {
	o, ok := f.Outlines.(*glyf.Outlines)
	if !ok {
		return errors.New("not a TrueType font")
	}
	if n < 1 || n > len(o.Glyphs) {
		return errors.New("cannot cut to that many glyphs")
	}
	for _, g := range o.Glyphs[:n] {
		if g != nil {
			if _, simple := g.Data.(glyf.SimpleGlyph); !simple {
				return errors.New("composite glyph in the part kept")
			}
		}
	}
	no := *o
	no.Glyphs = append(glyf.Glyphs(nil), o.Glyphs[:n]...)
	no.Widths = append([]funit.Int16(nil), o.Widths[:n]...)
	if o.Names != nil {
		no.Names = append([]string(nil), o.Names[:n]...)
	}
	f.Outlines = &no
	f.Gdef, f.Gsub, f.Gpos = nil, nil, nil
	m := cmap.Format4{}
	if best, err := f.CMapTable.GetBest(); err == nil {
		for r := rune(0); r <= 0xFFFF; r++ {
			if g := best.Lookup(r); g != 0 && int(g) < n {
				m[uint16(r)] = g
			}
		}
	}
	f.InstallCMap(m)
	return nil
}

// padGlyf adds harmless instructions to the last simple glyph without
// instructions so that the encoded glyf table has exactly glyfSize bytes.
func padGlyf(f *sfnt.Font, glyfSize int) error {
	o, ok := f.Outlines.(*glyf.Outlines)
	if !ok {
		return errors.New("not a TrueType font")
	}
	cur := len(o.Glyphs.Encode().GlyfData)
	if cur > glyfSize {
		return fmt.Errorf("glyf table already has %d bytes", cur)
	}
	need := glyfSize - cur
	gid := -1
	for i := len(o.Glyphs) - 1; i >= 0; i-- {
		g := o.Glyphs[i]
		if g == nil {
			continue
		}
		if s, ok := g.Data.(glyf.SimpleGlyph); ok && s.NumContours > 0 && len(s.Encoded) >= 2*int(s.NumContours)+2 {
			pos := 2 * int(s.NumContours)
			il := int(s.Encoded[pos])<<8 | int(s.Encoded[pos+1])
			if il+need <= 65535 && len(s.Encoded) >= pos+2+il {
				gid = i
				break
			}
		}
	}
	if gid < 0 {
		return errors.New("no simple glyph that can take the instructions")
	}
	// the glyph is replaced by a copy: the font read from the file stays as it was
	src := o.Glyphs[gid]
	s := src.Data.(glyf.SimpleGlyph)
	pos := 2 * int(s.NumContours)
	il := int(s.Encoded[pos])<<8 | int(s.Encoded[pos+1])
	glyphs := append(glyf.Glyphs(nil), o.Glyphs...)
	o.Glyphs = glyphs
	for k := need; k >= 0 && k >= need-1; k-- {
		enc := make([]byte, 0, len(s.Encoded)+k)
		enc = append(enc, s.Encoded[:pos]...)
		enc = append(enc, byte((il+k)>>8), byte(il+k))
		enc = append(enc, s.Encoded[pos+2:pos+2+il]...)
		for i := 0; i < k; i++ {
			enc = append(enc, 0x01) // SVTCA[x] after the glyph's own program
		}
		enc = append(enc, s.Encoded[pos+2+il:]...)
		g := *src
		g.Data = glyf.SimpleGlyph{NumContours: s.NumContours, Encoded: enc}
		o.Glyphs[gid] = &g
		if o.Maxp != nil && int(o.Maxp.MaxSizeOfInstructions) < il+k {
			mx := *o.Maxp
			mx.MaxSizeOfInstructions = uint16(il + k)
			o.Maxp = &mx
		}
		if len(o.Glyphs.Encode().GlyfData) == glyfSize {
			return nil
		}
	}
	return fmt.Errorf("cannot reach a glyf table of %d bytes", glyfSize)
}

// ---------------------------------------------------------------- independent reading

// tablesOf slices the tables out of a container (directory format of the
// OpenType specification; the structural walk has accepted the file before).
func tablesOf(b []byte) (map[string][]byte, error) {
	if len(b) < 12 {
		return nil, errors.New("file shorter than the offset table")
	}
	n := int(binary.BigEndian.Uint16(b[4:]))
	if len(b) < 12+16*n {
		return nil, errors.New("directory outside the file")
	}
	res := map[string][]byte{}
	for i := 0; i < n; i++ {
		rec := b[12+16*i:]
		off := uint64(binary.BigEndian.Uint32(rec[8:]))
		l := uint64(binary.BigEndian.Uint32(rec[12:]))
		if off+l > uint64(len(b)) {
			return nil, fmt.Errorf("table %q outside the file", rec[:4])
		}
		res[string(rec[:4])] = b[off : off+l]
	}
	return res, nil
}

// simpleGlyphExtent: the number of bytes a simple glyph description occupies
// ("glyf" chapter: header, endPtsOfContours, instructionLength, instructions,
// flags with repeat counts, x coordinates, y coordinates).
func simpleGlyphExtent(g []byte, nc int) (int, error) {
	p := 10
	if len(g) < p+2*nc+2 {
		return 0, errors.New("endPtsOfContours outside the glyph")
	}
	npts := 0
	prev := -1
	for i := 0; i < nc; i++ {
		e := int(binary.BigEndian.Uint16(g[p+2*i:]))
		if e < prev {
			return 0, errors.New("endPtsOfContours decreasing")
		}
		prev = e
		npts = e + 1
	}
	p += 2 * nc
	il := int(binary.BigEndian.Uint16(g[p:]))
	p += 2 + il
	if p > len(g) {
		return 0, errors.New("instructions outside the glyph")
	}
	xs, ys := 0, 0
	for got := 0; got < npts; {
		if p >= len(g) {
			return 0, errors.New("flags outside the glyph")
		}
		fl := g[p]
		p++
		rep := 1
		if fl&0x08 != 0 {
			if p >= len(g) {
				return 0, errors.New("repeat count outside the glyph")
			}
			rep += int(g[p])
			p++
		}
		if got+rep > npts {
			return 0, errors.New("flag repeat passes the last point")
		}
		got += rep
		switch {
		case fl&0x02 != 0:
			xs += rep
		case fl&0x10 == 0:
			xs += 2 * rep
		}
		switch {
		case fl&0x04 != 0:
			ys += rep
		case fl&0x20 == 0:
			ys += 2 * rep
		}
	}
	p += xs + ys
	if p > len(g) {
		return 0, errors.New("coordinates outside the glyph")
	}
	return p, nil
}

// glyphTablesWalk: head.indexToLocFormat, maxp.numGlyphs, loca, glyf, hhea and
// hmtx of a TrueType-outline file agree the way the specification says; for a
// CFF-outline file the CharStrings INDEX has maxp.numGlyphs entries.
// Returns the glyph count it found.
func glyphTablesWalk(b []byte, stats map[string]int) (int, error) {
	tt, err := tablesOf(b)
	if err != nil {
		return 0, err
	}
	mx, hd := tt["maxp"], tt["head"]
	if len(mx) < 6 {
		return 0, errors.New("maxp table shorter than 6 bytes")
	}
	if len(hd) < 54 {
		return 0, errors.New("head table shorter than 54 bytes")
	}
	if binary.BigEndian.Uint32(hd[12:]) != 0x5F0F3CF5 {
		return 0, errors.New("head.magicNumber")
	}
	n := int(binary.BigEndian.Uint16(mx[4:]))
	hh, hm := tt["hhea"], tt["hmtx"]
	if len(hh) < 36 {
		return 0, errors.New("hhea table shorter than 36 bytes")
	}
	nh := int(binary.BigEndian.Uint16(hh[34:]))
	if nh > n {
		return 0, fmt.Errorf("numberOfHMetrics %d above numGlyphs %d", nh, n)
	}
	if len(hm) != 4*nh+2*(n-nh) {
		return 0, fmt.Errorf("hmtx has %d bytes, numberOfHMetrics %d and numGlyphs %d need %d", len(hm), nh, n, 4*nh+2*(n-nh))
	}
	scaler := binary.BigEndian.Uint32(b)
	if scaler == 0x4F54544F {
		cnt, err := cffCharStringsCount(tt["CFF "])
		if err != nil {
			return 0, fmt.Errorf("CFF table: %v", err)
		}
		if cnt != n {
			return 0, fmt.Errorf("CharStrings INDEX has %d entries, maxp.numGlyphs is %d", cnt, n)
		}
		stats["walk-cff"]++
		return n, nil
	}
	format := int16(binary.BigEndian.Uint16(hd[50:]))
	loca, gl := tt["loca"], tt["glyf"]
	if _, ok := tt["loca"]; !ok {
		return 0, errors.New("no loca table")
	}
	offs := make([]int, n+1)
	switch format {
	case 0:
		if len(loca) != 2*(n+1) {
			return 0, fmt.Errorf("indexToLocFormat 0, numGlyphs %d: loca has %d bytes, not %d", n, len(loca), 2*(n+1))
		}
		for i := range offs {
			offs[i] = 2 * int(binary.BigEndian.Uint16(loca[2*i:]))
		}
	case 1:
		if len(loca) != 4*(n+1) {
			return 0, fmt.Errorf("indexToLocFormat 1, numGlyphs %d: loca has %d bytes, not %d", n, len(loca), 4*(n+1))
		}
		for i := range offs {
			offs[i] = int(binary.BigEndian.Uint32(loca[4*i:]))
		}
	default:
		return 0, fmt.Errorf("head.indexToLocFormat = %d", format)
	}
	if offs[0] != 0 {
		return 0, fmt.Errorf("loca[0] = %d", offs[0])
	}
	for i := 0; i < n; i++ {
		if offs[i] > offs[i+1] {
			return 0, fmt.Errorf("loca (format %d, glyf table of %d bytes): glyph %d has offsets %d..%d", format, len(gl), i, offs[i], offs[i+1])
		}
	}
	if offs[n] != len(gl) {
		return 0, fmt.Errorf("loca (format %d): loca[numGlyphs] = %d, the glyf table has %d bytes", format, offs[n], len(gl))
	}
	for i := 0; i < n; i++ {
		g := gl[offs[i]:offs[i+1]]
		if len(g) == 0 {
			stats["walk-blank"]++
			continue
		}
		if len(g) < 10 {
			return 0, fmt.Errorf("glyph %d has %d bytes, less than a glyph header", i, len(g))
		}
		nc := int(int16(binary.BigEndian.Uint16(g)))
		if nc >= 0 {
			ext, err := simpleGlyphExtent(g, nc)
			if err != nil {
				return 0, fmt.Errorf("glyph %d: %v", i, err)
			}
			if len(g)-ext >= 4 {
				return 0, fmt.Errorf("glyph %d: description ends at %d, loca gives it %d bytes", i, ext, len(g))
			}
			stats["walk-simple"]++
		} else {
			stats["walk-composite"]++
		}
	}
	stats["walk-loca-format-"+strconv.Itoa(int(format))]++
	return n, nil
}

// cffCharStringsCount: the count field of the CharStrings INDEX of the first
// (only) font of a CFF table (Adobe Technical Note 5176: header, Name INDEX,
// Top DICT INDEX; operator 17 of the Top DICT is the CharStrings offset).
func cffCharStringsCount(c []byte) (int, error) {
	if len(c) < 4 || c[0] != 1 {
		return 0, errors.New("header")
	}
	p := int(c[2])
	index := func(p int) (items [][]byte, next int, err error) {
		if p+2 > len(c) {
			return nil, 0, errors.New("INDEX count outside the table")
		}
		cnt := int(binary.BigEndian.Uint16(c[p:]))
		if cnt == 0 {
			return nil, p + 2, nil
		}
		if p+3 > len(c) {
			return nil, 0, errors.New("INDEX offSize outside the table")
		}
		os := int(c[p+2])
		if os < 1 || os > 4 || p+3+os*(cnt+1) > len(c) {
			return nil, 0, errors.New("INDEX offsets outside the table")
		}
		rd := func(i int) int {
			v := 0
			for _, x := range c[p+3+os*i : p+3+os*i+os] {
				v = v<<8 | int(x)
			}
			return v
		}
		base := p + 3 + os*(cnt+1) - 1
		for i := 0; i < cnt; i++ {
			a, e := rd(i), rd(i+1)
			if a < 1 || e < a || base+e > len(c) {
				return nil, 0, errors.New("INDEX data outside the table")
			}
			items = append(items, c[base+a:base+e])
		}
		return items, base + rd(cnt), nil
	}
	names, p, err := index(p)
	if err != nil {
		return 0, err
	}
	if len(names) != 1 {
		return 0, fmt.Errorf("Name INDEX has %d entries", len(names))
	}
	tops, _, err := index(p)
	if err != nil {
		return 0, err
	}
	if len(tops) != 1 {
		return 0, fmt.Errorf("Top DICT INDEX has %d entries", len(tops))
	}
	d := tops[0]
	var stack []int
	csOff := -1
	for i := 0; i < len(d); {
		b0 := int(d[i])
		switch {
		case b0 >= 32 && b0 <= 246:
			stack = append(stack, b0-139)
			i++
		case b0 >= 247 && b0 <= 250 && i+1 < len(d):
			stack = append(stack, (b0-247)*256+int(d[i+1])+108)
			i += 2
		case b0 >= 251 && b0 <= 254 && i+1 < len(d):
			stack = append(stack, -(b0-251)*256-int(d[i+1])-108)
			i += 2
		case b0 == 28 && i+2 < len(d):
			stack = append(stack, int(int16(binary.BigEndian.Uint16(d[i+1:]))))
			i += 3
		case b0 == 29 && i+4 < len(d):
			stack = append(stack, int(int32(binary.BigEndian.Uint32(d[i+1:]))))
			i += 5
		case b0 == 30: // real number: skip to the end nibble
			i++
			for i < len(d) {
				x := d[i]
				i++
				if x&0x0f == 0x0f || x>>4 == 0x0f {
					break
				}
			}
			stack = append(stack, 0)
		case b0 == 12:
			stack = stack[:0]
			i += 2
		case b0 <= 21:
			if b0 == 17 && len(stack) > 0 {
				csOff = stack[len(stack)-1]
			}
			stack = stack[:0]
			i++
		default:
			return 0, errors.New("Top DICT: unexpected byte")
		}
	}
	if csOff < 0 || csOff+2 > len(c) {
		return 0, errors.New("no CharStrings offset in the Top DICT")
	}
	return int(binary.BigEndian.Uint16(c[csOff:])), nil
}

// readBack: the library's own reader on the written file (glyph count only;
// the full comparison is C01's business).
func readBack(out []byte) (n int, err error) {
	defer func() {
		if e := recover(); e != nil {
			err = fmt.Errorf("panic: %v", e)
		}
	}()
	f, err := sfnt.Read(bytes.NewReader(out))
	if err != nil {
		return 0, err
	}
	return f.NumGlyphs(), nil
}
