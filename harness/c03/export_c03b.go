package c03

// Exported wrappers used by part C03B (harness/c03b): C03's independent
// structural walk of a container, its table slicer and minimal glyph-table
// reader written from the specification, and its synthetic fonts.  Add-only;
// nothing in package c03 uses these.

import "seehuhn.de/go/sfnt"

// Walk checks every clause of the container property on a byte string.
func Walk(b []byte) error { return walk(b) }

// TablesOf slices the tables out of a container.
func TablesOf(b []byte) (map[string][]byte, error) { return tablesOf(b) }

// GlyphTablesWalk checks that head, maxp, hhea, hmtx, loca, glyf (or the CFF
// CharStrings INDEX) agree and returns the glyph count.
func GlyphTablesWalk(b []byte) (int, error) { return glyphTablesWalk(b, map[string]int{}) }

// CFFCharStringsCount returns the number of charstrings of a CFF table.
func CFFCharStringsCount(c []byte) (int, error) { return cffCharStringsCount(c) }

// RefChecksum is the OpenType table checksum written from the text.
func RefChecksum(d []byte) uint32 { return refChecksum(d) }

// SynthTTF builds a TrueType font of n triangles in memory.
func SynthTTF(n int) (*sfnt.Font, error) {
	f, _, err := synthTTF(n, 0)
	return f, err
}

// SynthTTFSized builds a TrueType font of n triangles whose glyf table has
// exactly glyfSize bytes (above 131070 the long loca format is needed).
func SynthTTFSized(n, glyfSize int) (*sfnt.Font, error) {
	f, _, err := synthTTF(n, glyfSize)
	return f, err
}

// SynthCFF builds a CFF font of n triangles in memory.
func SynthCFF(n int) (*sfnt.Font, error) { return synthCFF(n) }
