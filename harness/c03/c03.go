// Package c03 drives header.Write / header.Read (and the complete font writer)
// with generated table maps and records the observations in the syntax the Coq
// model of C03 prints.  Its oracle states the property directly: an
// independent structural walk over the bytes produced (directory, search
// fields, alignment, layout, checksums, head adjustment), a round trip through
// header.Read + ReadTableBytes and, for complete fonts, a second sfnt
// implementation (golang.org/x/image/font/sfnt).
package c03

import (
	"bytes"
	"encoding/binary"
	"errors"
	"fmt"
	"sort"

	"seehuhn.de/go/sfnt/header"
	"seehuhn.de/go/sfnt/verifharness/vlib"
)

// ---------------------------------------------------------------- table maps

type tab struct {
	name  string
	data  []byte
	isNil bool
}

func sortTabs(ts []tab) {
	sort.Slice(ts, func(i, j int) bool { return ts[i].name < ts[j].name })
}

func tabsSx(ts []tab) vlib.Sx {
	l := vlib.List{}
	for _, t := range ts {
		if t.isNil {
			l = append(l, vlib.L(vlib.Hex([]byte(t.name)), vlib.Atom("nil")))
		} else {
			l = append(l, vlib.L(vlib.Hex([]byte(t.name)), vlib.Hex(t.data)))
		}
	}
	return l
}

func writeLine(kind string, scaler uint32, ts []tab) string {
	return vlib.Line(vlib.Atom(kind), vlib.U64(uint64(scaler)), tabsSx(ts))
}

type writeResult struct {
	panicked bool
	panicMsg string
	out      []byte
	n        int64
	err      error
	after    map[string][]byte // the caller's map after the call (head is patched in place)
	// non-empty when header.Write changed bytes of the caller's tables other than
	// the head checksum field, or bytes behind them in the same backing array
	inputChanged string
}

// runWrite calls header.Write on a private copy of the tables.  The copies are
// adjacent sub-slices of ONE backing array (the way a caller re-packing an
// in-memory font file passes them: data[off:off+len], capacity reaching into the
// following tables), followed by sentinel bytes; header.Write is documented to change
// the checksum field of the head table in place and nothing else.
func runWrite(scaler uint32, ts []tab) (res writeResult) {
	m := make(map[string][]byte, len(ts))
	total := 0
	for _, t := range ts {
		total += len(t.data)
	}
	const nSentinel = 8
	shared := make([]byte, 0, total+nSentinel)
	type span struct{ a, b int }
	spans := make([]span, len(ts))
	// tag order (ts is sorted): for tables of equal priority the neighbour in
	// memory is written later; prioritised tables end up with arbitrary neighbours
	for i := 0; i < len(ts); i++ {
		t := ts[i]
		a := len(shared)
		if !t.isNil {
			shared = append(shared, t.data...)
		}
		spans[i] = span{a, len(shared)}
	}
	for i := 0; i < nSentinel; i++ {
		shared = append(shared, 0xA5)
	}
	for i, t := range ts {
		if t.isNil {
			m[t.name] = nil
		} else {
			m[t.name] = shared[spans[i].a:spans[i].b] // capacity extends to the end of the array
		}
	}
	res.after = m
	buf := &bytes.Buffer{}
	func() {
		defer func() {
			if e := recover(); e != nil {
				res.panicked = true
				res.panicMsg = fmt.Sprint(e)
			}
		}()
		res.n, res.err = header.Write(buf, scaler, m)
	}()
	res.out = buf.Bytes()
	// input integrity
	for i, t := range ts {
		if t.isNil {
			continue
		}
		got := shared[spans[i].a:spans[i].b]
		if !eqExceptAdj(got, t.data, t.name == "head") && res.inputChanged == "" {
			res.inputChanged = fmt.Sprintf("the caller's data of table %q changed from % x to % x", t.name, clip(t.data), clip(got))
		}
	}
	for i := 0; i < nSentinel; i++ {
		if shared[total+i] != 0xA5 && res.inputChanged == "" {
			res.inputChanged = fmt.Sprintf("byte %d behind the caller's last table was overwritten (%#x)", i, shared[total+i])
		}
	}
	return res
}

func clip(b []byte) []byte {
	if len(b) > 24 {
		return b[:24]
	}
	return b
}

func (r writeResult) obs() string {
	if r.panicked {
		return "panic"
	}
	if r.err != nil {
		return "err"
	}
	return vlib.Str(vlib.L(vlib.Atom("ok"), vlib.Hex(r.out)))
}

// ---------------------------------------------------------------- the walk

type dirEntry struct {
	tag      [4]byte
	sum      uint32
	off, len uint32
}

// refChecksum: OpenType "Calculating checksums", written from the text.
func refChecksum(d []byte) uint32 {
	var s uint32
	for i := 0; i < len(d); i += 4 {
		var w uint32
		for j := 0; j < 4; j++ {
			w <<= 8
			if i+j < len(d) {
				w |= uint32(d[i+j])
			}
		}
		s += w
	}
	return s
}

func floorLog2(n int) int {
	e := 0
	for (1 << (e + 1)) <= n {
		e++
	}
	return e
}

// walk checks every clause of the property on a byte string.  It returns nil
// when the bytes are a well-formed container in the sense of C03.
func walk(b []byte) error {
	if len(b) < 12 {
		return errors.New("shorter than the offset table")
	}
	n := int(binary.BigEndian.Uint16(b[4:]))
	if n < 1 {
		return errors.New("no tables")
	}
	if 12+16*n > len(b) {
		return errors.New("directory beyond the end of the file")
	}
	es := floorLog2(n)
	if got := int(binary.BigEndian.Uint16(b[6:])); got != 16<<es {
		return fmt.Errorf("searchRange %d, want %d", got, 16<<es)
	}
	if got := int(binary.BigEndian.Uint16(b[8:])); got != es {
		return fmt.Errorf("entrySelector %d, want %d", got, es)
	}
	if got := int(binary.BigEndian.Uint16(b[10:])); got != 16*n-(16<<es) {
		return fmt.Errorf("rangeShift %d, want %d", got, 16*n-(16<<es))
	}
	dir := make([]dirEntry, n)
	for i := range dir {
		e := b[12+16*i:]
		copy(dir[i].tag[:], e[:4])
		dir[i].sum = binary.BigEndian.Uint32(e[4:])
		dir[i].off = binary.BigEndian.Uint32(e[8:])
		dir[i].len = binary.BigEndian.Uint32(e[12:])
	}
	for i := 1; i < n; i++ {
		if bytes.Compare(dir[i-1].tag[:], dir[i].tag[:]) >= 0 {
			return fmt.Errorf("directory not strictly sorted at entry %d", i)
		}
	}
	flen := uint64(len(b))
	var sumPadded uint64
	for i, e := range dir {
		if e.off%4 != 0 {
			return fmt.Errorf("table %d not on a 4-byte boundary", i)
		}
		if uint64(e.off) < uint64(12+16*n) {
			return fmt.Errorf("table %d starts inside the directory", i)
		}
		if uint64(e.off)+uint64(e.len) > flen {
			return fmt.Errorf("table %d extends beyond the file", i)
		}
		sumPadded += (uint64(e.len) + 3) / 4 * 4
	}
	if flen != uint64(12+16*n)+sumPadded {
		return fmt.Errorf("file length %d, want %d", flen, uint64(12+16*n)+sumPadded)
	}
	for i := range dir {
		for j := i + 1; j < n; j++ {
			a, c := dir[i], dir[j]
			if !(uint64(a.off)+uint64(a.len) <= uint64(c.off) || uint64(c.off)+uint64(c.len) <= uint64(a.off)) {
				return fmt.Errorf("tables %d and %d overlap", i, j)
			}
		}
	}
	// consecutive layout: sorted by offset, every table starts where the
	// previous padded one ends
	phys := append([]dirEntry(nil), dir...)
	sort.SliceStable(phys, func(i, j int) bool {
		if phys[i].off != phys[j].off {
			return phys[i].off < phys[j].off
		}
		return phys[i].len < phys[j].len
	})
	pos := uint64(12 + 16*n)
	for _, e := range phys {
		if uint64(e.off) != pos {
			return fmt.Errorf("gap or overlap before offset %d (expected %d)", e.off, pos)
		}
		end := uint64(e.off) + uint64(e.len)
		pos = (end + 3) / 4 * 4
		for k := end; k < pos; k++ {
			if b[k] != 0 {
				return fmt.Errorf("padding byte at %d is not zero", k)
			}
		}
	}
	if pos != flen {
		return errors.New("trailing bytes after the last table")
	}
	hasHead := false
	for i, e := range dir {
		body := b[e.off : uint64(e.off)+uint64(e.len)]
		if string(e.tag[:]) == "head" && e.len >= 12 {
			hasHead = true
			body = append([]byte(nil), body...)
			copy(body[8:12], []byte{0, 0, 0, 0})
		}
		if refChecksum(body) != e.sum {
			return fmt.Errorf("checksum of table %d (%q) wrong", i, e.tag)
		}
	}
	if hasHead && refChecksum(b) != 0xB1B0AFBA {
		return fmt.Errorf("whole-file checksum %#x", refChecksum(b))
	}
	return nil
}

// ---------------------------------------------------------------- header.Read

func printableName(s string) bool {
	if len(s) != 4 {
		return false
	}
	for i := 0; i < 4; i++ {
		if s[i] < 0x20 || s[i] > 0x7e {
			return false
		}
	}
	return true
}

func tagVal(s string) uint64 {
	return uint64(s[0])<<24 | uint64(s[1])<<16 | uint64(s[2])<<8 | uint64(s[3])
}

func readInfo(b []byte) (info *header.Info, panicked bool, err error) {
	defer func() {
		if e := recover(); e != nil {
			panicked = true
		}
	}()
	info, err = header.Read(bytes.NewReader(b))
	return
}

func readDirObs(b []byte, withData bool) string {
	info, panicked, err := readInfo(b)
	if panicked {
		return "panic"
	}
	if err != nil {
		return "err"
	}
	names := make([]string, 0, len(info.Toc))
	for nm := range info.Toc {
		names = append(names, nm)
	}
	sort.Strings(names)
	l := vlib.List{}
	for _, nm := range names {
		rec := info.Toc[nm]
		e := vlib.List{vlib.U64(tagVal(nm)), vlib.U64(uint64(rec.Offset)), vlib.U64(uint64(rec.Length))}
		if withData {
			var data []byte
			var rerr error
			func() {
				defer func() {
					if e := recover(); e != nil {
						rerr = errors.New("panic")
					}
				}()
				data, rerr = info.ReadTableBytes(bytes.NewReader(b), nm)
			}()
			if rerr != nil {
				return "tableerr"
			}
			e = append(e, vlib.Hex(data))
		}
		l = append(l, e)
	}
	return vlib.Str(vlib.L(vlib.Atom("ok"), vlib.U64(uint64(info.ScalerType)), l))
}

func validScaler(s uint32) bool {
	return s == header.ScalerTypeTrueType || s == header.ScalerTypeCFF || s == header.ScalerTypeApple
}

// ---------------------------------------------------------------- oracle for one write

const (
	sigNilCount  = "c03-write-counts-nil-or-misnamed-entries"
	sigShortHead = "c03-write-panics-on-short-head"
	sigPanic     = "c03-write-panic"
	sigWalk      = "c03-container-malformed"
	sigRound     = "c03-read-back-differs"
	sigCount     = "c03-write-count-wrong"
	sigInput     = "c03-write-modifies-input"
)

// written returns the entries header.Write is documented to write.
func written(ts []tab) []tab {
	var w []tab
	for _, t := range ts {
		if !t.isNil && len(t.name) == 4 {
			w = append(w, t)
		}
	}
	return w
}

func eqExceptAdj(a, b []byte, isHead bool) bool {
	if len(a) != len(b) {
		return false
	}
	for i := range a {
		if isHead && len(a) >= 12 && i >= 8 && i < 12 {
			continue
		}
		if a[i] != b[i] {
			return false
		}
	}
	return true
}

// writeOracle states the property on one call of header.Write.
func writeOracle(scaler uint32, ts []tab, res writeResult) (detail, sig string) {
	w := written(ts)
	if res.panicked {
		if len(w) == 0 {
			return "", "" // no table to write: no file is produced (reported, not a violation)
		}
		for _, t := range ts {
			if t.name == "head" && len(t.data) < 12 {
				return "header.Write panics for a head entry shorter than 12 bytes: " + res.panicMsg, sigShortHead
			}
		}
		return "header.Write panics: " + res.panicMsg, sigPanic
	}
	if res.err != nil {
		return "header.Write to a bytes.Buffer returned an error: " + res.err.Error(), sigPanic
	}
	if res.n != int64(len(res.out)) {
		return fmt.Sprintf("returned count %d, %d bytes written", res.n, len(res.out)), sigCount
	}
	if res.inputChanged != "" {
		return "header.Write modified its input beyond the head checksum field: " + res.inputChanged, sigInput
	}
	if err := walk(res.out); err != nil {
		sig := sigWalk
		if len(w) != len(ts) {
			// distinguishes the known pre-fix behaviour from anything else
			if n := int(binary.BigEndian.Uint16(res.out[4:])); n == len(ts) {
				sig = sigNilCount
			}
		}
		return "structural walk: " + err.Error(), sig
	}
	if int(binary.BigEndian.Uint32(res.out[0:])) != int(scaler) {
		return "scaler type not written", sigWalk
	}
	if int(binary.BigEndian.Uint16(res.out[4:])) != len(w) {
		return fmt.Sprintf("numTables %d, %d tables given", binary.BigEndian.Uint16(res.out[4:]), len(w)), sigNilCount
	}
	// every written table is in the directory with exactly its bytes
	allPrintable := true
	for _, t := range w {
		if !printableName(t.name) {
			allPrintable = false
		}
		found := false
		n := len(w)
		for i := 0; i < n; i++ {
			e := res.out[12+16*i:]
			if string(e[:4]) == t.name {
				off := binary.BigEndian.Uint32(e[8:])
				ln := binary.BigEndian.Uint32(e[12:])
				found = true
				if !eqExceptAdj(res.out[off:off+ln], t.data, t.name == "head") {
					return "table " + t.name + " not stored byte for byte", sigRound
				}
			}
		}
		if !found {
			return "table " + t.name + " missing from the directory", sigRound
		}
	}
	// round trip through header.Read
	if validScaler(scaler) && allPrintable && len(w) <= 280 {
		info, panicked, err := readInfo(res.out)
		if panicked || err != nil {
			return fmt.Sprintf("header.Read rejects the output (panic=%v err=%v)", panicked, err), sigRound
		}
		if info.ScalerType != scaler || len(info.Toc) != len(w) {
			return "header.Read: scaler type or table count differ", sigRound
		}
		for _, t := range w {
			data, err := info.ReadTableBytes(bytes.NewReader(res.out), t.name)
			if err != nil || !eqExceptAdj(data, t.data, t.name == "head") {
				return "ReadTableBytes(" + t.name + ") differs from the table written", sigRound
			}
		}
	}
	return "", ""
}

// ---------------------------------------------------------------- cases

func addWrite(run *vlib.Run, scaler uint32, ts []tab, extra ...string) writeResult {
	sortTabs(ts)
	line := writeLine("write", scaler, ts)
	res := runWrite(scaler, ts)
	w := written(ts)
	labels := append([]string{"kind:write"}, extra...)
	labels = append(labels, fmt.Sprintf("tables:%s", bucket(len(w))))
	nonMult := false
	hasHead := "head:none"
	for _, t := range ts {
		if t.name == "head" {
			switch {
			case t.isNil:
				hasHead = "head:nil"
			case len(t.data) < 12:
				hasHead = "head:short"
			default:
				hasHead = "head:ok"
			}
		}
		if t.isNil {
			labels = append(labels, "entry:nil")
		} else if len(t.name) != 4 {
			labels = append(labels, "entry:misnamed")
		} else {
			labels = append(labels, fmt.Sprintf("len%%4:%d", len(t.data)%4))
			if len(t.data) == 0 {
				labels = append(labels, "len:0")
			}
			if len(t.data)%4 != 0 {
				nonMult = true
			}
			if _, ok := prioTags[t.name]; ok {
				labels = append(labels, "tag:prioritised")
			} else {
				labels = append(labels, "tag:other")
			}
		}
	}
	labels = append(labels, hasHead)
	if res.panicked {
		labels = append(labels, "result:panic")
	} else {
		labels = append(labels, "result:ok")
	}
	if validScaler(scaler) {
		labels = append(labels, "scaler:valid")
	} else {
		labels = append(labels, "scaler:other")
	}
	idx := run.Add(line, res.obs(), len(w) >= 2 && nonMult, labels...)
	if d, s := writeOracle(scaler, ts, res); d != "" {
		run.Fail(idx, line, d, s)
	}
	return res
}

func bucket(n int) string {
	switch {
	case n == 0:
		return "0"
	case n == 1:
		return "1"
	case n <= 4:
		return "2-4"
	case n <= 16:
		return "5-16"
	case n <= 40:
		return "17-40"
	}
	return ">40"
}

func boolObs(ok bool) string {
	if ok {
		return "1"
	}
	return "0"
}

// addCheck: the verified checker (model side) against the independent walk
// (implementation side) on the same bytes.  expectOK: the bytes were produced
// by the writer, so the property demands that they pass.
func addCheck(run *vlib.Run, b []byte, expectOK bool, labels ...string) {
	line := vlib.Line(vlib.Atom("check"), vlib.Hex(b))
	err := walk(b)
	labels = append(labels, "kind:check", "walk:"+boolObs(err == nil))
	idx := run.Add(line, boolObs(err == nil), err == nil && len(b) >= 44, labels...)
	if expectOK && err != nil {
		run.Fail(idx, line, "writer output fails the structural walk: "+err.Error(), sigWalk)
	}
}

func addReadDir(run *vlib.Run, b []byte, withData bool, labels ...string) {
	kind := "readdir"
	if withData {
		kind = "readtabs"
	}
	line := vlib.Line(vlib.Atom(kind), vlib.Hex(b))
	obs := readDirObs(b, withData)
	res := "accept"
	if obs == "err" {
		res = "reject"
	} else if obs == "panic" || obs == "tableerr" {
		res = obs
	}
	labels = append(labels, "kind:"+kind, "read:"+res)
	idx := run.Add(line, obs, res == "accept", labels...)
	if obs == "panic" {
		run.Fail(idx, line, "header.Read panics", "c03-read-panic")
	}
}

func addCksum(run *vlib.Run, chunks [][]byte, labels ...string) {
	l := vlib.List{}
	total := 0
	var all []byte
	for _, c := range chunks {
		l = append(l, vlib.Hex(c))
		total += len(c)
		all = append(all, c...)
	}
	line := vlib.Line(vlib.Atom("cksum"), l)
	var stream, block uint32
	var ns []int
	panicked := false
	func() {
		defer func() {
			if e := recover(); e != nil {
				panicked = true
			}
		}()
		stream, ns = header.VerifC03ChecksumChunks(chunks)
		block = header.VerifC03Checksum(all)
	}()
	obs := vlib.Str(vlib.L(vlib.U64(uint64(stream)), vlib.U64(uint64(block))))
	if panicked {
		obs = "panic"
	}
	labels = append(labels, "kind:cksum", fmt.Sprintf("cklen%%4:%d", total%4), "chunks:"+bucket(len(chunks)))
	idx := run.Add(line, obs, len(chunks) >= 2 && total >= 5, labels...)
	ref := refChecksum(all)
	if panicked || stream != ref || block != ref {
		run.Fail(idx, line, fmt.Sprintf("checksum: streaming %#x block %#x specification %#x", stream, block, ref), "c03-checksum")
	}
	for i, c := range chunks {
		if !panicked && ns[i] != len(c) {
			run.Fail(idx, line, "check.Write reports a wrong byte count", "c03-checksum")
		}
	}
}

// ---------------------------------------------------------------- RunCase

func parseTabs(x vlib.Sx) ([]tab, error) {
	l, err := vlib.AsList(x)
	if err != nil {
		return nil, err
	}
	var ts []tab
	for _, e := range l {
		pr, err := vlib.AsList(e)
		if err != nil || len(pr) != 2 {
			return nil, errors.New("bad table entry")
		}
		nm, err := vlib.AsBytes(pr[0])
		if err != nil {
			return nil, err
		}
		if a, ok := pr[1].(vlib.Atom); ok && a == "nil" {
			ts = append(ts, tab{name: string(nm), isNil: true})
			continue
		}
		d, err := vlib.AsBytes(pr[1])
		if err != nil {
			return nil, err
		}
		if d == nil {
			d = []byte{}
		}
		ts = append(ts, tab{name: string(nm), data: d})
	}
	return ts, nil
}

// RunCase re-executes one case line.
func RunCase(line string) (impl, fail, sig string, err error) {
	if len(line) > 0 && line[0] == '!' {
		return runOracleOnly(line)
	}
	items, err := vlib.Parse(line)
	if err != nil {
		return "", "", "", err
	}
	if len(items) < 2 {
		return "", "", "", errors.New("C03 case: too few items")
	}
	kind, err := vlib.AsAtom(items[0])
	if err != nil {
		return "", "", "", err
	}
	switch kind {
	case "write":
		if len(items) != 3 {
			return "", "", "", errors.New("write: want 3 items")
		}
		sc, err := vlib.AsI64(items[1])
		if err != nil {
			return "", "", "", err
		}
		ts, err := parseTabs(items[2])
		if err != nil {
			return "", "", "", err
		}
		res := runWrite(uint32(sc), ts)
		d, s := writeOracle(uint32(sc), ts, res)
		return res.obs(), d, s, nil
	case "check":
		b, err := vlib.AsBytes(items[1])
		if err != nil {
			return "", "", "", err
		}
		return boolObs(walk(b) == nil), "", "", nil
	case "readdir", "readtabs":
		b, err := vlib.AsBytes(items[1])
		if err != nil {
			return "", "", "", err
		}
		obs := readDirObs(b, kind == "readtabs")
		if obs == "panic" {
			return obs, "header.Read panics", "c03-read-panic", nil
		}
		return obs, "", "", nil
	case "cksum":
		l, err := vlib.AsList(items[1])
		if err != nil {
			return "", "", "", err
		}
		var chunks [][]byte
		var all []byte
		for _, x := range l {
			c, err := vlib.AsBytes(x)
			if err != nil {
				return "", "", "", err
			}
			chunks = append(chunks, c)
			all = append(all, c...)
		}
		stream, _ := header.VerifC03ChecksumChunks(chunks)
		block := header.VerifC03Checksum(all)
		obs := vlib.Str(vlib.L(vlib.U64(uint64(stream)), vlib.U64(uint64(block))))
		if ref := refChecksum(all); stream != ref || block != ref {
			return obs, fmt.Sprintf("checksum: streaming %#x block %#x specification %#x", stream, block, ref), "c03-checksum", nil
		}
		return obs, "", "", nil
	}
	return "", "", "", errors.New("C03 case: unknown kind " + kind)
}
