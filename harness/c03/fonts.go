package c03

// Complete fonts written with (*sfnt.Font).Write and read by a second sfnt
// implementation, golang.org/x/image/font/sfnt.  These are oracle-only cases
// ("!font <name>"): the Coq model covers the container, not the table
// contents; the comparison is differential testing that supports the search.

import (
	"bytes"
	"errors"
	"fmt"
	"math"
	"strings"
	"time"

	"golang.org/x/image/font"
	"golang.org/x/image/font/gofont/gobold"
	"golang.org/x/image/font/gofont/gobolditalic"
	"golang.org/x/image/font/gofont/goitalic"
	"golang.org/x/image/font/gofont/gomedium"
	"golang.org/x/image/font/gofont/gomono"
	"golang.org/x/image/font/gofont/gomonobold"
	"golang.org/x/image/font/gofont/goregular"
	"golang.org/x/image/font/gofont/gosmallcaps"
	xsfnt "golang.org/x/image/font/sfnt"
	"golang.org/x/image/math/fixed"

	"seehuhn.de/go/sfnt"
	"seehuhn.de/go/sfnt/cff"
	"seehuhn.de/go/sfnt/cmap"
	"seehuhn.de/go/sfnt/glyph"
	"seehuhn.de/go/sfnt/header"
	"seehuhn.de/go/sfnt/internal/debug"
	"seehuhn.de/go/sfnt/verifharness/vlib"
)

var ttfSources = map[string][]byte{
	"goregular":    goregular.TTF,
	"gobold":       gobold.TTF,
	"goitalic":     goitalic.TTF,
	"gomono":       gomono.TTF,
	"gomedium":     gomedium.TTF,
	"gomonobold":   gomonobold.TTF,
	"gobolditalic": gobolditalic.TTF,
	"gosmallcaps":  gosmallcaps.TTF,
}

// The short loca format stores offset/2 in 16 bits: the largest glyf table it
// can describe has 2*0xFFFF = 131070 bytes; 65534/65536 is where an encoder
// that forgot the division would change format.  Sizes at and around both.
var locaBoundaries = []int{65534, 65536, 65538, 131068, 131070, 131072, 131074}

var quickFonts = []string{"debug-cff", "goregular", "gomono",
	// one glyph, few, many; both outline kinds
	"synth-ttf:glyphs=1", "synth-ttf:glyphs=2", "synth-ttf:glyphs=40", "synth-ttf:glyphs=3000",
	"synth-cff:glyphs=1", "synth-cff:glyphs=2", "synth-cff:glyphs=40", "synth-cff:glyphs=2000",
	// glyf table sizes at the loca format boundaries
	"synth-ttf:glyphs=40:glyf=65534", "synth-ttf:glyphs=40:glyf=65536", "synth-ttf:glyphs=40:glyf=65538",
	"synth-ttf:glyphs=40:glyf=131068", "synth-ttf:glyphs=40:glyf=131070", "synth-ttf:glyphs=40:glyf=131072",
	"synth-ttf:glyphs=40:glyf=131074", "synth-ttf:glyphs=5:glyf=131072", "synth-ttf:glyphs=3000:glyf=131072",
	"synth-ttf:glyphs=1:glyf=65534", "synth-ttf:glyphs=1:glyf=65536",
	"goregular:glyf=131070", "goregular:glyf=131072", "goregular:glyf=131074",
	"goregular:glyphs=300", "goregular:glyphs=300:glyf=65534", "goregular:glyphs=300:glyf=65536",
	"goregular:cmap=3", "goregular:cmap=4", "gomono:cmap=3",
}
var thoroughFonts = []string{"gobold", "goitalic", "gomedium", "gomonobold", "gobolditalic", "gosmallcaps",
	"synth-ttf:glyphs=65535", "synth-cff:glyphs=20000", "synth-ttf:glyphs=12:glyf=262144",
	"synth-ttf:glyphs=3000:glyf=131070", "synth-ttf:glyphs=3000:glyf=131074", "synth-ttf:glyphs=5:glyf=131070"}

// makeFont returns the font to write and, for fonts read from a TrueType
// file, the original file (whose outlines the written file must reproduce).
// For synthetic TrueType fonts want holds the outlines the file must show.
func makeFont(name string) (f *sfnt.Font, orig []byte, want map[int][]seg, err error) {
	defer func() {
		if e := recover(); e != nil {
			err = fmt.Errorf("panic while building the font: %v", e)
		}
	}()
	spec, err := parseSpec(name)
	if err != nil {
		return nil, nil, nil, err
	}
	switch spec.base {
	case "debug-cff":
		if spec.glyphs != 0 || spec.glyf != 0 {
			return nil, nil, nil, errors.New("debug-cff takes no parameters")
		}
		df := debug.MakeSimpleFont()
		// MakeSimpleFont stamps the font with time.Now(); instances built in
		// different seconds must still be written as the same file
		df.CreationTime = time.Date(2024, 5, 17, 12, 0, 0, 0, time.UTC)
		df.ModificationTime = df.CreationTime
		return df, nil, nil, nil
	case "synth-ttf":
		n := spec.glyphs
		if n == 0 {
			n = 40
		}
		f, want, err = synthTTF(n, spec.glyf)
		return f, nil, want, err
	case "synth-cff":
		n := spec.glyphs
		if n == 0 {
			n = 40
		}
		if spec.glyf != 0 {
			return nil, nil, nil, errors.New("synth-cff has no glyf table")
		}
		f, err = synthCFF(n)
		return f, nil, nil, err
	}
	src, ok := ttfSources[spec.base]
	if !ok {
		return nil, nil, nil, errors.New("unknown font " + name)
	}
	f, err = sfnt.Read(bytes.NewReader(src))
	if err == nil && spec.glyphs != 0 {
		err = cutGlyf(f, spec.glyphs)
	}
	if err == nil && spec.glyf != 0 {
		err = padGlyf(f, spec.glyf)
	}
	if err == nil && spec.cmap != 0 {
		err = layoutCmap(f, spec.cmap)
	}
	return f, src, nil, err
}

// layoutCmap replaces the character map by a table with several encoding
// records: a BMP subtable A stored under two keys and a full-Unicode subtable
// B (A's mapping plus U+1F600) under one or two keys, so that - in the sorted
// record order of the cmap table - a record SHARING its subtable with an
// earlier record is followed by a record with a subtable of its own.
func layoutCmap(f *sfnt.Font, kind int) error {
	best, err := f.CMapTable.GetBest()
	if err != nil {
		return err
	}
	a, b := cmap.Format4{}, cmap.Format12{}
	lo, hi := best.CodeRange()
	for r := lo; r <= hi && r <= 0xFFFF; r++ {
		if g := best.Lookup(r); g != 0 {
			a[uint16(r)] = g
			b[uint32(r)] = g
		}
	}
	b[0x1F600] = 36
	ea, eb := a.Encode(0), b.Encode(0)
	t := cmap.Table{
		{PlatformID: 0, EncodingID: 3}:  ea,
		{PlatformID: 3, EncodingID: 1}:  ea,
		{PlatformID: 3, EncodingID: 10}: eb,
	}
	if kind == 4 {
		t[cmap.Key{PlatformID: 0, EncodingID: 4}] = eb
	}
	f.CMapTable = t
	return nil
}

const sigFont = "c03-second-implementation-disagrees"
const sigBuild = "c03-font-case-not-built"

type seg struct {
	op   xsfnt.SegmentOp
	args [3]fixed.Point26_6
}

func loadSegs(xf *xsfnt.Font, buf *xsfnt.Buffer, gid xsfnt.GlyphIndex, ppem fixed.Int26_6) ([]seg, error) {
	ss, err := xf.LoadGlyph(buf, gid, ppem, nil)
	if err != nil {
		return nil, err
	}
	out := make([]seg, len(ss))
	for i, s := range ss {
		out[i] = seg{s.Op, s.Args}
	}
	return out, nil
}

// dropClosing removes, in every contour, a final straight segment that
// returns to the contour's starting point (both implementations may or may
// not make the closing line explicit).
func dropClosing(ss []seg) []seg {
	var out []seg
	var start fixed.Point26_6
	flush := func() {
		if n := len(out); n > 0 && out[n-1].op == xsfnt.SegmentOpLineTo && out[n-1].args[0] == start {
			out = out[:n-1]
		}
	}
	for _, s := range ss {
		if s.op == xsfnt.SegmentOpMoveTo {
			flush()
			start = s.args[0]
		}
		out = append(out, s)
	}
	flush()
	return out
}

func near(a, b fixed.Point26_6, tol fixed.Int26_6) bool {
	dx, dy := a.X-b.X, a.Y-b.Y
	if dx < 0 {
		dx = -dx
	}
	if dy < 0 {
		dy = -dy
	}
	return dx <= tol && dy <= tol
}

func segsEqual(a, b []seg, tol fixed.Int26_6) string {
	a, b = dropClosing(a), dropClosing(b)
	if len(a) != len(b) {
		return fmt.Sprintf("%d segments against %d", len(a), len(b))
	}
	for i := range a {
		if a[i].op != b[i].op {
			return fmt.Sprintf("segment %d: operator differs", i)
		}
		n := 1
		if a[i].op == xsfnt.SegmentOpQuadTo {
			n = 2
		} else if a[i].op == xsfnt.SegmentOpCubeTo {
			n = 3
		}
		for j := 0; j < n; j++ {
			if !near(a[i].args[j], b[i].args[j], tol) {
				return fmt.Sprintf("segment %d: point %v against %v", i, a[i].args[j], b[i].args[j])
			}
		}
	}
	return ""
}

func fx(v float64) fixed.Int26_6 { return fixed.Int26_6(math.Round(v * 64)) }

// cffSegs converts go-sfnt's CFF glyph commands to x/image's segment form
// (26.6 at ppem = unitsPerEm, y axis pointing down).
func cffSegs(g *cff.Glyph) []seg {
	var out []seg
	pt := func(x, y float64) fixed.Point26_6 { return fixed.Point26_6{X: fx(x), Y: -fx(y)} }
	for _, c := range g.Cmds {
		switch c.Op {
		case cff.OpMoveTo:
			out = append(out, seg{op: xsfnt.SegmentOpMoveTo, args: [3]fixed.Point26_6{pt(c.Args[0], c.Args[1])}})
		case cff.OpLineTo:
			out = append(out, seg{op: xsfnt.SegmentOpLineTo, args: [3]fixed.Point26_6{pt(c.Args[0], c.Args[1])}})
		case cff.OpCurveTo:
			out = append(out, seg{op: xsfnt.SegmentOpCubeTo, args: [3]fixed.Point26_6{
				pt(c.Args[0], c.Args[1]), pt(c.Args[2], c.Args[3]), pt(c.Args[4], c.Args[5])}})
		}
	}
	return out
}

// fontOracle writes the font and states the property on the bytes.
func fontOracle(name string) (obs string, detail, sig string, stats map[string]int) {
	stats = map[string]int{}
	f, orig, wantSegs, err := makeFont(name)
	if err != nil {
		if strings.Contains(name, ":") {
			// a parameterised case that cannot be built tests nothing: say so
			return "builderr", "the font of this case could not be built: " + err.Error(), sigBuild, stats
		}
		return "builderr", "", "", stats // not a statement about the writer
	}
	buf := &bytes.Buffer{}
	var n int64
	var werr error
	panicked := ""
	func() {
		defer func() {
			if e := recover(); e != nil {
				panicked = fmt.Sprint(e)
			}
		}()
		n, werr = f.Write(buf)
	}()
	if panicked != "" {
		return "panic", "(*sfnt.Font).Write panics: " + panicked, sigPanic, stats
	}
	if werr != nil {
		return "err", "(*sfnt.Font).Write fails: " + werr.Error(), sigPanic, stats
	}
	out := buf.Bytes()
	obs = fmt.Sprintf("(ok %d %d)", len(out), refChecksum(out))
	if n != int64(len(out)) {
		return obs, fmt.Sprintf("returned count %d, %d bytes written", n, len(out)), sigCount, stats
	}
	if err := walk(out); err != nil {
		return obs, "structural walk of the complete font: " + err.Error(), sigWalk, stats
	}
	if refChecksum(out) != 0xB1B0AFBA {
		return obs, "whole-file checksum of a complete font is not 0xB1B0AFBA", sigWalk, stats
	}
	info, panicked2, err := readInfo(out)
	if panicked2 || err != nil {
		return obs, fmt.Sprintf("header.Read rejects the font (panic=%v err=%v)", panicked2, err), sigRound, stats
	}
	stats["tables"] = len(info.Toc)
	if info.ScalerType != header.ScalerTypeTrueType && info.ScalerType != header.ScalerTypeCFF {
		return obs, "unexpected scaler type", sigRound, stats
	}

	// the glyph tables read the way the OpenType text describes them
	if spec, _ := parseSpec(name); spec.glyf != 0 {
		if rec, ok := info.Toc["glyf"]; !ok || int(rec.Length) != spec.glyf {
			// the case would not be the boundary case it claims to be
			return obs, fmt.Sprintf("the glyf table written has %d bytes, the font was built for %d", rec.Length, spec.glyf), sigLoca, stats
		}
	}
	ng, err := glyphTablesWalk(out, stats)
	if err != nil {
		return obs, "independent reading of the glyph tables: " + err.Error(), sigLoca, stats
	}
	if ng != f.NumGlyphs() {
		return obs, fmt.Sprintf("independent reading: maxp.numGlyphs = %d, the font has %d glyphs", ng, f.NumGlyphs()), sigLoca, stats
	}
	if nb, err := readBack(out); err != nil {
		return obs, "sfnt.Read rejects the font it wrote: " + err.Error(), sigRound, stats
	} else if nb != f.NumGlyphs() {
		return obs, fmt.Sprintf("sfnt.Read finds %d glyphs in the file, the font has %d", nb, f.NumGlyphs()), sigRound, stats
	}

	// the second implementation
	var d string
	func() {
		defer func() {
			if e := recover(); e != nil {
				d = fmt.Sprintf("x/image panics on the written font: %v", e)
			}
		}()
		d = compareWithXImage(f, out, orig, wantSegs, stats)
	}()
	if d != "" {
		// known defect of the post encoder (C14 post-format2-index-exceeds-65535,
		// C01 post-format2-more-than-65278-custom-names): with more than 65278
		// custom glyph names the 16-bit name index wraps, and the names from
		// glyph 65279 on come back as standard names.  Only this exact shape
		// carries the finding's signature; any other disagreement keeps sigFont.
		if f.NumGlyphs() > 65279 && strings.HasPrefix(d, "name of glyph 65279 is ") {
			return obs, d, sigPostWrap, stats
		}
		return obs, d, sigFont, stats
	}
	return obs, "", "", stats
}

const sigPostWrap = "c03-post-format2-name-index-wraps"

func compareWithXImage(f *sfnt.Font, out, orig []byte, wantSegs map[int][]seg, stats map[string]int) string {
	xf, err := xsfnt.Parse(out)
	if err != nil {
		return "x/image rejects the written font: " + err.Error()
	}
	var xorig *xsfnt.Font
	if orig != nil {
		xorig, err = xsfnt.Parse(orig)
		if err != nil {
			return "" // the source font itself is not readable by x/image: nothing to compare
		}
	}
	var buf xsfnt.Buffer
	if xf.NumGlyphs() != f.NumGlyphs() {
		return fmt.Sprintf("glyph count %d, font has %d", xf.NumGlyphs(), f.NumGlyphs())
	}
	if int(xf.UnitsPerEm()) != int(f.UnitsPerEm) {
		return fmt.Sprintf("unitsPerEm %d, font has %d", xf.UnitsPerEm(), f.UnitsPerEm)
	}
	ppem := fixed.I(int(f.UnitsPerEm))

	// character mapping
	if f.CMapTable != nil {
		sub, err := f.CMapTable.GetBest()
		if err == nil {
			check := func(r rune) string {
				want := sub.Lookup(r)
				if _, is4 := sub.(cmap.Format4); is4 && r > 0xFFFF {
					// a format 4 subtable maps the BMP only (Format4.Lookup truncates
					// the rune to 16 bits; that is C09's business, not the writer's)
					want = 0
				}
				got, err := xf.GlyphIndex(&buf, r)
				if err != nil {
					return fmt.Sprintf("GlyphIndex(%U): %v", r, err)
				}
				if int(got) != int(want) {
					return fmt.Sprintf("GlyphIndex(%U) = %d, font maps it to %d", r, got, want)
				}
				if want != 0 {
					stats["mapped-runes"]++
				}
				return ""
			}
			for r := rune(0); r < 0x3000; r++ {
				if d := check(r); d != "" {
					return d
				}
			}
			for _, r := range []rune{0xFB01, 0xFFFD, 0xFFFF, 0x10000, 0x1F600, 0x10FFFF} {
				if d := check(r); d != "" {
					return d
				}
			}
		}
	}

	// per glyph: advance, name, outline
	for gid := 0; gid < f.NumGlyphs(); gid++ {
		adv, err := xf.GlyphAdvance(&buf, xsfnt.GlyphIndex(gid), ppem, font.HintingNone)
		if err != nil {
			return fmt.Sprintf("GlyphAdvance(%d): %v", gid, err)
		}
		if want := fx(f.GlyphWidth(glyph.ID(gid))); adv != want {
			return fmt.Sprintf("advance of glyph %d is %v, font has %v", gid, adv, want)
		}
		name, err := xf.GlyphName(&buf, xsfnt.GlyphIndex(gid))
		if err == nil && name != "" {
			stats["names"]++
			if want := f.GlyphName(glyph.ID(gid)); want != name {
				return fmt.Sprintf("name of glyph %d is %q, font has %q", gid, name, want)
			}
		}
		got, err := loadSegs(xf, &buf, xsfnt.GlyphIndex(gid), ppem)
		if err != nil {
			if errors.Is(err, xsfnt.ErrNotFound) || strings.Contains(err.Error(), "unsupported") {
				stats["outline-unsupported-by-ximage"]++
				continue
			}
			return fmt.Sprintf("LoadGlyph(%d): %v", gid, err)
		}
		var want []seg
		tol := fixed.Int26_6(0)
		if xorig != nil {
			var b2 xsfnt.Buffer
			want, err = loadSegs(xorig, &b2, xsfnt.GlyphIndex(gid), ppem)
			if err != nil {
				continue
			}
		} else if wantSegs != nil {
			want = wantSegs[gid]
		} else if o, ok := f.Outlines.(*cff.Outlines); ok {
			want = cffSegs(o.Glyphs[gid])
			integral := true
			for _, c := range o.Glyphs[gid].Cmds {
				for _, a := range c.Args {
					if a != math.Round(a) {
						integral = false
					}
				}
			}
			if !integral {
				// x/image drops the fractional part of every (relative) CFF operand,
				// so its error grows along the glyph: one unit per operand pair
				tol = fixed.Int26_6(64 * (len(want) + 1))
				stats["outlines-fractional"]++
			}
		} else {
			continue
		}
		if d := segsEqual(got, want, tol); d != "" {
			return fmt.Sprintf("outline of glyph %d: %s", gid, d)
		}
		stats["outlines"]++
	}
	stats["glyphs"] += f.NumGlyphs()
	return ""
}

func genFonts(run *vlib.Run, r *vlib.Rand, tier string) {
	names := quickFonts
	if tier == "thorough" {
		names = append(append([]string(nil), quickFonts...), thoroughFonts...)
	}
	total := map[string]int{}
	for _, name := range names {
		line := "!font " + name
		obs, detail, sig, stats := fontOracle(name)
		labels := []string{"kind:font", "font:" + name}
		if spec, err := parseSpec(name); err == nil {
			labels = append(labels, "fontbase:"+spec.base)
			if spec.glyf != 0 {
				labels = append(labels, fmt.Sprintf("glyf-size:%d", spec.glyf))
			}
			if _, isCFF := stats["walk-cff"]; isCFF {
				labels = append(labels, "outlines:cff")
			} else {
				labels = append(labels, "outlines:glyf")
			}
		}
		idx := run.Add(line, obs, true, labels...)
		for k, v := range stats {
			total[k] += v
		}
		if detail != "" {
			run.Fail(idx, line, detail, sig)
		}
	}
	run.Extra["second_implementation"] = total
}

func runOracleOnly(line string) (impl, fail, sig string, err error) {
	if strings.HasPrefix(line, "!concurrent ") {
		return runConcurrentLine(line)
	}
	fs := strings.Fields(line)
	if len(fs) != 2 || fs[0] != "!font" {
		return "", "", "", errors.New("C03: unknown oracle-only case")
	}
	obs, detail, sig, _ := fontOracle(fs[1])
	return obs, detail, sig, nil
}
