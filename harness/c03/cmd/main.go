package main

import (
	"seehuhn.de/go/sfnt/verifharness/c03"
	"seehuhn.de/go/sfnt/verifharness/vlib"
)

func main() { vlib.Main(c03.Gen, c03.RunCase) }
