package c03

// Oracle-only stream "concurrent": "every file produced by the writer is a
// well-formed sfnt container" also when several files are written at the same
// time.  G goroutines write independent table maps (nothing is shared between
// the callers); every output must be byte-identical to the output of the same
// map written alone, and must pass the independent structural walk (directory,
// offsets, per-table checksums, whole-file checksum).
//
//	!concurrent <seed> <goroutines> <files per goroutine>

import (
	"bytes"
	"errors"
	"fmt"
	"strconv"
	"strings"
	"sync"

	"seehuhn.de/go/sfnt/header"
	"seehuhn.de/go/sfnt/verifharness/vlib"
)

func concurrentCase(seed uint64, g, k int) (impl, fail, sig string) {
	r := vlib.NewRand(seed)
	type job struct {
		scaler uint32
		m      map[string][]byte
		alone  []byte
	}
	jobs := make([][]job, g)
	for i := range jobs {
		for j := 0; j < k; j++ {
			ts := randTabs(r, r.Range(2, 12), vlib.Pick(r, []int{40, 600, 5000}), 1, false)
			m := map[string][]byte{}
			for _, t := range ts {
				m[t.name] = append([]byte(nil), t.data...)
			}
			jb := job{scaler: randScaler(r), m: m}
			buf := &bytes.Buffer{}
			if _, err := header.Write(buf, jb.scaler, copyTabs(m)); err != nil {
				continue
			}
			jb.alone = buf.Bytes()
			jobs[i] = append(jobs[i], jb)
		}
	}
	var mu sync.Mutex
	var wg sync.WaitGroup
	bad, total := 0, 0
	first := ""
	start := make(chan struct{})
	for i := range jobs {
		wg.Add(1)
		go func(js []job) {
			defer wg.Done()
			<-start
			for round := 0; round < 3; round++ {
				for _, jb := range js {
					buf := &bytes.Buffer{}
					var err error
					func() {
						defer func() {
							if e := recover(); e != nil {
								err = fmt.Errorf("panic: %v", e)
							}
						}()
						_, err = header.Write(buf, jb.scaler, copyTabs(jb.m))
					}()
					d := ""
					switch {
					case err != nil:
						d = "header.Write fails when run next to other writers: " + err.Error()
					case !bytes.Equal(buf.Bytes(), jb.alone):
						d = fmt.Sprintf("a file written next to other writers differs from the same tables written alone (%d bytes)", buf.Len())
						if werr := walk(buf.Bytes()); werr != nil {
							d += "; the independent walk rejects it: " + werr.Error()
						}
					}
					mu.Lock()
					total++
					if d != "" {
						bad++
						if first == "" {
							first = d
						}
					}
					mu.Unlock()
				}
			}
		}(jobs[i])
	}
	close(start)
	wg.Wait()
	if bad > 0 {
		return "differ", fmt.Sprintf("%d of %d files: %s", bad, total, first), "c03-concurrent-writers"
	}
	return "same", "", ""
}

func copyTabs(m map[string][]byte) map[string][]byte {
	c := make(map[string][]byte, len(m))
	for k, v := range m {
		c[k] = append([]byte(nil), v...)
	}
	return c
}

func genConcurrent(run *vlib.Run, r *vlib.Rand, tier string) {
	n := vlib.Count(tier, 6, 60)
	for i := 0; i < n; i++ {
		seed := r.Uint64() >> 1
		g, k := vlib.Pick(r, []int{2, 4, 8, 16}), vlib.Pick(r, []int{4, 12})
		line := fmt.Sprintf("!concurrent %d %d %d", seed, g, k)
		impl, fail, sig := concurrentCase(seed, g, k)
		idx := run.Add(line, impl, true, "stream:concurrent-writers", "oracle-only")
		if fail != "" {
			run.Fail(idx, line, fail, sig)
		}
	}
}

func runConcurrentLine(line string) (impl, fail, sig string, err error) {
	fs := strings.Fields(line)
	if len(fs) != 4 {
		return "", "", "", errors.New("!concurrent: want 3 arguments")
	}
	seed, e1 := strconv.ParseUint(fs[1], 10, 64)
	g, e2 := strconv.Atoi(fs[2])
	k, e3 := strconv.Atoi(fs[3])
	if e1 != nil || e2 != nil || e3 != nil || g < 1 || g > 64 || k < 1 || k > 100 {
		return "", "", "", errors.New("!concurrent: bad arguments")
	}
	impl, fail, sig = concurrentCase(seed, g, k)
	return impl, fail, sig, nil
}
