// Package c18 injects I/O faults into the writers and readers of go-sfnt: a
// destination that accepts exactly k bytes and then fails, one that makes a
// short write at offset k, sources cut short at k bytes, and readers that
// return an error for accesses at or beyond offset k.  For complete fonts
// every k in 0..len(file) is tried.  The observations are printed in the
// syntax of the C18 Coq model; the oracle states the property directly on
// what the fault-injecting writer / reader saw.
package c18

import (
	"bytes"
	"encoding/binary"
	"errors"
	"fmt"
	"io"

	"seehuhn.de/go/sfnt/verifharness/vlib"
)

var errFault = errors.New("injected I/O fault")

// ---------------------------------------------------------------- writers

// faultWriter is the destination.  style "budget": accepts exactly k bytes in
// total, the call that does not fit is cut and returns an error, later calls
// accept nothing.  style "short": the call whose byte range contains offset k
// returns the bytes before k with io.ErrShortWrite; every other call is
// accepted in full (so that a caller ignoring the error is noticed).
// style "eager": the call that stores the k-th byte (k >= 1) is accepted in
// full and returns (len(p), error).  style "none": accepts everything (recording run).
type faultWriter struct {
	style    string
	k        int
	offered  int
	held     []byte
	sizes    []int // length of every chunk offered
	calls    int
	afterErr int
	failed   bool
}

func (w *faultWriter) Write(p []byte) (int, error) {
	w.calls++
	if w.failed {
		w.afterErr++
	}
	w.sizes = append(w.sizes, len(p))
	off := w.offered
	w.offered += len(p)
	switch w.style {
	case "budget":
		left := w.k - off
		if left < 0 {
			left = 0
		}
		if len(p) <= left {
			w.held = append(w.held, p...)
			return len(p), nil
		}
		w.held = append(w.held, p[:left]...)
		w.failed = true
		return left, errFault
	case "eager":
		// the call that stores the k-th byte is accepted in full and reports
		// the failure together with the complete count (allowed for an io.Writer)
		if off < w.k && w.k <= off+len(p) {
			w.held = append(w.held, p...)
			w.failed = true
			return len(p), errFault
		}
	case "short":
		if off <= w.k && w.k < off+len(p) {
			n := w.k - off
			w.held = append(w.held, p[:n]...)
			w.failed = true
			return n, io.ErrShortWrite
		}
	}
	w.held = append(w.held, p...)
	return len(p), nil
}

// one observed run of a write entry point
type wobs struct {
	n        int64
	hasN     bool
	err      error
	panicked string
	w        *faultWriter
}

func (o wobs) sx(withHeld bool) vlib.Sx {
	if o.panicked != "" {
		return vlib.Atom("panic")
	}
	l := vlib.List{}
	if o.hasN {
		l = append(l, vlib.I64(o.n))
	}
	l = append(l, vlib.Bool(o.err != nil), vlib.Int(o.w.calls), vlib.Int(o.w.afterErr))
	if withHeld {
		l = append(l, vlib.Int(len(o.w.held)))
	}
	return l
}

const (
	sigCount    = "c18-write-count-differs-from-bytes-accepted"
	sigNoErr    = "c18-write-fault-not-reported"
	sigSpurious = "c18-write-error-without-fault"
	sigAfter    = "c18-write-continues-after-error"
	sigPrefix   = "c18-destination-not-a-prefix-of-the-file"
	sigPanicW   = "c18-write-panics-on-fault"
	sigReadOK   = "c18-truncated-or-faulting-source-accepted"
	sigReadPan  = "c18-read-panics-on-fault"
	sigSwallow  = "c18-read-error-swallowed"
)

// writeOracle: the property on one faulted write.  file is the output of the
// fault-free run.
func writeOracle(o wobs, file []byte, k int) (string, string) {
	if o.panicked != "" {
		return "the writer panics: " + o.panicked, sigPanicW
	}
	held := o.w.held
	if o.hasN && o.n != int64(len(held)) {
		return fmt.Sprintf("k=%d: returned count %d, destination accepted %d bytes", k, o.n, len(held)), sigCount
	}
	if len(held) > len(file) || !bytes.Equal(held, file[:len(held)]) {
		return fmt.Sprintf("k=%d: the %d bytes accepted are not a prefix of the file", k, len(held)), sigPrefix
	}
	if o.w.afterErr != 0 {
		return fmt.Sprintf("k=%d: %d Write calls after the first error", k, o.w.afterErr), sigAfter
	}
	if o.w.failed && o.err == nil {
		return fmt.Sprintf("k=%d: the destination failed but no error was returned", k), sigNoErr
	}
	if !o.w.failed && o.err != nil {
		return fmt.Sprintf("k=%d: error returned although the destination never failed: %v", k, o.err), sigSpurious
	}
	must := k < len(file)
	if o.w.style == "eager" {
		// the eager destination fails on the call that stores byte number k (k >= 1)
		must = k >= 1 && k <= len(file)
	}
	if must && o.err == nil {
		return fmt.Sprintf("k=%d within file length %d but the write succeeded", k, len(file)), sigNoErr
	}
	if o.err == nil && (len(held) != len(file) || (o.hasN && o.n != int64(len(file)))) {
		return fmt.Sprintf("k=%d: success with %d of %d bytes", k, len(held), len(file)), sigCount
	}
	return "", ""
}

// runWrite calls f with a fault writer; f returns (n, hasN, err).
func runWrite(style string, k int, f func(w io.Writer) (int64, bool, error)) (o wobs) {
	o.w = &faultWriter{style: style, k: k}
	defer func() {
		if e := recover(); e != nil {
			o.panicked = fmt.Sprint(e)
		}
	}()
	o.n, o.hasN, o.err = f(o.w)
	return o
}

// ---------------------------------------------------------------- readers

// faultReaderAt fails (not with EOF) for every access touching an offset >= k.
// partial: bytes before k are delivered together with the error.
// sector > 0: only offsets in [k, k+sector) are bad.
type faultReaderAt struct {
	data    []byte
	k       int
	partial bool
	sector  int
	touched bool
}

func (r *faultReaderAt) ReadAt(p []byte, off int64) (int, error) {
	if off < 0 {
		return 0, errors.New("negative offset")
	}
	if off >= int64(len(r.data)) {
		return 0, io.EOF
	}
	n := copy(p, r.data[off:])
	end := int(off) + n
	bad := end > r.k
	if r.sector > 0 {
		bad = int(off) < r.k+r.sector && end > r.k
	}
	if bad && n > 0 {
		r.touched = true
		if r.partial && int(off) < r.k {
			return r.k - int(off), errFault
		}
		return 0, errFault
	}
	if n < len(p) {
		return n, io.EOF
	}
	return n, nil
}

// faultReader is a plain io.Reader (no ReadAt) that fails at offset k.
type faultReader struct {
	data []byte
	pos  int
	k    int
}

func (r *faultReader) Read(p []byte) (int, error) {
	if r.pos >= r.k {
		return 0, errFault
	}
	lim := r.k
	if lim > len(r.data) {
		lim = len(r.data)
	}
	if r.pos >= lim {
		return 0, io.EOF
	}
	n := copy(p, r.data[r.pos:lim])
	r.pos += n
	return n, nil
}

// onlyReader hides ReadAt.
type onlyReader struct{ r io.Reader }

func (o onlyReader) Read(p []byte) (int, error) { return o.r.Read(p) }

// dataEnd: end of the table data according to the directory (independent of
// go-sfnt): the largest offset+length.
func dataEnd(b []byte) int {
	if len(b) < 12 {
		return len(b)
	}
	n := int(binary.BigEndian.Uint16(b[4:]))
	end := 0
	for i := 0; i < n && 12+16*i+16 <= len(b); i++ {
		e := int(binary.BigEndian.Uint32(b[12+16*i+8:])) + int(binary.BigEndian.Uint32(b[12+16*i+12:]))
		if e > end {
			end = e
		}
	}
	return end
}

func chunkInts(ks []int, size int) [][]int {
	var out [][]int
	for len(ks) > 0 {
		n := size
		if n > len(ks) {
			n = len(ks)
		}
		out = append(out, ks[:n])
		ks = ks[n:]
	}
	return out
}

func allK(n int) []int {
	ks := make([]int, n+2)
	for i := range ks {
		ks[i] = i
	}
	return ks
}
