package c18

import (
	"bytes"
	"errors"
	"fmt"
	"io"
	"sort"
	"strconv"
	"strings"
	"time"

	"golang.org/x/image/font/gofont/gomono"
	"golang.org/x/image/font/gofont/goregular"

	"seehuhn.de/go/sfnt"
	"seehuhn.de/go/sfnt/cmap"
	"seehuhn.de/go/sfnt/glyf"
	"seehuhn.de/go/sfnt/glyph"
	"seehuhn.de/go/sfnt/header"
	"seehuhn.de/go/sfnt/internal/debug"
	"seehuhn.de/go/sfnt/verifharness/vlib"
)

// ---------------------------------------------------------------- fonts

var fontCache = map[string]*sfnt.Font{}

// smallGlyf cuts a TrueType font down to its first n glyphs (composites that
// refer to a removed glyph become empty glyphs).
func smallGlyf(src []byte, n int) (*sfnt.Font, error) {
	f, err := sfnt.Read(bytes.NewReader(src))
	if err != nil {
		return nil, err
	}
	o, ok := f.Outlines.(*glyf.Outlines)
	if !ok {
		return nil, errors.New("not a glyf font")
	}
	if len(o.Glyphs) < n {
		n = len(o.Glyphs)
	}
	gl := make(glyf.Glyphs, n)
	copy(gl, o.Glyphs[:n])
	for i, g := range gl {
		if g == nil {
			continue
		}
		if c, ok := g.Data.(glyf.CompositeGlyph); ok {
			for _, comp := range c.Components {
				if int(comp.GlyphIndex) >= n {
					gl[i] = nil
					break
				}
			}
		}
	}
	no := &glyf.Outlines{Glyphs: gl, Widths: o.Widths[:n], Tables: o.Tables, Maxp: o.Maxp}
	if len(o.Names) >= n {
		no.Names = o.Names[:n]
	}
	f.Outlines = no
	best, err := f.CMapTable.GetBest()
	if err != nil {
		return nil, err
	}
	m := cmap.Format4{}
	for r := rune(0); r < 0x10000; r++ {
		if g := best.Lookup(r); g != 0 && int(g) < n {
			m[uint16(r)] = g
		}
	}
	f.InstallCMap(m)
	f.Gsub, f.Gpos, f.Gdef = nil, nil, nil
	return f, nil
}

func getFont(name string) (f *sfnt.Font, err error) {
	if f, ok := fontCache[name]; ok {
		return f, nil
	}
	f, err = buildFont(name)
	if err == nil {
		fontCache[name] = f
	}
	return f, err
}

// buildFont makes a new, unshared instance (one per worker goroutine).
func buildFont(name string) (f *sfnt.Font, err error) {
	defer func() {
		if e := recover(); e != nil {
			err = fmt.Errorf("panic while building %s: %v", name, e)
		}
	}()
	switch name {
	case "debug-cff":
		f = debug.MakeSimpleFont()
		// MakeSimpleFont stamps the font with time.Now(): two instances built
		// in different seconds would be written as different files
		f.CreationTime = time.Date(2024, 5, 17, 12, 0, 0, 0, time.UTC)
		f.ModificationTime = f.CreationTime
	case "small-glyf":
		f, err = smallGlyf(goregular.TTF, 48)
	case "goregular":
		f, err = sfnt.Read(bytes.NewReader(goregular.TTF))
	case "gomono":
		f, err = sfnt.Read(bytes.NewReader(gomono.TTF))
	default:
		err = errors.New("unknown font " + name)
	}
	return f, err
}

const workers = 4

// ---------------------------------------------------------------- write entry points

type entry struct {
	name string
	hasN bool
	run  func(f *sfnt.Font, w io.Writer) (int64, bool, error)
}

var entries = map[string]entry{
	"Write": {"Write", true, func(f *sfnt.Font, w io.Writer) (int64, bool, error) {
		n, err := f.Write(w)
		return n, true, err
	}},
	"WriteTrueTypePDF": {"WriteTrueTypePDF", true, func(f *sfnt.Font, w io.Writer) (int64, bool, error) {
		n, err := f.WriteTrueTypePDF(w)
		return n, true, err
	}},
	"WriteOpenTypeCFFPDF": {"WriteOpenTypeCFFPDF", false, func(f *sfnt.Font, w io.Writer) (int64, bool, error) {
		return 0, false, f.WriteOpenTypeCFFPDF(w)
	}},
	// the container writer alone, on the tables of the fault-free run (fast
	// enough to try every byte of a large font)
	"header.Write": {"header.Write", true, nil},
	"cff.Write": {"cff.Write", false, func(f *sfnt.Font, w io.Writer) (int64, bool, error) {
		return 0, false, f.AsCFF().Write(w)
	}},
}

type target struct {
	font, entry string
	f           *sfnt.Font
	fs          []*sfnt.Font // one private instance per worker
	file        []byte       // fault-free output
	sizes       []int        // chunk sizes of the fault-free run
	hdr         int
	bodies      []int
	tables      map[string][]byte // for header.Write
	scaler      uint32
}

var targetCache = map[string]*target{}

func getTarget(font, ent string) (*target, error) {
	key := font + "/" + ent
	if t, ok := targetCache[key]; ok {
		return t, nil
	}
	f, err := getFont(font)
	if err != nil {
		return nil, err
	}
	e, ok := entries[ent]
	if !ok {
		return nil, errors.New("unknown entry point " + ent)
	}
	t := &target{font: font, entry: ent, f: f}
	if ent != "header.Write" {
		for i := 0; i < workers; i++ {
			g, err := buildFont(font)
			if err != nil {
				return nil, err
			}
			t.fs = append(t.fs, g)
		}
	}
	if ent == "header.Write" {
		base, err := getTarget(font, "Write")
		if err != nil {
			return nil, err
		}
		info, err := header.Read(bytes.NewReader(base.file))
		if err != nil {
			return nil, err
		}
		t.tables = map[string][]byte{}
		for nm := range info.Toc {
			d, err := info.ReadTableBytes(bytes.NewReader(base.file), nm)
			if err != nil {
				return nil, err
			}
			t.tables[nm] = d
		}
		t.scaler = info.ScalerType
	}
	o := t.run("none", 0)
	if o.panicked != "" || o.err != nil {
		return nil, fmt.Errorf("fault-free run of %s failed: %v %s", key, o.err, o.panicked)
	}
	o2 := t.run("none", 0)
	if !bytes.Equal(o.w.held, o2.w.held) {
		return nil, fmt.Errorf("%s: output differs between two fault-free runs", key)
	}
	t.file = o.w.held
	t.sizes = o.w.sizes
	if ent != "cff.Write" {
		// header, then per table: body [padding when the body length is not a multiple of 4]
		if len(t.sizes) == 0 {
			return nil, errors.New("no Write call recorded")
		}
		t.hdr = t.sizes[0]
		for i := 1; i < len(t.sizes); i++ {
			t.bodies = append(t.bodies, t.sizes[i])
			if t.sizes[i]%4 != 0 {
				i++ // the padding call
			}
		}
	}
	_ = e
	targetCache[key] = t
	return t, nil
}

func (t *target) run(style string, k int) wobs { return t.runOn(t.f, style, k) }

func (t *target) runOn(f *sfnt.Font, style string, k int) wobs {
	e := entries[t.entry]
	if t.entry == "header.Write" {
		return runWrite(style, k, func(w io.Writer) (int64, bool, error) {
			m := make(map[string][]byte, len(t.tables))
			for nm, d := range t.tables {
				if nm == "head" {
					d = append([]byte(nil), d...)
				}
				m[nm] = d
			}
			n, err := header.Write(w, t.scaler, m)
			return n, true, err
		})
	}
	return runWrite(style, k, func(w io.Writer) (int64, bool, error) { return e.run(f, w) })
}

func (t *target) line(style string, ks []int) string {
	if t.entry == "cff.Write" {
		return vlib.Line(vlib.Atom("cffloop"), vlib.Atom(style), vlib.Ints(t.sizes), vlib.Ints(ks), vlib.Atom(t.font))
	}
	kind := "wloop"
	if !entries[t.entry].hasN {
		kind = "wloope"
	}
	return vlib.Line(vlib.Atom(kind), vlib.Atom(style), vlib.Int(t.hdr), vlib.Ints(t.bodies), vlib.Ints(ks),
		vlib.Atom(t.font), vlib.Atom(t.entry))
}

// runLine executes every fault point of one line and returns the observation
// list and the first oracle failure.
func (t *target) runLine(style string, ks []int) (obs string, fail, sig string) {
	res := make([]wobs, len(ks))
	done := make(chan bool, workers)
	for wk := 0; wk < workers; wk++ {
		go func(wk int) {
			f := t.f
			if wk < len(t.fs) {
				f = t.fs[wk]
			}
			for i := wk; i < len(ks); i += workers {
				res[i] = t.runOn(f, style, ks[i])
			}
			done <- true
		}(wk)
	}
	for wk := 0; wk < workers; wk++ {
		<-done
	}
	l := vlib.List{}
	for i, k := range ks {
		o := res[i]
		if t.entry == "cff.Write" {
			l = append(l, o.sx(true))
		} else {
			l = append(l, o.sx(false))
		}
		if d, s := writeOracle(o, t.file, k); d != "" && fail == "" {
			fail, sig = t.font+"/"+t.entry+"/"+style+": "+d, s
		}
	}
	return vlib.Str(l), fail, sig
}

// interestingK: fault points around every call boundary, plus a stride.
func (t *target) interestingK(stride int) []int {
	set := map[int]bool{}
	pos := 0
	for _, s := range t.sizes {
		for d := -3; d <= 3; d++ {
			if pos+d >= 0 {
				set[pos+d] = true
			}
		}
		pos += s
	}
	for d := -3; d <= 2; d++ {
		if pos+d >= 0 {
			set[pos+d] = true
		}
	}
	for k := 0; k <= pos; k += stride {
		set[k] = true
	}
	ks := make([]int, 0, len(set))
	for k := range set {
		ks = append(ks, k)
	}
	sort.Ints(ks)
	return ks
}

// insideCall reports whether k cuts a chunk (is not a call boundary).
func (t *target) insideCall(k int) bool {
	pos := 0
	for _, s := range t.sizes {
		if k == pos {
			return false
		}
		pos += s
	}
	return k < pos
}

func addTarget(run *vlib.Run, font, ent string, ks []int, labels ...string) {
	t, err := getTarget(font, ent)
	if err != nil {
		idx := run.Add("!target "+font+" "+ent, "builderr", false, "target:builderr")
		run.Fail(idx, "!target "+font+" "+ent, "cannot prepare the fault-free run: "+err.Error(), "c18-fault-free-run-fails")
		return
	}
	run.Extra["file_len:"+font+"/"+ent] = len(t.file)
	run.Extra["write_calls:"+font+"/"+ent] = len(t.sizes)
	for _, style := range []string{"budget", "short", "eager"} {
		for _, part := range chunkInts(ks, 256) {
			line := t.line(style, part)
			obs, fail, sig := t.runLine(style, part)
			nt := false
			for _, k := range part {
				if t.insideCall(k) {
					nt = true
				}
			}
			ls := append([]string{"kind:write-fault", "font:" + font, "entry:" + ent, "style:" + style}, labels...)
			idx := run.Add(line, obs, nt, ls...)
			run.Hist["fault-points:write"] += len(part)
			if fail != "" {
				run.Fail(idx, line, fail, sig)
			}
		}
	}
}

// ---------------------------------------------------------------- header.Write on small maps, byte level

type tab struct {
	name  string
	data  []byte
	isNil bool
}

func tabsSx(ts []tab) vlib.Sx {
	l := vlib.List{}
	for _, t := range ts {
		if t.isNil {
			l = append(l, vlib.L(vlib.Hex([]byte(t.name)), vlib.Atom("nil")))
		} else {
			l = append(l, vlib.L(vlib.Hex([]byte(t.name)), vlib.Hex(t.data)))
		}
	}
	return l
}

func mkMap(ts []tab) map[string][]byte {
	m := map[string][]byte{}
	for _, t := range ts {
		if t.isNil {
			m[t.name] = nil
		} else {
			m[t.name] = append(make([]byte, 0, len(t.data)), t.data...)
		}
	}
	return m
}

func runBytesLine(style string, scaler uint32, ts []tab, ks []int) (obs string, fail, sig string, file []byte) {
	free := runWrite("none", 0, func(w io.Writer) (int64, bool, error) {
		n, err := header.Write(w, scaler, mkMap(ts))
		return n, true, err
	})
	if free.panicked != "" {
		return "panic", "", "", nil // no table to write: C03's business
	}
	file = free.w.held
	l := vlib.List{}
	for _, k := range ks {
		o := runWrite(style, k, func(w io.Writer) (int64, bool, error) {
			n, err := header.Write(w, scaler, mkMap(ts))
			return n, true, err
		})
		l = append(l, o.sx(true))
		if d, s := writeOracle(o, file, k); d != "" && fail == "" {
			fail, sig = "header.Write/"+style+": "+d, s
		}
	}
	return vlib.Str(l), fail, sig, file
}

func bytesLine(style string, scaler uint32, ts []tab, ks []int) string {
	return vlib.Line(vlib.Atom("wbytes"), vlib.Atom(style), vlib.U64(uint64(scaler)), tabsSx(ts), vlib.Ints(ks))
}

// ---------------------------------------------------------------- reading

// headerReadObs: header.Read on the first k bytes and behind a failing ReaderAt.
func headerReadObs(b []byte, ks []int) (obs string, fail, sig string) {
	l := vlib.List{}
	end := dataEnd(b)
	for _, k := range ks {
		kk := k
		if kk > len(b) {
			kk = len(b)
		}
		r1, p1 := tryHeaderRead(bytes.NewReader(b[:kk]))
		r2, p2 := tryHeaderRead(&faultReaderAt{data: b, k: k})
		l = append(l, vlib.L(vlib.Bool(r1), vlib.Bool(r2)))
		if (p1 || p2) && fail == "" {
			fail, sig = fmt.Sprintf("header.Read panics at k=%d", k), sigReadPan
		}
		if k < end && (r1 || r2) && fail == "" {
			fail, sig = fmt.Sprintf("header.Read accepts a source cut at k=%d < end of table data %d", k, end), sigReadOK
		}
	}
	return vlib.Str(l), fail, sig
}

func tryHeaderRead(r io.ReaderAt) (ok, panicked bool) {
	defer func() {
		if e := recover(); e != nil {
			ok, panicked = false, true
		}
	}()
	_, err := header.Read(r)
	return err == nil, false
}

var readStyles = []string{"trunc", "readerat", "readerat-partial", "stream", "stream-eof", "sector"}

// sfntReadAt runs sfnt.Read on the file with the given fault at k.
func sfntReadAt(file []byte, style string, k int) (ok bool, panicked string, touched bool) {
	defer func() {
		if e := recover(); e != nil {
			ok, panicked = false, fmt.Sprint(e)
		}
	}()
	kk := k
	if kk > len(file) {
		kk = len(file)
	}
	var err error
	switch style {
	case "trunc":
		_, err = sfnt.Read(bytes.NewReader(file[:kk]))
	case "readerat":
		fr := &faultReaderAt{data: file, k: k}
		_, err = sfnt.Read(readerAtOnly{fr})
		touched = fr.touched
	case "readerat-partial":
		fr := &faultReaderAt{data: file, k: k, partial: true}
		_, err = sfnt.Read(readerAtOnly{fr})
		touched = fr.touched
	case "sector":
		fr := &faultReaderAt{data: file, k: k, sector: 1}
		_, err = sfnt.Read(readerAtOnly{fr})
		touched = fr.touched
	case "stream":
		_, err = sfnt.Read(onlyReader{&faultReader{data: file, k: k}})
	case "stream-eof":
		_, err = sfnt.Read(onlyReader{bytes.NewReader(file[:kk])})
	}
	return err == nil, "", touched
}

// readerAtOnly is an io.Reader (sfnt.Read's parameter type) that is also an
// io.ReaderAt; Read itself is never used by sfnt.Read in that case.
type readerAtOnly struct{ r *faultReaderAt }

func (r readerAtOnly) Read(p []byte) (int, error)              { return 0, errors.New("Read must not be used") }
func (r readerAtOnly) ReadAt(p []byte, off int64) (int, error) { return r.r.ReadAt(p, off) }

// sfntReadRange: sfnt.Read for every fault point in [k0, k1); returns a
// compact observation (number of errors, first k that succeeds) and the
// oracle's verdict.
func sfntReadRange(file []byte, style string, k0, k1, step int) (obs string, fail, sig string) {
	end := dataEnd(file)
	nerr, nok, firstOK := 0, 0, -1
	if step < 1 {
		step = 1
	}
	for k := k0; k < k1; k += step {
		ok, panicked, touched := sfntReadAt(file, style, k)
		if panicked != "" {
			if fail == "" {
				fail, sig = fmt.Sprintf("sfnt.Read (%s) panics at k=%d: %s", style, k, panicked), sigReadPan
			}
			continue
		}
		if ok {
			nok++
			if firstOK < 0 {
				firstOK = k
			}
		} else {
			nerr++
		}
		switch style {
		case "sector":
			if ok && touched && fail == "" {
				fail, sig = fmt.Sprintf("sfnt.Read succeeds although the read error at offset %d was hit", k), sigSwallow
			}
		default:
			if ok && k < end && fail == "" {
				fail, sig = fmt.Sprintf("sfnt.Read (%s) accepts a source cut at k=%d < end of table data %d", style, k, end), sigReadOK
			}
		}
	}
	return fmt.Sprintf("(err %d ok %d firstok %d)", nerr, nok, firstOK), fail, sig
}

// ---------------------------------------------------------------- RunCase

func atoiAll(x vlib.Sx) ([]int, error) { return vlib.AsInts(x) }

func parseTabs(x vlib.Sx) ([]tab, error) {
	l, err := vlib.AsList(x)
	if err != nil {
		return nil, err
	}
	var ts []tab
	for _, e := range l {
		pr, err := vlib.AsList(e)
		if err != nil || len(pr) != 2 {
			return nil, errors.New("bad table entry")
		}
		nm, err := vlib.AsBytes(pr[0])
		if err != nil {
			return nil, err
		}
		if a, ok := pr[1].(vlib.Atom); ok && a == "nil" {
			ts = append(ts, tab{name: string(nm), isNil: true})
			continue
		}
		d, err := vlib.AsBytes(pr[1])
		if err != nil {
			return nil, err
		}
		if d == nil {
			d = []byte{}
		}
		ts = append(ts, tab{name: string(nm), data: d})
	}
	return ts, nil
}

// RunCase re-executes one case line.
func RunCase(line string) (impl, fail, sig string, err error) {
	if strings.HasPrefix(line, "!sfntread ") {
		fs := strings.Fields(line)
		if len(fs) != 5 && len(fs) != 6 {
			return "", "", "", errors.New("!sfntread FONT STYLE K0 K1 [STEP]")
		}
		step := 1
		if len(fs) == 6 {
			step, _ = strconv.Atoi(fs[5])
		}
		t, err := getTarget(fs[1], "Write")
		if err != nil {
			return "", "", "", err
		}
		k0, _ := strconv.Atoi(fs[3])
		k1, _ := strconv.Atoi(fs[4])
		obs, fail, sig := sfntReadRange(t.file, fs[2], k0, k1, step)
		return obs, fail, sig, nil
	}
	if strings.HasPrefix(line, "!") {
		return "", "", "", errors.New("unknown oracle-only case")
	}
	items, err := vlib.Parse(line)
	if err != nil {
		return "", "", "", err
	}
	if len(items) < 3 {
		return "", "", "", errors.New("C18 case: too few items")
	}
	kind, _ := vlib.AsAtom(items[0])
	switch kind {
	case "wloop", "wloope":
		if len(items) == 5 && kind == "wloop" {
			// synthetic: header.Write on tables t000, t001, ... of the given lengths
			style, _ := vlib.AsAtom(items[1])
			hdr, _ := vlib.AsInt(items[2])
			lens, err := atoiAll(items[3])
			if err != nil {
				return "", "", "", err
			}
			ks, err := atoiAll(items[4])
			if err != nil {
				return "", "", "", err
			}
			if hdr != 12+16*len(lens) || len(lens) == 0 {
				return "", "", "", errors.New("wloop: header length must be 12+16*tables")
			}
			var ts []tab
			for i, n := range lens {
				ts = append(ts, tab{name: fmt.Sprintf("t%03d", i), data: bytes.Repeat([]byte{byte(i + 1)}, n)})
			}
			l := vlib.List{}
			var file []byte
			free := runWrite("none", 0, func(w io.Writer) (int64, bool, error) {
				n, err := header.Write(w, header.ScalerTypeTrueType, mkMap(ts))
				return n, true, err
			})
			file = free.w.held
			fail, sig := "", ""
			for _, k := range ks {
				o := runWrite(style, k, func(w io.Writer) (int64, bool, error) {
					n, err := header.Write(w, header.ScalerTypeTrueType, mkMap(ts))
					return n, true, err
				})
				l = append(l, o.sx(false))
				if d, s := writeOracle(o, file, k); d != "" && fail == "" {
					fail, sig = "header.Write/"+style+": "+d, s
				}
			}
			return vlib.Str(l), fail, sig, nil
		}
		if len(items) != 7 {
			return "", "", "", errors.New("wloop: want 7 items")
		}
		style, _ := vlib.AsAtom(items[1])
		ks, err := atoiAll(items[4])
		if err != nil {
			return "", "", "", err
		}
		font, _ := vlib.AsAtom(items[5])
		ent, _ := vlib.AsAtom(items[6])
		t, err := getTarget(font, ent)
		if err != nil {
			return "", "", "", err
		}
		obs, fail, sig := t.runLine(style, ks)
		if fail == "" && t.line(style, ks) != line {
			fail, sig = "the call sequence of the fault-free run differs from the one recorded in the case line", "c18-call-sequence-changed"
		}
		return obs, fail, sig, nil
	case "cffloop":
		if len(items) != 5 {
			return "", "", "", errors.New("cffloop: want 5 items")
		}
		style, _ := vlib.AsAtom(items[1])
		ks, err := atoiAll(items[3])
		if err != nil {
			return "", "", "", err
		}
		font, _ := vlib.AsAtom(items[4])
		t, err := getTarget(font, "cff.Write")
		if err != nil {
			return "", "", "", err
		}
		obs, fail, sig := t.runLine(style, ks)
		return obs, fail, sig, nil
	case "wbytes":
		if len(items) != 5 {
			return "", "", "", errors.New("wbytes: want 5 items")
		}
		style, _ := vlib.AsAtom(items[1])
		sc, err := vlib.AsI64(items[2])
		if err != nil {
			return "", "", "", err
		}
		ts, err := parseTabs(items[3])
		if err != nil {
			return "", "", "", err
		}
		ks, err := atoiAll(items[4])
		if err != nil {
			return "", "", "", err
		}
		obs, fail, sig, _ := runBytesLine(style, uint32(sc), ts, ks)
		return obs, fail, sig, nil
	case "rtrunc":
		b, err := vlib.AsBytes(items[1])
		if err != nil {
			return "", "", "", err
		}
		ks, err := atoiAll(items[2])
		if err != nil {
			return "", "", "", err
		}
		obs, fail, sig := headerReadObs(b, ks)
		return obs, fail, sig, nil
	}
	return "", "", "", errors.New("C18 case: unknown kind " + kind)
}

// ---------------------------------------------------------------- Gen

var tagPool = []string{"head", "hhea", "maxp", "OS/2", "hmtx", "cmap", "loca", "glyf", "name", "post", "CFF ",
	"GSUB", "GPOS", "kern", "cvt ", "abcd", "ZZZZ", "    "}

func randTabs(r *vlib.Rand) []tab {
	n := r.Range(1, 6)
	seen := map[string]bool{}
	var ts []tab
	for len(ts) < n {
		nm := vlib.Pick(r, tagPool)
		if seen[nm] {
			continue
		}
		seen[nm] = true
		ln := vlib.Pick(r, []int{0, 1, 2, 3, 4, 5, 7, 8, 12, 13, 16, r.Intn(40)})
		if nm == "head" && r.Chance(2, 3) && ln < 12 {
			ln = 12 + r.Intn(44)
		}
		t := tab{name: nm, data: r.Bytes(ln)}
		if r.Chance(1, 12) {
			t = tab{name: nm, isNil: true}
		}
		ts = append(ts, t)
	}
	if r.Chance(1, 10) {
		ts = append(ts, tab{name: "abc", data: []byte{1}})
	}
	sort.Slice(ts, func(i, j int) bool { return ts[i].name < ts[j].name })
	return ts
}

// Gen writes the run for the given tier.
func Gen(run *vlib.Run, seed uint64, tier string) {
	run.Rule = "one case = one entry point with up to 256 fault points; non-trivial = at least one fault point cuts a chunk (is not a boundary between two Write calls) / for reads: at least one k inside the table data; distinct by the full case line"
	root := vlib.NewRand(seed)

	// (1) header.Write on small table maps, byte-level model, EVERY k
	r := root.Fork("wbytes")
	nmaps := vlib.Count(tier, 60, 1200)
	for i := 0; i < nmaps; i++ {
		ts := randTabs(r)
		scaler := vlib.Pick(r, []uint32{header.ScalerTypeTrueType, header.ScalerTypeCFF, header.ScalerTypeApple})
		var file []byte
		for _, style := range []string{"budget", "short", "eager"} {
			free := runWrite("none", 0, func(w io.Writer) (int64, bool, error) {
				n, err := header.Write(w, scaler, mkMap(ts))
				return n, true, err
			})
			ks := allK(len(free.w.held))
			line := bytesLine(style, scaler, ts, ks)
			obs, fail, sig, f := runBytesLine(style, scaler, ts, ks)
			file = f
			idx := run.Add(line, obs, obs != "panic" && len(ks) > 14, "kind:write-fault", "entry:header.Write-bytes", "style:"+style)
			run.Hist["fault-points:write"] += len(ks)
			if fail != "" {
				run.Fail(idx, line, fail, sig)
			}
		}
		// (2) header.Read on every prefix of the same container / failing ReaderAt at every k
		if file != nil {
			ks := allK(len(file))
			line := vlib.Line(vlib.Atom("rtrunc"), vlib.Hex(file), vlib.Ints(ks))
			obs, fail, sig := headerReadObs(file, ks)
			idx := run.Add(line, obs, dataEnd(file) > 28, "kind:read-fault", "entry:header.Read", "source:small-container")
			run.Hist["fault-points:read"] += 2 * len(ks)
			if fail != "" {
				run.Fail(idx, line, fail, sig)
			}
		}
	}

	// (3) complete fonts: every fault point of every entry point
	type job struct {
		font, ent string
		all       bool
	}
	jobs := []job{
		{"debug-cff", "Write", true}, {"debug-cff", "cff.Write", true}, {"small-glyf", "Write", true},
		{"debug-cff", "WriteOpenTypeCFFPDF", tier == "thorough"}, {"small-glyf", "WriteTrueTypePDF", tier == "thorough"},
		{"goregular", "header.Write", tier == "thorough"}, {"goregular", "Write", false},
	}
	if tier == "thorough" {
		jobs = append(jobs, job{"gomono", "header.Write", true}, job{"gomono", "Write", false},
			job{"goregular", "WriteTrueTypePDF", false})
	}
	for _, j := range jobs {
		t0 := time.Now()
		defer func(j job) {}(j)
		t, err := getTarget(j.font, j.ent)
		if err != nil {
			addTarget(run, j.font, j.ent, nil)
			continue
		}
		if j.all {
			addTarget(run, j.font, j.ent, allK(len(t.file)), "faults:every-byte")
		} else {
			stride := vlib.Count(tier, 4099, 257)
			if len(t.file) < 20000 {
				stride = 7
			}
			addTarget(run, j.font, j.ent, t.interestingK(stride), "faults:boundaries+stride")
		}
		run.Extra[fmt.Sprintf("ms:%s/%s/all=%v", j.font, j.ent, j.all)] = time.Since(t0).Milliseconds()
	}

	// (4) reading complete fonts: header.Read against the model (small fonts),
	// sfnt.Read under every fault style at every k
	readFonts := []string{"debug-cff", "small-glyf"}
	if tier == "thorough" {
		readFonts = append(readFonts, "goregular")
	}
	for _, font := range readFonts {
		t, err := getTarget(font, "Write")
		if err != nil {
			continue
		}
		run.Extra["data_end:"+font] = dataEnd(t.file)
		if len(t.file) <= 20000 {
			for _, part := range chunkInts(allK(len(t.file)), 64) {
				line := vlib.Line(vlib.Atom("rtrunc"), vlib.Hex(t.file), vlib.Ints(part))
				obs, fail, sig := headerReadObs(t.file, part)
				idx := run.Add(line, obs, true, "kind:read-fault", "entry:header.Read", "source:"+font)
				run.Hist["fault-points:read"] += 2 * len(part)
				if fail != "" {
					run.Fail(idx, line, fail, sig)
				}
			}
		}
		for _, style := range readStyles {
			t0 := time.Now()
			defer func() { _ = t0 }()
			// cheap styles (rejected at the directory probe): every k; styles that
			// reach the table readers of a large font: every 61st k
			kstep := 1
			if len(t.file) > 20000 && (style == "sector" || style == "stream" || style == "stream-eof") {
				kstep = 61
			}
			step := 1024 * kstep
			for k0 := 0; k0 <= len(t.file)+1; k0 += step {
				k1 := k0 + step
				if k1 > len(t.file)+2 {
					k1 = len(t.file) + 2
				}
				line := fmt.Sprintf("!sfntread %s %s %d %d", font, style, k0, k1)
				if kstep > 1 {
					line += fmt.Sprintf(" %d", kstep)
				}
				obs, fail, sig := sfntReadRange(t.file, style, k0, k1, kstep)
				idx := run.Add(line, obs, true, "kind:read-fault", "entry:sfnt.Read", "source:"+font, "readstyle:"+style)
				run.Hist["fault-points:read"] += (k1 - k0 + kstep - 1) / kstep
				if fail != "" {
					run.Fail(idx, line, fail, sig)
				}
			}
			run.Extra["ms:sfnt.Read/"+font+"/"+style] = time.Since(t0).Milliseconds()
		}
	}
	_ = glyph.ID(0)
}
