package main

import (
	"seehuhn.de/go/sfnt/verifharness/c18"
	"seehuhn.de/go/sfnt/verifharness/vlib"
)

func main() { vlib.Main(c18.Gen, c18.RunCase) }
