package main

import (
	"seehuhn.de/go/sfnt/verifharness/c04"
	"seehuhn.de/go/sfnt/verifharness/vlib"
)

func main() { vlib.Main(c04.Gen, c04.RunCase) }
