package c04

import (
	"fmt"

	"seehuhn.de/go/sfnt/cff"
	"seehuhn.de/go/sfnt/verifharness/vlib"
)

type gcfg struct {
	frac    int  // chance (in 100) of fractional coordinates
	wide    bool // deltas up to 32767
	huge    bool // deltas up to 64000 (coordinates stay within [-32000, 32000])
	offgrid bool
}

const lim = 32000 * sc

func clampCoord(v int64) int64 {
	if v > lim {
		return lim
	}
	if v < -lim {
		return -lim
	}
	return v
}

// delta picks one coordinate difference.
func delta(r *vlib.Rand, c *gcfg) int64 {
	switch r.Intn(10) {
	case 0, 1, 2:
		return 0
	case 3:
		return vlib.Pick(r, []int64{1, -1, 107, -107, 108, -108, 1131, -1131, 1132, -1132}) * sc
	case 4:
		if r.Intn(100) < c.frac {
			return vlib.Pick(r, []int64{1, -1, 32768, -32768, 65535, -65535, 65537})
		}
	case 5:
		if c.huge {
			return int64(r.Range(-64000, 64000)) * sc
		}
		if c.wide {
			return int64(r.Range(-32767, 32767)) * sc
		}
		return int64(r.Range(-3000, 3000)) * sc
	}
	if r.Intn(100) < c.frac {
		return int64(r.Range(-200*sc, 200*sc))
	}
	return int64(r.Range(-200, 200)) * sc
}

// genPath appends n drawing commands after the current point.
func genPath(r *vlib.Rand, c *gcfg, x, y *int64, n int, style int) []gcmd {
	var out []gcmd
	step := func(d int64, cur int64) int64 { return clampCoord(cur + d) }
	for i := 0; i < n; i++ {
		kind := style
		if style == 2 {
			kind = r.Intn(2)
		}
		if style >= 10 {
			kind = 1
		}
		if style == 9 { // strictly alternating axis-aligned lines
			dx, dy := int64(r.Range(1, 90))*sc, int64(0)
			if i%2 == 1 {
				dx, dy = dy, dx
			}
			*x, *y = step(dx, *x), step(dy, *y)
			out = append(out, gcmd{kind: 'l', a: []int64{*x, *y}})
			continue
		}
		if kind == 0 { // line
			dx, dy := delta(r, c), delta(r, c)
			switch r.Intn(5) {
			case 0:
				dx = 0
			case 1:
				dy = 0
			case 2: // alternate with the previous line
				if i%2 == 0 {
					dx = 0
				} else {
					dy = 0
				}
			}
			*x, *y = step(dx, *x), step(dy, *y)
			out = append(out, gcmd{kind: 'l', a: []int64{*x, *y}})
			continue
		}
		// curve: choose a zero pattern
		d := [6]int64{}
		for j := range d {
			d[j] = delta(r, c)
			if d[j] == 0 && r.Bool() {
				d[j] = int64(r.Range(1, 60)) * sc
			}
		}
		pat := r.Intn(9)
		if style >= 10 {
			// the whole run fits one operator family (long runs reach the stack limit)
			pat = style - 10
			for j := range d {
				if d[j] == 0 {
					d[j] = int64(r.Range(1, 60)) * sc
				}
			}
			if (pat == 0 || pat == 1) && i == 0 && r.Bool() {
				pat = 8 // the first curve of hhcurveto / vvcurveto may start in any direction
				if style == 10 {
					d[5] = 0
				} else {
					d[4] = 0
				}
			}
		}
		switch pat {
		case 0: // hh
			d[1], d[5] = 0, 0
		case 1: // vv
			d[0], d[4] = 0, 0
		case 2: // hv
			d[1], d[4] = 0, 0
		case 3: // vh
			d[0], d[5] = 0, 0
		case 4: // alternate hv / vh with the index
			if i%2 == 0 {
				d[1], d[4] = 0, 0
			} else {
				d[0], d[5] = 0, 0
			}
		case 5:
			if i%2 == 1 {
				d[1], d[4] = 0, 0
			} else {
				d[0], d[5] = 0, 0
			}
		case 6: // first half of a flex
			d[5] = 0
			if r.Bool() {
				d[1] = 0
			}
		}
		if style < 10 && len(out) > 0 && r.Chance(1, 3) {
			// second half of a flex: previous curve ends flat, this one starts flat and returns
			p := out[len(out)-1]
			if p.kind == 'c' && len(out) >= 1 {
				d[1] = 0
			}
		}
		ax, ay := step(d[0], *x), step(d[1], *y)
		bx, by := step(d[2], ax), step(d[3], ay)
		cx, cy := step(d[4], bx), step(d[5], by)
		*x, *y = cx, cy
		out = append(out, gcmd{kind: 'c', a: []int64{ax, ay, bx, by, cx, cy}})
	}
	return out
}

// genFlex produces two curves that fit hflex or hflex1.
func genFlex(r *vlib.Rand, c *gcfg, x, y *int64) []gcmd {
	dx := func() int64 { return int64(r.Range(1, 80)) * sc }
	dy2 := int64(r.Range(-30, 30)) * sc
	var d1, d2 [6]int64
	if r.Bool() { // hflex
		d1 = [6]int64{dx(), 0, dx(), dy2, dx(), 0}
		d2 = [6]int64{dx(), 0, dx(), -dy2, dx(), 0}
	} else { // hflex1
		dy1, dy5 := int64(r.Range(-20, 20))*sc, int64(r.Range(-20, 20))*sc
		d1 = [6]int64{dx(), dy1, dx(), dy2, dx(), 0}
		d2 = [6]int64{dx(), 0, dx(), dy5, dx(), -(dy1 + dy2 + dy5)}
	}
	var out []gcmd
	for _, d := range [][6]int64{d1, d2} {
		ax, ay := *x+d[0], *y+d[1]
		bx, by := ax+d[2], ay+d[3]
		cx, cy := bx+d[4], by+d[5]
		*x, *y = cx, cy
		out = append(out, gcmd{kind: 'c', a: []int64{ax, ay, bx, by, cx, cy}})
	}
	return out
}

func genStems(r *vlib.Rand, n int, c *gcfg) []int64 {
	out := make([]int64, 0, 2*n)
	var pos int64 = int64(r.Range(-300, 100)) * sc
	for i := 0; i < n; i++ {
		w := vlib.Pick(r, []int64{20 * sc, -20 * sc, -21 * sc, int64(r.Range(1, 200)) * sc})
		if r.Intn(100) < c.frac {
			w += int64(r.Range(1, sc-1))
		}
		a := pos + int64(r.Range(0, 120))*sc
		out = append(out, a, a+w)
		pos = a + w
		if r.Chance(1, 10) {
			pos = int64(r.Range(-300, 900)) * sc // stems need not be sorted
		}
	}
	return out
}

// genGlyph builds a well-formed glyph description.
func genGlyph(r *vlib.Rand, c *gcfg) *Glyph {
	g := &Glyph{}
	nh := vlib.Pick(r, []int{0, 0, 0, 1, 2, 3, 7, 8, 9, 23, 24, 25, 48})
	nv := vlib.Pick(r, []int{0, 0, 0, 1, 2, 3, 8, 16, 23, 24, 25, 47, 48})
	if r.Chance(1, 20) {
		nh, nv = 48, 48
	}
	g.HS = genStems(r, nh, c)
	g.VS = genStems(r, nv, c)
	ns := nh + nv
	useMask := ns > 0 && r.Chance(2, 3)
	mask := func() gcmd {
		k := byte('h')
		if r.Chance(1, 4) {
			k = 'k'
		}
		return gcmd{kind: k, mask: r.Bytes((ns + 7) / 8)}
	}
	if useMask && r.Chance(2, 3) {
		for i := r.Range(1, 3); i > 0; i-- {
			g.Cmds = append(g.Cmds, mask())
		}
	}
	var x, y int64
	nsub := vlib.Pick(r, []int{0, 1, 1, 1, 2, 3, 4})
	for s := 0; s < nsub; s++ {
		// moveto: all three forms
		nx, ny := x, y
		switch r.Intn(4) {
		case 0:
			nx = clampCoord(x + delta(r, c))
		case 1:
			ny = clampCoord(y + delta(r, c))
		default:
			nx, ny = clampCoord(x+delta(r, c)), clampCoord(y+delta(r, c))
			if c.huge && r.Chance(1, 3) {
				nx, ny = int64(r.Range(-32000, 32000))*sc, int64(r.Range(-32000, 32000))*sc
			}
		}
		x, y = nx, ny
		g.Cmds = append(g.Cmds, gcmd{kind: 'm', a: []int64{x, y}})
		parts := r.Intn(4)
		for p := 0; p < parts; p++ {
			n := vlib.Pick(r, []int{1, 1, 2, 3, 4, 5, 8, 9, 12, 23, 24, 25, 30, 49})
			style := r.Intn(3)
			if r.Chance(1, 4) {
				style = vlib.Pick(r, []int{9, 10, 11, 14, 15})
			}
			if r.Chance(1, 8) {
				g.Cmds = append(g.Cmds, genFlex(r, c, &x, &y)...)
			}
			g.Cmds = append(g.Cmds, genPath(r, c, &x, &y, n, style)...)
			if useMask && r.Chance(1, 4) {
				g.Cmds = append(g.Cmds, mask())
			}
		}
	}
	return g
}

func pickWidths(r *vlib.Rand, integer bool) (dflt, nom int64) {
	dflt = vlib.Pick(r, []int64{0, 500 * sc, 1000 * sc, int64(r.Range(0, 2000)) * sc})
	nom = vlib.Pick(r, []int64{0, 600 * sc, int64(r.Range(0, 2000)) * sc})
	if !integer && r.Chance(1, 3) {
		dflt += int64(r.Range(1, sc-1))
		nom += int64(r.Range(1, sc-1))
	}
	return
}

func addGlyph(run *vlib.Run, g *Glyph, dflt, nom int64, labels ...string) {
	code, impl := encodeGlyph(g, dflt, nom)
	fail, sig, excluded, more := judge(g, dflt, nom, code, impl)
	labels = append(labels, more...)
	cl := csLine(g, dflt, nom, code)
	if excluded {
		cl = "!" + cl
	}
	nl, nc, nm := 0, 0, 0
	for _, c := range g.Cmds {
		switch c.kind {
		case 'l':
			nl++
		case 'c':
			nc++
		case 'h', 'k':
			nm++
		}
	}
	if nl+nc > 24 {
		labels = append(labels, "long-run")
	}
	if nm > 0 {
		labels = append(labels, "masks")
	}
	labels = append(labels, fmt.Sprintf("stems:%d", (len(g.HS)+len(g.VS))/2/8*8))
	// which operators were emitted (read from the reference's operator histogram is not available here;
	// scan the code instead)
	for _, op := range scanOps(code) {
		labels = append(labels, "emitted:"+op)
	}
	idx := run.Add(cl, impl, nl+nc >= 2 || len(g.HS)+len(g.VS) > 0, labels...)
	if fail != "" {
		report(run, idx, cl, fail, sig)
	}
}

// report records an oracle failure; the known open finding is limited to a
// few witnesses so that it can never crowd other failures out of the
// (capped) list.
var reported = map[string]int{}

func report(run *vlib.Run, idx int, cl, fail, sig string) {
	if sig == sigBigDelta {
		reported[sig]++
		if reported[sig] > 25 {
			run.Hist["known-finding-not-listed:"+sig]++
			return
		}
	}
	run.Fail(idx, cl, fail, sig)
}

var opNames1 = map[byte]string{1: "hstem", 3: "vstem", 4: "vmoveto", 5: "rlineto", 6: "hlineto", 7: "vlineto",
	8: "rrcurveto", 14: "endchar", 18: "hstemhm", 19: "hintmask", 20: "cntrmask", 21: "rmoveto", 22: "hmoveto",
	23: "vstemhm", 24: "rcurveline", 25: "rlinecurve", 26: "vvcurveto", 27: "hhcurveto", 30: "vhcurveto", 31: "hvcurveto"}

// scanOps lists the distinct operators of a charstring without masks' data
// being misread (it stops at the first mask; good enough for labels).
func scanOps(code []byte) []string {
	seen := map[string]bool{}
	var out []string
	for i := 0; i < len(code); {
		b := code[i]
		switch {
		case b >= 32 && b <= 246:
			i++
		case b >= 247 && b <= 254:
			i += 2
		case b == 28:
			i += 3
		case b == 255:
			i += 5
		case b == 12:
			if i+1 < len(code) {
				n := map[byte]string{34: "hflex", 36: "hflex1"}[code[i+1]]
				if n != "" && !seen[n] {
					seen[n] = true
					out = append(out, n)
				}
			}
			i += 2
		default:
			n := opNames1[b]
			if n != "" && !seen[n] {
				seen[n] = true
				out = append(out, n)
			}
			if b == 19 || b == 20 {
				return out
			}
			i++
		}
	}
	return out
}

func numCase(run *vlib.Run, xs []int64, labels ...string) {
	impl := numObs(xs)
	fail, sig := numOracle(xs)
	cl := vlib.Line(vlib.Atom("num"), vlib.Ints(xs))
	excluded := false
	for _, x := range xs {
		if !inRange(x) {
			excluded = true
		}
	}
	if excluded {
		cl = "!" + cl
	}
	idx := run.Add(cl, impl, true, labels...)
	if fail != "" {
		report(run, idx, cl, fail, sig)
	}
}

// Gen writes the run for the given tier.
func Gen(run *vlib.Run, seed uint64, tier string) {
	run.Rule = "glyph description on the 16.16 grid compiled by encodeCharString (or operand lists / command runs for encodeNumber, encodeArgs, AppendEdges); non-trivial = at least two drawing commands or stems; distinct by case line"
	r := vlib.NewRand(seed)
	grid := &gcfg{frac: 25}
	wide := &gcfg{frac: 10, wide: true}

	// (1) encodeNumber: every integer of the int16 range, boundaries of the
	// 16.16 range, random grid values
	for base := -32768; base < 32768; base += 512 {
		xs := make([]int64, 512)
		for i := range xs {
			xs[i] = int64(base+i) * sc
		}
		numCase(run, xs, "stream:number-int16-exhaustive")
	}
	numCase(run, []int64{fixMin, fixMin + 1, fixMax, fixMax - 1, 1, -1, 32768, -32768, 32767, 65535, 65537, -65535,
		107*sc + 1, 108*sc - 1, -107*sc - 1, 1131*sc + 1, -1131*sc - 1, 32767*sc + 1, -32767*sc - 1, 32767*sc + 65535},
		"stream:number-boundaries")
	for i := vlib.Count(tier, 40, 2000); i > 0; i-- {
		xs := make([]int64, 64)
		for j := range xs {
			xs[j] = int64(int32(r.Uint64()))
			if j%4 == 0 {
				xs[j] = int64(r.Range(-2000*sc, 2000*sc))
			}
		}
		numCase(run, xs, "stream:number-random")
	}
	// outside [-32768, 32768): reported as an open finding
	numCase(run, []int64{fixMax + 1}, "stream:number-out-of-range")
	numCase(run, []int64{fixMin - 1}, "stream:number-out-of-range")
	numCase(run, []int64{40000 * sc}, "stream:number-out-of-range")
	numCase(run, []int64{-64000 * sc}, "stream:number-out-of-range")
	numCase(run, []int64{32768*sc + 32768}, "stream:number-out-of-range")

	// (2) encodeArgs and AppendEdges on runs of drawing commands
	ne := vlib.Count(tier, 4000, 100000)
	for i := 0; i < ne; i++ {
		c := grid
		var x, y int64 = int64(r.Range(-500, 500)) * sc, int64(r.Range(-500, 500)) * sc
		if i%3 == 0 {
			x += int64(r.Range(0, sc-1))
		}
		x0, y0 := x, y
		n := vlib.Pick(r, []int{1, 2, 3, 4, 5, 6, 9, 13, 24, 25, 26, 50})
		var cs []gcmd
		if r.Chance(1, 6) {
			cs = append(cs, genFlex(r, c, &x, &y)...)
		}
		st := i % 3
		if i%5 == 4 {
			st = vlib.Pick(r, []int{9, 10, 11, 14, 15})
		}
		cs = append(cs, genPath(r, c, &x, &y, n, st)...)
		cl := vlib.Line(vlib.Atom("edges"), vlib.I64(x0), vlib.I64(y0), cmdsSx(cs))
		impl := edgesObs(x0, y0, cs)
		idx := run.Add(cl, impl, len(cs) >= 2, "stream:edges", fmt.Sprintf("runlen:%d", len(cs)/8*8))
		if impl == "panic" {
			run.Fail(idx, cl, "AppendEdges panics", "c04-panic")
		} else if fail, sig := edgesOracle(x0, y0, cs); fail != "" {
			run.Fail(idx, cl, fail, sig)
		}
		if i%4 == 0 {
			// the same run with masks and moves mixed in, for encodeArgs
			all := append([]gcmd{{kind: 'm', a: []int64{x0 + 5*sc, y0}}, {kind: 'h', mask: r.Bytes(2)}}, cs...)
			all = append(all, gcmd{kind: 'k', mask: r.Bytes(1)})
			cl := vlib.Line(vlib.Atom("args"), vlib.I64(x0), vlib.I64(y0), cmdsSx(all))
			run.Add(cl, argsObs(x0, y0, all), true, "stream:args")
		}
	}

	// (3) whole glyphs through encodeCharString
	ng := vlib.Count(tier, 6000, 150000)
	for i := 0; i < ng; i++ {
		c := grid
		if i%5 == 4 {
			c = wide
		}
		g := genGlyph(r, c)
		dflt, nom := pickWidths(r, false)
		switch r.Intn(4) {
		case 0:
			g.W = dflt
		case 1:
			g.W = nom + vlib.Pick(r, []int64{0, 107 * sc, -107 * sc, 108 * sc, -1132 * sc, 32767 * sc, -32768 * sc, sc / 2})
		default:
			g.W = int64(r.Range(0, 2000)) * sc
			if r.Chance(1, 4) {
				g.W += int64(r.Range(1, sc-1))
			}
		}
		lab := "stream:glyphs"
		if c.wide {
			lab = "stream:glyphs-wide-coordinates"
		}
		addGlyph(run, g, dflt, nom, lab)
	}

	// (3b) deltas of magnitude >= 32768 between points inside [-32000, 32000]
	// (reported as an open finding; kept small so that it cannot crowd out other failures)
	hugec := &gcfg{frac: 5, wide: true, huge: true}
	for i := vlib.Count(tier, 25, 60); i > 0; i-- {
		g := genGlyph(r, hugec)
		dflt, nom := pickWidths(r, true)
		g.W = dflt
		addGlyph(run, g, dflt, nom, "stream:glyphs-deltas-up-to-64000")
	}

	// (4) end to end through Font.Write and cff.Read (oracle only)
	nf := vlib.Count(tier, 100, 2500)
	for i := 0; i < nf; i++ {
		k := r.Range(1, 6)
		var gs []*Glyph
		for j := 0; j < k; j++ {
			g := genGlyph(r, grid)
			g.W = vlib.Pick(r, []int64{500 * sc, 600 * sc, 500*sc + 32768, int64(r.Range(0, 1500)) * sc, int64(r.Range(0, 1500*sc))})
			gs = append(gs, g)
		}
		fail := fontRoundTrip(gs)
		var sb []vlib.Sx
		for _, g := range gs {
			sb = append(sb, vlib.L(vlib.I64(g.W), vlib.Ints(g.HS), vlib.Ints(g.VS), cmdsSx(g.Cmds)))
		}
		cl := "!" + vlib.Line(append([]vlib.Sx{vlib.Atom("font")}, sb...)...)
		idx := run.Add(cl, "font", true, "stream:font-write-read", fmt.Sprintf("glyphs:%d", k))
		if fail != "" {
			run.Fail(idx, cl, fail, "c04-font-roundtrip")
		}
	}

	// (5) coordinates finer than 2^-16 (outside the grid model): each decoded
	// coordinate within 2^-16 of the original, no accumulation (oracle only)
	no := vlib.Count(tier, 300, 8000)
	for i := 0; i < no; i++ {
		fail := offGridCase(r)
		idx := run.Add(fmt.Sprintf("!offgrid %d", i), "offgrid", true, "stream:off-grid")
		if fail != "" {
			run.Fail(idx, fmt.Sprintf("!offgrid seed=%d index=%d", seed, i), fail, "c04-offgrid-error-bound")
		}
	}
}

// offGridCase: a glyph with arbitrary float64 coordinates; decode(encode(G))
// must be within 2^-16 of G at every coordinate.
func offGridCase(r *vlib.Rand) (fail string) {
	defer func() {
		if e := recover(); e != nil {
			fail = fmt.Sprint("panic: ", e)
		}
	}()
	g := &cff.Glyph{Width: 500}
	n := r.Range(1, 60)
	x, y := 0.0, 0.0
	f := func() float64 { return float64(r.Range(-3000000, 3000000)) / 9973.0 }
	g.MoveTo(f(), f())
	for i := 0; i < n; i++ {
		x, y = f(), f()
		if r.Bool() {
			g.LineTo(x, y)
		} else {
			g.CurveTo(f(), f(), f(), f(), x, y)
		}
	}
	code, err := cff.VerifC04EncodeCharString(g, 500, 600)
	if err != nil {
		return "encode: " + err.Error()
	}
	dec, err := cff.VerifC05Decode(code, nil, nil, 500, 600)
	if err != nil {
		return "decode: " + err.Error()
	}
	if len(dec.Cmds) != len(g.Cmds) {
		return "command count differs"
	}
	const eps = 1.0/65536 + 1e-12
	for i, c := range g.Cmds {
		d := dec.Cmds[i]
		if d.Op != c.Op || len(d.Args) != len(c.Args) {
			return fmt.Sprintf("command %d differs", i)
		}
		for j := range c.Args {
			if diff := d.Args[j] - c.Args[j]; diff > eps || diff < -eps {
				return fmt.Sprintf("command %d coordinate %d: %v decoded as %v", i, j, c.Args[j], d.Args[j])
			}
		}
	}
	return ""
}
