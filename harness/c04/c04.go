// Package c04 checks cff's Type 2 charstring encoder: encodeNumber,
// encodeArgs and encoder.AppendEdges are compared with their Coq mirrors, and
// every emitted charstring is (a) validated by the extracted checker (it must
// be a path through the mirrored edges), (b) executed by the specification
// interpreter, and (c) judged by the property oracle: a reference Type 2
// interpreter and the library's own decoder must reproduce the glyph.
package c04

import (
	"bytes"
	"errors"
	"fmt"
	"math"
	"strings"

	"seehuhn.de/go/postscript/type1"
	"seehuhn.de/go/sfnt/cff"
	"seehuhn.de/go/sfnt/glyph"
	"seehuhn.de/go/sfnt/verifharness/c05"
	"seehuhn.de/go/sfnt/verifharness/vlib"
)

const (
	sc     = 65536
	fixMin = -2147483648
	fixMax = 2147483647
	clamp  = 32000 * sc

	sigBigDelta = "t2enc-delta-magnitude-ge-32768"
	sigOther    = "c04-roundtrip-mismatch"
)

type gcmd struct {
	kind byte // 'm' 'l' 'c' 'h' 'k'
	a    []int64
	mask []byte
}

// Glyph is a glyph description on the 16.16 grid (all values scaled by 65536).
type Glyph struct {
	W      int64
	HS, VS []int64
	Cmds   []gcmd
}

func cmdsSx(cs []gcmd) vlib.Sx {
	l := vlib.List{}
	for _, c := range cs {
		switch c.kind {
		case 'm', 'l', 'c':
			e := vlib.List{vlib.Atom(string(c.kind))}
			for _, x := range c.a {
				e = append(e, vlib.I64(x))
			}
			l = append(l, e)
		case 'h':
			l = append(l, vlib.L(vlib.Atom("hm"), vlib.Hex(c.mask)))
		case 'k':
			l = append(l, vlib.L(vlib.Atom("cm"), vlib.Hex(c.mask)))
		}
	}
	return l
}

func (g *Glyph) okString() string {
	return vlib.Str(vlib.L(vlib.Atom("ok"), vlib.I64(g.W), vlib.Ints(g.HS), vlib.Ints(g.VS), cmdsSx(g.Cmds)))
}

func toOps(cs []gcmd) []cff.GlyphOp {
	var out []cff.GlyphOp
	for _, c := range cs {
		var op cff.GlyphOp
		switch c.kind {
		case 'm':
			op.Op = cff.OpMoveTo
		case 'l':
			op.Op = cff.OpLineTo
		case 'c':
			op.Op = cff.OpCurveTo
		case 'h':
			op.Op = cff.OpHintMask
		case 'k':
			op.Op = cff.OpCntrMask
		}
		for _, x := range c.a {
			op.Args = append(op.Args, float64(x)/sc)
		}
		for _, b := range c.mask {
			op.Args = append(op.Args, float64(b))
		}
		out = append(out, op)
	}
	return out
}

func (g *Glyph) toCFF() *cff.Glyph {
	r := &cff.Glyph{Name: "g", Width: float64(g.W) / sc, Cmds: toOps(g.Cmds)}
	for _, x := range g.HS {
		r.HStem = append(r.HStem, float64(x)/sc)
	}
	for _, x := range g.VS {
		r.VStem = append(r.VStem, float64(x)/sc)
	}
	return r
}

func scaled(f float64) (int64, bool) {
	x := f * sc
	if math.IsNaN(x) || math.IsInf(x, 0) || math.Abs(x) > 1<<52 || x != math.Trunc(x) {
		return 0, false
	}
	return int64(x), true
}

// fromCFF renders a decoded glyph in the model's syntax.
func fromCFF(g *cff.Glyph) string {
	bad := false
	conv := func(f float64) int64 {
		v, ok := scaled(f)
		if !ok {
			bad = true
		}
		return v
	}
	r := &Glyph{W: conv(g.Width)}
	for _, x := range g.HStem {
		r.HS = append(r.HS, conv(x))
	}
	for _, x := range g.VStem {
		r.VS = append(r.VS, conv(x))
	}
	for _, c := range g.Cmds {
		var k byte
		switch c.Op {
		case cff.OpMoveTo:
			k = 'm'
		case cff.OpLineTo:
			k = 'l'
		case cff.OpCurveTo:
			k = 'c'
		case cff.OpHintMask:
			k = 'h'
		case cff.OpCntrMask:
			k = 'k'
		}
		gc := gcmd{kind: k}
		if k == 'h' || k == 'k' {
			for _, a := range c.Args {
				gc.mask = append(gc.mask, byte(a))
			}
		} else {
			for _, a := range c.Args {
				gc.a = append(gc.a, conv(a))
			}
		}
		r.Cmds = append(r.Cmds, gc)
	}
	if bad {
		return "(offgrid)"
	}
	return r.okString()
}

var emptyTab = &c05.Table{Special: map[int][]byte{}}

// maxDelta returns the largest magnitude of a delta between successive
// points (the operands the encoder has to emit), and of the stem deltas and
// the width operand.
func (g *Glyph) maxDelta(nom int64, dflt int64) (path int64, other int64) {
	var x, y int64
	upd := func(m *int64, d int64) {
		if d < 0 {
			d = -d
		}
		if d > *m {
			*m = d
		}
	}
	for _, c := range g.Cmds {
		switch c.kind {
		case 'm', 'l':
			upd(&path, c.a[0]-x)
			upd(&path, c.a[1]-y)
			x, y = c.a[0], c.a[1]
		case 'c':
			px, py := x, y
			for i := 0; i < 6; i += 2 {
				upd(&path, c.a[i]-px)
				upd(&path, c.a[i+1]-py)
				px, py = c.a[i], c.a[i+1]
			}
			x, y = px, py
		}
	}
	for _, st := range [][]int64{g.HS, g.VS} {
		// chunks restart at 0; a bound over all restarts: the edge itself and the difference
		var prev int64
		for _, e := range st {
			upd(&other, e-prev)
			upd(&other, e)
			prev = e
		}
	}
	if g.W != dflt {
		upd(&other, g.W-nom)
	}
	return
}

func inRange(v int64) bool { return v >= fixMin && v <= fixMax }

// encodeGlyph runs the implementation; observation in the model's syntax:
// (valid 1 <the library's own decoding of the emitted charstring>).
func encodeGlyph(g *Glyph, dflt, nom int64) (code []byte, impl string) {
	defer func() {
		if e := recover(); e != nil {
			code, impl = nil, "panic"
		}
	}()
	code, err := cff.VerifC04EncodeCharString(g.toCFF(), float64(dflt)/sc, float64(nom)/sc)
	if err != nil {
		return nil, "err"
	}
	dec, err := cff.VerifC05Decode(code, nil, nil, float64(dflt)/sc, float64(nom)/sc)
	if err != nil {
		return code, "(valid 1 err)"
	}
	return code, "(valid 1 " + fromCFF(dec) + ")"
}

func csLine(g *Glyph, dflt, nom int64, code []byte) string {
	return vlib.Line(vlib.Atom("cs"), vlib.I64(dflt), vlib.I64(nom), vlib.I64(g.W), vlib.Ints(g.HS), vlib.Ints(g.VS),
		cmdsSx(g.Cmds), vlib.Hex(code))
}

// judge is the property oracle for one glyph and the charstring emitted for it.
func judge(g *Glyph, dflt, nom int64, code []byte, impl string) (fail, sig string, excluded bool, labels []string) {
	pd, od := g.maxDelta(nom, dflt)
	if pd > fixMax || od > fixMax {
		excluded = true
		labels = append(labels, "class:delta>=32768")
	} else if pd > clamp {
		// the library's decoder clamps path deltas above 32000 (open finding of C05):
		// its read-back is not compared for this class
		excluded = true
		labels = append(labels, "class:delta>32000")
	}
	if impl == "panic" {
		return "encoder panics", "c04-panic", excluded, labels
	}
	if impl == "err" {
		return "encoder reports an error for a well-formed glyph", sigOther, excluded, labels
	}
	want := g.okString()
	ref := c05.Reference(code, emptyTab, emptyTab, dflt, nom, false)
	got := ref.String()
	if ref.MaxStack > 48 {
		return "emitted charstring needs more than 48 stack entries", sigOther, excluded, labels
	}
	if got != want {
		if pd > fixMax || od > fixMax {
			return "delta of magnitude >= 32768 emitted as a different number: specification reads " + clip(got) + ", glyph " + clip(want), sigBigDelta, true, labels
		}
		return "the emitted charstring does not describe the glyph: specification reads " + clip(got) + ", glyph " + clip(want), sigOther, excluded, labels
	}
	if !excluded && impl != "(valid 1 "+want+")" {
		return "the library's decoder does not reproduce the glyph: " + clip(impl) + ", glyph " + clip(want), sigOther, excluded, labels
	}
	return "", "", excluded, labels
}

func clip(s string) string {
	if len(s) > 300 {
		return s[:300] + "..."
	}
	return s
}

// ---- encodeNumber ----

func numObs(xs []int64) string {
	l := vlib.List{}
	for _, x := range xs {
		func() {
			defer func() {
				if e := recover(); e != nil {
					l = append(l, vlib.Atom("panic"))
				}
			}()
			e := cff.VerifC04EncodeNumber(float64(x) / sc)
			v, ok := scaled(e.Val)
			if !ok {
				l = append(l, vlib.Atom("offgrid"))
				return
			}
			l = append(l, vlib.L(vlib.I64(v), vlib.Hex(e.Code)))
		}()
	}
	return vlib.Str(l)
}

// decodeOne reads one operand according to TN5177 (independent of the library).
func decodeOne(b []byte) (int64, bool) {
	if len(b) == 0 {
		return 0, false
	}
	switch b0 := b[0]; {
	case b0 >= 32 && b0 <= 246 && len(b) == 1:
		return (int64(b0) - 139) * sc, true
	case b0 >= 247 && b0 <= 250 && len(b) == 2:
		return ((int64(b0)-247)*256 + int64(b[1]) + 108) * sc, true
	case b0 >= 251 && b0 <= 254 && len(b) == 2:
		return (-(int64(b0)-251)*256 - int64(b[1]) - 108) * sc, true
	case b0 == 28 && len(b) == 3:
		return int64(int16(uint16(b[1])<<8|uint16(b[2]))) * sc, true
	case b0 == 255 && len(b) == 5:
		return int64(int32(uint32(b[1])<<24 | uint32(b[2])<<16 | uint32(b[3])<<8 | uint32(b[4]))), true
	}
	return 0, false
}

func numOracle(xs []int64) (fail, sig string) {
	for _, x := range xs {
		e := cff.VerifC04EncodeNumber(float64(x) / sc)
		v, ok := decodeOne(e.Code)
		rv, ok2 := scaled(e.Val)
		if !ok || !ok2 || v != x || rv != x {
			if !inRange(x) {
				return fmt.Sprintf("encodeNumber(%d/65536): code % x decodes to %d/65536, reported value %v", x, e.Code, v, e.Val), sigBigDelta
			}
			return fmt.Sprintf("encodeNumber(%d/65536): code % x decodes to %d/65536, reported value %v", x, e.Code, v, e.Val), sigOther
		}
	}
	return "", ""
}

// ---- encodeArgs / AppendEdges ----

func argsObs(x0, y0 int64, cs []gcmd) (out string) {
	defer func() {
		if e := recover(); e != nil {
			out = "panic"
		}
	}()
	all := append([]gcmd{{kind: 'm', a: []int64{x0, y0}}}, cs...)
	res := cff.VerifC04EncodeArgs(toOps(all))[1:]
	l := vlib.List{}
	for i, c := range res {
		if cs[i].kind == 'h' || cs[i].kind == 'k' {
			l = append(l, vlib.L(vlib.Atom("mask"), vlib.Hex(c[0].Code)))
			continue
		}
		e := vlib.List{}
		for _, a := range c {
			v, ok := scaled(a.Val)
			if !ok {
				return "(offgrid)"
			}
			e = append(e, vlib.L(vlib.I64(v), vlib.Hex(a.Code)))
		}
		l = append(l, e)
	}
	return vlib.Str(l)
}

func edgesObs(x0, y0 int64, cs []gcmd) (out string) {
	defer func() {
		if e := recover(); e != nil {
			out = "panic"
		}
	}()
	res := cff.VerifC04Edges(float64(x0)/sc, float64(y0)/sc, toOps(cs))
	l := vlib.List{}
	for _, es := range res {
		el := vlib.List{}
		for _, e := range es {
			cl := vlib.List{}
			for _, b := range e.Code {
				cl = append(cl, vlib.Hex(b))
			}
			el = append(el, vlib.L(cl, vlib.Int(e.To)))
		}
		l = append(l, el)
	}
	return vlib.Str(l)
}

// edgesOracle: every edge, decoded on its own by the reference interpreter
// from the edge's start point, must draw exactly the commands it skips.
func edgesOracle(x0, y0 int64, cs []gcmd) (fail, sig string) {
	res := cff.VerifC04Edges(float64(x0)/sc, float64(y0)/sc, toOps(cs))
	for from, es := range res {
		if len(es) == 0 {
			return fmt.Sprintf("no edge leaves command %d", from), "c04-no-progress"
		}
		sx, sy := x0, y0
		if from > 0 {
			p := cs[from-1]
			sx, sy = p.a[len(p.a)-2], p.a[len(p.a)-1]
		}
		for _, e := range es {
			if e.To <= from || e.To > len(cs) {
				return fmt.Sprintf("edge from %d leads to %d", from, e.To), sigOther
			}
			// sx sy rmoveto <edge> endchar
			var code []byte
			code = append(code, 255, byte(uint32(int32(sx))>>24), byte(uint32(int32(sx))>>16), byte(uint32(int32(sx))>>8), byte(uint32(int32(sx))))
			code = append(code, 255, byte(uint32(int32(sy))>>24), byte(uint32(int32(sy))>>16), byte(uint32(int32(sy))>>8), byte(uint32(int32(sy))))
			code = append(code, 21)
			for _, b := range e.Code {
				code = append(code, b...)
			}
			code = append(code, 14)
			want := (&Glyph{Cmds: append([]gcmd{{kind: 'm', a: []int64{sx, sy}}}, cs[from:e.To]...)}).okString()
			ref := c05.Reference(code, emptyTab, emptyTab, 0, 0, false)
			if ref.String() != want || ref.MaxStack > 48 {
				return fmt.Sprintf("edge %d->%d (% x) reads %s, commands %s", from, e.To, bytes.Join(e.Code, nil), clip(ref.String()), clip(want)), sigOther
			}
		}
	}
	return "", ""
}

// ---- parsing of case lines (corpus, replay) ----

func parseCmds(x vlib.Sx) ([]gcmd, error) {
	l, err := vlib.AsList(x)
	if err != nil {
		return nil, err
	}
	var out []gcmd
	for _, e := range l {
		el, err := vlib.AsList(e)
		if err != nil || len(el) < 2 {
			return nil, errors.New("bad command")
		}
		k, _ := vlib.AsAtom(el[0])
		switch k {
		case "m", "l", "c":
			want := 2
			if k == "c" {
				want = 6
			}
			if len(el) != want+1 {
				return nil, errors.New("bad arity")
			}
			c := gcmd{kind: k[0]}
			for _, a := range el[1:] {
				v, err := vlib.AsI64(a)
				if err != nil {
					return nil, err
				}
				c.a = append(c.a, v)
			}
			out = append(out, c)
		case "hm", "cm":
			b, err := vlib.AsBytes(el[1])
			if err != nil {
				return nil, err
			}
			kk := byte('h')
			if k == "cm" {
				kk = 'k'
			}
			out = append(out, gcmd{kind: kk, mask: b})
		default:
			return nil, errors.New("bad command kind")
		}
	}
	return out, nil
}

func parseI64s(x vlib.Sx) ([]int64, error) {
	l, err := vlib.AsList(x)
	if err != nil {
		return nil, err
	}
	out := make([]int64, len(l))
	for i, e := range l {
		if out[i], err = vlib.AsI64(e); err != nil {
			return nil, err
		}
	}
	return out, nil
}

// RunCase re-executes one case line.
func RunCase(line string) (impl, fail, sig string, err error) {
	line = strings.TrimPrefix(line, "!")
	items, err := vlib.Parse(line)
	if err != nil || len(items) == 0 {
		return "", "", "", errors.New("bad case")
	}
	kind, _ := vlib.AsAtom(items[0])
	switch kind {
	case "num":
		xs, err := parseI64s(items[1])
		if err != nil {
			return "", "", "", err
		}
		impl = numObs(xs)
		fail, sig = numOracle(xs)
		return impl, fail, sig, nil
	case "args", "edges":
		if len(items) != 4 {
			return "", "", "", errors.New("want 4 items")
		}
		x0, e1 := vlib.AsI64(items[1])
		y0, e2 := vlib.AsI64(items[2])
		cs, e3 := parseCmds(items[3])
		if e1 != nil || e2 != nil || e3 != nil {
			return "", "", "", errors.New("bad args/edges case")
		}
		if kind == "args" {
			return argsObs(x0, y0, cs), "", "", nil
		}
		impl = edgesObs(x0, y0, cs)
		if impl != "panic" {
			fail, sig = edgesOracle(x0, y0, cs)
		} else {
			fail, sig = "AppendEdges panics", "c04-panic"
		}
		return impl, fail, sig, nil
	case "cs":
		if len(items) != 8 {
			return "", "", "", errors.New("want 8 items")
		}
		dflt, e1 := vlib.AsI64(items[1])
		nom, e2 := vlib.AsI64(items[2])
		w, e3 := vlib.AsI64(items[3])
		hs, e4 := parseI64s(items[4])
		vs, e5 := parseI64s(items[5])
		cs, e6 := parseCmds(items[6])
		if e1 != nil || e2 != nil || e3 != nil || e4 != nil || e5 != nil || e6 != nil {
			return "", "", "", errors.New("bad cs case")
		}
		g := &Glyph{W: w, HS: hs, VS: vs, Cmds: cs}
		code, impl := encodeGlyph(g, dflt, nom)
		given, err := vlib.AsBytes(items[7])
		if err != nil {
			return "", "", "", err
		}
		if impl != "panic" && impl != "err" && !bytes.Equal(given, code) {
			// the implementation now emits something else than the recorded charstring:
			// the recorded one is judged by the model, the current one by the oracle
			impl = "(valid 1 emitted-code-changed)"
		}
		fail, sig, _, _ = judge(g, dflt, nom, code, impl)
		return impl, fail, sig, nil
	case "font":
		return "font", "", "", nil
	}
	return "", "", "", errors.New("unknown case kind")
}

// ---- end-to-end: Font.Write / cff.Read ----

// fontRoundTrip writes a font made of the given glyphs and reads it back; the
// glyphs must come back exactly (outline, stems, masks, width).
func fontRoundTrip(gs []*Glyph) (fail string) {
	defer func() {
		if e := recover(); e != nil {
			fail = fmt.Sprint("panic: ", e)
		}
	}()
	f := &cff.Font{
		FontInfo: &type1.FontInfo{FontName: "Test", FontMatrix: [6]float64{0.001, 0, 0, 0.001, 0, 0}},
		Outlines: &cff.Outlines{
			Private:  []*type1.PrivateDict{{BlueValues: nil, BlueScale: 0.039625, BlueShift: 7, BlueFuzz: 1}},
			FDSelect: func(glyph.ID) int { return 0 },
		},
	}
	for i, g := range gs {
		cg := g.toCFF()
		cg.Name = fmt.Sprintf("g%d", i)
		if i == 0 {
			cg.Name = ".notdef"
		}
		f.Glyphs = append(f.Glyphs, cg)
	}
	f.Encoding = cff.StandardEncoding(f.Glyphs)
	buf := &bytes.Buffer{}
	if err := f.Write(buf); err != nil {
		return "Write: " + err.Error()
	}
	out, err := cff.Read(bytes.NewReader(buf.Bytes()))
	if err != nil {
		return "Read: " + err.Error()
	}
	if len(out.Glyphs) != len(gs) {
		return "glyph count differs"
	}
	for i, g := range gs {
		got := fromCFF(out.Glyphs[i])
		if got != g.okString() {
			return fmt.Sprintf("glyph %d: read back %s, written %s", i, clip(got), clip(g.okString()))
		}
	}
	return ""
}
