package c08

import (
	"bytes"
	"errors"
	"fmt"
	"sort"

	"seehuhn.de/go/sfnt/glyph"
	"seehuhn.de/go/sfnt/opentype/classdef"
	"seehuhn.de/go/sfnt/opentype/coverage"
	"seehuhn.de/go/sfnt/opentype/gdef"
	"seehuhn.de/go/sfnt/verifharness/vlib"
)

// Oracle-only: "!gdef GC MAC MGS" with GC, MAC = nil | ((gid class len) ...)
// and MGS = nil | (((gid len) ...) ...): (*gdef.Table).Encode -> gdef.Read.

type gdefDesc struct {
	gc, mac     []pair // nil slice + has flag
	hasGC, hasM bool
	sets        [][]int
	hasSets     bool
}

func setRuns(gl []int) vlib.Sx {
	out := vlib.List{}
	for k := 0; k < len(gl); {
		j := k + 1
		for j < len(gl) && gl[j] == gl[k]+(j-k) {
			j++
		}
		out = append(out, vlib.L(vlib.Int(gl[k]), vlib.Int(j-k)))
		k = j
	}
	return out
}

func (d gdefDesc) line() string {
	cd := func(has bool, ps []pair) vlib.Sx {
		if !has {
			return vlib.Atom("nil")
		}
		return crunsSx(ps)
	}
	var sets vlib.Sx = vlib.Atom("nil")
	if d.hasSets {
		l := vlib.List{}
		for _, s := range d.sets {
			l = append(l, setRuns(s))
		}
		sets = l
	}
	return vlib.Line(vlib.Atom("gdef-enc"), cd(d.hasGC, d.gc), cd(d.hasM, d.mac), sets)
}

func (d gdefDesc) build() *gdef.Table {
	t := &gdef.Table{}
	if d.hasGC {
		t.GlyphClass = cdTable(d.gc)
	}
	if d.hasM {
		t.MarkAttachClass = cdTable(d.mac)
	}
	if d.hasSets {
		t.MarkGlyphSets = []coverage.Set{}
		for _, s := range d.sets {
			set := coverage.Set{}
			for _, g := range s {
				set[glyph.ID(g)] = true
			}
			t.MarkGlyphSets = append(t.MarkGlyphSets, set)
		}
	}
	return t
}

func sameClassdef(has bool, a, b classdef.Table) bool {
	if !has {
		return b == nil
	}
	if b == nil {
		return false
	}
	n := 0
	for g, c := range a {
		if c != 0 {
			n++
			if b[g] != c {
				return false
			}
		}
	}
	return n == len(b)
}

func gdefCase(d gdefDesc) (impl, fail string) {
	t := d.build()
	var enc []byte
	pp, msg := guard(func() { enc = t.Encode() })
	// sizes of the pieces as emitted
	refuse := false
	total := 12
	if d.hasSets {
		total = 14
	}
	if d.hasGC {
		var n int
		if p2, _ := guard(func() { n = len(t.GlyphClass.Append(nil)) }); p2 {
			refuse = true
		}
		total += n
	}
	if d.hasM {
		if total > 0xFFFF {
			refuse = true
		}
		var n int
		if p2, _ := guard(func() { n = len(t.MarkAttachClass.Append(nil)) }); p2 {
			refuse = true
		}
		total += n
	}
	if d.hasSets && total > 0xFFFF {
		refuse = true
	}
	if pp {
		if !refuse {
			return "panic", "Encode panics on a representable GDEF table: " + msg
		}
		return "panic", ""
	}
	okImpl := vlib.Str(vlib.L(vlib.Atom("ok"), vlib.Hex(enc)))
	impl, fail = gdefOracle(d, t, enc)
	return okImpl, fail
}

func gdefObs(t *gdef.Table) vlib.Sx {
	cd := func(c classdef.Table) vlib.Sx {
		if c == nil {
			return vlib.Atom("nil")
		}
		return crunsSx(cdPairs(c))
	}
	var sets vlib.Sx = vlib.Atom("nil")
	if t.MarkGlyphSets != nil {
		l := vlib.List{}
		for _, s := range t.MarkGlyphSets {
			gl := make([]int, 0, len(s))
			for g := range s {
				gl = append(gl, int(g))
			}
			sort.Ints(gl)
			l = append(l, setRuns(gl))
		}
		sets = l
	}
	return vlib.L(vlib.Atom("ok"), cd(t.GlyphClass), cd(t.MarkAttachClass), sets)
}

func gdefRead(data []byte) (impl, fail string) {
	var back *gdef.Table
	var err error
	if pp, msg := guard(func() { back, err = gdef.Read(bytes.NewReader(data)) }); pp {
		return "panic", "gdef.Read panics: " + msg
	}
	if err != nil {
		return "err", ""
	}
	return vlib.Str(gdefObs(back)), ""
}

func gdefOracle(d gdefDesc, t *gdef.Table, enc []byte) (impl, fail string) {
	var back *gdef.Table
	var err error
	if p2, msg := guard(func() { back, err = gdef.Read(bytes.NewReader(enc)) }); p2 {
		return "ok", "gdef.Read panics on Encode's output: " + msg
	}
	if err != nil {
		return "ok", "gdef.Read rejects Encode's output: " + err.Error()
	}
	if !sameClassdef(d.hasGC, t.GlyphClass, back.GlyphClass) {
		return "ok", "GlyphClass changes in a round trip"
	}
	if !sameClassdef(d.hasM, t.MarkAttachClass, back.MarkAttachClass) {
		return "ok", "MarkAttachClass changes in a round trip"
	}
	if d.hasSets != (back.MarkGlyphSets != nil) || len(back.MarkGlyphSets) != len(d.sets) {
		return "ok", "MarkGlyphSets changes in a round trip"
	}
	for i, s := range d.sets {
		bs := back.MarkGlyphSets[i]
		if len(bs) != len(s) {
			return "ok", fmt.Sprintf("mark glyph set %d changes in a round trip", i)
		}
		for _, g := range s {
			if !bs[glyph.ID(g)] {
				return "ok", fmt.Sprintf("mark glyph set %d changes in a round trip", i)
			}
		}
	}
	return "ok", ""
}

func genGdef(r *vlib.Rand, big bool) gdefDesc {
	var d gdefDesc
	maxG := vlib.Pick(r, []int{3, 20, 200})
	if r.Chance(3, 4) {
		d.hasGC = true
		d.gc = classTable(r, glyphSet(r, maxG))
		for i := range d.gc {
			d.gc[i].i = 1 + d.gc[i].i%4
		}
		if big { // a glyph class table of more than 64 KiB: alternating classes
			d.gc = nil
			for g := 0; g < 40000; g++ {
				d.gc = append(d.gc, pair{g, 1 + g%2*2})
			}
		}
	}
	if r.Chance(1, 2) || big {
		d.hasM = true
		d.mac = classTable(r, glyphSet(r, maxG))
	}
	if r.Chance(1, 2) || big {
		d.hasSets = true
		for k := r.Intn(4); k > 0; k-- {
			var s []int
			for _, g := range glyphSet(r, maxG) {
				s = append(s, int(g))
			}
			sort.Ints(s)
			d.sets = append(d.sets, s)
		}
	}
	return d
}

func gdefDescOf(items []vlib.Sx) (gdefDesc, error) {
	var d gdefDesc
	if len(items) != 4 {
		return d, errors.New("gdef: want 3 arguments")
	}
	cd := func(x vlib.Sx) (bool, []pair, error) {
		if a, ok := x.(vlib.Atom); ok && a == "nil" {
			return false, nil, nil
		}
		l, err := vlib.AsList(x)
		if err != nil {
			return false, nil, err
		}
		var ps []pair
		for _, y := range l {
			v, err := vlib.AsInts(y)
			if err != nil || len(v) != 3 {
				return false, nil, errors.New("bad class run")
			}
			for k := 0; k < v[2]; k++ {
				ps = append(ps, pair{v[0] + k, v[1]})
			}
		}
		return true, ps, nil
	}
	var err error
	if d.hasGC, d.gc, err = cd(items[1]); err != nil {
		return d, err
	}
	if d.hasM, d.mac, err = cd(items[2]); err != nil {
		return d, err
	}
	if a, ok := items[3].(vlib.Atom); ok && a == "nil" {
		return d, nil
	}
	d.hasSets = true
	l, err := vlib.AsList(items[3])
	if err != nil {
		return d, err
	}
	for _, y := range l {
		rs, err := vlib.AsList(y)
		if err != nil {
			return d, err
		}
		s := []int{}
		for _, rr := range rs {
			v, err := vlib.AsInts(rr)
			if err != nil || len(v) != 2 {
				return d, errors.New("bad set run")
			}
			for k := 0; k < v[1]; k++ {
				s = append(s, v[0]+k)
			}
		}
		d.sets = append(d.sets, s)
	}
	return d, nil
}

func genGdefs(run *vlib.Run, r *vlib.Rand, tier string) {
	var encs [][]byte
	add := func(d gdefDesc, lb ...string) {
		line := d.line()
		impl, fail := gdefCase(d)
		idx := run.Add(line, impl, d.hasGC, append([]string{"gdef-enc", "gdef-enc:" + impl[:min(len(impl), 3)]}, lb...)...)
		if fail != "" {
			run.Fail(idx, line, fail, "c08-gdef")
		}
		if len(impl) > 6 && len(impl) < 900 && impl[:4] == "(ok " {
			var enc []byte
			t := d.build()
			guard(func() { enc = t.Encode() })
			encs = append(encs, enc)
		}
	}
	defer func() {
		for k := 0; k < vlib.Count(tier, 400, 8000) && len(encs) > 0; k++ {
			e := vlib.Pick(r, encs)
			data := e
			lb := "gdef-read:valid"
			if r.Chance(3, 4) {
				data, lb = mutate(r, e)
			}
			if r.Chance(1, 10) && len(data) >= 4 { // other versions
				data = append([]byte(nil), data...)
				data[3] = byte(vlib.Pick(r, []int{0, 1, 2, 3, 4}))
			}
			line := vlib.Line(vlib.Atom("gdef-read"), vlib.Hex(data))
			impl, fail := gdefRead(data)
			idx := run.Add(line, impl, len(data) >= 12, "gdef-read", lb, "gdef-read:"+impl[:min(len(impl), 3)])
			if fail != "" {
				run.Fail(idx, line, fail, "c08-gdef")
			}
		}
	}()
	// the same content behind the header of another GDEF version (the
	// library writes 1.0 or 1.2; other tools write 1.3 with an item variation
	// store offset behind the mark glyph sets offset): the table read from the
	// repacked bytes must equal the table read from the library's own bytes
	defer func() {
		n := 0
		for _, e := range encs {
			if n >= vlib.Count(tier, 60, 600) {
				break
			}
			if len(e) < 14 || e[3] != 2 {
				continue
			}
			for _, store := range []bool{false, true} {
				data := gdefRepack13(e, store)
				line := vlib.Line(vlib.Atom("gdef-read"), vlib.Hex(data))
				impl, fail := gdefRead(data)
				want, _ := gdefRead(e)
				if fail == "" && impl != want {
					fail = "a GDEF 1.3 table reads as " + impl + ", the same content behind a 1.2 header as " + want
				}
				idx := run.Add(line, impl, true, "gdef-read", "gdef-read:version-1.3")
				if fail != "" {
					run.Fail(idx, line, fail, "c08-gdef")
				}
				n++
			}
		}
	}()
	add(gdefDesc{})
	add(gdefDesc{hasGC: true})
	add(gdefDesc{hasSets: true})
	for k := 0; k < vlib.Count(tier, 200, 4000); k++ {
		add(genGdef(r, false))
	}
	for k := 0; k < vlib.Count(tier, 3, 30); k++ {
		add(genGdef(r, true), "gdef:glyphclass>64KiB")
	}
	// the same with every combination of the tables behind the glyph classes
	// present or absent (each header offset has its own 16-bit guard), and
	// with a glyph class table just below the limit and a large mark
	// attachment class table pushing only the last offset over it
	for k := 0; k < 4; k++ {
		d := genGdef(r, true)
		d.hasM, d.hasSets = k&1 != 0, k&2 != 0
		if !d.hasM {
			d.mac = nil
		}
		if !d.hasSets {
			d.sets = nil
		}
		add(d, "gdef:glyphclass>64KiB", fmt.Sprintf("gdef:big-m%v-s%v", d.hasM, d.hasSets))
	}
	{
		d := genGdef(r, true)
		d.gc = d.gc[:20000] // about 40 KB
		d.hasM, d.mac = true, nil
		for g := 0; g < 20000; g++ {
			d.mac = append(d.mac, pair{g, 1 + g%2})
		}
		add(d, "gdef:markattach-pushes-sets>64KiB")
	}
}


// gdefRepack13 turns a version 1.2 GDEF table (14-byte header) into a version
// 1.3 table: itemVarStoreOffset (Offset32) is inserted behind
// markGlyphSetsDefOffset, every other non-null header offset moves by 4;
// withStore appends a minimal empty ItemVariationStore and points at it.
func gdefRepack13(e []byte, withStore bool) []byte {
	d := append([]byte(nil), e[:14]...)
	d[3] = 3
	for p := 4; p < 14; p += 2 {
		if o := int(d[p])<<8 | int(d[p+1]); o != 0 {
			o += 4
			d[p], d[p+1] = byte(o>>8), byte(o)
		}
	}
	body := e[14:]
	storeAt := 0
	if withStore {
		storeAt = 18 + len(body)
	}
	d = append(d, byte(storeAt>>24), byte(storeAt>>16), byte(storeAt>>8), byte(storeAt))
	d = append(d, body...)
	if withStore {
		d = append(d, 0, 1, 0, 0, 0, 8, 0, 0, 0, 0, 0, 0) // format 1, region list at 8, no data; empty region list
	}
	return d
}
