package c08

import (
	"errors"
	"fmt"

	"seehuhn.de/go/postscript/funit"
	"seehuhn.de/go/sfnt/opentype/anchor"
	"seehuhn.de/go/sfnt/opentype/gtab"
	"seehuhn.de/go/sfnt/opentype/markarray"
	"seehuhn.de/go/sfnt/verifharness/vlib"
)

// Oracle only: "!sub-enc (gpos41 MARKCOV BASECOV ((class x y) ...) (((x y) ...) ...))"
// Gpos4_1 (mark-to-base attachment) with anchors and the mark array.

type g4Desc struct {
	markCov, baseCov []pair
	marks            [][3]int   // class, x, y
	base             [][][2]int // per base glyph, per mark class: anchor (0,0 = none)
}

func (d g4Desc) sx() vlib.Sx {
	ms := vlib.List{}
	for _, m := range d.marks {
		ms = append(ms, vlib.L(vlib.Int(m[0]), vlib.Int(m[1]), vlib.Int(m[2])))
	}
	bs := vlib.List{}
	for _, row := range d.base {
		r := vlib.List{}
		for _, a := range row {
			r = append(r, vlib.L(vlib.Int(a[0]), vlib.Int(a[1])))
		}
		bs = append(bs, r)
	}
	return vlib.L(vlib.Atom("gpos41"), runsSx(d.markCov), runsSx(d.baseCov), ms, bs)
}

func (d g4Desc) build() *gtab.Gpos4_1 {
	s := &gtab.Gpos4_1{MarkCov: tableOf(d.markCov), BaseCov: tableOf(d.baseCov)}
	s.MarkArray = make([]markarray.Record, len(d.marks))
	for i, m := range d.marks {
		s.MarkArray[i] = markarray.Record{Class: uint16(m[0]), Table: anchor.Table{X: funit.Int16(m[1]), Y: funit.Int16(m[2])}}
	}
	s.BaseArray = make([][]anchor.Table, len(d.base))
	for i, row := range d.base {
		s.BaseArray[i] = make([]anchor.Table, len(row))
		for j, a := range row {
			s.BaseArray[i][j] = anchor.Table{X: funit.Int16(a[0]), Y: funit.Int16(a[1])}
		}
	}
	return s
}

func g4Describe(s *gtab.Gpos4_1) g4Desc {
	d := g4Desc{markCov: covPairs(s.MarkCov), baseCov: covPairs(s.BaseCov)}
	for _, m := range s.MarkArray {
		d.marks = append(d.marks, [3]int{int(m.Class), int(m.X), int(m.Y)})
	}
	for _, row := range s.BaseArray {
		r := [][2]int{}
		for _, a := range row {
			r = append(r, [2]int{int(a.X), int(a.Y)})
		}
		d.base = append(d.base, r)
	}
	return d
}

func g4Case(d g4Desc) (impl, fail string) {
	s := d.build()
	var enc []byte
	var n int
	p1, msg := guard(func() { enc = gtab.VerifC08Encode(s) })
	p2, _ := guard(func() { n = gtab.VerifC08EncodeLen(s) })
	if p2 {
		return "panic-len", "encodeLen panics"
	}
	// refusal is legitimate iff some 16-bit offset cannot hold (n = the real size)
	nc := 0
	if len(d.base) > 0 {
		nc = len(d.base[0])
	}
	anchors := 0
	for _, row := range d.base {
		for _, a := range row {
			if a != [2]int{0, 0} {
				anchors++
			}
		}
	}
	baseArr := 2 + 2*len(d.base)*nc + 6*anchors
	markArr := 2 + 10*len(d.marks)
	refuse := n-baseArr > 0xFFFF || (len(d.marks) > 0 && markArr-6 > 0xFFFF) ||
		(anchors > 0 && baseArr-6 > 0xFFFF) || len(d.base)*nc > (65536-6-2)/2
	if p1 {
		if !refuse {
			return "panic", "encode panics on a representable GPOS 4.1 subtable: " + msg
		}
		return "panic", ""
	}
	if n != len(enc) {
		return "ok", fmt.Sprintf("encodeLen = %d but encode wrote %d bytes", n, len(enc))
	}
	if refuse {
		return "ok", "a GPOS 4.1 subtable with an offset beyond 16 bits was written instead of refused"
	}
	var back gtab.Subtable
	var err error
	if pp, m2 := guard(func() { back, err = gtab.VerifC08ReadSubtable(enc, 0, gtab.TypeGpos, 4) }); pp {
		return "ok", "the reader panics on encode's output: " + m2
	}
	if err != nil {
		return "ok", "the reader rejects encode's output: " + err.Error()
	}
	b4, ok := back.(*gtab.Gpos4_1)
	if !ok || vlib.Str(g4Describe(b4).sx()) != vlib.Str(d.sx()) {
		return "ok", "round trip changes the GPOS 4.1 subtable"
	}
	return "ok", ""
}

func g4DescOf(x vlib.Sx) (g4Desc, error) {
	var d g4Desc
	f, err := vlib.AsList(x)
	if err != nil || len(f) != 5 {
		return d, errors.New("bad gpos41")
	}
	if k, _ := vlib.AsAtom(f[0]); k != "gpos41" {
		return d, errors.New("not gpos41")
	}
	if d.markCov, err = covRunsOf(f[1]); err != nil {
		return d, err
	}
	if d.baseCov, err = covRunsOf(f[2]); err != nil {
		return d, err
	}
	ms, e1 := vlib.AsList(f[3])
	bs, e2 := vlib.AsList(f[4])
	if e1 != nil || e2 != nil {
		return d, errors.New("bad gpos41 arrays")
	}
	for _, m := range ms {
		v, err := vlib.AsInts(m)
		if err != nil || len(v) != 3 {
			return d, errors.New("bad mark record")
		}
		d.marks = append(d.marks, [3]int{v[0], v[1], v[2]})
	}
	for _, b := range bs {
		row, err := vlib.AsList(b)
		if err != nil {
			return d, err
		}
		r := [][2]int{}
		for _, a := range row {
			v, err := vlib.AsInts(a)
			if err != nil || len(v) != 2 {
				return d, errors.New("bad anchor")
			}
			r = append(r, [2]int{v[0], v[1]})
		}
		d.base = append(d.base, r)
	}
	return d, nil
}

func genG4(r *vlib.Rand, nm, nb, nc int) g4Desc {
	d := g4Desc{}
	for i := 0; i < nm; i++ {
		d.markCov = append(d.markCov, pair{i * 2, i})
		d.marks = append(d.marks, [3]int{r.Intn(nc), r.Intn(2001) - 1000, vlib.Pick(r, []int{0, -32768, 32767, r.Intn(500)})})
	}
	for i := 0; i < nb; i++ {
		d.baseCov = append(d.baseCov, pair{30000 + i, i})
		row := make([][2]int, nc)
		for j := range row {
			if r.Chance(3, 4) {
				row[j] = [2]int{r.Intn(2001) - 1000, r.Intn(2001) - 1000}
			}
		}
		d.base = append(d.base, row)
	}
	return d
}

func genGpos4(run *vlib.Run, r *vlib.Rand, tier string) {
	add := func(d g4Desc, lb ...string) {
		line := "!" + vlib.Line(vlib.Atom("sub-enc"), d.sx())
		impl, fail := g4Case(d)
		idx := run.Add(line, impl, true, append([]string{"sub-enc(oracle only)", "sub-enc:gpos41", "gpos41:" + impl}, lb...)...)
		if fail != "" {
			run.Fail(idx, line, fail, "c08-subtable-gpos41")
		}
	}
	for k := 0; k < vlib.Count(tier, 150, 3000); k++ {
		add(genG4(r, 1+r.Intn(8), 1+r.Intn(8), 1+r.Intn(4)))
	}
	// the 16-bit limits: mark array anchors, base array anchors, header offsets
	add(genG4(r, 6553, 1, 1), "gpos41:marks=6553")
	add(genG4(r, 6500, 1, 1), "gpos41:marks=6500")
	add(genG4(r, 2, 3000, 3), "gpos41:bases=3000x3")
	add(genG4(r, 2, 2000, 3), "gpos41:bases=2000x3")
}
